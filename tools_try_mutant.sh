#!/bin/bash
# usage: tools_try_mutant.sh <diff> <prop> [<prop> ...]   -- apply a patch to /repo, run quick checks, undo
diff=$1; shift
cd /repo && git apply "$diff" || { echo "patch does not apply"; exit 3; }
cd /verif
for p in "$@"; do ./check $p --tier quick 2>&1 | tail -3; echo "exit=$?"; done
cd /repo && git checkout -- . && (cd /verif/harness && /venv/bin/python -W ignore regen.py > /dev/null) && git status --short | grep -v '^??' | head -3
