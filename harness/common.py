"""Shared machinery: seeded RNG, exact float transfer, driver client, evidence, verdicts.

Everything random derives from one PRNG state seeded by (VERIF_SEED, property id), so a
disagreement replays exactly.
"""
import hashlib
import json
import os
import struct
import subprocess
import sys
import time
import warnings

import numpy as np

VERIF = os.path.dirname(os.path.dirname(os.path.abspath(__file__)))
REPO = os.environ.get("UMAP_REPO", "/repo")
LEAN = os.path.join(VERIF, "lean")
DRV = os.path.join(LEAN, ".lake", "build", "bin", "umapdrv")

if REPO not in sys.path:
    sys.path.insert(0, REPO)


def env_seed():
    try:
        return int(os.environ.get("VERIF_SEED", "0"))
    except ValueError:
        return 0


def f2b(x):
    """float -> decimal string of its IEEE-754 double bit pattern."""
    return str(struct.unpack("<Q", struct.pack("<d", float(x)))[0])


def b2f(s):
    return struct.unpack("<d", struct.pack("<Q", int(s)))[0]


def dist_tok(x):
    x = float(x)
    if np.isinf(x) and x > 0:
        return "inf"
    return f2b(x)


def ext_parse(t):
    if t == "inf":
        return float("inf")
    if t == "nan":
        return float("nan")
    return b2f(t)


class Driver:
    """Batch client for the compiled Lean model driver (`umapdrv`)."""

    def __init__(self):
        self.lines = []

    def add(self, *tokens):
        self.lines.append(" ".join(str(t) for t in tokens))
        return len(self.lines) - 1

    def run(self):
        if not self.lines:
            return []
        data = ("\n".join(self.lines) + "\n").encode()
        if os.path.exists(DRV):
            cmd = [DRV]
        else:  # fallback: interpret the driver
            cmd = ["lake", "env", "lean", "--run", "Driver.lean"]
        p = subprocess.run(cmd, input=data, stdout=subprocess.PIPE, stderr=subprocess.PIPE, cwd=LEAN)
        if p.returncode != 0:
            raise InfraError("driver failed: " + p.stderr.decode()[-2000:])
        out = p.stdout.decode().split("\n")
        if out and out[-1] == "":
            out.pop()
        if len(out) != len(self.lines):
            raise InfraError(f"driver answered {len(out)} lines for {len(self.lines)} ops")
        self.lines = []
        return out


def parse_coo(line):
    """driver COO answer -> dict {(i, j): value} ; 'nan' -> None"""
    if line == "nan":
        return None
    t = line.split()
    n = int(t[0])
    d = {}
    for k in range(n):
        i, j, v = int(t[1 + 3 * k]), int(t[2 + 3 * k]), b2f(t[3 + 3 * k])
        d[(i, j)] = d.get((i, j), 0.0) + v
    return d


def coo_tokens(m):
    """scipy sparse / dict -> tokens `n i j bits ...` (duplicates kept as stored)."""
    if isinstance(m, dict):
        items = [(i, j, v) for (i, j), v in m.items()]
    else:
        c = m.tocoo()
        items = list(zip(c.row.tolist(), c.col.tolist(), c.data.tolist()))
    toks = [str(len(items))]
    for i, j, v in items:
        toks += [str(int(i)), str(int(j)), f2b(v)]
    return toks


def sparse_to_dict(m):
    c = m.tocoo()
    d = {}
    for i, j, v in zip(c.row.tolist(), c.col.tolist(), c.data.tolist()):
        d[(i, j)] = d.get((i, j), 0.0) + float(v)
    return d


class InfraError(Exception):
    pass


def sha(*arrays):
    h = hashlib.sha256()
    for a in arrays:
        a = np.ascontiguousarray(a)
        h.update(str(a.dtype).encode())
        h.update(str(a.shape).encode())
        h.update(a.tobytes())
    return h.hexdigest()


def jsonable(x):
    if isinstance(x, dict):
        return {str(k): jsonable(v) for k, v in x.items()}
    if isinstance(x, (list, tuple)):
        return [jsonable(v) for v in x]
    if isinstance(x, np.ndarray):
        return jsonable(x.tolist())
    if isinstance(x, (np.integer,)):
        return int(x)
    if isinstance(x, (np.floating, float)):
        x = float(x)
        if np.isnan(x):
            return "nan"
        if np.isinf(x):
            return "inf" if x > 0 else "-inf"
        return x
    if isinstance(x, (np.bool_,)):
        return bool(x)
    if isinstance(x, bytes):
        return x.hex()
    return x


def load_known_findings():
    p = os.path.join(VERIF, "KNOWN_FINDINGS.json")
    if not os.path.exists(p):
        return []
    with open(p) as f:
        return json.load(f).get("findings", [])


class Ctx:
    """State of one check run: counters, samples, mismatches, violations, evidence."""

    def __init__(self, prop, tier):
        self.prop = prop
        self.tier = tier
        self.seed = env_seed()
        ss = np.random.SeedSequence([self.seed, int(hashlib.sha256(prop.encode()).hexdigest()[:8], 16)])
        self.rng = np.random.default_rng(ss)
        self.t0 = time.time()
        self.evaluations = 0
        self.nontrivial = set()
        self.samples = []
        self.dist = {}  # measured input distribution
        self.skipped = {}
        self.mismatches = []  # correspondence disagreements (model vs implementation)
        self.violations = []  # property failures on the implementation (oracle)
        self.proof = {"obligations": 0, "discharged": 0, "broken": [], "theorems": [], "axioms": {}}
        self.assumptions = []
        self.notes = []
        self.known = [k for k in load_known_findings() if k.get("property") == prop]
        self.known_hit = set()
        self.rule = ""
        self.exhaustive = False
        self.thorough = tier == "thorough"

    # ---- counting ----
    def case(self, key=None, nontrivial=False, sample=None, **bins):
        self.evaluations += 1
        if nontrivial and key is not None:
            self.nontrivial.add(key if isinstance(key, (str, int, tuple)) else str(key))
        for k, v in bins.items():
            d = self.dist.setdefault(k, {})
            d[str(v)] = d.get(str(v), 0) + 1
        if sample is not None and len(self.samples) < 5:
            self.samples.append(jsonable(sample))

    def skip(self, why):
        self.skipped[why] = self.skipped.get(why, 0) + 1

    def bin(self, k, v):
        d = self.dist.setdefault(k, {})
        d[str(v)] = d.get(str(v), 0) + 1

    # ---- outcomes ----
    def mismatch(self, op, detail, case):
        """model and implementation disagree on `case` (not yet a violation)."""
        if len(self.mismatches) < 50:
            self.mismatches.append({"op": op, "detail": jsonable(detail), "case": jsonable(case)})
        else:
            self.mismatches.append(None)

    def violation(self, clause, what, case, key=None):
        """the property itself fails on the implementation for `case`."""
        key = key or f"{self.prop}:{clause}"
        for k in self.known:
            if k.get("status") == "open" and k.get("key") == key:
                self.known_hit.add(key)
                return
        if len(self.violations) < 50:
            self.violations.append({"clause": clause, "what": what, "key": key, "case": jsonable(case)})
        else:
            self.violations.append(None)

    # ---- finish ----
    def write_evidence(self, nviol):
        cov = {
            "obligations": self.proof["obligations"],
            "discharged": self.proof["discharged"],
            "checker_cmd": "cd lean && lake build UmapProps umapdrv srcdrv && lake env lean .lake/audit/%s.lean  (#print axioms per theorem; source grep for sorry/axiom/native_decide)" % self.prop,
            "trusted_base": [
                "Lean 4.33 kernel; Mathlib v4.33",
                "axioms allowed: propext, Classical.choice, Quot.sound (audited per theorem below)",
                "hand-written model lean/UmapModel/*.lean tied to /repo by this run's correspondence (harness/props/%s.py) and by Generated/*.lean regenerated from the live package" % self.prop,
                "Python harness, tolerances and generators; NumPy/SciPy/scikit-learn/numba primitives by contract",
            ] + (["kernel source text -> Lean translator (harness/translate.py): its output (Generated/*Src.lean) is proved equal to the "
                  "model by the *_src theorems listed below and is executed against the Python functions (.py_func) on every run (srcdrv)"]
                 if self.prop in ("C07", "C12", "C13", "C14") else []),
            "theorems": self.proof["theorems"],
            "axioms": self.proof["axioms"],
            "proof_broken": self.proof["broken"],
            "evaluations": self.evaluations,
            "distinct_nontrivial": len(self.nontrivial),
            "rule": self.rule,
            "samples": self.samples if self.samples else [{"note": "no sample recorded"}],
            "input_distribution": self.dist,
            "skipped": self.skipped,
            "correspondence_mismatches": len(self.mismatches),
            "exhaustive": self.exhaustive,
            "notes": self.notes,
            "known_findings_hit": sorted(self.known_hit),
        }
        if not self.proof["obligations"] or not self.proof["discharged"]:
            # no theorem registered (yet): fall back to the exploration-style keys only
            for k in ("obligations", "discharged"):
                cov.pop(k)
        ev = {
            "property_id": self.prop,
            "tier": self.tier,
            "seed": self.seed,
            "level": "proof",
            "coverage": cov,
            "assumptions": self.assumptions,
            "wall_s": round(time.time() - self.t0, 2),
            "violations": nviol,
        }
        os.makedirs(os.path.join(VERIF, "evidence"), exist_ok=True)
        with open(os.path.join(VERIF, "evidence", f"{self.prop}.json"), "w") as f:
            json.dump(ev, f, indent=1)

    def write_replay(self, payload):
        os.makedirs(os.path.join(VERIF, "replays"), exist_ok=True)
        n = 0
        while True:
            p = os.path.join(VERIF, "replays", f"{self.prop}-{self.seed}-{n}.json")
            if not os.path.exists(p):
                break
            n += 1
        with open(p, "w") as f:
            json.dump(jsonable(payload), f, indent=1)
        return os.path.relpath(p, VERIF)

    def finish(self):
        for k in self.known:
            if k.get("status") == "open" and k.get("key") in self.known_hit:
                print(f"KNOWN-FINDING: property={self.prop} {k.get('what')}")
        viol = [v for v in self.violations if v is not None]
        nviol = len(self.violations)
        broken = bool(self.proof["broken"]) or bool(self.mismatches)
        if nviol:
            v = viol[0]
            path = self.write_replay({"property": self.prop, "kind": "failing-input", "seed": self.seed,
                                      "tier": self.tier, "violation": v, "all": viol[:10],
                                      "proof_broken": self.proof["broken"],
                                      "correspondence_mismatches": [m for m in self.mismatches if m][:5]})
            self.write_evidence(nviol)
            print(f"{self.prop}: {nviol} violation(s); first: {v['clause']}: {v['what']}")
            print(f"VIOLATION property={self.prop} replay={path}")
            return 1
        if broken:
            path = self.write_replay({"property": self.prop, "kind": "no-failing-input-found", "seed": self.seed,
                                      "tier": self.tier,
                                      "proof_obligations_broken": self.proof["broken"],
                                      "correspondence_mismatches": [m for m in self.mismatches if m][:10],
                                      "note": "the theorem(s) or correspondence operation(s) named here no longer check; "
                                              "the search over the implementation found no input on which the property fails"})
            self.write_evidence(1)
            what = "proof obligation(s) " + ",".join(self.proof["broken"][:3]) if self.proof["broken"] else \
                "correspondence op " + str([m["op"] for m in self.mismatches if m][:3])
            print(f"{self.prop}: {what} no longer check(s); no failing input found")
            print(f"VIOLATION property={self.prop} replay={path} no-failing-input-found")
            return 1
        self.write_evidence(0)
        print(f"{self.prop}: held ({self.proof['discharged']}/{self.proof['obligations']} theorems, "
              f"{self.evaluations} cases, {len(self.nontrivial)} distinct non-trivial, "
              f"{round(time.time() - self.t0, 1)} s)")
        return 0


def quiet():
    warnings.filterwarnings("ignore")
    os.environ.setdefault("PYTHONWARNINGS", "ignore")


def close(a, b, rtol=0.0, atol=0.0):
    a = float(a)
    b = float(b)
    if np.isnan(a) or np.isnan(b):
        return np.isnan(a) and np.isnan(b)
    if np.isinf(a) or np.isinf(b):
        return a == b
    return abs(a - b) <= atol + rtol * max(abs(a), abs(b))


class RecordFSS:
    """Harness-side wrapper (no change to /repo): records what UMAP hands to
    `umap.umap_.fuzzy_simplicial_set` and what it returns, so that the model can be fed with exactly the
    distances the implementation used.  If a refactor bypasses the module-level name the list stays empty
    and callers fall back to recomputing distances themselves."""

    def __init__(self):
        self.calls = []

    def __enter__(self):
        import umap.umap_ as U
        self.U = U
        self.orig = U.fuzzy_simplicial_set
        rec = self

        def wrapper(X, n_neighbors, random_state, metric, metric_kwds={}, knn_indices=None, knn_dists=None,
                    angular=False, set_op_mix_ratio=1.0, local_connectivity=1.0, apply_set_operations=True,
                    verbose=False, return_dists=None):
            entry = {"X": None if knn_dists is not None else np.array(X, copy=True) if not hasattr(X, "tocsr") else X.copy(),
                     "n_neighbors": n_neighbors, "metric": metric,
                     "knn_indices": None if knn_indices is None else np.array(knn_indices, copy=True),
                     "knn_dists": None if knn_dists is None else np.array(knn_dists, copy=True),
                     "set_op_mix_ratio": set_op_mix_ratio, "local_connectivity": local_connectivity,
                     "apply_set_operations": apply_set_operations}
            out = rec.orig(X, n_neighbors, random_state, metric, metric_kwds, knn_indices, knn_dists, angular,
                           set_op_mix_ratio, local_connectivity, apply_set_operations, verbose, return_dists)
            entry["sigmas"] = np.array(out[1], copy=True)
            entry["rhos"] = np.array(out[2], copy=True)
            entry["graph"] = out[0].copy()
            rec.calls.append(entry)
            return out

        U.fuzzy_simplicial_set = wrapper
        return self

    def __exit__(self, *a):
        self.U.fuzzy_simplicial_set = self.orig
        return False

    def table(self, which=0):
        """(knn_indices, knn_dists float32) of recorded call `which`: either as passed in, or the exact table of
        the recorded distance matrix (computed with the implementation's own `nearest_neighbors`)."""
        c = self.calls[which]
        if c["knn_dists"] is not None:
            return c["knn_indices"], c["knn_dists"].astype(np.float32)
        idx, dist, _ = self.U.nearest_neighbors(c["X"], c["n_neighbors"], "precomputed", {}, False, None)
        return idx, dist.astype(np.float32)
