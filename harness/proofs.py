"""Regenerate Generated/*.lean from the live package, build the Lean project, audit axioms."""
import json
import os
import re
import subprocess

from common import LEAN, VERIF, InfraError

ALLOWED_AXIOMS = {"propext", "Classical.choice", "Quot.sound"}
FORBIDDEN = re.compile(r"\b(sorry|admit|native_decide|bv_decide|implemented_by)\b|^\s*axiom\s|unsafe\s|maxHeartbeats\s+0\b")


def theorems_in(path, module):
    """fully qualified names of the public theorems of a Lean file (namespace tracking by `namespace` / `end`)"""
    out, stack = [], []
    body = strip_comments(open(os.path.join(LEAN, path)).read())
    for ln in body.split("\n"):
        m = re.match(r"\s*namespace\s+([\w\.]+)", ln)
        if m:
            stack.append(m.group(1))
            continue
        m = re.match(r"\s*end\s+([\w\.]+)\s*$", ln)
        if m and stack and stack[-1] == m.group(1):
            stack.pop()
            continue
        m = re.match(r"\s*(?:@\[[^\]]*\]\s*)?(private\s+|protected\s+)?theorem\s+([\w\.'?!]+)", ln)
        if m and not (m.group(1) or "").startswith("private"):
            out.append({"name": ".".join(stack + [m.group(2)]), "module": module})
    return out


def obligations():
    """obligations.json: per property, `theorems` (explicit) and/or `auto` (files whose public theorems all count)"""
    with open(os.path.join(LEAN, "obligations.json")) as f:
        obl = json.load(f)
    for prop, e in obl.items():
        seen = {t["name"] for t in e.get("theorems", [])}
        for item in e.get("auto", []):
            ns = item.get("namespace")
            for t in theorems_in(item["file"], item["module"]):
                if ns and not t["name"].startswith(ns + "."):
                    continue
                if t["name"] not in seen:
                    e.setdefault("theorems", []).append(t)
                    seen.add(t["name"])
    return obl


def strip_comments(src):
    # remove /- ... -/ (nested not needed) and -- line comments
    src = re.sub(r"/-.*?-/", "", src, flags=re.S)
    src = re.sub(r"--.*", "", src)
    return src


def source_grep():
    bad = []
    for d in ("UmapModel", "UmapProofs", "UmapProps", "Generated"):
        for root, _, files in os.walk(os.path.join(LEAN, d)):
            for fn in files:
                if fn.endswith(".lean"):
                    p = os.path.join(root, fn)
                    body = strip_comments(open(p).read())
                    for ln in body.split("\n"):
                        if FORBIDDEN.search(ln):
                            bad.append(f"{os.path.relpath(p, LEAN)}: {ln.strip()[:80]}")
    return bad


def lake_build(targets, clean=False):
    if clean:
        subprocess.run(["lake", "clean"], cwd=LEAN, stdout=subprocess.PIPE, stderr=subprocess.STDOUT)
    p = subprocess.run(["lake", "build"] + list(targets), cwd=LEAN, stdout=subprocess.PIPE,
                       stderr=subprocess.STDOUT)
    return p.returncode == 0, p.stdout.decode()


def failing_decls(log):
    """names of files/theorems mentioned in lake's error output"""
    out = []
    for m in re.finditer(r"error: ([\w/\.]+\.lean):(\d+):(\d+)", log):
        out.append(f"{m.group(1)}:{m.group(2)}")
    return out


def audit(prop, theorems):
    """run `#print axioms` for each theorem of the property; returns {thm: [axioms] | None}"""
    d = os.path.join(LEAN, ".lake", "audit")
    os.makedirs(d, exist_ok=True)
    path = os.path.join(d, f"{prop}.lean")
    mods = sorted({t["module"] for t in theorems})
    with open(path, "w") as f:
        for m in mods:
            f.write(f"import {m}\n")
        for t in theorems:
            f.write(f"#print axioms {t['name']}\n")
    p = subprocess.run(["lake", "env", "lean", path], cwd=LEAN, stdout=subprocess.PIPE, stderr=subprocess.STDOUT)
    out = p.stdout.decode()
    res = {}
    for t in theorems:
        res[t["name"]] = None
    for m in re.finditer(r"^'(\S+)' depends on axioms: \[([^\]]*)\]", out, flags=re.S | re.M):
        res[m.group(1)] = [a.strip() for a in m.group(2).replace("\n", " ").split(",") if a.strip()]
    for m in re.finditer(r"^'(\S+)' does not depend on any axioms", out, flags=re.M):
        res[m.group(1)] = []
    return res, out


def build_and_audit(ctx, regen_fn=None):
    """regen -> lake build -> audit.  Fills ctx.proof; never raises for a *proof* failure."""
    obl = obligations().get(ctx.prop, {"theorems": [], "targets": []})
    theorems = obl["theorems"]
    ctx.proof["obligations"] = len(theorems)
    ctx.proof["theorems"] = [t["name"] for t in theorems]
    if regen_fn is not None:
        regen_fn(ctx)
    # the driver and the model must build: they do not depend on Generated, so a failure here is infrastructure
    ok, log = lake_build(["umapdrv"])
    if not ok:
        raise InfraError("model/driver build failed:\n" + log[-3000:])
    targets = obl.get("targets") or [f"UmapProps.{ctx.prop}"]
    ok, log = lake_build(targets, clean=False)
    if not ok:
        ctx.proof["broken"] = failing_decls(log) or ["lake build " + " ".join(targets)]
        ctx.notes.append("lake build failed: " + log[-1500:])
        # audit what still compiles is not possible for the failing module; mark all undischarged
        ctx.proof["discharged"] = 0
        return False
    bad_src = source_grep()
    if bad_src:
        ctx.proof["broken"] = ["forbidden token: " + b for b in bad_src[:5]]
        return False
    res, out = audit(ctx.prop, theorems)
    n = 0
    for name, ax in res.items():
        if ax is None:
            ctx.proof["broken"].append(f"{name}: not found")
        elif not set(ax) <= ALLOWED_AXIOMS:
            ctx.proof["broken"].append(f"{name}: axioms {sorted(set(ax) - ALLOWED_AXIOMS)}")
        else:
            n += 1
            ctx.proof["axioms"][name] = ax
    ctx.proof["discharged"] = n
    if ctx.thorough:
        # independent re-check of the compiled modules
        mods = sorted({t["module"] for t in theorems})
        p = subprocess.run(["lake", "env", "leanchecker"] + mods, cwd=LEAN, stdout=subprocess.PIPE,
                           stderr=subprocess.STDOUT)
        ctx.notes.append(f"leanchecker {' '.join(mods)}: exit {p.returncode}")
        if p.returncode != 0:
            ctx.proof["broken"].append("leanchecker: " + p.stdout.decode()[-500:])
    return not ctx.proof["broken"]
