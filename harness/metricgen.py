"""Vector-pair generators and reference definitions for the metric properties (C12, C13, C14)."""
import itertools

import numpy as np

BINARY = ["hamming", "jaccard", "dice", "matching", "kulsinski", "rogerstanimoto", "russellrao", "sokalsneath",
          "sokalmichener", "yule"]
NONNEG = {"hellinger", "ll_dirichlet", "symmetric_kl"}

# canonical model name for every accepted alias (what the Lean driver understands)
CANON = {"l2": "euclidean", "taxicab": "manhattan", "l1": "manhattan", "linfinity": "chebyshev", "linfty": "chebyshev",
         "linf": "chebyshev", "standardised_euclidean": "seuclidean", "weighted_minkowski": "wminkowski"}


def canon(name):
    return CANON.get(name, name)


def vector_pair(rng, name, dim=None):
    """a pair in the domain of metric `name`, of a random kind; returns (x, y, kind)"""
    name = canon(name)
    if name == "haversine":
        x = np.array([rng.uniform(-1.5, 1.5), rng.uniform(-3.1, 3.1)])
        k = str(rng.choice(["latlong", "latlong", "antipodal", "identical", "pole", "same-meridian"]))
        if k == "antipodal":     # (nearly) opposite points: the largest distances, close to pi
            y = np.array([-x[0] + rng.normal() * 1e-3, x[1] + np.pi + rng.normal() * 1e-3])
        elif k == "identical":
            y = x.copy()
        elif k == "pole":
            y = np.array([np.pi / 2 * float(rng.choice([-1, 1])), rng.uniform(-3.1, 3.1)])
        elif k == "same-meridian":
            y = np.array([rng.uniform(-1.5, 1.5), x[1]])
        else:
            y = np.array([rng.uniform(-1.5, 1.5), rng.uniform(-3.1, 3.1)])
        return x, y, k
    dim = dim or int(rng.choice([1, 2, 3, 5, 8, 16, 33, 64]))
    kind = str(rng.choice(["continuous", "integer", "binary", "zeros-in-one", "all-zero", "identical", "sparse", "large-offset"]))
    if name in BINARY and kind in ("continuous",):
        kind = "binary"
    if kind == "continuous":
        x, y = rng.normal(size=dim), rng.normal(size=dim)
    elif kind == "integer":
        x, y = rng.integers(-4, 5, dim).astype(float), rng.integers(-4, 5, dim).astype(float)
    elif kind == "binary":
        x, y = (rng.random(dim) < 0.5).astype(float), (rng.random(dim) < 0.5).astype(float)
    elif kind == "zeros-in-one":
        x, y = np.zeros(dim), rng.integers(0, 4, dim).astype(float)
        if rng.random() < 0.5:
            x, y = y, x
    elif kind == "large-offset":
        # a common offset that is large relative to the spread (sensor readings, timestamps): exposes
        # numerically unstable one-pass formulas; spreads are integers so that float64 keeps them exactly
        off = float(rng.choice([300.0, 1.0e5, 1.0e8]))
        x = off + rng.integers(-5, 6, dim).astype(float)
        y = off + rng.integers(-5, 6, dim).astype(float)
    elif kind == "all-zero":
        x, y = np.zeros(dim), np.zeros(dim)
    elif kind == "identical":
        x = rng.integers(0, 5, dim).astype(float) if rng.random() < 0.5 else rng.normal(size=dim)
        y = x.copy()
    else:
        x = rng.normal(size=dim) * (rng.random(dim) < 0.4)
        y = rng.normal(size=dim) * (rng.random(dim) < 0.4)
    if name in NONNEG:
        x, y = np.abs(x), np.abs(y)
    if name == "ll_dirichlet":
        x, y = np.round(np.abs(x) * 3), np.round(np.abs(y) * 3)
    if name == "poincare":
        x = x / (1.0 + np.linalg.norm(x)) * 0.9
        y = y / (1.0 + np.linalg.norm(y)) * 0.9
    return x.astype(np.float64), y.astype(np.float64), kind


def params_for(rng, name, dim):
    """(args tuple for the implementation, extra driver tokens as floats/lists)"""
    name = canon(name)
    if name == "minkowski":
        p = float(rng.choice([1.0, 1.5, 2.0, 3.0]))
        return (p,), [p]
    if name == "seuclidean":
        s = rng.uniform(0.5, 2.0, dim)
        return (s,), list(s)
    if name == "wminkowski":
        w = rng.uniform(0.0, 2.0, dim)
        p = float(rng.choice([1.0, 1.5, 2.0, 3.0]))
        return (w, p), list(w) + [p]
    if name == "mahalanobis":
        A = rng.normal(size=(dim, dim))
        V = A @ A.T / dim + 0.5 * np.eye(dim)
        return (V,), list(V.ravel())
    return (), []


def counts(x, y):
    a, b = x != 0, y != 0
    return int(np.sum(a & b)), int(np.sum(a & ~b)), int(np.sum(~a & b)), int(np.sum(~a & ~b))


def binary_reference(name, x, y):
    """textbook definitions through the four counts, with umap's documented all-zero conventions"""
    n = len(x)
    tt, tf, ft, ff = counts(x, y)
    neq = tf + ft
    if name == "hamming":
        return float(np.sum(x != y)) / n
    if name == "jaccard":
        return 0.0 if tt + neq == 0 else neq / (tt + neq)
    if name == "matching":
        return neq / n
    if name == "dice":
        return 0.0 if neq == 0 else neq / (2 * tt + neq)
    if name == "kulsinski":
        return 0.0 if neq == 0 else (neq - tt + n) / (neq + n)
    if name in ("rogerstanimoto", "sokalmichener"):
        return 2 * neq / (n + neq)
    if name == "russellrao":
        return 0.0 if neq == 0 else (n - tt) / n
    if name == "sokalsneath":
        return 0.0 if neq == 0 else neq / (0.5 * tt + neq)
    if name == "yule":
        return 0.0 if tf == 0 or ft == 0 else 2 * tf * ft / (tt * ff + tf * ft)
    raise KeyError(name)


def real_reference(name, x, y, args):
    """independent float64 definitions (None where no closed reference is used)"""
    name = canon(name)
    d = x - y
    if name == "euclidean":
        return float(np.sqrt(np.sum(d * d)))
    if name == "manhattan":
        return float(np.sum(np.abs(d)))
    if name == "chebyshev":
        return float(np.max(np.abs(d))) if len(d) else 0.0
    if name == "minkowski":
        return float(np.sum(np.abs(d) ** args[0]) ** (1.0 / args[0]))
    if name == "seuclidean":
        return float(np.sqrt(np.sum(d * d / args[0])))
    if name == "wminkowski":
        return float(np.sum(args[0] * np.abs(d) ** args[1]) ** (1.0 / args[1]))
    if name == "mahalanobis":
        return float(np.sqrt(max(0.0, d @ args[0] @ d)))
    if name == "canberra":
        den = np.abs(x) + np.abs(y)
        return float(np.sum(np.where(den > 0, np.abs(d) / np.where(den > 0, den, 1), 0.0)))
    if name == "braycurtis":
        den = np.sum(np.abs(x + y))
        return float(np.sum(np.abs(d)) / den) if den > 0 else 0.0
    if name == "cosine":
        nx, ny = np.sum(x * x), np.sum(y * y)
        if nx == 0 and ny == 0:
            return 0.0
        if nx == 0 or ny == 0:
            return 1.0
        return float(1 - np.sum(x * y) / np.sqrt(nx * ny))
    if name == "correlation":
        sx, sy = x - x.mean(), y - y.mean()
        nx, ny = np.sum(sx * sx), np.sum(sy * sy)
        if nx == 0 and ny == 0:
            return 0.0
        if np.sum(sx * sy) == 0:
            return 1.0
        return float(1 - np.sum(sx * sy) / np.sqrt(nx * ny))
    if name == "hellinger":
        lx, ly = x.sum(), y.sum()
        if lx == 0 and ly == 0:
            return 0.0
        if lx == 0 or ly == 0:
            return 1.0
        return float(np.sqrt(max(0.0, 1 - np.sum(np.sqrt(x * y)) / np.sqrt(lx * ly))))
    if name == "haversine":
        sl, sg = np.sin(0.5 * (x[0] - y[0])), np.sin(0.5 * (x[1] - y[1]))
        return float(2 * np.arcsin(np.sqrt(sl ** 2 + np.cos(x[0]) * np.cos(y[0]) * sg ** 2)))
    if name == "poincare":
        return float(np.arccosh(1 + 2 * np.sum(d * d) / ((1 - np.sum(x * x)) * (1 - np.sum(y * y)))))
    if name == "symmetric_kl":
        p, q = (x + 1e-11) / np.sum(x + 1e-11), (y + 1e-11) / np.sum(y + 1e-11)
        return float(0.5 * (np.sum(p * np.log(p / q)) + np.sum(q * np.log(q / p))))
    return None


BOUNDS = {"jaccard": 1, "dice": 1, "hamming": 1, "matching": 1, "kulsinski": 1, "rogerstanimoto": 1, "russellrao": 1,
          "sokalsneath": 1, "sokalmichener": 1, "yule": 2, "cosine": 2, "correlation": 2, "hellinger": 1,
          "haversine": np.pi}


def all_binary_pairs(d):
    vs = [np.array(v, dtype=np.float64) for v in itertools.product([0.0, 1.0], repeat=d)]
    return [(a, b) for a in vs for b in vs]


def to_sparse(x):
    idx = np.nonzero(x)[0].astype(np.int32)
    return idx, x[idx].astype(np.float32)
