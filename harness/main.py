"""Entry point: main.py <property> [--tier quick|thorough] [--replay file]"""
import argparse
import importlib
import os
import sys
import traceback

sys.path.insert(0, os.path.dirname(os.path.abspath(__file__)))
import common  # noqa: E402
import proofs  # noqa: E402


def main():
    ap = argparse.ArgumentParser()
    ap.add_argument("prop")
    ap.add_argument("--tier", default=os.environ.get("VERIF_TIER", "quick"))
    ap.add_argument("--replay", default=None)
    a = ap.parse_args()
    common.quiet()
    if a.replay:
        # a replay re-runs the property's check with the seed and tier recorded in the replay file, so that the same
        # generated cases (and hence the recorded failing input, which is reported first) are produced again
        import json
        rp = a.replay if os.path.isabs(a.replay) else os.path.join(common.VERIF, a.replay)
        try:
            with open(rp) as f:
                rj = json.load(f)
            os.environ["VERIF_SEED"] = str(rj.get("seed", 0))
            a.tier = rj.get("tier", a.tier)
            print(f"replaying {a.replay}: seed={rj.get('seed')} tier={a.tier} kind={rj.get('kind')}")
        except Exception as e:  # noqa
            print(f"cannot read replay file {a.replay}: {e}")
            sys.exit(2)
    ctx = common.Ctx(a.prop, a.tier if a.tier in ("quick", "thorough") else "quick")
    try:
        mod = importlib.import_module(f"props.{a.prop}")
        import regen as regen_mod
        parts = getattr(mod, "REGEN", ("constants", "registry"))
        proofs.build_and_audit(ctx, lambda c: regen_mod.regen(c, parts))
        import corpus
        corpus.run(ctx)                     # minimised witnesses of every recorded finding run first
        if a.replay and hasattr(mod, "replay"):
            mod.replay(ctx, a.replay)
        else:
            mod.run(ctx)                    # (a replay re-runs the property's module with the recorded seed)
        rc = ctx.finish()
    except common.InfraError as e:
        print(f"{a.prop}: INFRASTRUCTURE FAILURE: {e}")
        sys.exit(2)
    except Exception:
        traceback.print_exc()
        print(f"{a.prop}: INFRASTRUCTURE FAILURE (harness exception)")
        sys.exit(2)
    sys.exit(rc)


if __name__ == "__main__":
    main()
