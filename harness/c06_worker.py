"""Subprocess worker for C06: fits a list of seeded configurations under the environment's thread settings and prints
the sha256 of graph_, embedding_ and transform output for each.  argv: <json config list> <warm 0/1>"""
import hashlib
import json
import os
import sys
import warnings

warnings.filterwarnings("ignore")
sys.path.insert(0, os.environ.get("UMAP_REPO", "/repo"))
import numpy as np  # noqa: E402
import scipy.sparse  # noqa: E402


def sha(*arrays):
    h = hashlib.sha256()
    for a in arrays:
        a = np.ascontiguousarray(a)
        h.update(str(a.dtype).encode() + str(a.shape).encode() + a.tobytes())
    return h.hexdigest()[:24]


def make_data(name):
    rs = np.random.RandomState(12345)
    if name == "small":
        return rs.normal(size=(120, 5)).astype(np.float32)
    if name == "noisy-400":          # hard for NN-descent: high-dimensional noise, approximate kNN is not exact
        return rs.normal(size=(400, 40)).astype(np.float32)
    if name == "wide-700":           # shape for which sklearn's PCA picks the randomized solver
        return rs.normal(size=(700, 120)).astype(np.float32)
    if name == "latlong":
        return rs.normal(size=(150, 4)).astype(np.float32)
    raise KeyError(name)


def main():
    cfgs = json.loads(sys.argv[1])
    warm = sys.argv[2] == "1"
    import umap
    if warm:
        # a process with a history: other fits first, global RNGs advanced
        np.random.seed(777)
        np.random.rand(1000)
        import random
        random.seed(5)
        umap.UMAP(n_neighbors=5, n_epochs=5).fit(np.random.rand(60, 4))
        umap.UMAP(n_neighbors=7, n_epochs=5, random_state=3, init="random").fit(np.random.rand(80, 3))
        np.random.rand(17)
    out = {}
    for c in cfgs:
        X = make_data(c["data"])
        kw = dict(c["kw"])
        y = None
        if c.get("supervised"):
            y = (X[:, 0] > 0).astype(int)
        Xf = scipy.sparse.csr_matrix(X) if c.get("sparse") else X
        if c.get("duplicates"):
            X = np.vstack([X, X[:10]])
            Xf = X
            if y is not None:
                y = np.r_[y, y[:10]]
        try:
            m = umap.UMAP(**kw).fit(Xf, y)
        except Exception as e:  # noqa
            # a schedule-dependent failure is itself a reproducibility violation: report it as the "hash"
            out[c["name"]] = {"graph": "exception:" + type(e).__name__, "embedding": "exception:" + type(e).__name__ + ":" + str(e)[:80]}
            continue
        g = m.graph_.tocsr()
        g.sort_indices()
        res = {"graph": sha(g.data, g.indices, g.indptr), "embedding": sha(np.nan_to_num(m.embedding_, nan=-7.5))}
        if c.get("transform", True) and not kw.get("densmap"):
            try:
                Y = (X[:15] + 0.05).astype(np.float32)
                t = m.transform(scipy.sparse.csr_matrix(Y) if c.get("sparse") else Y)
                res["transform"] = sha(np.nan_to_num(np.asarray(t), nan=-7.5))
            except Exception as e:  # noqa
                res["transform"] = "exception:" + type(e).__name__
        out[c["name"]] = res
    import numba
    print("RESULT " + json.dumps({"threads": numba.get_num_threads(), "hashes": out}))


if __name__ == "__main__":
    main()
