"""Structured input generators (every choice comes from the rng passed in)."""
import numpy as np


def dataset(rng, n, d, kind=None):
    kind = kind or rng.choice(["gauss", "clusters", "uniform", "lowrank"])
    if kind == "gauss":
        X = rng.normal(size=(n, d))
    elif kind == "clusters":
        c = rng.normal(scale=4.0, size=(int(rng.integers(2, 5)), d))
        X = c[rng.integers(0, len(c), n)] + rng.normal(scale=0.5, size=(n, d))
    elif kind == "uniform":
        X = rng.uniform(-1, 1, size=(n, d))
    else:
        X = rng.normal(size=(n, max(1, d // 2))) @ rng.normal(size=(max(1, d // 2), d))
        X += 1e-3 * rng.normal(size=(n, d))
    return X.astype(np.float32), kind


def exact_knn(D, k):
    """the k smallest entries of each row of a distance matrix (stable argsort)."""
    idx = np.argsort(D, axis=1, kind="stable")[:, :k]
    dist = np.take_along_axis(D, idx, axis=1)
    return idx, dist


def knn_table(rng, n, k, scale=1.0, kind=None, inf_frac=0.0):
    """A valid kNN table: column 0 is the sample itself at distance 0, rows sorted by distance,
    neighbour indices distinct within a row.  `inf_frac` of the rows get an `inf` tail
    (index -1), as produced by the disconnection distance."""
    kind = kind or rng.choice(["uniform", "clustered", "ties", "dups", "mostly-dups", "self-not-first"])
    idx = np.zeros((n, k), dtype=np.int64)
    dist = np.zeros((n, k), dtype=np.float32)
    for i in range(n):
        others = [j for j in range(n) if j != i]
        if len(others) >= k - 1:
            nb = rng.choice(others, size=k - 1, replace=False)
        else:
            nb = rng.choice(others, size=k - 1, replace=True)
        if kind == "uniform":
            d = np.sort(rng.uniform(0.05, 1.0, k - 1))
        elif kind == "clustered":
            d = np.sort(np.concatenate([rng.uniform(0.05, 0.1, (k - 1) // 2), rng.uniform(0.8, 1.0, k - 1 - (k - 1) // 2)]))
        elif kind == "ties":
            d = np.sort(rng.choice([0.25, 0.5, 0.75, 1.0], k - 1))
        elif kind == "mostly-dups":  # only one or two distinct (non-zero-distance) neighbours
            d = np.zeros(k - 1)
            m = int(rng.integers(1, 3))
            d[max(0, k - 1 - m):] = np.sort(rng.uniform(0.05, 1.0, min(m, k - 1)))
        else:  # leading zero-distance duplicates
            d = np.sort(rng.uniform(0.05, 1.0, k - 1))
            nz = int(rng.integers(0, max(1, (k - 1) // 2) + 1))
            if kind == "self-not-first":
                nz = max(nz, 1)
            d[:nz] = 0.0
        idx[i, 0] = i
        idx[i, 1:] = nb
        dist[i, 1:] = (d * scale).astype(np.float32)
        if kind == "self-not-first" and k > 1 and dist[i, 1] == 0:
            # a duplicate of the sample sorts before the sample itself (both at distance 0)
            idx[i, 0], idx[i, 1] = idx[i, 1], idx[i, 0]
    if inf_frac > 0:
        for i in range(n):
            if rng.random() < inf_frac:
                cut = int(rng.integers(1, k))
                dist[i, cut:] = np.inf
                idx[i, cut:] = -1
    return idx, dist, kind


def lc_split(lc):
    i = int(np.floor(lc))
    return i, float(lc) - i
