"""C14 — metric gradients are the derivatives of the distances they accompany."""
import numpy as np

import metricgen as mg
import regen as regen_mod
from common import Driver, f2b, b2f

REGEN = ("constants", "registry", "distsrc")
MODELLED = {"euclidean", "seuclidean", "manhattan", "chebyshev", "minkowski", "wminkowski", "mahalanobis", "canberra",
            "braycurtis", "cosine", "correlation", "hellinger", "haversine", "hyperboloid", "symmetric_kl",
            "spherical_gaussian_energy", "diagonal_gaussian_energy"}
TIES_SMOOTH = {"euclidean", "seuclidean", "minkowski", "wminkowski", "mahalanobis", "cosine", "correlation", "hellinger", "symmetric_kl"}
FIXED_DIM = {"haversine": 2, "spherical_gaussian_energy": 3, "diagonal_gaussian_energy": 4, "gaussian_energy": 5}



def point(rng, cname):
    """a differentiable point, kept away from the kinks of the metric; None if rejected"""
    dim = FIXED_DIM.get(cname, int(rng.choice([1, 2, 3, 5, 8, 16, 32])))
    if cname in ("cosine", "correlation") and dim < 3:
        dim = 3
    x = rng.normal(size=dim) * float(rng.choice([0.5, 1.0, 3.0]))
    y = rng.normal(size=dim) * float(rng.choice([0.5, 1.0, 3.0]))
    if cname in ("hellinger", "symmetric_kl"):
        x, y = np.abs(x) + 0.1, np.abs(y) + 0.1
    if cname == "haversine":
        x = np.array([rng.uniform(-1.2, 1.2), rng.uniform(-3, 3)])
        y = np.array([rng.uniform(-1.2, 1.2), rng.uniform(-3, 3)])
    if cname in ("spherical_gaussian_energy", "diagonal_gaussian_energy", "gaussian_energy"):
        x[2:] = rng.uniform(0.4, 2.0, dim - 2) * rng.choice([-1, 1], dim - 2)
        y[2:] = rng.uniform(0.4, 2.0, dim - 2) * rng.choice([-1, 1], dim - 2)
        if cname == "gaussian_energy":
            x[4], y[4] = rng.uniform(-1.2, 1.2), rng.uniform(-1.2, 1.2)
    # exact ties x_i == y_i in some coordinates (integer-valued / repeated data): smooth points of every metric listed here
    if cname in TIES_SMOOTH and dim >= 2 and rng.random() < 0.3:
        tie = rng.random(dim) < 0.4
        tie[int(rng.integers(dim))] = False
        y = np.where(tie, x, y)
    # exactly orthogonal arguments (disjoint supports, integer-valued data): cosine and correlation are smooth there
    if cname in ("cosine", "correlation") and dim >= 4 and rng.random() < 0.25:
        h = dim // 2
        x = np.zeros(dim)
        y = np.zeros(dim)
        x[:h] = rng.integers(1, 5, h) * rng.choice([-1, 1], h)
        y[h:] = rng.integers(1, 5, dim - h) * rng.choice([-1, 1], dim - h)
        if cname == "correlation":
            # centred vectors with zero dot product: both sum to zero on their own half
            x[:h] -= x[:h].mean()
            y[h:] -= y[h:].mean()
            if h < 2 or dim - h < 2 or not x.any() or not y.any():
                return None
    # zero entries of y (sparse count data): the Hellinger distance is smooth in the corresponding x_i
    if cname == "hellinger" and dim >= 3 and rng.random() < 0.3:
        z = rng.random(dim) < 0.4
        z[int(rng.integers(dim))] = False
        y = np.where(z, 0.0, y)
    d = np.abs(x - y)
    # margins from kinks (minkowski / wminkowski are only exercised with p >= 1.25, where |t|^p is differentiable at 0)
    if cname in ("manhattan", "canberra", "braycurtis", "chebyshev") and np.min(d) < 1e-2:
        return None
    if cname in ("canberra",) and (np.min(np.abs(x)) < 1e-2 or np.min(np.abs(x) + np.abs(y)) < 1e-2):
        return None
    if cname == "braycurtis" and np.min(np.abs(x + y)) < 1e-2:
        return None
    if cname == "chebyshev":
        s = np.sort(d)
        if len(s) > 1 and s[-1] - s[-2] < 1e-2:
            return None
    if np.linalg.norm(x - y) < 0.1:
        return None
    return x, y


def fd_grad(f, x, y, args, rel=1e-4):
    g = np.zeros(len(x))
    for i in range(len(x)):
        h = rel * max(1.0, abs(x[i]))
        xp, xm = x.copy(), x.copy()
        xp[i] += h
        xm[i] -= h
        g[i] = (float(f(xp, y.copy(), *args)[0]) - float(f(xm, y.copy(), *args)[0])) / (2 * h)
    return g


def run(ctx):
    import umap.distances as D
    rng = ctx.rng
    names = sorted(D.named_distances_with_gradients)
    ctx.rule = ("for every name in named_distances_with_gradients: random points kept away from kinks (|x_i-y_i|>=1e-2 where an absolute "
                "value is differentiated, exact coordinate ties x_i=y_i included where the metric is smooth there, exactly orthogonal arguments for cosine / correlation, zero entries of y for hellinger, minkowski p in {1.25..3}, no near-ties for chebyshev, distance >= 0.1), dims 1..32, all parameters; returned gradient vs "
                "central finite differences (two step sizes) of the implementation's own returned distance (direction cosine >= 1-1e-4, "
                "magnitude within 2e-3), and vs the Lean model; non-trivial = every accepted point; rejected points are counted")
    ctx.assumptions += ["gradients returned as float32 arrays and float32 internals: 1e-4 relative", "regularising constants (1e-6/1e-8) are below the tolerance at distance >= 0.1"]
    # the translated gradient kernels (what the `*_src` theorems are about) against the Python source itself
    import srcval
    import translate
    srcval.validate(ctx, translate.GRAD_FUNCS, 200 if ctx.thorough else 25, rng)
    ctx.assumptions.append("the AST -> Lean translator (harness/translate.py) is validated on every run by executing its output "
                           "(srcdrv) against the Python source (.py_func) on generated inputs; the `*_src` theorems tie its output "
                           "to the hand-written model for all inputs")
    drv = Driver()
    pend = []
    per = 300 if ctx.thorough else 40
    for name in names:
        f = D.named_distances_with_gradients[name]
        cname = mg.canon(name)
        done = 0
        tries = 0
        while done < per and tries < 20 * per:
            tries += 1
            pt = point(rng, cname)
            if pt is None:
                ctx.skip(f"rejected near a kink ({cname})")
                continue
            x, y = pt
            args, extra = mg.params_for(rng, cname, len(x))
            if cname in ("minkowski", "wminkowski") and (args[-1] == 1.0 or rng.random() < 0.3):
                pp = float(rng.choice([1.25, 1.5, 1.75]))
                args = args[:-1] + (pp,)
                extra = extra[:-1] + [pp]
            case = {"metric": name, "x": x.tolist(), "y": y.tolist(),
                    "params": [a.tolist() if isinstance(a, np.ndarray) else a for a in args]}
            x0, y0 = x.copy(), y.copy()
            try:
                d, g = f(x.copy(), y.copy(), *args)
            except Exception as e:  # noqa
                ctx.violation("exception", f"{name} raised {type(e).__name__}: {e}", case, key=f"C14:{cname}_grad:exception")
                break
            flat = cname == "hellinger" and len(x) == 1      # one-dimensional Hellinger: identically 0, differentiable, derivative 0
            if cname in ("euclidean", "seuclidean", "mahalanobis", "minkowski", "wminkowski", "hellinger", "hyperboloid",
                         "haversine") and not float(d) >= 1e-2 and not flat:
                ctx.skip(f"rejected: distance below 1e-2, the kink of a root-type distance ({cname})")
                continue
            if np.asarray(g).shape != (len(x),):
                ctx.violation("gradient-shape", f"{name}: gradient of shape {np.asarray(g).shape} for {len(x)}-vectors", case,
                              key=f"C14:{cname}_grad-shape")
            g = np.asarray(g, dtype=np.float64)[:len(x)]
            if not np.all(np.isfinite(g)) and np.isfinite(float(d)):
                done += 1
                ctx.violation("gradient", f"{name}: non-finite gradient {g.tolist()} at a point where the returned distance ({float(d):.6g}) "
                                          f"is finite and differentiable", case,
                              key="C14:hellinger_grad-zero-distance" if flat else f"C14:{cname}_grad")
                continue
            g1 = fd_grad(f, x0, y0, args, 1e-4)
            g2 = fd_grad(f, x0, y0, args, 3e-4)
            if np.linalg.norm(g1 - g2) > 5e-3 * max(1e-3, np.linalg.norm(g1)):
                ctx.skip(f"finite differences inconsistent between step sizes ({cname})")
                continue
            done += 1
            ng, nf = np.linalg.norm(g), np.linalg.norm(g1)
            key = f"C14:{cname}_grad"
            if nf < 1e-6 and ng < 1e-4:
                pass
            else:
                cos = float(np.dot(g, g1) / (ng * nf + 1e-300))
                ratio = ng / (nf + 1e-300)
                # mahalanobis rounds the difference vector to float32 inside the kernel: ~1e-3 relative noise in the differences
                rtol = 1e-2 if cname == "mahalanobis" else 2e-3
                if cos < 1 - (1e-3 if cname == "mahalanobis" else 1e-4) or abs(ratio - 1) > rtol:
                    ctx.violation("gradient", f"{name}: returned gradient {np.round(g, 5).tolist()} vs finite differences of the returned "
                                              f"distance {np.round(g1, 5).tolist()} (cosine {cos:.6f}, magnitude ratio {ratio:.5f})", case, key=key)
            if cname in MODELLED:
                toks = ["grad", cname, len(x)] + [f2b(v) for v in x0] + [f2b(v) for v in y0] + [f2b(v) for v in extra]
                pend.append((drv.add(*toks), float(d), g, case, cname))
            ctx.case(key=hash((name, x0.tobytes(), y0.tobytes())), nontrivial=True,
                     sample=case if done == 1 and len(ctx.samples) < 5 else None, metric=cname, dim=len(x))
    outs = drv.run()
    for h, d, g, case, cname in pend:
        if outs[h] == "err":
            ctx.mismatch("grad", {"model": "err"}, case)
            continue
        v = [b2f(t) for t in outs[h].split()]
        md, mg_ = v[0], np.array(v[1:])
        tol = 2e-4
        if abs(md - d) > tol * max(1.0, abs(d)):
            ctx.mismatch("grad.distance", {"impl": d, "model": md}, case)
        elif np.max(np.abs(mg_ - g)) > tol * max(1.0, float(np.max(np.abs(g)))):
            ctx.mismatch("grad.gradient", {"impl": g.tolist(), "model": mg_.tolist()}, case)
