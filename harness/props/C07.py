"""C07 — layout optimisation performs exactly the UMAP stochastic gradient descent."""
import numpy as np

import gen
from common import Driver, f2b, b2f

REGEN = ("constants", "registry", "layoutsrc", "utilssrc")

COORD_TOL = 1e-4     # one epoch: model (float32 rounding at stores) vs kernel (fastmath float32)
TRAJ_TOL = 2e-3      # several epochs


def dens_dummies():
    z = np.zeros(1, dtype=np.float32)
    return z.copy(), z.copy(), z.copy(), z.copy()


def call_kernel(L, H, T, hd, tl, nV, eps, a, b, rng, gamma, move_other, alpha, epns, eonns, eons, n):
    phi, re, R, mu = dens_dummies()
    L._nb_optimize_layout_euclidean_single_epoch(
        H, T, hd, tl, nV, eps, a, b, rng, gamma, H.shape[1], move_other, alpha, epns, eonns, eons, n,
        False, phi, re, 0, 0, 0, 0, R, mu, 0)


def vertex_states(rng_state, H):
    return np.full((H.shape[0], 3), rng_state, dtype=np.int64) + H[:, 0].astype(np.float64).view(np.int64).reshape(-1, 1)


def sgd_line(drv, aliased, move_other, H, T, hd, tl, nV, a, b, gamma, amode, alpha, N, n0, n1, eps, epns, eons, eonns, rng):
    dim = H.shape[1]
    toks = ["sgd", int(aliased), int(move_other), dim, nV, H.shape[0], T.shape[0], len(hd), f2b(a), f2b(b), f2b(gamma),
            amode, f2b(alpha), N, n0, n1]
    toks += [f2b(v) for v in H.ravel()] + [f2b(v) for v in T.ravel()]
    toks += [int(v) for v in hd] + [int(v) for v in tl]
    toks += [f2b(v) for v in eps] + [f2b(v) for v in epns] + [f2b(v) for v in eons] + [f2b(v) for v in eonns]
    toks += [int(v) for v in rng.ravel()]
    return drv.add(*toks)


def parse_sgd(line, nH, nT, dim, nE):
    t = line.split()
    p = 0
    H = np.array([b2f(x) for x in t[p:p + nH * dim]]).reshape(nH, dim); p += nH * dim
    T = np.array([b2f(x) for x in t[p:p + nT * dim]]).reshape(nT, dim); p += nT * dim
    eons = np.array([b2f(x) for x in t[p:p + nE]]); p += nE
    eonns = np.array([b2f(x) for x in t[p:p + nE]]); p += nE
    rng = np.array([int(x) for x in t[p:p + 3 * nH]], dtype=np.int64).reshape(nH, 3)
    return H, T, eons, eonns, rng


def random_graph(rng, dyadic=True):
    nH = int(rng.integers(2, 9))
    dim = int(rng.integers(1, 4))
    aliased = bool(rng.integers(0, 2))
    nT = nH if aliased else int(rng.integers(1, 9))
    nE = int(rng.integers(1, 14))
    hd = rng.integers(0, nH, nE).astype(np.int32)
    tl = rng.integers(0, nT, nE).astype(np.int32)
    if aliased:
        for i in range(nE):
            if tl[i] == hd[i]:
                tl[i] = (tl[i] + 1) % nT
    if dyadic:
        eps = (2.0 ** rng.integers(0, 4, nE)).astype(np.float64)
        rate = float(rng.choice([1, 2, 4, 8]))
    else:
        w = rng.uniform(0.05, 1.0, nE)
        w[rng.integers(0, nE)] = 1.0
        eps = (1.0 / w).astype(np.float64)
        rate = float(rng.choice([1, 3, 5, 7]))
    spread = float(rng.choice([0.05, 1.0, 10.0]))
    H = (rng.normal(size=(nH, dim)) * spread).astype(np.float32)
    T = H if aliased else (rng.normal(size=(nT, dim)) * spread).astype(np.float32)
    ab = [(1.576943460405378, 0.8950608781227859), (1.0, 1.0), (0.11, 1.93), (5.0, 0.5)][int(rng.integers(0, 4))]
    gamma = float(rng.choice([0.0, 0.5, 1.0, 2.0]))
    alpha0 = float(rng.choice([0.25, 1.0, 0.01]))
    move_other = bool(rng.integers(0, 2))
    rs = rng.integers(-2 ** 31 + 1, 2 ** 31 - 1, 3).astype(np.int64)
    return dict(nH=nH, nT=nT, dim=dim, aliased=aliased, hd=hd, tl=tl, eps=eps, rate=rate, H=H, T=T, a=ab[0], b=ab[1],
                gamma=gamma, alpha0=alpha0, move_other=move_other, rs=rs, nV=nT)


def case_of(g, **more):
    c = {k: (v.tolist() if isinstance(v, np.ndarray) else v) for k, v in g.items()}
    c.update(more)
    return c


def run(ctx):
    import umap.layouts as L
    import umap.utils as Ut
    import umap.umap_ as U
    rng = ctx.rng
    import srcval
    srcval.validate_layout(ctx, 300 if ctx.thorough else 60, rng)
    ctx.rule = ("(i) tau_rand_int on random int64 states (negative and > 2^32 included) vs the BitVec-64 model, exactly; "
                "(ii) the sequential kernel _nb_optimize_layout_euclidean_single_epoch on random graphs (1-3 dims, separate / aliased "
                "buffers, both move_other, dyadic and general weights), whole state after every epoch vs Sgd.epoch: clocks and RNG exactly, "
                "coordinates abs 1e-4; (iii) optimize_layout_euclidean snapshots vs the model's epoch loop; (iv) make_epochs_per_sample and "
                "pruning; (v) closed-form expectations on the implementation (visit counts, coefficients, clip bound, frozen reference); "
                "non-trivial = the case has an attractive move, a negative sample and a clipped move")
    ctx.assumptions += ["float32 rounding is modelled at stores (rnd32) but fastmath re-association / FMA is not: coordinates compared at 1e-4",
                        "uniformity of the Tausworthe draws is statistical and not claimed"]
    drv = Driver()

    # ---- (i) RNG ----
    pend = []
    ntau = 2000 if ctx.thorough else 300
    for t in range(ntau):
        kind = int(rng.integers(0, 4))
        if kind == 0:
            st = rng.integers(-2 ** 31, 2 ** 31, 3).astype(np.int64)
        elif kind == 1:
            st = rng.integers(-2 ** 62, 2 ** 62, 3).astype(np.int64)
        elif kind == 2:
            st = (rng.integers(-2 ** 31, 2 ** 31, 3).astype(np.int64) + np.float64(rng.normal() * 10).view(np.int64)).astype(np.int64)
        else:
            st = rng.integers(0, 2 ** 32, 3).astype(np.int64)
        nv = int(rng.integers(1, 1000))
        cnt = int(rng.integers(1, 6))
        h = drv.add("tau", int(st[0]), int(st[1]), int(st[2]), cnt, nv)
        s2 = st.copy()
        obs = []
        for _ in range(cnt):
            r = int(Ut.tau_rand_int(s2))
            obs += [r, r % nv]
        obs += [int(x) for x in s2]
        pend.append((h, obs, {"state": st.tolist(), "n_vertices": nv, "draws": cnt}))
    outs = drv.run()
    for h, obs, case in pend:
        model = [int(x) for x in outs[h].split()]
        if model != obs:
            ctx.mismatch("tau", {"impl": obs, "model": model}, case)
        if any(not (0 <= obs[2 * i + 1] < case["n_vertices"]) for i in range(case["draws"])):
            ctx.violation("neg-vertex-range", f"tau_rand_int % n_vertices outside [0, n): {obs}", case)
        ctx.case(key="tau" + str(case["state"]), nontrivial=False, sample=case if h < 2 else None, part="tau")

    # ---- (ii) kernel, epoch by epoch ----
    ngraph = 400 if ctx.thorough else 50
    for t in range(ngraph):
        dyadic = t % 3 != 2
        g = random_graph(rng, dyadic)
        N = int(rng.integers(3, 9))
        eps, rate = g["eps"], g["rate"]
        epns = eps / rate
        eons, eonns = eps.copy(), epns.copy()
        H = g["H"].copy()
        T = H if g["aliased"] else g["T"].copy()
        T0 = T.copy()
        st = vertex_states(g["rs"], H)
        case = case_of(g, N=N, dyadic=dyadic)
        flags = {"attract": False, "neg": False, "clip": False}
        visits = np.zeros(len(eps), dtype=int)
        bad = False
        pend = []
        for n in range(N):
            alpha = g["alpha0"] if n == 0 else g["alpha0"] * (1.0 - (n - 1) / N)
            pre = (H.copy(), T.copy(), eons.copy(), eonns.copy(), st.copy())
            h = sgd_line(drv, g["aliased"], g["move_other"], pre[0], pre[1], g["hd"], g["tl"], g["nV"], g["a"], g["b"], g["gamma"],
                         1, alpha, N, n, n + 1, eps, epns, pre[2], pre[3], pre[4])
            due = eons <= n
            try:
                call_kernel(L, H, T, g["hd"], g["tl"], g["nV"], eps, g["a"], g["b"], st, g["gamma"], g["move_other"], alpha,
                            epns, eonns, eons, n)
            except Exception as e:  # noqa
                ctx.violation("exception", f"kernel raised {type(e).__name__}: {e}", case)
                bad = True
                break
            visits += due.astype(int)
            if due.any():
                flags["attract"] = True
            if np.any(eonns != pre[3]):
                flags["neg"] = True
            moved = np.abs(H.astype(np.float64) - pre[0].astype(np.float64))
            if np.any(np.isclose(moved, 4 * alpha, rtol=1e-5) & (moved > 0)):
                flags["clip"] = True
            pend.append((h, n, alpha, pre, H.copy(), T.copy(), eons.copy(), eonns.copy(), st.copy()))
            # (e) frozen reference
            if not g["aliased"] and not g["move_other"] and not np.array_equal(T, T0):
                ctx.violation("frozen-reference", f"tail_embedding changed in epoch {n} although move_other=False", case)
                bad = True
                break
            # (d) clip: per epoch a head coordinate changes by at most 4*alpha per elementary write
            writes = np.zeros(g["nH"])
            for i in np.where(due)[0]:
                nneg = max(0, int((n - pre[3][i]) / epns[i]))
                writes[g["hd"][i]] += 1 + nneg
                if g["move_other"] and g["aliased"]:
                    writes[g["tl"][i]] += 1
            lim = 4 * alpha * writes[:, None] * (1 + 1e-5) + 1e-6
            if np.any(moved > lim):
                v = int(np.argmax((moved - lim).max(axis=1)))
                ctx.violation("clip", f"epoch {n}: vertex {v} moved by {moved[v].max()} > 4*alpha*writes = {lim[v, 0]}", case)
                bad = True
                break
        if bad:
            continue
        outs = drv.run()
        for (h, n, alpha, pre, H1, T1, eons1, eonns1, st1) in pend:
            mH, mT, meons, meonns, mrng = parse_sgd(outs[h], g["nH"], g["nT"], g["dim"], len(eps))
            where = {"epoch": n, "alpha": alpha}
            exact = dyadic
            ok_clock = np.array_equal(meons, eons1) and np.array_equal(meonns, eonns1) if exact else \
                np.allclose(meons, eons1, rtol=1e-12) and np.allclose(meonns, eonns1, rtol=1e-9)
            if not ok_clock:
                if not exact and np.any(np.abs(((n - pre[3]) / epns) - np.round((n - pre[3]) / epns)) < 1e-9):
                    ctx.skip("general weights: negative-sample count within 1e-9 of an integer")
                else:
                    ctx.mismatch("sgd.clocks", dict(where, impl_eons=eons1.tolist(), model_eons=meons.tolist(),
                                                    impl_eonns=eonns1.tolist(), model_eonns=meonns.tolist()), case)
                break
            if not np.array_equal(mrng, st1):
                ctx.mismatch("sgd.rng", dict(where, impl=st1.tolist(), model=mrng.tolist()), case)
                break
            dH = np.max(np.abs(mH - H1.astype(np.float64))) if H1.size else 0.0
            dT = 0.0 if g["aliased"] else (np.max(np.abs(mT - T1.astype(np.float64))) if T1.size else 0.0)
            scale = max(1.0, float(np.max(np.abs(H1))) if H1.size else 1.0)
            if max(dH, dT) > COORD_TOL * scale:
                ctx.mismatch("sgd.coords", dict(where, max_diff_head=float(dH), max_diff_tail=float(dT)), case)
                break
        # (a) visit counts: proportional to w / w_max, never for eps > N
        for i in range(len(eps)):
            want = int(np.floor((N - 1) / eps[i] + 1e-12)) if dyadic else None
            if want is not None and visits[i] != want:
                ctx.violation("visit-count", f"edge {i} (eps={eps[i]}) visited {visits[i]} times in {N} epochs, expected floor((N-1)/eps)={want}", case)
                break
            if abs(visits[i] - N / eps[i]) > 2:
                ctx.violation("visit-proportional", f"edge {i}: {visits[i]} visits vs N*w/w_max = {N / eps[i]}", case)
                break
        ctx.case(key=hash(str(case["H"]) + str(case["eps"])), nontrivial=all(flags.values()),
                 sample={k: case[k] for k in ("nH", "nT", "dim", "aliased", "move_other", "a", "b", "gamma", "alpha0", "rate", "N")} if t < 3 else None,
                 part="kernel", aliased=g["aliased"], move_other=g["move_other"], dim=g["dim"], dyadic=dyadic,
                 **{"flag_" + k: v for k, v in flags.items()})

    # ---- (iii) API trajectories ----
    ntraj = 150 if ctx.thorough else 25
    pend = []
    for t in range(ntraj):
        g = random_graph(rng, dyadic=True)
        N = int(rng.integers(2, 8))
        epochs = list(range(N + 1))          # runs max(list) = N epochs; snapshot after each
        H = g["H"].copy()
        T = H if g["aliased"] else g["T"].copy()
        T0 = T.copy()
        H0 = H.copy()
        case = case_of(g, N=N)
        st0 = vertex_states(g["rs"], H0)
        try:
            snaps = L.optimize_layout_euclidean(H, T, g["hd"], g["tl"], epochs, g["nV"], g["eps"].copy(), g["a"], g["b"],
                                                g["rs"].copy(), g["gamma"], g["alpha0"], g["rate"], parallel=False,
                                                move_other=g["move_other"])
        except Exception as e:  # noqa
            ctx.violation("exception", f"optimize_layout_euclidean raised {type(e).__name__}: {e}", case)
            continue
        if not g["aliased"] and not g["move_other"] and not np.array_equal(T, T0):
            ctx.violation("frozen-reference", "optimize_layout_euclidean moved the reference layout (move_other=False)", case)
        epns = g["eps"] / g["rate"]
        hs = [sgd_line(drv, g["aliased"], g["move_other"], H0, T0, g["hd"], g["tl"], g["nV"], g["a"], g["b"], g["gamma"],
                       0, g["alpha0"], N, 0, n + 1, g["eps"], epns, g["eps"], epns, st0) for n in range(N)]
        pend.append((hs, snaps, g, case, N))
    outs = drv.run()
    for (hs, snaps, g, case, N) in pend:
        if len(snaps) != N + 1:
            ctx.violation("snapshots", f"{len(snaps)} snapshots for epoch list 0..{N}", case)
            continue
        for n, h in enumerate(hs):
            mH = parse_sgd(outs[h], g["nH"], g["nT"], g["dim"], len(g["eps"]))[0]
            d = float(np.max(np.abs(mH - snaps[n].astype(np.float64))))
            if d > TRAJ_TOL * max(1.0, float(np.max(np.abs(snaps[n])))):
                ctx.mismatch("sgd.trajectory", {"epoch": n, "max_diff": d}, case)
                break
        ctx.case(key=hash(str(case["H"]) + "traj"), nontrivial=True, part="trajectory", N=N)

    # ---- (iv) make_epochs_per_sample + pruning ----
    pend = []
    for t in range(200 if ctx.thorough else 40):
        m = int(rng.integers(1, 12))
        w = rng.uniform(0, 1, m)
        if rng.random() < 0.3:
            w[rng.integers(0, m)] = 0.0
        w = w.astype(np.float32)
        if w.max() == 0:
            continue
        ne = int(rng.choice([1, 5, 11, 30, 200, 500]))
        out = U.make_epochs_per_sample(w, ne)
        h = drv.add("eps", ne, m, *[f2b(x) for x in w])
        pend.append((h, out, {"weights": w.tolist(), "n_epochs": ne}))
        for i in range(m):
            want = float(w.max()) / float(w[i]) if w[i] > 0 else -1.0
            if not np.isclose(out[i], want, rtol=1e-5):
                ctx.violation("epochs-per-sample", f"weight {w[i]} (max {w.max()}): epochs_per_sample {out[i]} != w_max/w = {want}",
                              {"weights": w.tolist(), "n_epochs": ne})
                break
    outs = drv.run()
    for h, out, case in pend:
        model = np.array([b2f(x) for x in outs[h].split()])
        if not np.allclose(model, out, rtol=1e-6):
            ctx.mismatch("eps", {"impl": out.tolist(), "model": model.tolist()}, case)
        ctx.case(key="eps" + str(case), nontrivial=False, part="eps")

    # ---- (v) closed forms on the implementation: one attractive move, one repulsive move ----
    for t in range(300 if ctx.thorough else 60):
        dim = int(rng.integers(1, 4))
        a, b = [(1.5769, 0.8951), (1.0, 1.0), (0.3, 1.6)][int(rng.integers(0, 3))]
        x = (rng.normal(size=dim) * float(rng.choice([0.1, 1, 5]))).astype(np.float32)
        y = (rng.normal(size=dim) * float(rng.choice([0.1, 1, 5]))).astype(np.float32)
        alpha = float(rng.choice([1.0, 0.3]))
        gamma = float(rng.choice([0.5, 1.0, 3.0]))
        d2 = float(np.sum((x.astype(np.float64) - y.astype(np.float64)) ** 2))
        if d2 < 1e-6:
            continue
        d = np.sqrt(d2)
        # attractive only: negative-sample clock far in the future
        H = x.reshape(1, dim).copy()
        T = y.reshape(1, dim).copy()
        eps = np.array([1.0]); epns = np.array([1e9]); eons = eps.copy(); eonns = epns.copy()
        st = vertex_states(np.array([1, 2, 3], dtype=np.int64), H)
        call_kernel(L, H, T, np.array([0], dtype=np.int32), np.array([0], dtype=np.int32), 1, eps, a, b, st, gamma, False, alpha,
                    epns, eonns, eons, 1)
        coef = -2 * a * b * d ** (2 * b - 2) / (1 + a * d ** (2 * b))
        want = x.astype(np.float64) + np.clip(coef * (x.astype(np.float64) - y), -4, 4) * alpha
        case = {"x": x.tolist(), "y": y.tolist(), "a": a, "b": b, "alpha": alpha, "gamma": gamma}
        if np.max(np.abs(H[0] - want)) > 1e-4 * max(1, np.max(np.abs(want))):
            ctx.violation("attractive-coefficient", f"head moved to {H[0].tolist()}, closed form gives {want.tolist()}", case)
        # one repulsive move against the only reference vertex (n_vertices = 1)
        H = x.reshape(1, dim).copy()
        eps = np.array([1.0]); epns = np.array([1.0]); eons = np.array([1.0]); eonns = np.array([0.0])
        st = vertex_states(np.array([1, 2, 3], dtype=np.int64), H)
        T2 = np.vstack([y]).astype(np.float32)
        call_kernel(L, H, T2, np.array([0], dtype=np.int32), np.array([0], dtype=np.int32), 1, eps, a, b, st, gamma, False, alpha,
                    epns, eonns, eons, 1)
        cur = x.astype(np.float64) + np.clip(coef * (x.astype(np.float64) - y), -4, 4) * alpha
        dd2 = float(np.sum((cur - y) ** 2))
        if dd2 > 1e-6:
            rc = 2 * gamma * b / ((0.001 + dd2) * (1 + a * dd2 ** b))
            want2 = cur + np.clip(rc * (cur - y), -4, 4) * alpha
            if np.max(np.abs(H[0] - want2)) > 2e-4 * max(1, np.max(np.abs(want2))):
                ctx.violation("repulsive-coefficient", f"after one negative sample head is {H[0].tolist()}, closed form gives {want2.tolist()}", case)
        ctx.case(key="closed" + str(case), nontrivial=False, part="closed-form")

    # ---- generic kernel, one attractive visit with the tail moved too: both endpoints against the closed form computed from the
    #      positions *before* the visit (gamma = 0: the negative samples contribute nothing, so no random draw matters) ----
    import umap.distances as UD
    for t in range(120 if ctx.thorough else 30):
        dim = int(rng.integers(1, 4))
        a, b = [(1.5769, 0.8951), (1.0, 1.0), (0.3, 1.6)][int(rng.integers(0, 3))]
        scale = float(rng.choice([0.2, 0.6, 1.0, 3.0]))          # short edges overshoot at alpha = 1: the head ends beyond the tail
        x = (rng.normal(size=dim) * scale).astype(np.float32)
        y = (rng.normal(size=dim) * scale).astype(np.float32)
        dd = float(np.sqrt(np.sum((x.astype(np.float64) - y) ** 2)))
        if dd < 1e-3:
            continue
        alpha0 = 1.0
        H = np.vstack([x, y]).astype(np.float32)
        case = {"family": "generic-attractive-both-ends", "x": x.tolist(), "y": y.tolist(), "a": a, "b": b}
        try:
            out = L.optimize_layout_generic(H, H, np.array([0], dtype=np.int32), np.array([1], dtype=np.int32), 2, 2, np.array([1.0]), a, b,
                                            np.array([1, 2, 3], dtype=np.int64), 0.0, alpha0, 5.0,
                                            UD.named_distances_with_gradients["euclidean"], (), move_other=True)
        except Exception as e:  # noqa
            ctx.violation("exception", f"optimize_layout_generic raised {type(e).__name__}: {e}", case)
            continue
        out = np.asarray(out, dtype=np.float64)
        x64, y64 = x.astype(np.float64), y.astype(np.float64)
        wl = 1.0 / (1 + a * dd ** (2 * b))
        coef = 2 * b * (wl - 1) / (dd + 1e-6)
        g_head = (x64 - y64) / (1e-6 + dd)
        want_head = x64 + np.clip(coef * g_head, -4, 4) * alpha0
        want_tail = y64 + np.clip(coef * (-g_head), -4, 4) * alpha0
        tol = 2e-3 * max(1.0, float(np.max(np.abs(want_head))), float(np.max(np.abs(want_tail))))
        if np.max(np.abs(out[0] - want_head)) > tol:
            ctx.violation("generic-attractive", f"generic kernel, one visit: head moved to {out[0].tolist()}, closed form {want_head.tolist()}", case)
        elif np.max(np.abs(out[1] - want_tail)) > tol:
            ctx.violation("generic-attractive", f"generic kernel, one visit with move_other: tail moved to {out[1].tolist()}, the attractive step from the "
                                                f"positions before the visit gives {want_tail.tolist()}", case)
        ctx.case(key="genclosed" + str(case), nontrivial=False, part="generic-closed-form")

    # ---- generic-output-metric kernel: whole runs of optimize_layout_generic vs the model's genRunEpochs ----
    pend = []
    for t in range(120 if ctx.thorough else 24):
        g = random_graph(rng, dyadic=True)
        mname = ["euclidean", "manhattan", "chebyshev"][t % 3]
        N = int(rng.integers(1, 6))
        H = g["H"].copy()
        T = H if g["aliased"] else g["T"].copy()
        H0, T0 = H.copy(), T.copy()
        # keep away from kinks of the output metric's gradient (sign / argmax flips under float32 rounding)
        case = case_of(g, N=N, output_metric=mname)
        st0 = vertex_states(g["rs"], H0)
        epns = g["eps"] / g["rate"]
        try:
            out = L.optimize_layout_generic(H, T, g["hd"], g["tl"], N, g["nV"], g["eps"].copy(), g["a"], g["b"], g["rs"].copy(), g["gamma"],
                                            g["alpha0"], g["rate"], UD.named_distances_with_gradients[mname], (), move_other=g["move_other"])
        except Exception as e:  # noqa
            ctx.violation("exception", f"optimize_layout_generic raised {type(e).__name__}: {e}", case)
            continue
        if not g["aliased"] and not g["move_other"] and not np.array_equal(T, T0):
            ctx.violation("frozen-reference", f"optimize_layout_generic ({mname}) moved the reference layout (move_other=False)", case)
        toks = ["sgdgen", mname, int(g["aliased"]), int(g["move_other"]), g["dim"], g["nV"], g["nH"], g["nT"], len(g["hd"]), f2b(g["a"]),
                f2b(g["b"]), f2b(g["gamma"]), f2b(g["alpha0"]), N]
        toks += [f2b(v) for v in H0.ravel()] + [f2b(v) for v in T0.ravel()] + [int(v) for v in g["hd"]] + [int(v) for v in g["tl"]]
        toks += [f2b(v) for v in g["eps"]] + [f2b(v) for v in epns] + [int(v) for v in st0.ravel()]
        pend.append((drv.add(*toks), np.asarray(out).copy(), g, case, mname))
    outs = drv.run()
    for h, out, g, case, mname in pend:
        t_ = outs[h].split()
        mH = np.array([b2f(x) for x in t_[: g["nH"] * g["dim"]]]).reshape(g["nH"], g["dim"])
        d = float(np.max(np.abs(mH - out.astype(np.float64))))
        if d > 5e-3 * max(1.0, float(np.max(np.abs(out)))):
            if mname != "euclidean":
                ctx.skip("generic kernel: non-smooth output metric, trajectory diverged (sign / argmax flip under rounding)")
            else:
                ctx.mismatch("sgdgen", {"max_diff": d, "output_metric": mname}, case)
        ctx.case(key="gen" + str(case["H"]) + mname, nontrivial=True, part="generic", output_metric=mname)

    # ---- "embedding new points against a fixed reference layout": UMAP.transform end to end, for every optimiser it can dispatch to ----
    # a harness-side wrapper (no change to /repo) records the reference layout handed to the optimiser and checks it afterwards
    import umap
    import umap.umap_ as UU
    Xr, _ = gen.dataset(rng, 70, 4, kind="clusters")
    # new points close to one training sample and far from the rest of their neighbourhood: strong and very weak edges together
    Xn = np.vstack([(Xr[:12] + 0.07 * rng.normal(size=(12, 4))), Xr[12:18] + 1e-4]).astype(np.float32)
    for om in (["euclidean", "haversine", "manhattan", "hyperboloid"] if ctx.thorough else ["euclidean", "haversine", "manhattan"]):
        case = {"family": "transform-reference", "output_metric": om}
        seen = []
        sched = []
        orig = {nm: getattr(UU, nm) for nm in ("optimize_layout_euclidean", "optimize_layout_generic")}

        def wrap(nm):
            def w(head, tail, *a, **kw):
                t0 = np.array(tail, copy=True)
                # positional layout of both optimisers: (head, tail, head_idx, tail_idx, n_epochs, n_vertices, epochs_per_sample, ...)
                sched.append((np.array(a[4], dtype=np.float64, copy=True), a[2]))
                out = orig[nm](head, tail, *a, **kw)
                seen.append((nm, head is tail, bool(np.array_equal(t0, tail, equal_nan=True)), float(np.nanmax(np.abs(t0 - tail))) if t0.shape == tail.shape else -1.0))
                return out
            return w
        try:
            # many neighbours and a long schedule: a new point next to one training sample has edges far below w_max / n_epochs
            m = umap.UMAP(n_neighbors=25 if om == "euclidean" else 7, n_epochs=240 if om == "euclidean" else 30, random_state=11,
                          output_metric=om).fit(Xr)
            emb0 = m.embedding_.copy()
            for nm in orig:
                setattr(UU, nm, wrap(nm))
            try:
                out = m.transform(Xn)
            finally:
                for nm in orig:
                    setattr(UU, nm, orig[nm])
        except Exception as e:  # noqa
            ctx.violation("exception", f"fit/transform with output_metric={om} raised {type(e).__name__}: {e}", case)
            continue
        for nm, aliased, same, dmax in seen:
            if not aliased and not same:
                ctx.violation("frozen-reference", f"transform (output_metric={om}): {nm} moved the reference layout it was given by up to {dmax}", case)
        if not np.array_equal(m.embedding_, emb0, equal_nan=True):
            ctx.violation("frozen-reference", f"transform (output_metric={om}) changed embedding_", case)
        ctx.bin("transform_weak_edges_seen", bool(any(len(e_) and float(np.max(e_)) > n_ for e_, n_ in sched if isinstance(n_, (int, float)))))
        for eps_, ne_ in sched:
            # an edge handed to the scheduler is due when its clock <= epoch: a non-positive period (the -1 the schedule builder gives
            # a zero weight) means "used in every epoch" — exactly the edges that must never be used
            if len(eps_) and float(np.min(eps_)) < 1.0:
                ctx.violation("pruned-edge-scheduled", f"transform (output_metric={om}) hands {int((eps_ < 1.0).sum())} edge(s) with period "
                                                       f"{float(np.min(eps_))} (< 1) to the optimiser: edges weaker than w_max/n_epochs would be used "
                                                       f"in every epoch", case)
        ctx.case(key="tref" + om, nontrivial=bool(seen), part="transform-reference", output_metric=om, optimiser=seen[0][0] if seen else "none")
    # ---- the scheduling stage of a real fit (prune -> eliminate_zeros -> make_epochs_per_sample) vs Schedule.schedule ----
    sched_pend = []
    for t in range(6 if ctx.thorough else 2):
        Xq, _ = gen.dataset(rng, int(rng.integers(60, 120)), 4, kind="clusters")
        ne = int(rng.choice([11, 30, 100]))
        rec_ = []
        orig_m = UU.make_epochs_per_sample

        def wrap_m(weights, n_epochs):
            out = orig_m(weights, n_epochs)
            rec_.append((np.array(weights, dtype=np.float64, copy=True), n_epochs, np.array(out, dtype=np.float64, copy=True)))
            return out
        UU.make_epochs_per_sample = wrap_m
        try:
            mq = umap.UMAP(n_neighbors=int(rng.integers(8, 25)), n_epochs=ne, random_state=2, set_op_mix_ratio=float(rng.choice([1.0, 0.3])),
                           init="random").fit(Xq)
        except Exception as e:  # noqa
            ctx.violation("exception", f"fit raised {type(e).__name__}: {e}", {"family": "schedule", "n_epochs": ne})
            continue
        finally:
            UU.make_epochs_per_sample = orig_m
        gq = mq.graph_.tocoo(copy=True)
        gq.sum_duplicates()
        ws = gq.data.astype(np.float64)
        thr = float(np.float32(gq.data.max()) / np.float32(ne))
        case = {"family": "schedule", "n_epochs": ne, "edges": int(len(ws))}
        if not rec_:
            ctx.mismatch("schedule", "make_epochs_per_sample was not reached through umap.umap_", case)
            continue
        if np.any(np.abs(ws - thr) < 1e-6 * thr):
            ctx.skip("a weight within float32 rounding of the pruning threshold")
            continue
        w_in, n_in, eps_out = rec_[0]
        # clause on the implementation: what reaches the scheduler is exactly the edges at or above w_max / n_epochs, each with period w_max / w
        if n_in != ne or len(w_in) != int((ws >= thr).sum()) or float(np.min(eps_out)) < 1.0 or float(np.max(eps_out)) > ne * (1 + 1e-5):
            ctx.violation("schedule", f"fit hands {len(w_in)} edges with periods in [{float(np.min(eps_out))}, {float(np.max(eps_out))}] to the optimiser; "
                                      f"{int((ws >= thr).sum())} edges are at or above w_max/n_epochs (n_epochs = {ne})", case)
        sched_pend.append((drv.add("schedule", ne, len(ws), *[f2b(float(v)) for v in ws]), eps_out, case))
        ctx.case(key="sched" + str(ws[:5].tolist()) + str(ne), nontrivial=bool((ws < thr).any()), part="schedule", n_epochs=ne)

    if sched_pend:
        souts = drv.run()
        for h_, eps_out, case in sched_pend:
            mo = np.array([b2f(x) for x in souts[h_].split()])
            if mo.shape != eps_out.shape or np.max(np.abs(mo - eps_out) / np.maximum(1.0, np.abs(eps_out))) > 1e-5:
                ctx.mismatch("schedule", {"impl_len": int(len(eps_out)), "model_len": int(len(mo)),
                                          "max_rel_diff": float(np.max(np.abs(mo - eps_out) / np.maximum(1.0, np.abs(eps_out)))) if mo.shape == eps_out.shape else -1.0}, case)
    # the kernels' documented default is a fixed reference: calls that rely on it
    for t in range(4):
        g = random_graph(rng, dyadic=True)
        if g["aliased"]:
            continue
        H, T = g["H"].copy(), g["T"].copy()
        T0 = T.copy()
        case = case_of(g, N=3, family="default-move_other")
        try:
            if t % 2 == 0:
                L.optimize_layout_euclidean(H, T, g["hd"], g["tl"], 3, g["nV"], g["eps"].copy(), g["a"], g["b"], g["rs"].copy(), g["gamma"],
                                            g["alpha0"], g["rate"])
            else:
                L.optimize_layout_generic(H, T, g["hd"], g["tl"], 3, g["nV"], g["eps"].copy(), g["a"], g["b"], g["rs"].copy(), g["gamma"],
                                          g["alpha0"], g["rate"], UD.named_distances_with_gradients["euclidean"], ())
        except Exception as e:  # noqa
            ctx.violation("exception", f"kernel call with default move_other raised {type(e).__name__}: {e}", case)
            continue
        if not np.array_equal(T, T0):
            ctx.violation("frozen-reference", "a kernel called with separate head / reference layouts and the default move_other moved the reference", case)
        ctx.case(key="defmo" + str(case["H"]), nontrivial=True, part="default-move_other")

    # ---- parametric variant: each edge replicated int(n_epochs * w) times, pruned edges never (function extracted by AST) ----
    try:
        import corpus
        import scipy.sparse
        gge = corpus.get_graph_elements_fn()
    except Exception as e:  # noqa
        gge = None
        ctx.skip(f"get_graph_elements could not be extracted: {type(e).__name__}")
    if gge is not None:
        pend = []
        for t in range(100 if ctx.thorough else 20):
            nv = int(rng.integers(3, 12))
            ne = int(rng.choice([5, 11, 50, 200]))
            G = scipy.sparse.random(nv, nv, 0.5, format="csr", dtype=np.float32, random_state=int(rng.integers(0, 10 ** 6)))
            if G.nnz == 0:
                continue
            G.data = rng.uniform(0.0005, 1.0, G.nnz).astype(np.float32)
            G.data[int(rng.integers(0, G.nnz))] = 1.0
            g0 = G.copy()
            graph, eps_, hd_, tl_, w_, nvert = gge(G, ne)
            case = {"n_epochs": ne, "weights": g0.tocoo().data.tolist()}
            reps = np.array([int(x) for x in eps_])
            for wv, rp in zip(w_, reps):
                if abs(rp - int(ne * float(wv))) > 0:
                    ctx.violation("parametric-repeats", f"edge of weight {wv}: {rp} repeats, expected int(n_epochs*w) = {int(ne * float(wv))}", case)
                    break
            if np.any(w_ < g0.data.max() / ne):
                ctx.violation("parametric-prune", "an edge weaker than w_max / n_epochs is kept by get_graph_elements", case)
            c0 = g0.tocoo()
            c0.sum_duplicates()
            h = drv.add("prepeats", ne, len(c0.data), *[f2b(float(x)) for x in c0.data])
            kept = [int(ne * float(x)) for x in c0.data if not x < c0.data.max() / float(ne)]
            pend.append((h, kept, case))
            ctx.case(key="param" + str(case), nontrivial=False, part="parametric")
        outs = drv.run()
        for h, kept, case in pend:
            model = [int(x) for x in outs[h].split()]
            if [m for m in model if m > 0] != [k for k in kept if k > 0]:
                ctx.mismatch("parametric-repeats", {"model": model, "impl": kept}, case)

    # ---- transform() never moves the reference layout (C07 e through the public API) ----
    import umap
    X = rng.normal(size=(50, 4)).astype(np.float32)
    for om in (["euclidean"] if not ctx.thorough else ["euclidean", "manhattan"]):
        m = umap.UMAP(n_neighbors=6, random_state=3, n_epochs=20, output_metric=om).fit(X)
        e0 = m.embedding_.copy()
        m.transform((X[:9] + 0.1).astype(np.float32))
        if not np.array_equal(e0, m.embedding_):
            ctx.violation("frozen-reference", f"transform moved the training embedding (output_metric={om})", {"output_metric": om})
        ctx.case(key="transform-frozen" + om, nontrivial=False, part="transform")
