"""C01 — every point's fuzzy neighbourhood is calibrated and locally connected."""
import numpy as np

import gen
import regen as regen_mod
from common import Driver, f2b, dist_tok, ext_parse, close, parse_coo

MEM_TOL = 2e-4       # memberships: model (float64 search) vs implementation (float32 search)
SUM_TOL = 1e-3       # the property's own tolerance on the total
SCALE_TOL = 1e-3     # memberships under rescaling of the distances



REGEN = ("constants", "registry", "umapsrc")

def psum64(dists, rho, sigma):
    d = dists[1:].astype(np.float64) - float(rho)
    with np.errstate(over="ignore", invalid="ignore", divide="ignore"):
        t = np.where(d > 0, np.exp(-(d / sigma)), 1.0)
    return float(np.sum(t))


def memberships(U, idx, dist, k, lc, bipartite=False):
    sig, rho = U.smooth_knn_dist(dist, float(k), local_connectivity=float(lc))
    rows, cols, vals, _ = U.compute_membership_strengths(idx.astype(np.int32), dist, sig, rho, False, bipartite)
    return sig, rho, vals.reshape(idx.shape)


def oracle(ctx, U, idx, dist, k, lc, case, sig, rho, vals):
    """clauses (a)-(d) on the implementation's own output for one table"""
    n, kk = dist.shape
    li, lf = gen.lc_split(lc)
    target = np.log2(k)
    fin = dist[np.isfinite(dist)]
    gmean = float(np.mean(fin)) if fin.size else 0.0
    for i in range(n):
        row = dist[i]
        s = float(sig[i])
        # (d)
        if not np.isfinite(s) or not s > 0:
            ctx.violation("sigma-finite-positive", f"row {i}: sigma = {s}", case)
            return
        rf = row[np.isfinite(row)]
        rmean = float(np.mean(rf)) if rf.size else 0.0
        if s < 1e-3 * rmean * (1 - 1e-5) and rho[i] > 0:
            ctx.violation("sigma-floor", f"row {i}: sigma = {s} < 1e-3 * mean finite distance {rmean}", case)
            return
        if not rho[i] > 0 and s < 1e-3 * gmean * (1 - 1e-5):
            ctx.violation("sigma-floor", f"row {i}: sigma = {s} < 1e-3 * global mean finite distance {gmean}", case)
            return
        if np.isnan(rho[i]):
            ctx.skip("oracle: NaN rho (0*inf / inf-inf), strengths undefined under fastmath")
            continue
        v = vals[i]
        valid = idx[i] >= 0
        nonself = valid & (idx[i] != i)
        if np.any(~np.isfinite(v[nonself])):
            ctx.violation("strength-finite", f"row {i}: non-finite strength {v.tolist()}", case)
            return
        # (a) zero-distance neighbours and the floor(lc) nearest non-zero ones have strength exactly 1
        nzpos = [j for j in range(kk) if row[j] > 0]
        full = [j for j in range(kk) if row[j] == 0 and nonself[j]]
        # (with fewer than lc distinct neighbours available, all of them)
        full += [j for j in nzpos[:li] if nonself[j] and np.isfinite(row[j])]
        for j in full:
            if v[j] != 1.0:
                ctx.violation("local-connectivity", f"row {i} col {j} (dist {row[j]}): strength {v[j]} != 1", case)
                return
        # (b) non-increasing in distance
        order = [j for j in range(kk) if nonself[j] and np.isfinite(row[j])]
        for a, b in zip(order, order[1:]):
            if row[a] <= row[b] and v[b] > v[a] + 1e-7:
                ctx.violation("monotone", f"row {i}: strength rises from {v[a]} (d={row[a]}) to {v[b]} (d={row[b]})", case)
                return
        # (c) calibrated total whenever achievable at or above the floor
        if np.isfinite(rho[i]) and kk > 1:
            floor = 1e-3 * (rmean if rho[i] > 0 else gmean)
            lo = psum64(row, rho[i], max(floor, 1e-300))
            hi = psum64(row, rho[i], 2.0 ** 60)
            if lo <= target - 2e-3 and hi >= target + 2e-3:
                # the search counts columns 1.. (column 0 is the sample itself)
                tot = psum64(row, rho[i], s)
                if abs(tot - target) > SUM_TOL:
                    ctx.violation("calibration", f"row {i}: total {tot} vs log2(k) = {target} (sigma {s}, rho {rho[i]})", case)
                    return
                ctx.bin("calibration_premise", "achievable")
            else:
                ctx.bin("calibration_premise", "not-achievable")


def run(ctx):
    import srcval as _srcval2
    _srcval2.validate_umap(ctx, 200 if ctx.thorough else 40, ctx.rng, only="compute_membership_strengths")   # translated kernel vs the Python source
    import srcval as _srcval
    _srcval.validate_umap(ctx, 200 if ctx.thorough else 40, ctx.rng, only="_finite_mean")     # translated `_finite_mean` vs the Python source
    import umap.umap_ as U
    rng = ctx.rng
    ctx.rule = ("random valid kNN distance tables (uniform / clustered / tied / zero-distance duplicates, optional inf "
                "tails), k in 2..40, local_connectivity in {0,.5,1,1.5,2,3.7,k-1}, scale decades 1e-4..1e6; "
                "non-trivial = some row's bandwidth is above its floor and its strengths are not all equal; distinct by content hash")
    ctx.assumptions += ["float32 rounding and fastmath re-association in the kernels are not modelled: memberships compared at abs 2e-4",
                        "rows whose rho is NaN (0*inf or inf-inf: lc with a fractional/zero part meeting an inf entry) have "
                        "strengths that are undefined under fastmath; they are checked for clause (d) only"]
    drv = Driver()
    pend = []
    ncases = 1500 if ctx.thorough else 160
    lcs = [0.0, 0.5, 1.0, 1.0, 1.0, 1.5, 2.0, 3.7]
    for t in range(ncases):
        n = int(rng.integers(1, 12))
        k = int(rng.choice([2, 3, 4, 5, 8, 15, 30, 40]))
        lc = float(rng.choice(lcs + [k - 1.0]))
        lc = float(min(lc, k - 1.0))
        if k == 2:
            lc = float(rng.choice([0.0, 0.5, 1.0]))
        decade = int(rng.integers(-4, 7))
        scale = float(10.0 ** decade) * float(rng.uniform(1, 9.9))
        nn = max(n, k + 1)
        idx, dist, kind = gen.knn_table(rng, nn, k, scale=scale, inf_frac=float(rng.choice([0, 0, 0.25])))
        idx, dist = idx[:n], dist[:n]
        case = {"k": k, "lc": lc, "scale": scale, "kind": str(kind), "knn_dists": dist.tolist(), "knn_indices": idx.tolist()}
        try:
            sig, rho, vals = memberships(U, idx, dist, k, lc)
        except Exception as e:  # noqa
            ctx.violation("exception", f"smooth_knn_dist/compute_membership_strengths raised {type(e).__name__}: {e}", case)
            continue
        oracle(ctx, U, idx, dist, k, lc, case, sig, rho, vals)
        # (e) scale invariance on the implementation
        c = float(rng.choice([1e-3, 0.1, 7.0, 250.0]))
        if 1e-4 <= scale * c <= 1e7:
            sig2, rho2, vals2 = memberships(U, idx, (dist * np.float32(c)).astype(np.float32), k, lc)
            ok = idx >= 0
            fin = np.isfinite(vals) & np.isfinite(vals2)
            if not np.any(np.isnan(rho)) and np.any(np.abs(vals[ok & fin] - vals2[ok & fin]) > SCALE_TOL):
                j = np.argmax(np.where(ok & fin, np.abs(vals - vals2), 0))
                ctx.violation("scale-invariance", f"strength {vals.ravel()[j]} becomes {vals2.ravel()[j]} when distances are multiplied by {c}",
                              dict(case, factor=c))
        li, lf = gen.lc_split(lc)
        toks = ["knn", f2b(np.log2(k)), li, f2b(lf), 64, n, k] + [dist_tok(v) for v in dist.ravel()]
        h1 = drv.add(*toks)
        pend.append((h1, case, idx, dist, sig, rho, vals, k, lc, decade))
    outs = drv.run()
    drv2 = Driver()
    pend2 = []
    for (h1, case, idx, dist, sig, rho, vals, k, lc, decade) in pend:
        t = outs[h1].split()
        n = dist.shape[0]
        msig = np.array([ext_parse(t[2 * i]) for i in range(n)])
        mrho = np.array([ext_parse(t[2 * i + 1]) for i in range(n)])
        nontrivial = False
        bad = False
        for i in range(n):
            if gen.lc_split(lc)[0] == 0 and not np.any(dist[i] > 0):
                # the code reads non_zero_dists[0] of an empty array here (unchecked in numba): rho is
                # 0 * <whatever is in memory> = 0 or NaN; not an observable of the property
                ctx.skip("corr: rho of an all-zero row with lc < 1 (out-of-bounds read in the implementation)")
                continue
            if not close(mrho[i], float(rho[i]), rtol=2e-6, atol=1e-30):
                ctx.mismatch("knn.rho", {"row": i, "impl": float(rho[i]), "model": float(mrho[i])}, case)
                bad = True
                break
        if bad:
            continue
        # memberships of the model's own (sigma, rho) vs the implementation's, per entry
        toks = ["members", 0, n, k] + [str(int(v)) for v in idx.ravel()] + [dist_tok(v) for v in dist.ravel()]
        toks += [f2b(v) for v in msig] + [("nan" if np.isnan(v) else dist_tok(v)) for v in mrho]
        h2 = drv2.add(*toks)
        rf = [dist[i][np.isfinite(dist[i])] for i in range(n)]
        for i in range(n):
            fl = 1e-3 * (float(np.mean(rf[i])) if rf[i].size else 0.0)
            if float(sig[i]) > fl * 1.01 and len(set(np.round(vals[i][idx[i] >= 0], 6).tolist())) > 2:
                nontrivial = True
        pend2.append((h2, case, idx, dist, sig, rho, vals, nontrivial, decade, msig))
    outs2 = drv2.run()
    for (h2, case, idx, dist, sig, rho, vals, nontrivial, decade, msig) in pend2:
        n, k = dist.shape
        if np.any(np.isnan(rho)):
            ctx.skip("corr: NaN rho row (undefined under fastmath)")
        else:
            model = parse_coo(outs2[h2])
            if model is None:
                ctx.mismatch("members", "model produced a NaN strength", case)
            else:
                impl = {}
                for i in range(n):
                    for j in range(k):
                        c = int(idx[i, j])
                        if c >= 0 and vals[i, j] != 0:
                            impl[(i, c)] = impl.get((i, c), 0.0) + float(vals[i, j])
                for key in set(impl) | set(model):
                    a, b = impl.get(key, 0.0), model.get(key, 0.0)
                    if max(abs(a), abs(b)) < 1e-30 and (key not in impl or key not in model):
                        continue
                    if not close(a, b, atol=MEM_TOL):
                        ctx.mismatch("members", {"entry": key, "impl": a, "model": b,
                                                 "sigma_impl": float(sig[key[0]]), "sigma_model": float(msig[key[0]])}, case)
                        break
        ctx.case(key=hash(str(case["knn_dists"]) + str(case["lc"])), nontrivial=nontrivial,
                 sample={"k": case["k"], "lc": case["lc"], "scale": case["scale"], "kind": case["kind"],
                         "first_row": case["knn_dists"][0] if case["knn_dists"] else []},
                 kind=case["kind"], lc=case["lc"], k=case["k"], scale_decade=decade,
                 has_inf=bool(np.isinf(dist).any()))

    # transform-style (bipartite) tables: no self column, local_connectivity - 1
    nb = 60 if ctx.thorough else 12
    for t in range(nb):
        n = int(rng.integers(2, 8))
        k = int(rng.choice([3, 5, 10]))
        scale = float(10.0 ** rng.integers(-3, 5))
        d = np.sort(rng.uniform(0.01, 1.0, size=(n, k)), axis=1).astype(np.float32) * np.float32(scale)
        idx = np.stack([rng.choice(50, k, replace=False) for _ in range(n)])
        case = {"bipartite": True, "k": k, "lc": 0.0, "knn_dists": d.tolist()}
        sig, rho, vals = memberships(U, idx, d, k, 0.0, bipartite=True)
        for i in range(n):
            if not (np.isfinite(sig[i]) and sig[i] > 0):
                ctx.violation("sigma-finite-positive", f"bipartite row {i}: sigma={sig[i]}", case)
            if np.any(np.diff(vals[i]) > 1e-7):
                ctx.violation("monotone", f"bipartite row {i}: strengths {vals[i].tolist()} not non-increasing", case)
        ctx.case(key=hash(str(case["knn_dists"])), nontrivial=True, bipartite=True)
