"""C19 — AlignedUMAP relates consecutive datasets consistently in both directions."""
import itertools

import numpy as np

from common import Driver


def injective_partial_maps(n):
    """all injective partial maps {0..n-1} -> {0..n-1} as dicts, the empty one (two consecutive datasets that share
    no sample) included"""
    out = []
    for r in range(0, n + 1):
        for keys in itertools.combinations(range(n), r):
            for vals in itertools.permutations(range(n), r):
                out.append(dict(zip(keys, vals)))
    return out


def rel_line(drv, dicts, w, maxn, pinned=0):
    toks = ["relations", pinned, w, maxn, len(dicts)]
    for d in dicts:
        toks.append(len(d))
        for k, v in reversed(list(d.items())):
            toks += [k, v]
    return drv.add(*toks)


def compose(dicts, k):
    for d in dicts:
        if k == -1:
            return -1
        k = d.get(k, -1)
    return k


def oracle(ctx, dicts, w, T, case):
    """the property's clauses on the real tensor"""
    L = len(dicts)
    maxn = T.shape[2]
    inv = [{v: k for k, v in d.items()} for d in dicts]
    for i in range(L + 1):
        for j in range(w):
            for k in range(maxn):
                # forward: follow relations i .. i+j
                if i + j + 1 <= L:
                    want = compose(dicts[i:i + j + 1], k)
                    got = int(T[i, w + j + 1, k])
                    if got != want:
                        ctx.violation("forward-composition", f"dataset {i} offset +{j + 1} sample {k}: tensor {got}, composition {want}", case)
                        return
                    if want >= 0 and int(T[i + j + 1, w - j - 1, want]) != k:
                        ctx.violation("adjoint", f"{k}@{i} -> {want}@{i + j + 1} forward but backward entry is {int(T[i + j + 1, w - j - 1, want])}", case)
                        return
                else:
                    if int(T[i, w + j + 1, k]) != -1:
                        ctx.violation("forward-range", f"dataset {i} offset +{j + 1} beyond the last dataset is {int(T[i, w + j + 1, k])}", case)
                        return
                # backward: follow inverses of relations i-1 .. i-j-1
                if i - j - 1 >= 0:
                    want = compose([inv[t] for t in range(i - 1, i - j - 2, -1)], k)
                    got = int(T[i, w - j - 1, k])
                    if got != want:
                        ctx.violation("backward-composition", f"dataset {i} offset -{j + 1} sample {k}: tensor {got}, composition {want}", case)
                        return
                else:
                    if int(T[i, w - j - 1, k]) != -1:
                        ctx.violation("backward-range", f"dataset {i} offset -{j + 1} before the first dataset is {int(T[i, w - j - 1, k])}", case)
                        return


def run(ctx):
    from umap.aligned_umap import expand_relations, procrustes_align
    rng = ctx.rng
    maps = injective_partial_maps(3)
    ctx.rule = ("exhaustive: every sequence of 1..2 (quick) / 1..3 (thorough) injective partial relation dicts (the empty one included) on <=3 samples "
                "x window 1..2 (whole tensor compared exactly with the Lean model and with an independent composition); plus random larger "
                "instances (<=6 datasets, <=8 samples, window<=4); non-trivial = some forward relation reaches the last dataset through >=2 dicts")
    drv = Driver()
    pend = []
    maxlen = 3 if ctx.thorough else 2
    for L in range(1, maxlen + 1):
        for dicts in itertools.product(maps, repeat=L):
            for w in (1, 2):
                dicts = list(dicts)
                try:
                    T = expand_relations(dicts, w, 3)
                except Exception as e:  # noqa
                    ctx.violation("exception", f"expand_relations raised {type(e).__name__}: {e}",
                                  {"relation_dicts": [{str(k): v for k, v in d.items()} for d in dicts], "window": w},
                                  key="C19:expand_relations-exception")
                    continue
                maxn = T.shape[2]
                h = rel_line(drv, dicts, w, maxn)
                pend.append((h, dicts, w, T))
    nrand = 2000 if ctx.thorough else 200
    for t in range(nrand):
        L = int(rng.integers(1, 6))
        ns = int(rng.integers(2, 9))
        w = int(rng.integers(1, 5))
        dicts = []
        for _ in range(L):
            r = int(rng.integers(0 if rng.random() < 0.2 else 1, ns + 1))
            keys = rng.choice(ns, r, replace=False)
            vals = rng.choice(ns, r, replace=False)
            dicts.append({int(a): int(b) for a, b in zip(keys, vals)})
        try:
            T = expand_relations(dicts, w, ns)
        except Exception as e:  # noqa
            ctx.violation("exception", f"expand_relations raised {type(e).__name__}: {e}",
                          {"relation_dicts": [{str(k): v for k, v in d.items()} for d in dicts], "window": w},
                          key="C19:expand_relations-exception")
            continue
        h = rel_line(drv, dicts, w, T.shape[2])
        pend.append((h, dicts, w, T))
    outs = drv.run()
    for (h, dicts, w, T) in pend:
        case = {"relation_dicts": [{str(k): v for k, v in d.items()} for d in dicts], "window": w}
        model = np.array([int(x) for x in outs[h].split()]).reshape(T.shape) if outs[h].strip() else np.zeros(T.shape)
        if T.shape != (len(dicts) + 1, 2 * w + 1, T.shape[2]):
            ctx.violation("shape", f"tensor shape {T.shape}", case)
        if not np.array_equal(model, T):
            pos = np.argwhere(model != T)[0].tolist()
            ctx.mismatch("relations", {"at": pos, "impl": int(T[tuple(pos)]), "model": int(model[tuple(pos)])}, case)
        oracle(ctx, dicts, w, T, case)
        L = len(dicts)
        nt = L >= 2 and any(compose(dicts[L - 2:], k) >= 0 for k in range(T.shape[2]))
        ctx.case(key=str(case), nontrivial=nt, sample=case, n_dicts=L, window=w)
    ctx.exhaustive = True

    # rigidity of the pre-alignment
    nal = 200 if ctx.thorough else 40
    for t in range(nal):
        n = int(rng.integers(4, 30))
        d = int(rng.integers(1, 4))
        A = rng.normal(size=(n, d)).astype(np.float32)
        B = rng.normal(size=(n, d)).astype(np.float32)
        if t % 3 == 0:      # exactly representable coordinates (singular cross-covariances are then exactly singular)
            A = rng.integers(-4, 5, size=(n, d)).astype(np.float32)
            B = rng.integers(-4, 5, size=(n, d)).astype(np.float32)
        # any number of anchors, including fewer than the dimension (rank-deficient cross-covariance)
        m = int(rng.integers(1, n + 1)) if t % 2 == 0 else int(rng.integers(1, d + 1))
        anchors = np.stack([rng.choice(n, m, replace=False), rng.choice(n, m, replace=False)])
        out = procrustes_align(A, B, anchors)
        from scipy.spatial.distance import pdist
        case = {"n": n, "d": d, "anchors": anchors.tolist()}
        if out.shape != B.shape or not np.all(np.isfinite(out)):
            ctx.violation("procrustes-shape", f"output shape {out.shape}", case)
        elif n > 1 and np.max(np.abs(pdist(out) - pdist(B))) > 1e-4 * max(1.0, float(np.max(pdist(B)))):
            ctx.violation("procrustes-rigid", f"pairwise distances change by {np.max(np.abs(pdist(out) - pdist(B)))}", case)
        ctx.case(key="procrustes" + str(case), nontrivial=False, procrustes=True)

    # AlignedUMAP.fit on small inputs: shapes, finiteness, and the anchors handed to the rigid pre-alignment
    # (recorded by a harness-side wrapper): dataset i is aligned onto dataset i-1 through exactly the pairs of relation i-1,
    # whatever window the constructor or the fit call names, and also when a relation is empty
    import umap
    import umap.aligned_umap as AU
    nfit = 6 if ctx.thorough else 3
    for t in range(nfit):
        nd = int(rng.integers(2, 4)) if t else 3
        n = 40
        base = rng.normal(size=(n + 10 * nd, 4)).astype(np.float32)
        Xs = [base[10 * i: 10 * i + n] + 0.01 * rng.normal(size=(n, 4)).astype(np.float32) for i in range(nd)]
        rels = [{j + 10: j for j in range(n - 10)} for _ in range(nd - 1)]
        if t == 1:
            rels[-1] = {}                      # no shared sample between the last two datasets
        nc = int(rng.choice([2, 3]))
        cw = int(rng.integers(1, 4))
        fw = [None, 1, 2, 4][t % 4] if t != 0 else (2 if cw != 2 else 4)       # a window given to fit that differs from the constructor's
        case = {"n_datasets": nd, "n": n, "n_components": nc, "alignment_window_size": cw, "fit_window_size": fw,
                "empty_relation": t == 1}
        seen = []
        orig = AU.procrustes_align

        def spy(a, b, anchors, _orig=orig):
            seen.append(np.asarray(anchors).copy())
            return _orig(a, b, anchors)
        AU.procrustes_align = spy
        try:
            kw = {} if fw is None else {"window_size": fw}
            m = umap.AlignedUMAP(n_neighbors=5, n_components=nc, n_epochs=20, random_state=3,
                                 alignment_window_size=cw).fit(Xs, relations=rels, **kw)
            for e in m.embeddings_:
                if e.shape != (n, nc) or not np.all(np.isfinite(e)):
                    ctx.violation("fit-embeddings", f"embedding shape {e.shape}, finite={bool(np.all(np.isfinite(e)))}", case)
            if len(seen) != nd - 1:
                ctx.violation("fit-prealignment", f"{len(seen)} pre-alignments for {nd} datasets", case)
            for i_, an in enumerate(seen):
                got = sorted(zip(an[0].tolist(), an[1].tolist()))
                want = sorted((k, v) for k, v in rels[i_].items())        # (sample of dataset i, its partner in dataset i+1)
                if got != want:
                    ctx.violation("fit-prealignment", f"dataset {i_ + 1} is pre-aligned onto dataset {i_} through {len(got)} anchor pairs "
                                                      f"that are not relation {i_} ({len(want)} pairs); first differing: "
                                                      f"{(got or [None])[0]} vs {(want or [None])[0]}", case)
                    break
        except Exception as e:  # noqa
            ctx.violation("fit-exception", f"AlignedUMAP.fit raised {type(e).__name__}: {e}", case)
        finally:
            AU.procrustes_align = orig
        ctx.case(key="fit" + str(case), nontrivial=False, aligned_fit=True)
