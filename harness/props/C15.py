"""C15 — spectral initialisation returns the low-frequency Laplacian eigenvectors."""
import warnings

import numpy as np
import scipy.sparse
import scipy.sparse.csgraph

import gen
from common import Driver, f2b, coo_tokens, parse_coo, sparse_to_dict, close


class RecordEigsh:
    """harness-side wrapper: records the matrix and k that spectral.py hands to the eigen-solver, and what comes back"""

    def __init__(self):
        self.calls = []

    def __enter__(self):
        import umap.spectral as S
        self.mod = S.scipy.sparse.linalg
        self.orig = self.mod.eigsh
        rec = self

        def wrapper(A, k=6, *a, **kw):
            out = rec.orig(A, k, *a, **kw)
            rec.calls.append({"L": scipy.sparse.csr_matrix(A).copy() if scipy.sparse.issparse(A) else np.array(A), "k": k,
                              "which": kw.get("which"), "values": np.array(out[0]), "vectors": np.array(out[1])})
            return out

        self.mod.eigsh = wrapper
        return self

    def __exit__(self, *a):
        self.mod.eigsh = self.orig
        return False


def connected_graph(rng, n, kind):
    import umap
    if kind == "umap":
        X, _ = gen.dataset(rng, n, 4, kind="gauss")
        g = umap.UMAP(n_neighbors=min(n - 1, int(rng.integers(4, 12))), n_epochs=0, init="random", random_state=1).fit(X).graph_
        return g.tocsr(), X
    if kind == "hub":
        # very uneven degrees: a few hubs joined to everybody, a sparse light path among the rest
        A = np.zeros((n, n))
        for i in range(n - 1):
            A[i, i + 1] = rng.uniform(0.01, 0.05)
        for h in range(max(1, n // 25)):
            A[h, h + 1:] = np.maximum(A[h, h + 1:], rng.uniform(0.5, 1.0, n - h - 1))
        A = np.triu(A, 1)
    else:
        A = np.triu((rng.random((n, n)) < 0.3) * rng.uniform(0.05, 1.0, (n, n)), 1)
    for i in range(n - 1):
        A[i, i + 1] = max(A[i, i + 1], rng.uniform(0.2, 1.0) if kind != "hub" else A[i, i + 1])      # a path keeps it connected
    A = A + A.T
    if rng.random() < 0.5:
        # self-weights: an arbitrary symmetric positive-weight graph may have a non-zero diagonal
        A[np.diag_indices(n)] = rng.uniform(0.1, 1.0, n) * (rng.random(n) < 0.7)
    # overall weight scale: the normalised Laplacian does not depend on it, so neither may the layout
    A = A * float(rng.choice([1.0, 1.0, 1e-3, 1e-2, 30.0]))
    return scipy.sparse.csr_matrix(A), rng.normal(size=(n, 3)).astype(np.float32)


def run(ctx):
    import umap.spectral as S
    warnings.filterwarnings("ignore")
    rng = ctx.rng
    ctx.rule = ("connected graphs from the graph stage and arbitrary symmetric positive graphs at overall weight scales 1e-3..30, hub graphs with very uneven degrees, and the smallest size n = dim + 2 (n 3..150, dim 1..10): the Laplacian handed "
                "to the eigen-solver (recorded by a harness-side wrapper) vs the Lean model's entries; a-posteriori eigen-check of the real "
                "output against dense eigh (residual, orthogonality to sqrt(deg), the (j+1)-th smallest eigenvalue), skipping eigengaps "
                "< 1e-4 (a solver fall-back to a random layout is checked like any other output); the model's argsort/selection vs numpy; disconnected graphs with component profiles "
                "{singletons, pairs, sizes < 2*dim, mixed}: shape, finiteness, every row assigned; non-trivial = dim >= 2 and n >= 10")
    ctx.assumptions += ["ARPACK / LOBPCG numerics are an assumed contract, validated per run by the residual check", "ties between eigenvalues are skipped"]
    drv = Driver()
    pend = []
    ncase = 150 if ctx.thorough else 24
    for t in range(ncase):
        n = int(rng.integers(6, 150 if ctx.thorough else 60))
        dim = int(rng.integers(1, 11))
        kind = "umap" if t % 2 == 0 else "random"
        if t % 6 == 3:
            kind, n, dim = "hub", int(rng.integers(30, 80)), int(rng.integers(1, 4))
        if t % 6 == 5:
            n = dim + 2                      # the smallest graph the property covers
            kind = "random"
        if n <= dim + 1:
            continue
        G, X = connected_graph(rng, n, kind)
        if scipy.sparse.csgraph.connected_components(G)[0] != 1:
            ctx.skip("generated graph not connected")
            continue
        fn = S.tswspectral_layout if t % 5 == 4 else S.spectral_layout
        case = {"n": n, "dim": dim, "kind": kind, "fn": fn.__name__, "graph": [[i, j, v] for (i, j), v in sparse_to_dict(G).items()]}
        try:
            with warnings.catch_warnings(record=True) as wl:
                warnings.simplefilter("always")
                with RecordEigsh() as rec:
                    E = fn(X, G, dim, np.random.RandomState(int(rng.integers(0, 1000))))
        except Exception as e:  # noqa
            ctx.violation("exception", f"{fn.__name__} raised {type(e).__name__}: {e}", case)
            continue
        if any("Spectral initialisation failed" in str(w.message) for w in wl):
            # the random fall-back layout is not what the property promises for a connected graph: it goes through the eigen-check
            # below like any other output (and fails it unless the columns happen to be the right eigenvectors)
            ctx.bin("solver_fallback", f"n={n} dim={dim}")
        E = np.asarray(E)
        if E.shape != (n, dim) or not np.all(np.isfinite(E)):
            ctx.violation("shape", f"layout shape {E.shape}, finite={bool(np.all(np.isfinite(E)))}", case)
            continue
        deg = np.asarray(G.sum(axis=0)).ravel()
        sd = np.sqrt(deg)
        Ld = np.eye(n) - (G.toarray() / sd[:, None]) / sd[None, :]
        vals, vecs = np.linalg.eigh(Ld)
        gaps = np.diff(vals[: dim + 2])
        if np.min(gaps) < 1e-4:
            ctx.skip("eigengap < 1e-4")
        else:
            for j in range(dim):
                v = E[:, j].astype(np.float64)
                nv = np.linalg.norm(v)
                if nv == 0:
                    ctx.violation("eigenvector", f"column {j} is zero", case)
                    break
                v = v / nv
                lam = float(v @ Ld @ v)
                res = float(np.linalg.norm(Ld @ v - lam * v))
                if res > 2e-3:
                    ctx.violation("eigenvector", f"column {j}: residual |Lv - lambda v| = {res}", case)
                    break
                if abs(float(v @ (sd / np.linalg.norm(sd)))) > 2e-3:
                    ctx.violation("orthogonal-trivial", f"column {j} is not orthogonal to sqrt(deg): {float(v @ (sd / np.linalg.norm(sd)))}", case)
                    break
                if abs(lam - vals[j + 1]) > 2e-3:
                    ctx.violation("low-frequency", f"column {j} has eigenvalue {lam}, the {j + 2}-th smallest is {vals[j + 1]}", case)
                    break
        if rec.calls:
            c = rec.calls[-1]
            h = drv.add("laplacian", n, *coo_tokens(G))
            hs = drv.add("select", dim, len(c["values"]), *[f2b(v) for v in c["values"]])
            pend.append((h, hs, c, case, dim))
            if c["k"] != dim + 1:
                ctx.violation("solver-request", f"eigen-solver asked for k={c['k']} eigenpairs, dim+1 = {dim + 1}", case)
        ctx.case(key=hash(str(case["graph"])) ^ dim, nontrivial=dim >= 2 and n >= 10,
                 sample={k_: case[k_] for k_ in ("n", "dim", "kind", "fn")} if len(ctx.samples) < 4 else None, kind=kind, dim=dim, fn=fn.__name__)
    outs = drv.run()
    for h, hs, c, case, dim in pend:
        model = parse_coo(outs[h])
        L = sparse_to_dict(scipy.sparse.csr_matrix(c["L"]))
        for key in set(L) | set(model):
            a, b = L.get(key, 0.0), model.get(key, 0.0)
            if not close(a, b, rtol=5e-6, atol=1e-7):   # the graph and hence D*A*D are float32
                ctx.mismatch("laplacian", {"entry": key, "impl": a, "model": b}, {k_: v for k_, v in case.items() if k_ != "graph"})
                break
        order = [int(x) for x in outs[hs].split()]
        want = np.argsort(c["values"], kind="stable")[1:dim + 1].tolist()
        if order != want and len(set(np.round(c["values"], 12))) == len(c["values"]):
            ctx.mismatch("select", {"model": order, "numpy": want}, {k_: v for k_, v in case.items() if k_ != "graph"})

    # disconnected graphs
    profiles = [[1] * 6 + [10], [2, 2, 2, 12], [3, 3, 20], [1, 2, 3, 4, 15], [8, 9, 10], [30, 2], [1] * 12]
    for t, prof in enumerate(profiles if ctx.thorough else profiles[:5]):
        for dim in ((1, 2, 3, 5) if ctx.thorough else (1, 2, 4)):
            n = sum(prof)
            if n <= dim + 1:
                continue
            blocks = []
            for sz in prof:
                if sz == 1:
                    blocks.append(np.zeros((1, 1)))
                else:
                    B = np.triu(rng.uniform(0.1, 1.0, (sz, sz)), 1)
                    blocks.append(B + B.T)
            G = scipy.sparse.block_diag(blocks).tocsr()
            perm = rng.permutation(n)
            G = G[perm][:, perm].tocsr()
            X = rng.normal(size=(n, 4)).astype(np.float32)
            case = {"profile": prof, "dim": dim}
            try:
                E = np.asarray(S.spectral_layout(X, G, dim, np.random.RandomState(t)))
            except Exception as e:  # noqa
                ctx.violation("multi-component-exception", f"spectral_layout raised {type(e).__name__}: {e}", case)
                continue
            if E.shape != (n, dim) or not np.all(np.isfinite(E)):
                ctx.violation("multi-component", f"layout shape {E.shape}, finite={bool(np.all(np.isfinite(E)))}", case)
            ncomp, labels = scipy.sparse.csgraph.connected_components(G)
            hr = drv.add("ranks", n, *[int(l) for l in labels])
            ranks = [int(x) for x in drv.run()[hr].split()]
            want = [int(np.sum(labels[:r] == labels[r])) for r in range(n)]
            if ranks != want:
                ctx.mismatch("ranks", {"model": ranks, "numpy": want}, case)
            ctx.case(key=str(case), nontrivial=True, part="disconnected", dim=dim)
