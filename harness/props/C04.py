"""C04 — disconnection: no edge at or beyond the disconnection distance; isolated <=> NaN."""
import warnings

import numpy as np
import scipy.sparse

import gen
from common import Driver, RecordFSS, sparse_to_dict, f2b, b2f
from props.C02 import graph_line, compare_graphs
from common import parse_coo


def true_distances(X, metric):
    from sklearn.metrics import pairwise_distances
    if metric == "jaccard":
        B = X != 0
        inter = (B[:, None, :] & B[None, :, :]).sum(-1)
        uni = (B[:, None, :] | B[None, :, :]).sum(-1)
        return np.where(uni == 0, 0.0, 1.0 - inter / np.maximum(uni, 1))
    return pairwise_distances(X.astype(np.float64), metric=metric)


def run(ctx):
    import umap
    from umap.utils import disconnected_vertices
    warnings.filterwarnings("ignore")
    rng = ctx.rng
    ctx.rule = ("real fits with a disconnection threshold at chosen quantiles of the pairwise distances (isolating none / some / most "
                "samples), integer-lattice data with distances exactly at the threshold, bounded metrics at their default threshold, "
                "dense / CSR / precomputed inputs, exact and forced-approximate paths, set_op_mix_ratio in {0,.5,1}, plus a supervised family (target_weight = 1 strips every edge of a sample with a unique label), a weak-edge family (a sample whose edges all lie below max/n_epochs) and a refit-history family (unique=True fit, then unique=False refit of the same estimator): the exact neighbour stage (threshold, argsort, first k, -1 marking) vs the Lean model KnnStage.exactStage on every exact-path fit; (a) no edge at or "
                "beyond the threshold (float64 true distances), (b) NaN row <=> no edge <=> disconnected_vertices, other rows finite, "
                "(c) transform of all-far / mixed / none-far / exactly-at-threshold batches; graph support vs the Lean model fed with the "
                "recorded kNN table; non-trivial = at least one isolated and one non-isolated sample")
    ctx.assumptions += ["'every other row finite' relies on the float SGD staying finite (validated, not proved)"]
    drv = Driver()
    pend = []
    pend_knn = []
    cfgs = []
    metrics = ["euclidean", "manhattan", "chebyshev", "cosine", "jaccard"]
    forms = ["dense", "csr", "precomputed"]
    ncase = 60 if ctx.thorough else 16
    for t in range(ncase):
        metric = metrics[t % len(metrics)]
        form = forms[(t // len(metrics)) % len(forms)]
        approx = (t % 7 == 6)
        r = [1.0, 0.0, 0.5][t % 3]
        lattice = (t % 4 == 1) and metric in ("euclidean", "manhattan", "chebyshev")
        n = int(rng.integers(30, 70))
        d = int(rng.integers(2, 5))
        if metric == "jaccard":
            d = 10
            X = (rng.random((n, d)) < 0.3).astype(np.float32)
            X[: n // 3, d // 2:] = 0          # two groups with disjoint support: distance exactly 1 across
            X[n // 3:, : d // 2] = 0
            X[:, -1] = 0                      # a feature no training sample uses: new points supported there are at distance 1 from all
        elif lattice:
            X = rng.integers(0, 9, size=(n, d)).astype(np.float32)
        else:
            X, _ = gen.dataset(rng, n, d, kind="clusters")
        D = true_distances(X, metric)
        if metric in ("jaccard", "cosine") and not lattice and t % 2 == 0:
            thr = None                         # the metric's default (1 for jaccard, 2 for cosine)
            eff = {"jaccard": 1.0, "cosine": 2.0}[metric]
            r = 1.0                            # keep the training graph connected: NaN rows of new points must come from the cut-off alone
        else:
            q = float(rng.choice([0.02, 0.1, 0.3, 0.8]))
            thr = float(np.quantile(D[D > 0], q)) if not lattice else float(rng.choice([3.0, 5.0, 4.0]))
            eff = thr
        if r == 0.0 and metric in ("euclidean", "manhattan", "chebyshev") and not lattice:
            # no threshold at all: with a pure fuzzy intersection samples without a mutual neighbour are still isolated
            thr, eff = None, float("inf")
        k = int(rng.integers(3, 9))
        if thr is None and eff == float("inf"):
            k = 3
        kw = dict(n_neighbors=k, metric=metric, random_state=9, n_epochs=int(rng.choice([0, 15])), set_op_mix_ratio=r,
                  disconnection_distance=thr)
        if approx:
            kw["force_approximation_algorithm"] = True
        case = {"metric": metric, "form": form, "approx": approx, "r": r, "threshold": thr, "n": n, "k": k, "lattice": bool(lattice),
                "X": X.tolist()}
        try:
            with RecordFSS() as rec:
                if form == "dense":
                    m = umap.UMAP(**kw).fit(X)
                elif form == "csr":
                    m = umap.UMAP(**kw).fit(scipy.sparse.csr_matrix(X))
                else:
                    kw2 = dict(kw, metric="precomputed")
                    m = umap.UMAP(**kw2).fit(D.astype(np.float32))
        except Exception as e:  # noqa
            ctx.violation("exception", f"fit raised {type(e).__name__}: {e}", case)
            continue
        G = m.graph_.tocsr()
        g = sparse_to_dict(G)
        # (a) no far edge
        for (i, j), v in g.items():
            if D[i, j] >= eff * (1 + 1e-6) + 1e-9 or (lattice and D[i, j] >= eff):
                ctx.violation("far-edge", f"edge ({i},{j}) weight {v} joins samples at distance {D[i, j]} >= threshold {eff}", case)
                break
        # (b) isolated <=> NaN <=> reported
        deg = np.asarray(G.sum(axis=1)).ravel()
        no_edge = np.array([G[i].nnz == 0 for i in range(n)])
        nan_row = np.isnan(m.embedding_).all(axis=1)
        some_nan = np.isnan(m.embedding_).any(axis=1)
        rep = np.asarray(disconnected_vertices(m))
        if not np.array_equal(no_edge, nan_row):
            ctx.violation("nan-iff-isolated", f"samples without an edge: {np.where(no_edge)[0].tolist()[:10]}, all-NaN rows: "
                                              f"{np.where(nan_row)[0].tolist()[:10]}", case)
        if not np.array_equal(no_edge, rep):
            ctx.violation("reported", f"disconnected_vertices reports {np.where(rep)[0].tolist()[:10]}, samples without an edge "
                                      f"{np.where(no_edge)[0].tolist()[:10]}", case)
        if np.any(some_nan & ~nan_row) or np.any(~np.isfinite(m.embedding_[~nan_row])):
            ctx.violation("finite-rows", "a non-isolated sample has a non-finite coordinate", case)
        # correspondence: graph from the kNN table the implementation used
        if rec.calls:
            c0 = rec.calls[0]
            idx, dist = rec.table(0)
            idx = np.where(np.isinf(dist), -1, idx)
            h = graph_line(drv, r, c0["n_neighbors"], float(c0["local_connectivity"]), idx, dist)
            pend.append((h, g, {k_: v for k_, v in case.items() if k_ != "X"}))
            # the exact neighbour stage (threshold -> argsort -> first k -> -1 marking) vs KnnStage.exactStage: fed with the distance
            # matrix the caller passed (precomputed form) or the one recorded at fuzzy_simplicial_set (already thresholded)
            if c0["X"] is not None and not approx and not hasattr(c0["X"], "tocsr") and c0["X"].shape[0] == c0["X"].shape[1]:
                Din = D.astype(np.float32) if form == "precomputed" else np.asarray(c0["X"], dtype=np.float32)
                kk = int(c0["n_neighbors"])
                used = float(m._disconnection_distance)      # what this fit applied (inf for 'precomputed' without an explicit value)
                toks = ["exactstage", int(np.isfinite(used)), f2b(used if np.isfinite(used) else 0.0), kk, n]
                toks += [f2b(float(v)) for v in Din.astype(np.float64).ravel()]
                pend_knn.append((drv.add(*toks), idx.copy(), dist.copy(), Din, kk, {k_: v for k_, v in case.items() if k_ != "X"}))
        # (c) transform
        if form != "precomputed" and not (metric == "jaccard" and form == "csr" and False):
            far = None
            if metric == "jaccard":
                far = np.zeros((3, d), dtype=np.float32)          # empty support vs non-empty: jaccard 1
                far[:, :] = 0
                Xt = X.copy()
                # new points whose support is disjoint from every training sample
                Xtrain_support = (X != 0).any(axis=0)
                free = np.where(~Xtrain_support)[0]
                if len(free):
                    far[:, free[0]] = 1
                else:
                    far = None
            elif lattice:
                far = None
            else:
                far = (X[:3] + (np.abs(X).max() + eff) * 50.0).astype(np.float32)
            near = (X[:4] + 0.001).astype(np.float32)

            def far_mask(Y):
                """which rows of Y are at or beyond the threshold from *every* training sample (float64 true distances);
                rows within 1e-6 of the threshold are ambiguous in float32 and make the batch unusable"""
                from sklearn.metrics import pairwise_distances as pd_
                if metric == "jaccard":
                    A, B_ = Y != 0, X != 0
                    inter = (A[:, None, :] & B_[None, :, :]).sum(-1)
                    uni = (A[:, None, :] | B_[None, :, :]).sum(-1)
                    DY = np.where(uni == 0, 0.0, 1.0 - inter / np.maximum(uni, 1))
                else:
                    DY = pd_(Y.astype(np.float64), X.astype(np.float64), metric=metric)
                mn = DY.min(axis=1)
                amb = np.abs(DY - eff) < 1e-6 * max(1.0, eff)
                if metric == "jaccard":
                    amb[:] = False       # jaccard values are exact ratios
                return (mn >= eff), bool(amb.any())

            batches = []
            if far is not None and np.isfinite(eff):
                for bname, Yb in (("all-far", far), ("mixed", np.vstack([far, near]))):
                    mask, ambiguous = far_mask(Yb)
                    if ambiguous:
                        ctx.skip("transform batch with a distance within 1e-6 of the threshold")
                        continue
                    if bname == "all-far" and not mask.all():
                        ctx.skip("no point beyond the threshold from every training sample can be built for this metric/threshold")
                        continue
                    batches.append((bname, Yb, mask))
            mask, ambiguous = far_mask(near)
            if not ambiguous:
                batches += [("none-far", near, mask)]
            if lattice and metric == "chebyshev" and np.isfinite(eff):
                # points exactly at the threshold from every training sample do not exist in general; use a single training-like row
                pass
            for bname, Y, isfar in batches:
                try:
                    Yv = scipy.sparse.csr_matrix(Y) if form == "csr" else Y
                    out = m.transform(Yv)
                except Exception as e:  # noqa
                    ctx.violation("transform-exception", f"transform({bname}) raised {type(e).__name__}: {e}", dict(case, batch=bname))
                    continue
                onan = np.isnan(out).all(axis=1)
                if bname == "none-far" and not nan_row.any() and onan.any():
                    ctx.violation("transform-near-finite", f"transform({bname}): rows {np.where(onan)[0].tolist()} of points next to connected training "
                                                           f"samples are NaN", dict(case, batch=bname))
                if out.shape[0] != len(Y) or np.any(isfar & ~onan):
                    ctx.violation("transform-far-nan", f"transform({bname}): rows {np.where(isfar & ~onan)[0].tolist()} of points beyond "
                                                       f"the threshold are not NaN", dict(case, batch=bname))
                ctx.bin("transform_batch", bname)
                if isfar.any():
                    ctx.bin("transform_far_rows", f"{metric}:{'default' if thr is None else 'explicit'}-threshold:{form}")
        nt = bool(no_edge.any() and (~no_edge).any())
        ctx.case(key=hash(str(case["X"])) ^ hash((metric, form, r, thr)), nontrivial=nt,
                 sample={k_: v for k_, v in case.items() if k_ != "X"} if len(ctx.samples) < 5 else None,
                 metric=metric, form=form, r=r, approx=approx, isolated=int(no_edge.sum() > 0), lattice=bool(lattice))

    outs = drv.run()
    for h, idx_i, dist_i, Din, kk, case in pend_knn:
        t_ = outs[h].split()
        nn = Din.shape[0]
        if len(t_) != 2 * nn * kk:
            ctx.mismatch("exactstage", {"model": outs[h][:80]}, case)
            continue
        midx = np.array([int(x) for x in t_[: nn * kk]]).reshape(nn, kk)
        mdist = np.array([np.inf if x == "inf" else b2f(x) for x in t_[nn * kk:]]).reshape(nn, kk)
        if not np.array_equal(mdist.astype(np.float32), dist_i.astype(np.float32)):
            rr = int(np.where((mdist.astype(np.float32) != dist_i.astype(np.float32)).any(axis=1))[0][0])
            ctx.mismatch("exactstage.dists", {"row": rr, "impl": dist_i[rr].tolist(), "model": mdist[rr].tolist()}, case)
            continue
        # indices: rows whose k+1 smallest values are pairwise distinct (numpy's quicksort is not stable on ties)
        srt = np.sort(np.where(np.isfinite(Din), Din, np.inf), axis=1)[:, : kk + 1]
        free = np.array([len(set(rw[np.isfinite(rw)].tolist())) == int(np.isfinite(rw).sum()) for rw in srt])
        bad = [int(i) for i in np.where(free)[0] if not np.array_equal(midx[i], idx_i[i])]
        if bad:
            ctx.mismatch("exactstage.indices", {"row": bad[0], "impl": idx_i[bad[0]].tolist(), "model": midx[bad[0]].tolist()}, case)
        ctx.bin("exactstage_rows_tiefree", int(free.sum() * 10 // max(1, len(free))))
    for h, g, case in pend:
        model = parse_coo(outs[h])
        if model is None:
            ctx.mismatch("graph", "model produced NaN", case)
            continue
        # supports must agree exactly (entries below 1e-30 are in the float32 underflow zone)
        for key in set(g) | set(model):
            a, b = g.get(key, 0.0), model.get(key, 0.0)
            if (key not in g or key not in model) and max(abs(a), abs(b)) > 1e-30:
                ctx.mismatch("graph.support", {"entry": key, "impl": a, "model": b}, case)
                break
            if abs(a - b) > 5e-4:
                ctx.mismatch("graph.value", {"entry": key, "impl": a, "model": b}, case)
                break

    # weak-edge family: a sample that *has* edges in graph_, all of them weaker than max/n_epochs (so the optimiser never uses
    # them): it is not isolated, so its row must be finite and it must not be reported
    for t in range(12 if ctx.thorough else 4):
        mclus = int(rng.integers(10, 16))
        std = float(rng.choice([0.05, 0.1, 0.2]))
        X = np.vstack([rng.normal(scale=std, size=(mclus, 2)), [[float(rng.choice([1.0, 1.5, 2.0])), 0.0]], [[50.0, 50.0]]]).astype(np.float32)
        n = len(X)
        r = float(rng.choice([0.0, 0.02]))
        ne = int(rng.choice([11, 5]))
        init = str(rng.choice(["random", "spectral"]))
        case = {"family": "weak-edge", "n": n, "r": r, "n_epochs": ne, "init": init, "X": X.tolist()}
        try:
            m = umap.UMAP(n_neighbors=n - 1, set_op_mix_ratio=r, n_epochs=ne, init=init, disconnection_distance=10.0, random_state=3).fit(X)
        except Exception as e:  # noqa
            ctx.violation("exception", f"fit raised {type(e).__name__}: {e}", case)
            continue
        G = m.graph_.tocsr()
        no_edge = np.array([G[i].nnz == 0 for i in range(n)])
        nan_row = np.isnan(m.embedding_).all(axis=1)
        rep = np.asarray(disconnected_vertices(m))
        if not np.array_equal(no_edge, nan_row):
            ctx.violation("nan-iff-isolated", f"samples without an edge: {np.where(no_edge)[0].tolist()[:10]}, all-NaN rows: "
                                              f"{np.where(nan_row)[0].tolist()[:10]} (edges weaker than max/n_epochs are still edges)", case)
        if not np.array_equal(no_edge, rep):
            ctx.violation("reported", f"disconnected_vertices reports {np.where(rep)[0].tolist()[:10]}, samples without an edge "
                                      f"{np.where(no_edge)[0].tolist()[:10]}", case)
        if np.any(~np.isfinite(m.embedding_[~nan_row])):
            ctx.violation("finite-rows", "a non-isolated sample has a non-finite coordinate", case)
        rowmax = np.array([G[i].max() if G[i].nnz else 0.0 for i in range(n)])
        weak = (~no_edge) & (rowmax < G.max() / ne)
        ctx.case(key="weak" + str(case["X"]) + str((r, ne)), nontrivial=bool(weak.any() and no_edge.any()), part="weak-edge",
                 weak_samples=int(weak.sum()), r=r)

    # supervised family: with target_weight = 1 a sample whose label none of its neighbours shares loses every edge; no threshold
    # isolates anybody, so only the final graph_ says who is isolated
    for t in range(6 if ctx.thorough else 2):
        n = int(rng.integers(40, 70))
        X, _ = gen.dataset(rng, n, 4, kind="clusters")
        y = rng.integers(0, 6, n)
        y[:3] = np.arange(100, 103)                     # three samples with a label nobody else has
        case = {"family": "supervised", "n": n, "labels": y.tolist(), "X": X.tolist()}
        try:
            m = umap.UMAP(n_neighbors=6, target_weight=1.0, n_epochs=11, random_state=5).fit(X, y)
        except Exception as e:  # noqa
            ctx.violation("exception", f"supervised fit raised {type(e).__name__}: {e}", case)
            continue
        G = m.graph_.tocsr()
        no_edge = np.array([G[i].nnz == 0 for i in range(n)])
        nan_row = np.isnan(m.embedding_).all(axis=1)
        rep = np.asarray(disconnected_vertices(m))
        if not np.array_equal(no_edge, nan_row):
            ctx.violation("nan-iff-isolated", f"supervised fit: samples without an edge {np.where(no_edge)[0].tolist()[:10]}, all-NaN rows "
                                              f"{np.where(nan_row)[0].tolist()[:10]}", case)
        if not np.array_equal(no_edge, rep):
            ctx.violation("reported", f"supervised fit: disconnected_vertices reports {np.where(rep)[0].tolist()[:10]}, samples without an edge "
                                      f"{np.where(no_edge)[0].tolist()[:10]}", case)
        if np.any(~np.isfinite(m.embedding_[~nan_row])):
            ctx.violation("finite-rows", "supervised fit: a non-isolated sample has a non-finite coordinate", case)
        ctx.case(key="sup" + str(case["X"]), nontrivial=bool(no_edge.any() and (~no_edge).any()), part="supervised")

    # history family: the same estimator fitted twice with different settings (unique=True on data with duplicates, then
    # unique=False; a threshold, then none): what is reported must describe the *latest* fit
    for t in range(6 if ctx.thorough else 2):
        n = int(rng.integers(30, 50))
        X1, _ = gen.dataset(rng, n, 3, kind="clusters")
        X1[: n // 4] = X1[n // 4: 2 * (n // 4)]                 # duplicate rows
        X2, _ = gen.dataset(rng, n + int(rng.integers(0, 5)), 3, kind="clusters")
        X2[-2:] += 1000.0                                       # two samples far from everything (and from each other)
        X2[-1] += 1000.0
        case = {"family": "history", "n1": len(X1), "n2": len(X2), "X1": X1.tolist(), "X2": X2.tolist()}
        try:
            m = umap.UMAP(n_neighbors=5, unique=True, n_epochs=5, random_state=2)
            m.fit(X1)
            m.set_params(unique=False, disconnection_distance=100.0)
            m.fit(X2)
            G = m.graph_.tocsr()
            n2 = len(X2)
            no_edge = np.array([G[i].nnz == 0 for i in range(n2)])
            nan_row = np.isnan(m.embedding_).all(axis=1)
            rep = np.asarray(disconnected_vertices(m))
        except Exception as e:  # noqa
            ctx.violation("exception", f"refit history raised {type(e).__name__}: {e}", case)
            continue
        if len(rep) != n2 or not np.array_equal(no_edge, rep):
            ctx.violation("reported", f"after refitting the same estimator, disconnected_vertices reports {np.where(rep)[0].tolist()[:10]} "
                                      f"(length {len(rep)}), samples without an edge {np.where(no_edge)[0].tolist()[:10]} (n={n2})", case)
        if not np.array_equal(no_edge, nan_row):
            ctx.violation("nan-iff-isolated", f"after refit: samples without an edge {np.where(no_edge)[0].tolist()[:10]}, all-NaN rows "
                                              f"{np.where(nan_row)[0].tolist()[:10]}", case)
        ctx.case(key="hist" + str(case["X2"]), nontrivial=bool(no_edge.any()), part="history")

    # exactly-at-threshold transform: chebyshev on an integer grid, new point at distance exactly 5 from every training sample
    Xg = np.array([[0, 0], [1, 0], [0, 1], [1, 1], [2, 1], [1, 2], [2, 2], [0, 2], [2, 0], [1, 1.5]], dtype=np.float32)
    for form in ("dense", "csr"):
        m = umap.UMAP(n_neighbors=3, metric="chebyshev", disconnection_distance=5.0, n_epochs=5, random_state=1).fit(
            Xg if form == "dense" else scipy.sparse.csr_matrix(Xg))
        Y = np.array([[7.0, 1.0], [7.5, 1.0], [1.0, 1.2]], dtype=np.float32)   # min distances: 5.0 (exactly), 5.5, near
        out = m.transform(Y if form == "dense" else scipy.sparse.csr_matrix(Y))
        onan = np.isnan(out).all(axis=1)
        if not (onan[0] and onan[1] and not onan[2]):
            ctx.violation("transform-at-threshold", f"points at distance exactly 5.0 / 5.5 / near with disconnection_distance=5.0: NaN rows = {onan.tolist()} "
                                                    f"(expected [True, True, False])", {"form": form, "metric": "chebyshev"})
        ctx.case(key="at-threshold" + form, nontrivial=True, part="at-threshold")
