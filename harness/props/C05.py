"""C05 — fit_transform returns one finite row per sample for every valid input."""
import itertools
import warnings

import numpy as np
import scipy.sparse

from common import Driver, f2b, b2f


def make_X(rng, shape_kind, n_components):
    """finite datasets of the degenerate shapes the property names"""
    nc = n_components
    if shape_kind == "n=nc+2":
        X = rng.normal(size=(nc + 2, 4))
    elif shape_kind == "n<=k":
        X = rng.normal(size=(9, 4))
    elif shape_kind == "one-feature":
        X = rng.normal(size=(30, 1))
    elif shape_kind == "duplicates":
        X = rng.normal(size=(30, 4))
        X[10:20] = X[:10]
    elif shape_kind == "constant-column":
        X = rng.normal(size=(30, 4))
        X[:, 1] = 3.0
    elif shape_kind == "all-identical":
        X = np.tile(rng.normal(size=(1, 4)), (max(12, nc + 3), 1))
    elif shape_kind == "equal-nnz-rows":
        X = np.zeros((30, 6))
        for i in range(30):
            X[i, rng.choice(6, 3, replace=False)] = rng.uniform(0.5, 2.0, 3)
        X[5] = X[4]
    elif shape_kind == "far-pair":
        # a mutual pair far from everything else: with a disconnection distance it is a 2-vertex component
        X = np.r_[rng.normal(size=(24, 4)), rng.normal(size=(1, 4)) * 0.1 + 500.0]
        X = np.r_[X, X[-1:] + 0.05]
    elif shape_kind == "dup-isolated":
        # repeated rows first (so distinct-row numbering differs from input numbering) and samples far from everything: with
        # unique=True and a disconnection distance the isolated samples are in the middle of the distinct-row order
        X = rng.normal(size=(26, 4))
        X[:6] = X[6:12]
        X[15] += 700.0
        X[20] -= 900.0
    elif shape_kind == "two-clusters":
        X = np.r_[rng.normal(size=(15, 4)), rng.normal(size=(15, 4)) + 30.0]
    else:
        X = rng.normal(size=(40, 5))
    return X.astype(np.float32)


def noncanonical_csr(rng, S):
    """the same matrix, stored differently: column indices in random order within each row, and explicitly stored zeros in a
    third of the rows"""
    ind, dat, ptr = [], [], [0]
    ncol = S.shape[1]
    for rw in range(S.shape[0]):
        a_, b_ = S.indptr[rw], S.indptr[rw + 1]
        c = S.indices[a_:b_].tolist()
        v = S.data[a_:b_].tolist()
        absent = [j for j in range(ncol) if j not in c]
        if absent and rng.random() < 0.34:
            c.append(int(rng.choice(absent)))
            v.append(0.0)
        pm = rng.permutation(len(c))
        ind += [c[j] for j in pm]
        dat += [v[j] for j in pm]
        ptr.append(len(ind))
    return scipy.sparse.csr_matrix((np.array(dat, dtype=np.float32), np.array(ind, dtype=np.int32), np.array(ptr, dtype=np.int32)), shape=S.shape)


def make_init(rng, init_kind, n, nc):
    if init_kind in ("spectral", "random", "pca", "tswspectral"):
        return init_kind
    A = rng.normal(size=(n, nc)).astype(np.float32)
    if init_kind == "array-constant-column":
        A[:, 0] = 2.0
    elif init_kind == "array-duplicate-rows":
        A[: n // 2] = A[n // 2: 2 * (n // 2)]
    elif init_kind == "array-all-rows-twice":
        A = np.repeat(A[: (n + 1) // 2], 2, axis=0)[:n]
    elif init_kind == "array-zeros":
        A[:] = 0.0
    # memory layouts a caller's array commonly has: column-major (np.vstack([xs, ys]).T), float64, a strided view
    elif init_kind == "array-fortran":
        A = np.asfortranarray(A)
    elif init_kind == "array-float64":
        A = A.astype(np.float64)
    elif init_kind == "array-strided":
        A = np.repeat(A, 2, axis=1)[:, ::2]
    return A


def run(ctx):
    import umap
    warnings.filterwarnings("ignore")
    rng = ctx.rng
    shapes = ["regular", "n=nc+2", "n<=k", "one-feature", "duplicates", "constant-column", "all-identical", "equal-nnz-rows", "two-clusters",
              "far-pair"]
    inits = ["spectral", "random", "pca", "tswspectral", "array", "array-constant-column", "array-duplicate-rows", "array-all-rows-twice", "array-zeros",
             "array-fortran", "array-float64", "array-strided"]
    metrics = ["euclidean", "manhattan", "cosine", "jaccard", "hellinger"]
    ctx.rule = ("a pairwise covering array over shape {regular, n=nc+2, n<=n_neighbors, one feature, duplicates, constant column, all rows "
                "identical, CSR rows of equal nnz, two distant clusters} x init {spectral, random, pca, tswspectral, ndarray (plain, column-major, float64, strided view, constant "
                "column, duplicate rows, every row twice, all zeros)} x metric class x sparse x unique x n_components {1,2,5} x n_epochs "
                "{0,1,11,None} x learning_rate {0,1} x densMAP on/off (always on where samples are isolated), CSR with unsorted column indices and explicitly stored zeros for unique=True: fit_transform must return a float32 (n, n_components) array, finite except for "
                "isolated samples, identical rows for identical inputs under unique=True; the rescale / n_neighbors-truncation / unique "
                "round-trip stage models are compared with the implementation; non-trivial = configuration not seen before in the run. "
                "init='pca' with fewer features than components (rejected by scikit-learn) is outside 'valid configuration'")
    ctx.assumptions += ["PARTIAL: definedness / shape logic is modelled (csr_unique keys, neighbour-count truncation, noisy_scale_coords factor, the final axis rescale: run against the implementation here); float finiteness of the optimiser and of third-party initialisers "
                        "(PCA, ARPACK) is validated, not proved"]
    combos = []
    # pairwise covering: every (shape, init) pair, the other factors cycling
    others = list(itertools.product(metrics, [False, True], [False, True], [1, 2, 5], [0, 1, 11, None], [1.0, 0.0]))
    rng.shuffle(others)
    i = 0
    for sh in shapes:
        for ini in inits:
            combos.append((sh, ini) + tuple(others[i % len(others)]))
            i += 1
    if not ctx.thorough:
        pick = rng.choice(len(combos), 44, replace=False)
        must = [j for j, c in enumerate(combos) if (c[0], c[1]) in (("all-identical", "pca"), ("duplicates", "array"), ("all-identical", "spectral"),
                                                                     ("equal-nnz-rows", "spectral"), ("regular", "array-constant-column"),
                                                                     ("regular", "array-all-rows-twice"), ("n=nc+2", "spectral"), ("two-clusters", "spectral"),
                                                                     ("far-pair", "spectral"), ("far-pair", "tswspectral"),
                                                                     ("regular", "array-fortran"), ("two-clusters", "array-fortran"),
                                                                     ("regular", "array-strided"), ("regular", "array-float64"))]
        combos = [combos[j] for j in sorted(set(pick.tolist()) | set(must))]
    # always present: identical samples in a non-canonical CSR matrix with unique=True; densMAP with isolated samples
    combos += [("duplicates", "random", "euclidean", True, True, 2, 11, 1.0), ("far-pair", "random", "euclidean", False, False, 2, 11, 1.0),
               ("dup-isolated", "random", "euclidean", False, True, 2, 11, 1.0), ("dup-isolated", "spectral", "euclidean", True, True, 2, 0, 1.0)]
    seen = set()
    combo_no = 0
    drv = Driver()
    pend = []          # (handle, kind, expected, case)

    # ---- correspondence of the modelled definedness logic ----
    import umap.utils as UT
    import umap.umap_ as UU
    # (a) csr_unique vs SparseRow.key: random sparse rows stored non-canonically (shuffled columns, explicit zeros, repeated columns with
    #     dyadic values so that the sums are exact), several of them the same sample
    for t in range(60 if ctx.thorough else 12):
        ncol = int(rng.integers(3, 9))
        nrow = int(rng.integers(2, 12))
        base_rows = []
        for _ in range(nrow):
            if base_rows and rng.random() < 0.45:
                base_rows.append(dict(base_rows[int(rng.integers(len(base_rows)))]))      # the same sample again
            else:
                cs = rng.choice(ncol, size=int(rng.integers(0, ncol)), replace=False)
                base_rows.append({int(c): float(rng.integers(-8, 9)) / 4.0 for c in cs})
        ind, dat, ptr, toks = [], [], [0], ["uniquerows", nrow]
        for rw in base_rows:
            ent = []
            for c, v in rw.items():
                if v != 0 and rng.random() < 0.3:
                    a_ = float(rng.integers(-8, 9)) / 4.0
                    ent += [(c, a_), (c, v - a_)]          # one value stored as two entries of the same column
                else:
                    ent.append((c, v))
            absent = [j for j in range(ncol) if j not in rw]
            if absent and rng.random() < 0.3:
                ent.append((int(rng.choice(absent)), 0.0))  # an explicitly stored zero
            ent = [ent[j] for j in rng.permutation(len(ent))]
            ind += [c for c, _ in ent]
            dat += [v for _, v in ent]
            ptr.append(len(ind))
            toks += [len(ent)] + [x for c, v in ent for x in (c, f2b(v))]
        S = scipy.sparse.csr_matrix((np.array(dat, dtype=np.float32), np.array(ind, dtype=np.int32), np.array(ptr, dtype=np.int32)), shape=(nrow, ncol))
        dense = np.zeros((nrow, ncol))
        for i, rw in enumerate(base_rows):
            for c, v in rw.items():
                dense[i, c] = v
        case = {"part": "csr_unique", "rows": [[list(map(float, e)) for e in zip(ind[ptr[i]:ptr[i + 1]], dat[ptr[i]:ptr[i + 1]])] for i in range(nrow)]}
        try:
            index, inverse, _ = UT.csr_unique(S)
            rep = np.asarray(index)[np.asarray(inverse).ravel()].tolist()
        except Exception as e:  # noqa
            ctx.violation("exception", f"csr_unique raised {type(e).__name__}: {e}", case)
            continue
        # the property's clause on the implementation: same representative <=> same sample
        for a in range(nrow):
            for b in range(a):
                if (rep[a] == rep[b]) != bool(np.array_equal(dense[a], dense[b])):
                    ctx.violation("unique-identical", f"csr_unique: rows {b} and {a} are {'the same' if np.array_equal(dense[a], dense[b]) else 'different'} "
                                                      f"samples but {'do not ' if rep[a] != rep[b] else ''}share a representative", case, key="C05:unique-explicit-zero")
                    break
        pend.append((drv.add(*toks), "uniquerows", rep, case))
        ctx.case(key="csru" + str(case["rows"]), nontrivial=len(set(rep)) < nrow, part="csr_unique")
    # (b) noisy_scale_coords (noise 0) vs Pipeline.expansion
    for t in range(20 if ctx.thorough else 6):
        co = (rng.normal(size=(int(rng.integers(2, 9)), int(rng.integers(1, 4)))) * float(rng.choice([1e-3, 1.0, 40.0]))).astype(np.float32)
        if t % 3 == 2:
            co[:] = 0.0
        out = UU.noisy_scale_coords(co.copy(), np.random.RandomState(0), max_coord=10.0, noise=0.0)
        ma = float(np.abs(co).max())
        pend.append((drv.add("expansion", f2b(10.0), f2b(ma)), "expansion", (co, np.asarray(out)), {"part": "noisy_scale_coords", "coords": co.tolist()}))
        ctx.case(key="exp" + str(co.tolist()), nontrivial=ma > 0, part="noisy_scale_coords")
    # corpus: the witness of the recorded open finding runs first (two distinct rows, unique=True)
    Xw = np.array([[0.0, 1.0], [2.0, 3.0]] * 6, dtype=np.float32)
    try:
        Ew = umap.UMAP(unique=True, n_neighbors=4, n_epochs=5, random_state=1).fit_transform(Xw)
        if np.asarray(Ew).shape != (12, 2) or not np.all(np.isfinite(Ew)):
            ctx.violation("shape", f"two distinct rows, unique=True: result shape {np.asarray(Ew).shape}", {"X": Xw.tolist()},
                          key="C05:unique-too-few-distinct-rows")
    except Exception as e:  # noqa
        ctx.violation("exception", f"two distinct rows, unique=True: {type(e).__name__}: {str(e)[:100]}", {"X": Xw.tolist()},
                      key="C05:unique-too-few-distinct-rows")
    ctx.case(key="corpus-two-distinct", nontrivial=True, part="corpus")
    for (sh, ini, metric, sparse, unique, nc, ne, lr) in combos:
        if sh == "far-pair":
            nc, metric, unique = (1 if ini != "pca" else nc), "euclidean", False
        if ini in ("array-fortran", "array-strided", "array-float64") and sh in ("regular", "two-clusters"):
            nc, unique = max(nc, 2), False       # the layout only matters when the optimiser sees the caller's rows
        X = make_X(rng, sh, nc)
        n = X.shape[0]
        if sh in ("all-identical", "duplicates"):
            unique = unique or (sh == "all-identical" and ini == "spectral")
        if metric in ("jaccard",):
            X = (np.abs(X) > 0.6).astype(np.float32)
            if sh == "equal-nnz-rows":
                X = (make_X(rng, sh, nc) != 0).astype(np.float32)
        if metric == "hellinger":
            X = np.abs(X)
        if metric in ("cosine", "hellinger", "jaccard") and sh in ("one-feature",):
            metric = "euclidean"
        if ini == "pca" and sparse and X.shape[1] < 2:
            ctx.skip("init='pca' on sparse data with a single feature: TruncatedSVD requires at least 2 (outside 'valid configuration')")
            continue
        if ini == "pca" and (X.shape[1] < nc):
            ctx.skip("init='pca' with fewer features than components: rejected by scikit-learn (outside 'valid configuration')")
            continue
        if n <= nc + 1:
            continue
        init = make_init(rng, ini, n, nc)
        kw = dict(n_neighbors=15 if sh == "n<=k" else int(rng.choice([3, 5, 8])), n_components=nc, init=init, metric=metric, unique=unique,
                  n_epochs=ne, learning_rate=lr, random_state=4)
        if ne is None and n > 20:
            kw["n_epochs"] = 30     # the default (500) adds nothing but time
        if sh in ("far-pair", "dup-isolated"):
            kw["disconnection_distance"] = 100.0
        # densMAP is one more valid configuration: every fifth combination, and every one with isolated samples and a string init
        combo_no += 1
        dens = (combo_no % 5 == 4 or (sh == "far-pair" and isinstance(init, str))) and n > 6 and not sparse
        if dens:
            kw["densmap"] = True
        case = {"shape": sh, "init": ini, "metric": metric, "sparse": sparse, "unique": unique, "n_components": nc, "n_epochs": ne,
                "learning_rate": lr, "densmap": bool(dens), "n": n, "X": X.tolist()}
        Xf = scipy.sparse.csr_matrix(X) if sparse else X
        if sparse and unique and sh in ("duplicates", "regular", "equal-nnz-rows"):
            # a CSR matrix need not be canonical: column indices in any order within a row (identical samples stored differently)
            Xf = noncanonical_csr(rng, Xf)
            case["csr"] = "unsorted-indices+explicit-zeros"
        desc = (sh, ini, metric, sparse, unique, nc, ne, lr, bool(dens))
        try:
            m = umap.UMAP(**kw)
            E = m.fit_transform(Xf)
        except Exception as e:  # noqa
            ndistinct = len(np.unique(X, axis=0))
            key = f"C05:exception:{sh}:{ini}:{type(e).__name__}"
            if unique and 2 <= ndistinct <= max(2, nc + 1):
                key = "C05:unique-too-few-distinct-rows"       # recorded known finding (see KNOWN_FINDINGS.json)
            elif dens and isinstance(e, ZeroDivisionError):
                key = "C05:densmap-isolated-sample"
            ctx.violation("exception", f"fit_transform raised {type(e).__name__}: {str(e)[:160]} ({ndistinct} distinct rows)", case, key=key)
            ctx.case(key=desc, nontrivial=desc not in seen)
            seen.add(desc)
            continue
        E = np.asarray(E)
        ndist = len(np.unique(X, axis=0)) if unique else n
        if hasattr(m, "_n_neighbors"):       # a single distinct sample returns early, before the neighbour count is fixed
            pend.append((drv.add("truncatek", ndist, kw["n_neighbors"]), "truncatek", int(m._n_neighbors),
                         {k_: case[k_] for k_ in case if k_ != "X"}))
        if (isinstance(init, np.ndarray) and kw.get("n_epochs") == 0 and not unique and E.shape == (n, nc) and not dens
                and len(np.unique(init, axis=0)) == n and np.isfinite(E).all()):
            # zero epochs with a user layout of distinct rows: the result is that layout rescaled axis by axis
            for ax in range(nc):
                col = np.asarray(init[:, ax], dtype=np.float32)
                pend.append((drv.add("rescale10", f2b(float(col.min())), f2b(float(col.max())), n, *[f2b(float(v)) for v in col]), "rescale10",
                             E[:, ax].astype(np.float64), {k_: case[k_] for k_ in case if k_ != "X"}))
        if E.shape != (n, nc):
            ctx.violation("shape", f"result shape {E.shape}, expected ({n}, {nc})", case, key=f"C05:shape:{sh}:{ini}")
        elif E.dtype != np.float32:
            ctx.violation("dtype", f"result dtype {E.dtype}, expected float32", case, key=f"C05:dtype:{sh}:{ini}")
        else:
            iso = np.zeros(n, bool)
            if hasattr(m, "graph_"):
                g = m.graph_.tocsr()
                deg = np.asarray(g.sum(axis=1)).ravel() == 0
                # with unique=True graph_ is indexed by the (sorted) distinct rows, embedding_ by the input rows
                iso = deg[np.asarray(m._unique_inverse_).ravel()] if unique and hasattr(m, "_unique_inverse_") else deg
            bad = ~np.isfinite(E).all(axis=1) & ~iso
            if bad.any():
                ctx.violation("finite", f"{int(bad.sum())} non-isolated samples have non-finite rows (first: {np.where(bad)[0][:5].tolist()})", case,
                              key=f"C05:finite:{sh}:{ini}")
            if unique:
                _, inv = np.unique(X, axis=0, return_inverse=True)
                inv = np.asarray(inv).ravel()
                for a in range(n):
                    b = int(np.where(inv == inv[a])[0][0])
                    if b != a and not np.array_equal(E[a], E[b], equal_nan=True):
                        ctx.violation("unique-identical", f"identical input rows {b} and {a} get different embedding rows", case,
                                      key=f"C05:unique:{sh}:{ini}")
                        break
        ctx.case(key=desc, nontrivial=desc not in seen, sample={k_: case[k_] for k_ in case if k_ != "X"} if len(ctx.samples) < 5 else None,
                 shape=sh, init=ini, metric=metric, sparse=sparse, unique=unique, n_components=nc, n_epochs=str(ne))
        seen.add(desc)

    outs = drv.run()
    for h, kind, want, case in pend:
        o = outs[h]
        if kind == "uniquerows":
            if [int(x) for x in o.split()] != [int(x) for x in want]:
                ctx.mismatch("uniquerows", {"impl": [int(x) for x in want], "model": o}, case)
        elif kind == "truncatek":
            if int(o) != want:
                ctx.mismatch("truncatek", {"impl": want, "model": int(o)}, case)
        elif kind == "expansion":
            co, out = want
            exp = b2f(o) * co.astype(np.float64)
            if out.shape != co.shape or np.max(np.abs(exp - out)) > 1e-5 * max(1.0, float(np.max(np.abs(exp)))):
                ctx.mismatch("expansion", {"impl": np.asarray(out).tolist(), "model": exp.tolist()}, case)
        elif kind == "rescale10":
            mo = np.array([b2f(x) for x in o.split()])
            if mo.shape != want.shape or np.max(np.abs(mo - want)) > 2e-5:
                ctx.mismatch("rescale10", {"max_diff": float(np.max(np.abs(mo - want))) if mo.shape == want.shape else -1.0}, case)
        ctx.bin("correspondence", kind)
