"""C02 — the fitted graph is a well-formed fuzzy union of the directed neighbourhoods."""
import numpy as np
import scipy.sparse

import gen
from common import Driver, f2b, dist_tok, parse_coo, sparse_to_dict, close, RecordFSS

VAL_TOL = 2e-4      # model (float64 bisection) vs implementation (float32 bisection)
ORACLE_TOL = 2e-5   # formula recomputed from the implementation's own sigmas / rhos
UNDERFLOW = 1e-30


REGEN = ("constants", "registry", "umapsrc")

def graph_line(drv, r, k, lc, idx, dist):
    li, lf = gen.lc_split(lc)
    n, c = idx.shape
    toks = ["graph", f2b(r), f2b(np.log2(k)), li, f2b(lf), n, c]
    toks += [str(int(v)) for v in idx.ravel()]
    toks += [dist_tok(v) for v in dist.ravel()]
    return drv.add(*toks)


def compare_graphs(ctx, op, impl, model, case, tol=VAL_TOL):
    if model is None:
        ctx.mismatch(op, "model produced NaN strength", case)
        return
    keys = set(impl) | set(model)
    for key in keys:
        a = impl.get(key, 0.0)
        b = model.get(key, 0.0)
        if (key not in impl or key not in model) and max(abs(a), abs(b)) < UNDERFLOW:
            ctx.skip("underflow-zone entry")
            continue
        if not close(a, b, atol=tol):
            ctx.mismatch(op, {"entry": key, "impl": a, "model": b}, case)
            return


def directed(idx, dist, sig, rho):
    """directed membership matrix recomputed in float64 from the implementation's sigmas / rhos"""
    n, k = idx.shape
    A = {}
    for i in range(n):
        for j in range(k):
            c = int(idx[i, j])
            if c < 0:
                continue
            if c == i:
                v = 0.0
            elif dist[i, j] - rho[i] <= 0 or sig[i] == 0:
                v = 1.0
            else:
                v = float(np.exp(-(float(dist[i, j]) - float(rho[i])) / float(sig[i])))
            A[(i, c)] = A.get((i, c), 0.0) + v
    return A


def oracle(ctx, G, r, idx, dist, sig, rho, case, n):
    """the property's clauses on a real graph."""
    G = G.tocsr()
    if G.shape != (n, n):
        ctx.violation("shape", f"graph shape {G.shape} != ({n},{n})", case)
        return
    d = sparse_to_dict(G)
    A = directed(idx, dist, sig, rho)
    coo = G.tocoo()
    if np.any(coo.data == 0):
        ctx.violation("stored-zero", "explicitly stored zero", case)
    if not np.all(np.isfinite(coo.data)):
        ctx.violation("finite", "non-finite stored entry", case)
        return
    for (i, j), v in d.items():
        if i == j:
            ctx.violation("diagonal", f"diagonal entry ({i},{i})={v}", case)
            return
        if not (0 < v <= 1 + 1e-6):
            ctx.violation("range", f"entry ({i},{j})={v} outside (0,1]", case)
            return
        if abs(d.get((j, i), 0.0) - v) > 1e-6:
            ctx.violation("symmetric", f"({i},{j})={v} but ({j},{i})={d.get((j, i), 0.0)}", case)
            return
        a = A.get((i, j), 0.0)
        b = A.get((j, i), 0.0)
        if (i, j) not in A and (j, i) not in A:
            ctx.violation("support", f"edge ({i},{j}) joins no sample to one of its neighbours", case)
            return
        want = r * (a + b - a * b) + (1 - r) * a * b
        if abs(want - v) > ORACLE_TOL:
            ctx.violation("formula", f"({i},{j}): stored {v}, r(a+b-ab)+(1-r)ab = {want} (a={a}, b={b})", case)
            return
        if r == 1.0 and v < max(a, b) - ORACLE_TOL:
            ctx.violation("r1-max", f"({i},{j}): {v} < max(a,b)={max(a, b)}", case)
        if r == 0.0 and v > min(a, b) + ORACLE_TOL:
            ctx.violation("r0-min", f"({i},{j}): {v} > min(a,b)={min(a, b)}", case)
    # every pair with a non-zero blend must be stored (no dropped edge)
    for (i, j) in list(A):
        a = A.get((i, j), 0.0)
        b = A.get((j, i), 0.0)
        want = r * (a + b - a * b) + (1 - r) * a * b
        if want > 1e-4 and (i, j) not in d:
            ctx.violation("dropped-edge", f"({i},{j}) missing although blend = {want}", case)
            return


def run(ctx):
    import srcval as _srcval2
    _srcval2.validate_umap(ctx, 200 if ctx.thorough else 40, ctx.rng, only="compute_membership_strengths")   # translated kernel vs the Python source
    import umap
    from umap.umap_ import fuzzy_simplicial_set, nearest_neighbors
    from sklearn.metrics import pairwise_distances

    ctx.rule = ("cases: (a) random valid kNN tables (uniform/clustered/ties/zero-distance duplicates, "
                "optional inf/-1 tails) through fuzzy_simplicial_set vs the Lean model's `graph` op; "
                "(b) UMAP.fit(...).graph_ on dense / CSR / precomputed inputs vs the model fed with the exact kNN table; "
                "non-trivial = graph has at least one one-directional kNN pair and one mutual pair; distinct by content hash")
    ctx.assumptions += ["float32 bisection vs float64 model: values compared at abs 2e-4; entries below 1e-30 skipped",
                        "SciPy sparse arithmetic and eliminate_zeros by contract"]
    rng = ctx.rng
    drv = Driver()
    pending = []
    ncases = 400 if ctx.thorough else 60
    rs_ = np.random.RandomState(0)
    for t in range(ncases):
        n = int(rng.integers(3, 14))
        k = int(rng.integers(2, min(n, 8) + 1))
        r = float(rng.choice([0.0, 0.25, 0.5, 0.75, 1.0]))
        lc = float(rng.choice([0.0, 0.5, 1.0, 1.0, 1.0, 1.5, 2.0])) if k > 2 else float(rng.choice([0.0, 1.0]))
        lc = min(lc, k - 1.0)
        scale = float(10.0 ** rng.integers(-3, 5))
        idx, dist, kind = gen.knn_table(rng, n, k, scale=scale, inf_frac=float(rng.choice([0, 0, 0.3])))
        li, lf = gen.lc_split(lc)
        if (lf > 0 or lc == 0.0) and np.isinf(dist).any():
            # rho = t * inf / inf - inf: NaN rho, whose comparisons are undefined under fastmath (see C01 notes)
            ctx.skip("fractional or zero lc with inf entries (NaN rho; covered by C01)")
            continue
        case = {"n": n, "k": k, "r": r, "lc": lc, "scale": scale, "kind": str(kind),
                "knn_indices": idx.tolist(), "knn_dists": dist.tolist()}
        X = np.zeros((n, 1), dtype=np.float32)
        try:
            G, sig, rho = fuzzy_simplicial_set(X, k, rs_, "euclidean", knn_indices=idx.copy(), knn_dists=dist.copy(),
                                               set_op_mix_ratio=r, local_connectivity=lc)
        except Exception as e:  # noqa
            ctx.violation("exception", f"fuzzy_simplicial_set raised {type(e).__name__}: {e}", case)
            continue
        h = graph_line(drv, r, k, lc, idx, dist)
        pending.append((h, G, case, r, idx, dist, sig, rho, n))
    outs = drv.run()
    for (h, G, case, r, idx, dist, sig, rho, n) in pending:
        model = parse_coo(outs[h])
        impl = sparse_to_dict(G)
        compare_graphs(ctx, "graph", impl, model, case)
        oracle(ctx, G, r, idx, dist, sig, rho, case, n)
        pairs = {(i, int(j)) for i in range(n) for j in idx[i] if j >= 0 and j != i}
        asym = any((j, i) not in pairs for (i, j) in pairs)
        mutual = any((j, i) in pairs for (i, j) in pairs)
        ctx.case(key=hash((case["n"], case["k"], case["r"], str(case["knn_dists"]))), nontrivial=asym and mutual,
                 sample={k_: case[k_] for k_ in ("n", "k", "r", "lc", "scale", "kind")},
                 kind=case["kind"], r=r, lc=case["lc"], scale_decade=int(np.log10(case["scale"])))

    # (b) real fits
    nfit = 48 if ctx.thorough else 12
    pending = []
    for t in range(nfit):
        n = int(rng.integers(12, 40))
        d = int(rng.integers(2, 6))
        X, kind = gen.dataset(rng, n, d)
        dup = t % 4 == 3
        if dup:   # exact duplicate rows: a sample need not be the first entry of its own kNN row
            for _ in range(int(rng.integers(2, 6))):
                X[rng.integers(0, n)] = X[rng.integers(0, n)]
            kind = kind + "+duplicates"
        k = int(rng.integers(3, 9))
        r = float(rng.choice([0.0, 0.5, 1.0]))
        lc = float(rng.choice([1.0, 1.0, 2.0]))
        # every route into fuzzy_simplicial_set: exact small-data path (dense / CSR / precomputed distances), the
        # approximate-neighbour path (forced) and a user-supplied kNN table; quick tier cycles so each is hit
        forms = ["dense", "csr", "precomputed", "dense-approx", "knn", "sparse-precomputed"]
        form = forms[t % len(forms)] if t < 2 * len(forms) else str(rng.choice(forms))
        metric = str(rng.choice(["euclidean", "manhattan", "cosine"]))
        if form in ("dense-approx", "knn", "sparse-precomputed"):
            # the parameters that are easy to mix up downstream: make them differ
            r, lc = float(rng.choice([0.0, 0.25, 0.5])), float(rng.choice([1.0, 2.0]))
        D = pairwise_distances(X.astype(np.float64), metric=metric)
        np.fill_diagonal(D, 0.0)
        flat = np.sort(D[np.triu_indices(n, 1)])
        if not dup and np.min(np.diff(flat)) < 1e-6 * max(1.0, flat[-1]):
            ctx.skip("near-tied distances")
            continue
        case = {"n": n, "d": d, "k": k, "r": r, "lc": lc, "form": form, "metric": metric, "data_kind": kind,
                "X": X.tolist()}
        kw = dict(n_neighbors=k, set_op_mix_ratio=r, local_connectivity=lc, random_state=1, n_epochs=0,
                  init="random", disconnection_distance=1e30)
        try:
            with RecordFSS() as rec:
                if form == "dense":
                    m = umap.UMAP(metric=metric, **kw).fit(X)
                elif form == "csr":
                    m = umap.UMAP(metric=metric, **kw).fit(scipy.sparse.csr_matrix(X))
                elif form == "dense-approx":
                    m = umap.UMAP(metric=metric, force_approximation_algorithm=True, **kw).fit(X)
                elif form == "knn":
                    D32 = D.astype(np.float32)
                    extra = [1, 3, 0][(t // len(forms)) % 3]     # the table may be wider than n_neighbors: only its first k columns count
                    kidx_w, kdist_w = gen.exact_knn(D32, min(k + extra, n))
                    kidx, kdist = kidx_w[:, :k], kdist_w[:, :k]
                    m = umap.UMAP(metric=metric, precomputed_knn=(kidx_w, kdist_w.astype(np.float32), None), **kw).fit(X)
                    own_table = (kidx.copy(), kdist.astype(np.float32))
                elif form == "sparse-precomputed":
                    # a sparse distance matrix (stored entries = known distances; the diagonal is not stored): fit reads each
                    # sample's neighbours off its row
                    m = umap.UMAP(metric="precomputed", **kw).fit(scipy.sparse.csr_matrix(D.astype(np.float32)))
                else:
                    m = umap.UMAP(metric="precomputed", **kw).fit(D.astype(np.float32))
        except Exception as e:  # noqa
            ctx.violation("exception", f"fit raised {type(e).__name__}: {e}", case)
            continue
        if form == "knn":
            # ground truth independent of what the implementation made of the table: the first k columns of the table we supplied
            idx, dist = own_table
            ctx.bin("distance_source", "supplied-table")
        elif rec.calls:
            # the kNN table of the distance matrix the implementation actually used
            idx, dist = rec.table(0)
            ctx.bin("distance_source", "recorded")
        else:
            # fallback: float64 arithmetic on the float32 data, rounded once
            D32 = D.astype(np.float32)
            np.fill_diagonal(D32, 0.0)
            idx, dist = gen.exact_knn(D32, k)
            ctx.bin("distance_source", "recomputed")
        h = graph_line(drv, r, k, lc, idx, dist)
        pending.append((h, m, case, r, idx, dist, n))
    # refit family: one estimator fitted twice on the same data with a graph-stage parameter changed in between must give what a
    # fresh estimator with the final parameters gives (nothing may be carried over from the first fit)
    for t in range(6 if ctx.thorough else 2):
        n = int(rng.integers(40, 80))
        X, _ = gen.dataset(rng, n, 5, kind="clusters")
        k = int(rng.integers(4, 9))
        first = dict(n_neighbors=k, metric="euclidean", random_state=3, n_epochs=0, init="random", force_approximation_algorithm=bool(t % 2 == 0))
        change = [dict(metric="cosine"), dict(metric="minkowski", metric_kwds={"p": 1.0}), dict(disconnection_distance=float(np.quantile(pairwise_distances(X), 0.2)))][t % 3]
        case = {"family": "refit", "n": n, "k": k, "first": {a: str(b) for a, b in first.items()}, "change": {a: str(b) for a, b in change.items()}, "X": X.tolist()}
        try:
            est = umap.UMAP(**first).fit(X)
            est.set_params(**change)
            g_refit = est.fit(X).graph_
            g_fresh = umap.UMAP(**dict(first, **change)).fit(X).graph_
        except Exception as e:  # noqa
            ctx.violation("exception", f"refit raised {type(e).__name__}: {e}", case)
            continue
        if g_refit.shape != g_fresh.shape or (g_refit != g_fresh).nnz != 0:
            ctx.violation("refit", f"refitting an estimator after set_params({change}) gives a different graph than a fresh estimator with the same parameters "
                                   f"({(g_refit != g_fresh).nnz} entries differ)", case)
        ctx.case(key="refit" + str(case["X"]) + str(change), nontrivial=True, part="refit", approx=first["force_approximation_algorithm"])

    outs = drv.run()
    for (h, m, case, r, idx, dist, n) in pending:
        model = parse_coo(outs[h])
        impl = sparse_to_dict(m.graph_)
        # the distances the implementation used may differ from ours in the last float32 bit (sklearn vs numba);
        # compare at the calibrated-membership tolerance
        compare_graphs(ctx, "fit-graph", impl, model, {k_: v for k_, v in case.items()}, tol=5e-4)
        oracle(ctx, m.graph_, r, idx, dist, m._sigmas, m._rhos, case, n)
        pairs = {(i, int(j)) for i in range(n) for j in idx[i] if j != i}
        asym = any((j, i) not in pairs for (i, j) in pairs)
        ctx.case(key=hash(str(case["X"])) ^ hash((case["k"], case["r"], case["form"])), nontrivial=asym,
                 sample={k_: case[k_] for k_ in ("n", "d", "k", "r", "lc", "form", "metric")},
                 form=case["form"], metric=case["metric"])
