"""C09 — read-only operations leave fitted models and caller arrays untouched."""
import warnings

import numpy as np
import scipy.sparse

import gen
from common import Driver, sha

# protected variable numbering of lean/UmapModel/Heap.lean
PROT = {1: "graph_", 2: "embedding_", 3: "_raw_data", 4: "other.graph_", 5: "caller X", 6: "caller y", 7: "caller init",
        8: "caller knn indices", 9: "caller knn dists"}


def snap_sparse(m):
    m = m.tocsr() if not scipy.sparse.isspmatrix_csr(m) else m
    return sha(m.data, m.indices, m.indptr)


def snap_any(a):
    if a is None:
        return None
    if scipy.sparse.issparse(a):
        # the *values* held: canonical content (an in-place sort of indices does not change the matrix)
        c = a.tocoo()
        order = np.lexsort((c.col, c.row))
        return sha(c.row[order], c.col[order], c.data[order], np.array(a.shape))
    a = np.asarray(a)
    return sha(np.ascontiguousarray(a))


def snap_model(m):
    return {"graph_": snap_sparse(m.graph_), "embedding_": snap_any(m.embedding_), "_raw_data": snap_any(m._raw_data)}


def diff_names(before, after):
    return sorted(k for k in before if before[k] != after[k])


def variants(rng, X):
    """the same data in representations that do / do not need a conversion copy in check_array"""
    return [("float32-C", np.ascontiguousarray(X, dtype=np.float32)),
            ("float64", X.astype(np.float64)),
            ("float32-F", np.asfortranarray(X.astype(np.float32))),
            ("int64", np.round(X * 3).astype(np.int64)),
            ("csr-float32", scipy.sparse.csr_matrix(X.astype(np.float32))),
            ("csr-float64", scipy.sparse.csr_matrix(X.astype(np.float64))),
            ("csc-float32", scipy.sparse.csc_matrix(X.astype(np.float32))),
            ("coo-float32", scipy.sparse.coo_matrix(X.astype(np.float32)))]


def run(ctx):
    import umap
    rng = ctx.rng
    warnings.filterwarnings("ignore")
    ctx.rule = ("deep snapshots (sha256 of embedding_, graph_.data/indices/indptr, _raw_data, every caller array) before and after each "
                "operation: fit / transform / update with inputs in representations that do and do not need a conversion copy "
                "(float32-C, float64, Fortran order, int64, CSR/CSC/COO, float32/float64), init arrays with duplicate rows, precomputed "
                "distance matrices and kNN tables with a disconnection threshold that bites; transform / inverse_transform / + * - on "
                "fitted models (small n_epochs so pruning bites), incl. non-euclidean output metrics and after update; observed set of "
                "modified protected objects vs the Lean heap model's prediction under the measured tocoo() resolution; "
                "non-trivial = the operation performs at least one in-place write on a private buffer")
    ctx.assumptions += ["the data flow of each operation is hand-modelled (Heap.lean); a write the model omits shows up as an unpredicted modification",
                        "an in-place sort_indices() of a caller's CSR matrix keeps the matrix's values and is not counted as a modification"]
    drv = Driver()
    # SciPy's tocoo() resolution, measured
    probe = scipy.sparse.random(6, 6, 0.5, format="csr", dtype=np.float32)
    shares = bool(np.shares_memory(probe.tocoo().data, probe.data))
    ctx.bin("scipy_tocoo_shares", shares)
    mask_all = 0xFFFF if shares else 0
    preds = {}
    for prog in ("fit", "transform", "inverse", "sub", "addmul", "update", "layout"):
        preds[prog] = drv.add("heap", prog, mask_all)
    outs = drv.run()
    pred = {k: sorted(PROT[int(b)] for b in outs[h].split()[1:]) for k, h in preds.items()}

    def report(op, prog, modified, case):
        """modified: names of protected objects whose hash changed"""
        want = pred[prog]
        ctx.case(key=op + str(case), nontrivial=True, sample=dict(case, op=op) if len(ctx.samples) < 5 else None, op=op.split(":")[0])
        if modified:
            ctx.violation(op.split(":")[0], f"{op}: modified {modified}", case, key=None)
        if sorted(modified) != want:
            ctx.mismatch("heap." + prog, {"observed": modified, "model": want}, dict(case, op=op))

    n, d = 45, 5
    X, _ = gen.dataset(rng, n, d, kind="clusters")
    Xnew = (X[:8] + 0.05 * rng.normal(size=(8, d))).astype(np.float32)

    # ---- fit: caller arrays ----
    reps = variants(rng, X)
    nrep = len(reps) if ctx.thorough else 5
    for name, Xv in reps[:nrep] if ctx.thorough else [reps[i] for i in (0, 1, 2, 4, 6)]:
        y = rng.integers(0, 3, n).astype(rng.choice([np.int64, np.float64, np.int32]))
        init = rng.normal(size=(n, 2)).astype(np.float32 if rng.random() < 0.7 else np.float64)
        init[3] = init[4]                      # duplicate rows: the de-duplication jitter branch
        init[7] = init[9]
        if rng.random() < 0.5:
            init = np.asfortranarray(init)
        b = {"caller X": snap_any(Xv), "caller y": snap_any(y), "caller init": snap_any(init)}
        case = {"X": name, "y": str(y.dtype), "init": str(init.dtype) + ("-F" if init.flags.f_contiguous and not init.flags.c_contiguous else "-C")}
        try:
            m = umap.UMAP(n_neighbors=6, n_epochs=11, init=init, random_state=4).fit(Xv, y)
        except Exception as e:  # noqa
            ctx.violation("fit", f"fit raised {type(e).__name__}: {e}", case)
            continue
        a = {"caller X": snap_any(Xv), "caller y": snap_any(y), "caller init": snap_any(init)}
        report("fit:data/targets/init", "fit", diff_names(b, a), case)

    # fit with precomputed kNN and a threshold that bites
    from sklearn.metrics import pairwise_distances
    D = pairwise_distances(X.astype(np.float64))
    idx, dist = gen.exact_knn(D, 8)
    thr = float(np.quantile(dist[:, 1:], 0.6))
    near = D <= np.sort(D, axis=1)[:, [12]]
    Dcsr = scipy.sparse.csr_matrix(np.where(near | near.T, D, 0).astype(np.float32))      # symmetric, >= 12 stored neighbours per row
    for data_form in ("dense-data", "csr-precomputed-distances"):
        for dt, it in ((np.float32, np.int64), (np.float64, np.int64), (np.float64, np.int32), (np.float32, np.int32)):
            for width in (8, 6):
                ki, kd = idx[:, :width].astype(it), dist[:, :width].astype(dt)
                Xin = X if data_form == "dense-data" else Dcsr.copy()
                kw = dict(n_neighbors=6, precomputed_knn=(ki, kd), disconnection_distance=thr, n_epochs=5, random_state=1)
                if data_form != "dense-data":
                    kw["metric"] = "precomputed"
                b = {"caller knn indices": snap_any(ki), "caller knn dists": snap_any(kd), "caller X": snap_any(Xin)}
                case = {"data": data_form, "knn_dtype": str(np.dtype(dt)), "index_dtype": str(np.dtype(it)), "columns": width, "threshold": thr}
                try:
                    umap.UMAP(**kw).fit(Xin)
                except Exception as e:  # noqa
                    ctx.violation("fit", f"fit with precomputed_knn raised {type(e).__name__}: {e}", case)
                    continue
                a = {"caller knn indices": snap_any(ki), "caller knn dists": snap_any(kd), "caller X": snap_any(Xin)}
                report("fit:precomputed_knn", "fit", diff_names(b, a), case)
    # fit on a precomputed distance matrix (dense float32-C needs no conversion copy; sparse too)
    for name, Dv in [("precomputed-float32-C", np.ascontiguousarray(D, dtype=np.float32)), ("precomputed-float64", D.copy()),
                     ("precomputed-csr", scipy.sparse.csr_matrix(np.where(D < np.quantile(D, 0.5), D, 0).astype(np.float32)))]:
        b = {"caller X": snap_any(Dv)}
        try:
            umap.UMAP(n_neighbors=5, metric="precomputed", disconnection_distance=float(np.quantile(D, 0.3)), n_epochs=5,
                      random_state=1).fit(Dv)
        except Exception as e:  # noqa
            ctx.skip(f"precomputed fit not applicable: {type(e).__name__}")
            continue
        report("fit:precomputed-matrix", "fit", diff_names(b, {"caller X": snap_any(Dv)}), {"X": name})

    # ---- read-only operations on fitted models ----
    models = {
        "euclid-e11": umap.UMAP(n_neighbors=6, n_epochs=11, random_state=3).fit(X),
        "euclid-e200": umap.UMAP(n_neighbors=9, n_epochs=200, random_state=3, set_op_mix_ratio=0.5).fit(X[:, ::-1].copy()),
    }
    if ctx.thorough:
        models["csr"] = umap.UMAP(n_neighbors=6, n_epochs=11, random_state=3).fit(scipy.sparse.csr_matrix(X))
    for mname, m in models.items():
        for vname, Yv in [("float32-C", Xnew), ("float64", Xnew.astype(np.float64)), ("F-order", np.asfortranarray(Xnew))]:
            if mname == "csr":
                Yv = scipy.sparse.csr_matrix(np.asarray(Yv, dtype=np.float32))
            b = dict(snap_model(m), **{"caller X": snap_any(Yv)})
            m.transform(Yv)
            a = dict(snap_model(m), **{"caller X": snap_any(Yv)})
            report("transform", "transform", diff_names(b, a), {"model": mname, "Y": vname})
        if mname != "csr":
            # a few rows, and the round trip with one row per training sample (same shape as the training data's embedding)
            for zname, Z in (("4 rows", (m.embedding_[:4] * 0.99).astype(np.float32)), ("n_train rows", m.embedding_.astype(np.float32).copy())):
                b = dict(snap_model(m), **{"caller X": snap_any(Z)})
                m.inverse_transform(Z)
                a = dict(snap_model(m), **{"caller X": snap_any(Z)})
                report("inverse_transform", "inverse", diff_names(b, a), {"model": mname, "Z": zname})
    A, B = models["euclid-e11"], models["euclid-e200"]
    # same samples, same neighbours, different strengths: graphs with an identical sparsity pattern
    A2 = umap.UMAP(n_neighbors=6, n_epochs=11, random_state=3, set_op_mix_ratio=0.5).fit(X)
    for opname, fn, prog in [("sub", lambda p, q: p - q, "sub"), ("add", lambda p, q: p + q, "addmul"), ("mul", lambda p, q: p * q, "addmul")]:
        for (l, r, tag) in [(A, B, "A,B"), (B, A, "B,A"), (A, A2, "A,A' (identical sparsity pattern)"), (A, A, "A,A")]:
            b = {"graph_": snap_sparse(l.graph_), "embedding_": snap_any(l.embedding_), "_raw_data": snap_any(l._raw_data),
                 "other.graph_": snap_sparse(r.graph_), "other.embedding_": snap_any(r.embedding_)}
            try:
                fn(l, r)
            except Exception as e:  # noqa
                ctx.violation(opname, f"{opname} raised {type(e).__name__}: {e}", {"operands": tag})
                continue
            a = {"graph_": snap_sparse(l.graph_), "embedding_": snap_any(l.embedding_), "_raw_data": snap_any(l._raw_data),
                 "other.graph_": snap_sparse(r.graph_), "other.embedding_": snap_any(r.embedding_)}
            report(opname, prog, diff_names(b, a), {"operands": tag})

    # ---- non-euclidean output metric, after update (embedding_ no longer canonical for in-place metric kernels) ----
    for om, nc in [("haversine", 2), ("gaussian_energy", 5)] + ([("hyperboloid", 2), ("manhattan", 2)] if ctx.thorough else []):
        try:
            m = umap.UMAP(n_neighbors=6, n_epochs=11, random_state=3, output_metric=om, n_components=nc).fit(X)
            m.update((X[:6] + 0.1).astype(np.float32))
        except Exception as e:  # noqa
            ctx.skip(f"output_metric {om}: {type(e).__name__}")
            continue
        b = snap_model(m)
        try:
            m.transform(Xnew)
        except Exception as e:  # noqa
            ctx.skip(f"transform with output_metric {om}: {type(e).__name__}")
            continue
        report("transform:" + om, "transform", diff_names(b, snap_model(m)), {"output_metric": om, "history": "fit,update,transform"})

    # ---- update: caller's batch ----
    for vname, Bv in [("float32-C", Xnew.copy()), ("float64", Xnew.astype(np.float64))]:
        m = umap.UMAP(n_neighbors=6, n_epochs=11, random_state=3).fit(X)
        b = {"caller X": snap_any(Bv)}
        m.update(Bv)
        report("update", "update", diff_names(b, {"caller X": snap_any(Bv)}), {"batch": vname})

    # ---- sequences of read-only operations ----
    if ctx.thorough:
        import itertools
        m = models["euclid-e11"]
        for seq in itertools.product(["T", "I", "+", "-"], repeat=3):
            b = snap_model(m)
            for o in seq:
                if o == "T":
                    m.transform(Xnew)
                elif o == "I":
                    m.inverse_transform((m.embedding_[:3] * 0.99).astype(np.float32))
                elif o == "+":
                    m + B
                else:
                    m - B
            report("sequence", "transform", diff_names(b, snap_model(m)), {"sequence": "".join(seq)})
