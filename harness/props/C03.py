"""C03 — the graph depends on the data only through the chosen metric's distances."""
import warnings

import numpy as np

import metricgen as mg
import regen as regen_mod
from common import sparse_to_dict

BOUNDED = {"correlation": 2, "cosine": 2, "hellinger": 1, "jaccard": 1, "dice": 1, "bit_jaccard": 1}
PYNN_ONLY = ["sqeuclidean", "jensen_shannon", "true_angular", "tsss", "spearmanr", "dot"]
GRAPH_TOL = 2e-5



def gdiff(a, b):
    da, db = sparse_to_dict(a), sparse_to_dict(b)
    worst, at = 0.0, None
    for k in set(da) | set(db):
        d = abs(da.get(k, 0.0) - db.get(k, 0.0))
        if d > worst:
            worst, at = d, k
    return worst, at


def data_for(rng, name, n, d):
    c = mg.canon(name)
    if c in mg.BINARY or name in ("bit_jaccard", "bit_hamming"):
        return (rng.random((n, 24)) < 0.45).astype(np.float32)
    if c in ("hellinger", "ll_dirichlet", "symmetric_kl", "jensen_shannon", "jensen-shannon"):
        return (rng.integers(1, 9, (n, d)) + (rng.random((n, d)) < 0.3)).astype(np.float32)
    if c == "haversine":
        return np.c_[rng.uniform(-1.3, 1.3, n), rng.uniform(-3, 3, n)].astype(np.float32)
    if c == "poincare":
        X = rng.normal(size=(n, d))
        return (X / (1 + np.linalg.norm(X, axis=1, keepdims=True)) * 0.9).astype(np.float32)
    return rng.normal(size=(n, d)).astype(np.float32)      # mixed signs on purpose


def kwds_for(rng, name, d):
    c = mg.canon(name)
    if c == "minkowski":
        return {"p": float(rng.choice([1.5, 3.0]))}
    if c == "seuclidean":
        return {"V": rng.uniform(0.5, 2.0, d)}
    if c == "wminkowski":
        return {"w": rng.uniform(0.5, 2.0, d), "p": float(rng.choice([1.5, 3.0]))}
    if c == "mahalanobis":
        A = rng.normal(size=(d, d))
        return {"VI": A @ A.T / d + 0.5 * np.eye(d)}
    return {}


def distance_matrix(name, X, kw):
    """pairwise distances by the library function registered for `name` (umap's, else pynndescent's)"""
    import umap.distances as D
    from sklearn.metrics import pairwise_distances
    if name in D.named_distances:
        f = D.named_distances[name]
    else:
        import pynndescent.distances as P
        f = P.named_distances[name]
    args = tuple(kw.values())
    n = X.shape[0]
    M = np.zeros((n, n))
    for i in range(n):
        # the diagonal is what the metric itself returns for (x, x) — the named path computes it too
        # (e.g. ll_dirichlet's Stirling approximation leaves ~5e-4 there)
        M[i, i] = float(f(X[i].copy(), X[i].copy(), *args))
        for j in range(i + 1, n):
            M[i, j] = M[j, i] = float(f(X[i].copy(), X[j].copy(), *args))
    return M


def distinct(M, tol=1e-6):
    """pairwise-distinct distances (also distinct after rounding to float32), rows contain no zero off-diagonal"""
    n = M.shape[0]
    v = np.sort(M[np.triu_indices(n, 1)])
    if not np.all(np.isfinite(v)) or v[0] <= 0:
        return False
    return bool(np.min(np.diff(v) / np.maximum(v[1:], 1e-12)) > tol)


def run(ctx):
    import umap
    import umap.distances as D
    from umap.umap_ import DISCONNECTION_DISTANCES
    warnings.filterwarnings("ignore")
    rng = ctx.rng
    names = [n for n in D.named_distances if n not in D.DISCRETE_METRICS and n != "mahalanobis"] + ["mahalanobis"] + PYNN_ONLY
    ctx.rule = ("for every metric name UMAP accepts (umap's registry incl. aliases, with metric_kwds; a sample of pynndescent-only names): "
                "jittered datasets with pairwise-distinct distances (checked in float32, else skipped), exact path: graph of "
                "fit(X, metric=m) vs fit(D_m(X), 'precomputed') with the library's own distance function (default disconnection distance "
                "for unbounded metrics, an explicit equal one for the six bounded metrics), sample permutation (conjugation), positive "
                "rescaling of the distances by 1e-3 .. 1e3, the same data as a CSR matrix (where the metric is accepted for sparse input), a second fit in the same process with other metric_kwds, and for euclidean feature permutation / translation (also 128-200 features on a dyadic grid with exactly representable offsets); non-trivial = the graph "
                "has at least 3 distinct strengths")
    ctx.assumptions += ["graphs compared at abs 2e-5 (float32 bisection); dispatch through sklearn.pairwise_distances / numba is tied only by this run",
                        "n >= 4096 (NN-descent) is outside the property's scope"]
    sel = names if ctx.thorough else [n for n in names if n in ("euclidean", "l1", "chebyshev", "minkowski", "seuclidean", "wminkowski",
                                                                 "mahalanobis", "canberra", "cosine", "correlation", "braycurtis",
                                                                 "hellinger", "jaccard", "yule", "haversine", "sqeuclidean", "ll_dirichlet")]
    reps = 3 if ctx.thorough else 1
    # the disconnection table must be exactly the six bounded metrics (also a Lean obligation over Generated)
    if dict(DISCONNECTION_DISTANCES) != BOUNDED:
        extra = sorted(set(DISCONNECTION_DISTANCES) ^ set(BOUNDED))
        ctx.notes.append(f"DISCONNECTION_DISTANCES differs from the specification on {extra}")
    for name in sel:
        done = 0
        for rep in range(reps * 6):
            if done >= reps:
                break
            n = int(rng.integers(16, 32))
            d = int(rng.integers(3, 7))
            k = int(rng.integers(8, 16)) if rep % 2 == 0 else int(rng.integers(4, 8))
            k = min(k, n - 2)
            X = data_for(rng, name, n, d)
            kw = kwds_for(rng, name, X.shape[1])
            if mg.canon(name) in mg.BINARY or name in ("bit_jaccard",):
                ctx.skip("binary metric: distances are heavily tied (out of the property's 'pairwise-distinct' scope)")
                break
            try:
                M = distance_matrix(name, X, kw)
            except Exception as e:  # noqa
                ctx.skip(f"distance function for {name} not applicable to generated data: {type(e).__name__}")
                break
            if not np.all(np.isfinite(M)):
                ctx.skip(f"metric returns a non-finite value on the generated data (e.g. d(x, x) = NaN): precomputed input is rejected")
                break
            if not distinct(M):
                ctx.skip("distances not pairwise distinct")
                continue
            case = {"metric": name, "n": n, "k": k, "metric_kwds": {a: (b.tolist() if isinstance(b, np.ndarray) else b) for a, b in kw.items()},
                    "X": X.tolist()}
            base = dict(n_neighbors=k, random_state=3, n_epochs=0, init="random")
            if name in BOUNDED:
                base["disconnection_distance"] = float(BOUNDED[name])   # bounded metrics: same explicit threshold on both sides
            try:
                g_named = umap.UMAP(metric=name, metric_kwds=(kw or None), **base).fit(X).graph_
                g_pre = umap.UMAP(metric="precomputed", **base).fit(M.astype(np.float64)).graph_
            except Exception as e:  # noqa
                ctx.violation("exception", f"fit with metric {name} raised {type(e).__name__}: {e}", case, key=f"C03:{name}:exception")
                continue
            w, at = gdiff(g_named, g_pre)
            if w > GRAPH_TOL:
                ctx.violation("named-vs-precomputed", f"metric {name}: graph differs from the precomputed-distance graph by {w} at {at} "
                                                      f"({g_named.nnz} vs {g_pre.nnz} entries)", case, key=f"C03:{name}:precomputed")
            # permutation of the samples
            perm = rng.permutation(n)
            g_perm = umap.UMAP(metric=name, metric_kwds=(kw or None), **base).fit(X[perm]).graph_
            inv = np.argsort(perm)
            g_back = g_perm.tocsr()[inv][:, inv]
            w, at = gdiff(g_named, g_back)
            if w > GRAPH_TOL:
                ctx.violation("permutation", f"metric {name}: permuting the samples does not conjugate the graph (diff {w} at {at})", case,
                              key=f"C03:{name}:permutation")
            # positive rescaling of all distances
            for c in ((1e-3, 37.0, 1e3) if ctx.thorough else (float(rng.choice([1e-3, 2.0 ** -10, 1.3e-4])), float(rng.choice([37.0, 1e3])))):
                b2 = dict(base)
                if "disconnection_distance" in b2:
                    b2["disconnection_distance"] = b2["disconnection_distance"] * c
                g_sc = umap.UMAP(metric="precomputed", **b2).fit(M * c).graph_
                w, at = gdiff(g_pre, g_sc)
                if w > 1e-3:
                    ctx.violation("scale", f"metric {name}: multiplying all distances by {c} changes the graph by {w} at {at}",
                                  dict(case, factor=c), key=f"C03:{name}:scale")
            # CSR input takes another route to the same distances (sklearn on sparse data, umap's sparse kernels, or a dense
            # fall-back with the metric's keyword arguments): same graph as the precomputed matrix
            import scipy.sparse
            try:
                g_csr = umap.UMAP(metric=name, metric_kwds=(kw or None), **base).fit(scipy.sparse.csr_matrix(X)).graph_
            except (ValueError, TypeError, NotImplementedError) as e:
                ctx.skip(f"metric not accepted for sparse input: {type(e).__name__}")
                g_csr = None
            except Exception as e:  # noqa
                ctx.violation("exception", f"fit(CSR) with metric {name} raised {type(e).__name__}: {e}", case, key=f"C03:{name}:exception")
                g_csr = None
            if g_csr is not None:
                w, at = gdiff(g_csr, g_pre)
                ctx.bin("csr_route", mg.canon(name))
                if w > GRAPH_TOL:
                    ctx.violation("named-vs-precomputed", f"metric {name}, CSR input: graph differs from the precomputed-distance graph by {w} at {at} "
                                                          f"({g_csr.nnz} vs {g_pre.nnz} entries)", dict(case, input="csr"), key=f"C03:{name}:precomputed-csr")
            if kw and g_csr is not None:
                # the same metric again in the same process with other keyword values (nothing may be remembered from the first fit)
                kw2 = kwds_for(rng, name, X.shape[1])
                if "p" in kw2 and kw2["p"] == kw.get("p"):
                    kw2["p"] = 4.0 if kw["p"] != 4.0 else 2.5
                try:
                    M2 = distance_matrix(name, X, kw2)
                    if distinct(M2):
                        g_pre2 = umap.UMAP(metric="precomputed", **base).fit(M2.astype(np.float64)).graph_
                        for form2, Xf2 in (("csr", scipy.sparse.csr_matrix(X)), ("dense", X)):
                            g2 = umap.UMAP(metric=name, metric_kwds=kw2, **base).fit(Xf2).graph_
                            w, at = gdiff(g2, g_pre2)
                            if w > GRAPH_TOL:
                                ctx.violation("named-vs-precomputed", f"metric {name} ({form2} input), second fit in the process with other metric_kwds: "
                                                                      f"graph differs from the precomputed-distance graph by {w} at {at}",
                                              dict(case, input=form2, second_metric_kwds={a: (b.tolist() if isinstance(b, np.ndarray) else b) for a, b in kw2.items()}),
                                              key=f"C03:{name}:precomputed-history")
                        ctx.bin("kwds_history", mg.canon(name))
                except Exception as e:  # noqa
                    ctx.violation("exception", f"second fit with metric {name} raised {type(e).__name__}: {e}", case, key=f"C03:{name}:exception")
            if name == "euclidean":
                # wide data on a dyadic grid, translated by an offset that float32 represents exactly: every coordinate difference is
                # unchanged bit for bit, so the graph must be too
                dw = int(rng.choice([128, 160, 200]))
                Xw = (np.round(rng.normal(size=(n, dw)) * 256) / 256).astype(np.float32)
                gw = umap.UMAP(metric=name, **base).fit(Xw).graph_
                for off in (256.0, 1024.0):
                    gw2 = umap.UMAP(metric=name, **base).fit((Xw + np.float32(off)).astype(np.float32)).graph_
                    w, at = gdiff(gw, gw2)
                    if w > 5e-4:
                        ctx.violation("euclidean-invariance", f"translating {dw}-feature data by {off} changes the euclidean graph by {w} at {at}",
                                      {"metric": name, "n": n, "k": k, "features": dw, "offset": off, "X": Xw.tolist()}, key="C03:euclidean:translation")
                fp = rng.permutation(X.shape[1])
                g_fp = umap.UMAP(metric=name, **base).fit(X[:, fp].copy()).graph_
                shift = rng.normal(size=X.shape[1]).astype(np.float32) * 3
                g_tr = umap.UMAP(metric=name, **base).fit((X + shift).astype(np.float32)).graph_
                for what, g2 in (("feature permutation", g_fp), ("translation", g_tr)):
                    w, at = gdiff(g_named, g2)
                    if w > 5e-4:
                        ctx.violation("euclidean-invariance", f"{what} changes the euclidean graph by {w} at {at}", case, key=f"C03:euclidean:{what}")
            done += 1
            nd = len(set(np.round(g_named.data, 5).tolist()))
            ctx.case(key=hash(str(case["X"])) ^ hash(name), nontrivial=nd >= 3,
                     sample={a: case[a] for a in ("metric", "n", "k", "metric_kwds")} if len(ctx.samples) < 4 else None, metric=mg.canon(name))
