"""C20 — precomputed_knn is used exactly as if UMAP had computed (and pruned) it."""
REGEN = ("constants", "registry", "knn")
import warnings

import numpy as np

import gen
import regen as regen_mod
from common import sparse_to_dict



def graph_diff(a, b):
    da, db = sparse_to_dict(a), sparse_to_dict(b)
    worst, at = 0.0, None
    for k in set(da) | set(db):
        d = abs(da.get(k, 0.0) - db.get(k, 0.0))
        if d > worst:
            worst, at = d, k
    return worst, at


def model_decision(cols, k, rows, n, force):
    """mirror of Umap.Api.validatePrecomputedKnn false (proved equal to the live table in Lean)"""
    if cols < k or rows != n:
        return None
    return min(cols, k)


def run(ctx):
    import umap
    from sklearn.metrics import pairwise_distances
    rng = ctx.rng
    ctx.rule = ("real fits with precomputed_knn tables of k, k+1, 2k columns x force_approximation_algorithm in {F,T} x 2-/3-tuples "
                "x n in {80,300} (thorough: + one n>=4096): graph vs first-k-columns fit (exact) and vs UMAP's own exact fit (abs 1e-5); "
                "too-few-columns / wrong-row-count tables vs ordinary fit (also on an estimator previously fitted with a usable table); a non-exact table at the size threshold n = 4096 (4095 / 4097 thorough) under both force settings; the live decision table over the abstraction grid is "
                "regenerated into Lean and proved equal to the model; non-trivial = table has extra columns or is rejected")
    ctx.assumptions += ["NN-descent is not exercised: tables are exact", "graph of own exact fit compared at abs 1e-5 (distance rounding sklearn vs harness)"]
    ncfg = 24 if ctx.thorough else 8
    sizes = [80, 300]
    for t in range(ncfg):
        n = int(rng.choice(sizes))
        k = int(rng.integers(3, 9))
        X, kind = gen.dataset(rng, n, int(rng.integers(2, 6)), kind="gauss")
        # the same distance kernel UMAP's exact path uses, so that the supplied table is *the* exact table
        import umap.distances as UD
        D = pairwise_distances(X, metric=UD.named_distances["euclidean"])
        np.fill_diagonal(D, 0.0)
        extra = int(rng.choice([0, 1, k]))
        force = bool(rng.integers(0, 2))
        three = bool(rng.integers(0, 2))
        idx, dist = gen.exact_knn(D, k + extra)
        dist = dist.astype(np.float32)
        case = {"n": n, "k": k, "cols": k + extra, "force": force, "three_tuple": three, "X": X.tolist()}
        kw = dict(n_neighbors=k, random_state=5, n_epochs=0, init="random")

        def fit(tbl, **more):
            with warnings.catch_warnings(record=True) as w:
                warnings.simplefilter("always")
                m = umap.UMAP(precomputed_knn=tbl, force_approximation_algorithm=force, **kw, **more).fit(X)
            return m, [str(x.message) for x in w]

        tbl = (idx.copy(), dist.copy(), None) if three else (idx.copy(), dist.copy())
        try:
            m_full, _ = fit(tbl)
            m_pref, _ = fit((idx[:, :k].copy(), dist[:, :k].copy()))
            m_own = umap.UMAP(force_approximation_algorithm=False, **kw).fit(X)
        except Exception as e:  # noqa
            ctx.violation("exception", f"fit raised {type(e).__name__}: {e}", case)
            continue
        d1, at1 = graph_diff(m_full.graph_, m_pref.graph_)
        if d1 != 0.0:
            ctx.violation("prefix", f"graph with {k + extra} columns differs from the graph with its first {k} columns by {d1} at {at1} "
                                    f"({m_full.graph_.nnz} vs {m_pref.graph_.nnz} entries)", case)
        d2, at2 = graph_diff(m_full.graph_, m_own.graph_)
        if d2 > 2e-6:
            ctx.violation("exact-table", f"graph from the exact kNN table differs from UMAP's own exact fit by {d2} at {at2}", case)
        used = getattr(m_full, "_knn_dists", None)
        want = model_decision(k + extra, k, n, n, force)
        if used is not None and used.shape[1] != want:
            ctx.mismatch("decision", {"columns_used": int(used.shape[1]), "model": want}, {k_: case[k_] for k_ in case if k_ != "X"})
        ctx.case(key=hash(str(case["X"])) ^ hash((k, extra, force, three)), nontrivial=extra > 0,
                 sample={k_: case[k_] for k_ in case if k_ != "X"}, extra=extra, force=force, n=n, three=three)

        # rejected tables: too few columns / wrong number of rows -> warning + ordinary fit
        if t % 2 == 0:
            bad_kind = str(rng.choice(["few-columns", "wrong-rows"]))
            if bad_kind == "few-columns":
                btbl = (idx[:, :k - 1].copy(), dist[:, :k - 1].copy())
            else:
                btbl = (idx[:-1].copy(), dist[:-1].copy())
            try:
                m_bad, warns = fit(btbl)
            except Exception as e:  # noqa
                ctx.violation("rejected-exception", f"{bad_kind}: fit raised {type(e).__name__}: {e}", dict(case, bad=bad_kind))
                continue
            m_ord_force = umap.UMAP(force_approximation_algorithm=force, **kw).fit(X)
            d3, at3 = graph_diff(m_bad.graph_, m_ord_force.graph_)
            if not any("ignored" in w for w in warns):
                ctx.violation("rejected-warning", f"{bad_kind}: no 'ignored' warning issued", dict(case, bad=bad_kind))
            if d3 != 0.0:
                ctx.violation("rejected-ordinary", f"{bad_kind}: graph differs from an ordinary fit by {d3} at {at3}", dict(case, bad=bad_kind))
            ctx.case(key=hash(str(case["X"])) ^ hash(bad_kind), nontrivial=True, rejected=bad_kind)
            # the same, on an estimator that has already been fitted with a usable table (nothing of that fit may stick to it)
            X2 = X[:-3]
            try:
                with warnings.catch_warnings(record=True) as w2:
                    warnings.simplefilter("always")
                    est = umap.UMAP(precomputed_knn=(idx.copy(), dist.copy()), force_approximation_algorithm=force, **kw)
                    est.fit(X)
                    g_re = est.fit(X2).graph_                      # the table now has the wrong number of rows
                    g_or = umap.UMAP(force_approximation_algorithm=force, **kw).fit(X2).graph_
            except Exception as e:  # noqa
                ctx.violation("rejected-exception", f"refit with a table of the wrong size raised {type(e).__name__}: {e}", dict(case, bad="reused-estimator"))
                continue
            d4, at4 = graph_diff(g_re, g_or)
            if d4 != 0.0:
                ctx.violation("rejected-ordinary", f"estimator fitted with a usable table, then refitted on data of another size (table ignored): graph differs "
                                                   f"from an ordinary fit by {d4} at {at4}", dict(case, bad="reused-estimator"), key="C20:force-flag-sticks-to-estimator")
            ctx.case(key=hash(str(case["X"])) ^ hash("reused"), nontrivial=True, rejected="reused-estimator")

    # the size threshold itself: at n = 4095, 4096 (and 4200 in the thorough tier) a usable table is used as given, whatever
    # force_approximation_algorithm says — shown with a table that is NOT the exact one (neighbours under another metric), so that
    # silently recomputing the neighbours cannot go unnoticed
    from sklearn.neighbors import NearestNeighbors
    import umap.umap_ as UU
    for n in ((4095, 4096, 4097) if ctx.thorough else (4096,)):
        k = 5
        X, _ = gen.dataset(rng, n, 3, kind="gauss")
        nbm = NearestNeighbors(n_neighbors=k + 2, metric="manhattan").fit(X)
        dist_m, idx_m = nbm.kneighbors(X)
        tbl = (idx_m.astype(np.int64), dist_m.astype(np.float32))
        graphs = {}
        case = {"n": n, "k": k, "table": "manhattan neighbours supplied for metric='euclidean'"}
        try:
            for force in (False, True):
                graphs[force] = umap.UMAP(n_neighbors=k, precomputed_knn=(tbl[0].copy(), tbl[1].copy()), n_epochs=0, init="random", random_state=1,
                                          force_approximation_algorithm=force).fit(X).graph_
            want, _, _ = UU.fuzzy_simplicial_set(X, k, np.random.RandomState(1), "euclidean", {}, tbl[0][:, :k].copy(), tbl[1][:, :k].copy())
        except Exception as e:  # noqa
            ctx.violation("exception", f"n={n}: fit with a precomputed table raised {type(e).__name__}: {e}", case)
            continue
        for force in (False, True):
            d, at = graph_diff(graphs[force], want)
            if d != 0.0:
                ctx.violation("threshold", f"n={n}, force_approximation_algorithm={force}: the graph is not the graph of the supplied table's first {k} "
                                           f"columns (differs by {d} at {at}; {graphs[force].nnz} vs {want.nnz} entries)", dict(case, force=force))
        ctx.case(key=f"threshold{n}", nontrivial=True, n=n, part="size-threshold")

    if ctx.thorough:
        n, k = 4200, 5
        X, _ = gen.dataset(rng, n, 3, kind="gauss")
        from sklearn.neighbors import NearestNeighbors
        nb = NearestNeighbors(n_neighbors=2 * k).fit(X)
        dist, idx = nb.kneighbors(X)
        for force in (False, True):
            a = umap.UMAP(n_neighbors=k, precomputed_knn=(idx.copy(), dist.astype(np.float32)), n_epochs=0, init="random",
                          random_state=1, force_approximation_algorithm=force).fit(X)
            b = umap.UMAP(n_neighbors=k, precomputed_knn=(idx[:, :k].copy(), dist[:, :k].astype(np.float32)), n_epochs=0,
                          init="random", random_state=1, force_approximation_algorithm=force).fit(X)
            d, at = graph_diff(a.graph_, b.graph_)
            if d != 0.0:
                ctx.violation("prefix-large", f"n={n}, force={force}: graphs differ by {d} at {at}", {"n": n, "k": k, "force": force})
            ctx.case(key=f"large{force}", nontrivial=True, n=n)
