"""C13 — sparse-input metrics agree with their dense counterparts."""
import numpy as np
import scipy.sparse

import metricgen as mg
import regen as regen_mod
from common import Driver, f2b, b2f, close, sparse_to_dict

REGEN = ("constants", "registry", "distsrc", "sparsesrc")


def sparse_pair(rng, name, dim=None):
    dim = dim or int(rng.choice([1, 2, 3, 5, 8, 16, 40]))
    kind = str(rng.choice(["gauss-mask", "integer", "binary", "identical-support", "value-equals-mean", "cancelling",
                           "empty-row", "both-empty", "identical", "disjoint"]))
    dens = float(rng.choice([0.2, 0.5, 0.9]))
    if kind == "gauss-mask":
        x = rng.normal(size=dim) * (rng.random(dim) < dens)
        y = rng.normal(size=dim) * (rng.random(dim) < dens)
    elif kind == "integer":
        x = rng.integers(-3, 4, dim) * (rng.random(dim) < dens)
        y = rng.integers(-3, 4, dim) * (rng.random(dim) < dens)
    elif kind == "binary":
        x = (rng.random(dim) < dens).astype(float)
        y = (rng.random(dim) < dens).astype(float)
    elif kind == "identical-support":
        m = rng.random(dim) < dens
        x = rng.integers(1, 5, dim) * m
        y = rng.integers(1, 5, dim) * m
    elif kind == "value-equals-mean":
        x = rng.integers(0, 5, dim).astype(float)
        y = rng.integers(0, 5, dim).astype(float)
        if dim >= 2:
            # make one stored value of x equal to the row mean
            x[0] = 0.0
            s = x[1:].sum()
            x[0] = s / (dim - 1) if s != 0 else 0.0
    elif kind == "cancelling":
        x = rng.integers(-2, 3, dim).astype(float)
        y = x.copy()
        j = rng.integers(0, dim)
        y[j] = -x[j]
    elif kind == "empty-row":
        x = np.zeros(dim)
        y = rng.integers(0, 4, dim).astype(float)
        if rng.random() < 0.3:
            y = np.full(dim, 2.0)       # constant dense vector against an empty one
        if rng.random() < 0.5:
            x, y = y, x
    elif kind == "both-empty":
        x, y = np.zeros(dim), np.zeros(dim)
    elif kind == "identical":
        x = rng.integers(0, 4, dim).astype(float)
        y = x.copy()
    else:
        m = rng.random(dim) < 0.5
        x = rng.integers(1, 4, dim) * m
        y = rng.integers(1, 4, dim) * (~m)
    x, y = np.asarray(x, dtype=np.float64), np.asarray(y, dtype=np.float64)
    if name not in ("ll_dirichlet",) and kind in ("gauss-mask", "integer", "identical-support", "cancelling") and rng.random() < 0.35:
        # small- and large-magnitude data (relative abundances, normalised frequencies; raw counts): the scale-invariant metrics
        # (hamming, canberra, braycurtis, cosine, correlation, the binary family) must not notice
        sc = float(rng.choice([1e-8, 1e-4, 1e4]))
        x, y = x * sc, y * sc
        kind = kind + f"@{sc:g}"
    if name in ("hellinger", "ll_dirichlet"):
        x, y = np.abs(x), np.abs(y)
    if name == "ll_dirichlet":
        x, y = np.round(x), np.round(y)
    # canonical float32 CSR values
    return x.astype(np.float32).astype(np.float64), y.astype(np.float32).astype(np.float64), kind


def svec_tokens(ind, data):
    t = [len(ind)]
    for i, v in zip(ind, data):
        t += [int(i), f2b(float(v))]
    return t


def run(ctx):
    import umap
    import umap.distances as D
    import umap.sparse as S
    rng = ctx.rng
    names = sorted(S.sparse_named_distances)
    ctx.rule = ("for every name in sparse_named_distances: canonical sparse pairs of kinds {gauss x mask, integer, binary, identical supports, "
                "a stored value equal to the row mean, cancelling differences, one empty row (incl. against a constant dense vector), both "
                "empty, identical, disjoint supports}, dims 1..40; sparse implementation vs dense implementation on the densified vectors "
                "(the property), and vs the Lean sparse model; binary metrics exhaustively on {0,1}^d, d<=4 (5 in thorough); fit(CSR) vs "
                "fit(dense) graphs; non-trivial = supports overlap partially")
    ctx.assumptions += ["sparse helpers keep float32 intermediate arrays: values compared at rel/abs 2e-5",
                        "ll_dirichlet is compared on count data (integers), the domain on which both versions define it"]
    # the translated kernels of umap/sparse.py (what the C13Src* theorems are about) against the Python source itself
    import srcval
    srcval.validate_sparse(ctx, 150 if ctx.thorough else 25, rng)
    ctx.assumptions.append("the AST -> Lean translator (harness/translate.py) is validated on every run by executing its output "
                           "(srcdrv) against the Python source (.py_func) of umap/sparse.py on generated canonical rows")
    drv = Driver()
    pend = []

    def one(name, x, y, kind):
        fs = S.sparse_named_distances[name]
        fd = D.named_distances[name]
        n = len(x)
        ix, dx = mg.to_sparse(x)
        iy, dy = mg.to_sparse(y)
        extra = (n,) if name in S.sparse_need_n_features else ()
        pextra = []
        if name == "minkowski":
            p = float(rng.choice([1.0, 1.5, 2.0, 3.0]))
            extra = (p,)
            pextra = [f2b(p)]
        case = {"metric": name, "x": x.tolist(), "y": y.tolist(), "kind": kind}
        try:
            vs = float(fs(ix, dx, iy, dy, *extra))
        except Exception as e:  # noqa
            ctx.violation("exception", f"sparse {name} raised {type(e).__name__}: {e}", case, key=f"C13:{name}:exception")
            return
        try:
            vd = float(fd(x.copy(), y.copy(), *(extra if name == "minkowski" else ())))
        except ZeroDivisionError:
            vd = float("nan")
        tol = 2e-5
        mag = float(max(np.max(np.abs(x), initial=0.0), np.max(np.abs(y), initial=0.0)))
        homog = mg.canon(name) in ("euclidean", "manhattan", "chebyshev", "minkowski")      # d(cx, cy) = c d(x, y)
        if not (close(vs, vd, rtol=tol, atol=(3e-4 if name in ("hellinger", "cosine", "correlation") else
                                              tol * (mag if (homog and mag > 0) else 1.0)))
                or (np.isnan(vs) and np.isnan(vd))):
            ctx.violation("sparse-vs-dense", f"sparse {name} = {vs}, dense {name} on the same vectors = {vd}", case,
                          key=f"C13:{name}")
        toks = ["smetric", mg.canon(name), n] + svec_tokens(ix, dx) + svec_tokens(iy, dy) + pextra
        pend.append((drv.add(*toks), vs, case, name))
        overlap = len(set(ix) & set(iy))
        ctx.case(key=hash((name, x.tobytes(), y.tobytes())), nontrivial=0 < overlap < max(len(ix), len(iy)),
                 sample=case if ctx.evaluations % 300 == 0 else None, metric=name, kind=kind)

    dmax = 5 if ctx.thorough else 4
    for name in names:
        if mg.canon(name) in mg.BINARY:
            for d in range(1, dmax + 1):
                for (x, y) in mg.all_binary_pairs(d):
                    one(name, x, y, "binary-exhaustive")
    ctx.exhaustive = True
    per = 400 if ctx.thorough else 60
    for name in names:
        for t in range(per):
            x, y, kind = sparse_pair(rng, name)
            one(name, x, y, kind)
    outs = drv.run()
    for h, vs, case, name in pend:
        m = b2f(outs[h])
        mag = float(max(np.max(np.abs(case["x"]), initial=0.0), np.max(np.abs(case["y"]), initial=0.0)))
        homog = mg.canon(name) in ("euclidean", "manhattan", "chebyshev", "minkowski")
        ok = close(m, vs, rtol=2e-5, atol=(3e-4 if name in ("hellinger", "cosine", "correlation") else
                                           2e-5 * (mag if (homog and mag > 0) else 1.0))) or (np.isnan(m) and np.isnan(vs))
        if not ok:
            ctx.mismatch("smetric", {"impl": vs, "model": m}, case)

    # fit(CSR) and fit(dense) build the same graph
    fit_metrics = names if ctx.thorough else ["euclidean", "cosine", "correlation", "jaccard", "hellinger", "manhattan", "minkowski", "canberra"]
    for name in fit_metrics:
        n, d = 40, 12
        if mg.canon(name) in mg.BINARY or name in ("jaccard", "dice"):
            X = (rng.random((n, d)) < 0.4).astype(np.float32)
        elif name in ("hellinger", "ll_dirichlet"):
            X = (rng.integers(0, 5, (n, d)) * (rng.random((n, d)) < 0.6)).astype(np.float32)
            X[:, 0] += 1
        else:
            X = (rng.normal(size=(n, d)) * (rng.random((n, d)) < 0.5)).astype(np.float32)
            X[:, 0] += 0.5
        kw = dict(n_neighbors=6, metric=name, random_state=2, n_epochs=0, init="random", disconnection_distance=1e30)
        if name == "minkowski":
            kw["metric_kwds"] = {"p": 3.0}
        case = {"metric": name, "X": X.tolist()}
        try:
            gd = umap.UMAP(**kw).fit(X).graph_
            gs = umap.UMAP(**kw).fit(scipy.sparse.csr_matrix(X)).graph_
        except Exception as e:  # noqa
            ctx.violation("fit-exception", f"fit with metric {name} raised {type(e).__name__}: {e}", case, key=f"C13:{name}:fit-exception")
            continue
        a, b = sparse_to_dict(gd), sparse_to_dict(gs)
        worst = max((abs(a.get(k, 0.0) - b.get(k, 0.0)) for k in set(a) | set(b)), default=0.0)
        # ties between distances (binary data) may be broken differently: compare only when the kNN distance rows agree
        if worst > 2e-4 and mg.canon(name) not in mg.BINARY:
            ctx.violation("fit-graph", f"graph of fit(CSR) differs from graph of fit(dense) by {worst}", case, key=f"C13:{name}:fit")
        ctx.case(key="fit" + name, nontrivial=True, part="fit", metric=name)
