"""C06 — a fixed random_state makes results bit-for-bit reproducible on any schedule."""
REGEN = ("constants", "registry", "seeded")
import json
import os
import subprocess
import sys
from concurrent.futures import ThreadPoolExecutor

import numpy as np

import regen as regen_mod
from common import Driver, VERIF, REPO

WORKER = os.path.join(VERIF, "harness", "c06_worker.py")



def configs(thorough):
    c = [
        {"name": "exact-spectral", "data": "small", "kw": dict(n_neighbors=8, n_epochs=30, random_state=42)},
        {"name": "approx-seed0", "data": "noisy-400", "kw": dict(n_neighbors=10, n_epochs=20, random_state=0, force_approximation_algorithm=True)},
        {"name": "approx-seed42-random-init", "data": "noisy-400",
         "kw": dict(n_neighbors=10, n_epochs=20, random_state=42, force_approximation_algorithm=True, init="random")},
        {"name": "pca-wide", "data": "wide-700", "kw": dict(n_neighbors=8, n_epochs=10, random_state=7, init="pca"), "transform": False},
        {"name": "densmap", "data": "small", "kw": dict(n_neighbors=8, n_epochs=30, random_state=5, densmap=True)},
        {"name": "haversine-supervised", "data": "latlong", "kw": dict(n_neighbors=8, n_epochs=20, random_state=9, output_metric="haversine"),
         "supervised": True},
    ]
    if thorough:
        c += [
            {"name": "tswspectral", "data": "small", "kw": dict(n_neighbors=8, n_epochs=20, random_state=1, init="tswspectral")},
            {"name": "unique-duplicates", "data": "small", "kw": dict(n_neighbors=8, n_epochs=20, random_state=2, unique=True), "duplicates": True},
            {"name": "sparse-cosine", "data": "small", "kw": dict(n_neighbors=8, n_epochs=20, random_state=3, metric="cosine"), "sparse": True},
            {"name": "hyperboloid", "data": "small", "kw": dict(n_neighbors=8, n_epochs=20, random_state=4, output_metric="hyperboloid")},
            {"name": "pca-small", "data": "small", "kw": dict(n_neighbors=8, n_epochs=20, random_state=6, init="pca")},
        ]
    return c


def schedules(thorough):
    s = [{"threads": 1, "n_jobs": 1, "warm": False}, {"threads": 4, "n_jobs": -1, "warm": True},
         {"threads": 16, "n_jobs": 4, "warm": False}, {"threads": 2, "n_jobs": 3, "warm": True}]
    if thorough:
        s += [{"threads": t, "n_jobs": j, "warm": w} for t, j, w in
              [(3, -1, False), (5, 2, True), (6, -1, False), (7, 1, True), (8, -1, True), (9, 4, False), (10, -1, True), (11, 5, False),
               (12, -1, False), (13, 2, True), (14, -1, False), (15, 3, True), (16, -1, True), (1, -1, True)]]
    return s


def run_worker(cfgs, sched):
    env = dict(os.environ)
    env["NUMBA_NUM_THREADS"] = str(sched["threads"])
    env["UMAP_REPO"] = REPO
    cf = []
    for c in cfgs:
        c2 = json.loads(json.dumps(c))
        c2["kw"]["n_jobs"] = sched["n_jobs"]
        cf.append(c2)
    p = subprocess.run(["/venv/bin/python", "-W", "ignore", WORKER, json.dumps(cf), "1" if sched["warm"] else "0"], env=env,
                       stdout=subprocess.PIPE, stderr=subprocess.PIPE, cwd="/tmp")
    for ln in p.stdout.decode().split("\n"):
        if ln.startswith("RESULT "):
            return json.loads(ln[7:]), None
    return None, (p.stderr.decode()[-1500:] or p.stdout.decode()[-500:])


def run(ctx):
    ctx.rule = ("each seeded configuration (exact and forced NN-descent paths, seed 0 and non-zero seeds, init in {spectral, random, pca on a "
                "shape that selects the randomized solver, tswspectral}, densMAP, haversine / hyperboloid output, supervised, unique, sparse) "
                "is fitted in separate subprocesses under different schedules: NUMBA_NUM_THREADS in {1,2,4,16} (thorough 1..16), requested "
                "n_jobs in {1,-1,3,4}, fresh vs warm process (other fits and global RNG draws first); sha256 of graph_ (data, indices, "
                "indptr), embedding_ and transform output must be identical across all schedules; the live kernel-selection table is "
                "regenerated into Lean and proved; non-trivial = every configuration x schedule")
    ctx.assumptions += ["PARTIAL: the model proves schedule-independence of the disjoint-write prange loops and the selection logic; real "
                        "numba / pynndescent / BLAS interleavings are sampled through thread counts, not enumerated"]
    cfgs = configs(ctx.thorough)
    scheds = schedules(ctx.thorough)
    with ThreadPoolExecutor(max_workers=4) as ex:
        results = list(ex.map(lambda s: run_worker(cfgs, s), scheds))
    ref = None
    for sched, (res, err) in zip(scheds, results):
        if res is None:
            from common import InfraError
            raise InfraError(f"worker failed under {sched}: {err}")
        if res["threads"] != sched["threads"]:
            ctx.notes.append(f"requested {sched['threads']} numba threads, got {res['threads']}")
        if ref is None:
            ref = (sched, res["hashes"])
        for name, h in res["hashes"].items():
            for what, v in h.items():
                if ref[1][name].get(what) != v:
                    ctx.violation("reproducible", f"configuration '{name}': {what} differs between schedule {ref[0]} and schedule {sched}",
                                  {"config": next(c for c in cfgs if c["name"] == name), "schedule_a": ref[0], "schedule_b": sched, "what": what},
                                  key=f"C06:{name}:{what}")
            ctx.case(key=name + json.dumps(sched), nontrivial=True,
                     sample={"config": name, "schedule": sched, "hashes": h} if len(ctx.samples) < 4 else None,
                     config=name, threads=sched["threads"], n_jobs=sched["n_jobs"], warm=sched["warm"])
