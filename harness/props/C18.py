"""C18 — combined models obey fuzzy-set algebra and restore local connectivity."""
import warnings

import numpy as np
import scipy.sparse

import gen
from common import Driver, f2b, coo_tokens, parse_coo, sparse_to_dict, close, sha


REGEN = ("constants", "registry", "umapsrc")

def rand_sym_graph(rng, n, dens):
    A = np.triu((rng.random((n, n)) < dens) * rng.uniform(0.02, 1.0, (n, n)), 1)
    A = A + A.T
    for i in range(n):
        if A[i].max() > 0 and rng.random() < 0.7:
            j = int(np.argmax(A[i]))
            A[i, j] = A[j, i] = 1.0
    return scipy.sparse.csr_matrix(A.astype(np.float32))


def run(ctx):
    import srcval as _srcval
    _srcval.validate_umap(ctx, 200 if ctx.thorough else 40, ctx.rng, only="reprocess_row")     # translated `reprocess_row` vs the Python source
    import umap
    import umap.umap_ as U
    warnings.filterwarnings("ignore")
    rng = ctx.rng
    ctx.rule = ("(i) general_simplicial_set_union / _intersection (both right_complement settings, weights .3/.5/.7) and "
                "reset_local_connectivity (with and without local-metric reset) on random symmetric fuzzy graphs vs the Lean model; "
                "(ii) real A+B, A*B, A-B for pairs of fits over the same samples (different feature views, metrics, n_neighbors, and identical sparsity patterns with different strengths): "
                "symmetric, entries in [0,1], unit edge per non-isolated sample, support within the union (within A for A-B), finite "
                "embedding of the right shape, A+B vs B+A byte-identical graphs, and the error cases (different sizes, unfitted); "
                "non-trivial = the operands' supports differ")
    ctx.assumptions += ["embedding finiteness is validated only"]
    drv = Driver()
    pend = []
    for t in range(200 if ctx.thorough else 30):
        n = int(rng.integers(3, 12))
        A = rand_sym_graph(rng, n, float(rng.choice([0.2, 0.5])))
        B = rand_sym_graph(rng, n, float(rng.choice([0.2, 0.5])))
        if A.nnz == 0 or B.nnz == 0:
            continue
        case = {"n": n, "A": sparse_to_dict(A), "B": sparse_to_dict(B)}
        case = {"n": n, "A": [[i, j, v] for (i, j), v in sparse_to_dict(A).items()], "B": [[i, j, v] for (i, j), v in sparse_to_dict(B).items()]}
        kind = t % 4
        try:
            if kind == 0:
                R = U.general_simplicial_set_union(A, B)
                h = drv.add("ssetunion", *(coo_tokens(A) + coo_tokens(B)))
                op = "union"
            elif kind in (1, 2):
                rc = kind == 2
                w = float(rng.choice([0.3, 0.5, 0.7]))
                R = U.general_simplicial_set_intersection(A.copy(), B, weight=w, right_complement=rc)
                h = drv.add("ssetint", int(rc), f2b(w), *(coo_tokens(A) + coo_tokens(B)))
                op = f"intersection rc={rc} w={w}"
            else:
                metric = bool(rng.integers(0, 2))
                if t % 8 == 3:
                    # a row made only of explicitly stored zeros (what A - B produces where B's strengths are 1)
                    Ac = A.tocoo()
                    r0 = int(Ac.row[0])
                    data = Ac.data.copy()
                    data[Ac.row == r0] = 0.0
                    A = scipy.sparse.coo_matrix((data, (Ac.row, Ac.col)), shape=A.shape)
                    metric = False
                    case["A"] = [[int(i), int(j), float(v)] for i, j, v in zip(A.row, A.col, A.data)]
                R = U.reset_local_connectivity(A.copy(), metric)
                h = drv.add("resetlc", int(metric), n, *coo_tokens(A))
                op = f"reset_local_connectivity metric={metric}"
        except Exception as e:  # noqa
            ctx.violation("exception", f"{type(e).__name__}: {e}", case)
            continue
        pend.append((h, sparse_to_dict(R), dict(case, op=op)))
        ctx.case(key=op + str(case["A"]), nontrivial=True, part="sset-ops", op=op.split()[0])
    outs = drv.run()
    for h, impl, case in pend:
        if outs[h] == "err":
            ctx.mismatch("sset", {"model": "err"}, case)
            continue
        model = parse_coo(outs[h])
        for key in set(impl) | set(model):
            a, b = impl.get(key, 0.0), model.get(key, 0.0)
            if max(abs(a), abs(b)) < 1e-30:
                continue
            if not close(a, b, rtol=2e-5, atol=2e-5):
                ctx.mismatch("sset", {"entry": key, "impl": a, "model": b}, case)
                break

    # (ii) real model combinations
    npairs = 12 if ctx.thorough else 3
    for t in range(npairs):
        n = int(rng.integers(40, 80))
        X, _ = gen.dataset(rng, n, 6, kind="clusters")
        ka, kb = int(rng.integers(4, 9)), int(rng.integers(8, 14))
        ma = str(rng.choice(["euclidean", "manhattan"]))
        mb = str(rng.choice(["euclidean", "cosine", "chebyshev"]))
        if t % 3 == 2:
            # same view and neighbours, different strengths: the two graphs have an identical sparsity pattern
            A = umap.UMAP(n_neighbors=ka, metric=ma, random_state=1, n_epochs=11).fit(X)
            B = umap.UMAP(n_neighbors=ka, metric=ma, random_state=2, n_epochs=11, set_op_mix_ratio=0.5).fit(X)
            kb, mb = ka, ma
        elif t % 3 == 0:
            # tiny neighbourhoods in A, all of which have full strength in B (same view, larger k):
            # A - B then holds rows consisting only of stored zeros
            ka, kb, ma, mb = int(rng.choice([2, 3])), 12, "euclidean", "euclidean"
            A = umap.UMAP(n_neighbors=ka, metric=ma, random_state=1, n_epochs=11).fit(X)
            B = umap.UMAP(n_neighbors=kb, metric=mb, random_state=2, n_epochs=11, local_connectivity=float(ka + 1)).fit(X)
        else:
            A = umap.UMAP(n_neighbors=ka, metric=ma, random_state=1, n_epochs=11).fit(X[:, :3])
            B = umap.UMAP(n_neighbors=kb, metric=mb, random_state=2, n_epochs=11).fit(X[:, 2:])
        ga, gb = sparse_to_dict(A.graph_), sparse_to_dict(B.graph_)
        ga0, gb0 = dict(ga), dict(gb)
        case = {"n": n, "ka": ka, "kb": kb, "metric_a": ma, "metric_b": mb, "pair": ["full-in-B", "different-views", "same-pattern"][t % 3]}
        for opn, fn in (("add", lambda p, q: p + q), ("mul", lambda p, q: p * q), ("sub", lambda p, q: p - q)):
            try:
                R = fn(A, B)
            except Exception as e:  # noqa
                key = None
                if opn == "sub":
                    bc = B.graph_.tocsr()
                    ac = A.graph_.tocoo()
                    if all(bc[i, j] == 1.0 for i, j in zip(ac.row, ac.col)):
                        key = "C18:empty-combined-graph"      # recorded known finding: the contrast graph has no edge left
                ctx.violation("exception", f"A {opn} B raised {type(e).__name__}: {e}", dict(case, op=opn), key=key)
                continue
            g = sparse_to_dict(R.graph_)
            S = R.graph_.tocsr()
            c = dict(case, op=opn)
            for (i, j), v in g.items():
                if not np.isfinite(v) or v < -1e-7 or v > 1 + 1e-6:
                    ctx.violation("range", f"({opn}) entry ({i},{j}) = {v} outside [0,1]", c)
                    break
                if abs(g.get((j, i), 0.0) - v) > 1e-6:
                    ctx.violation("symmetric", f"({opn}) ({i},{j}) = {v} but ({j},{i}) = {g.get((j, i), 0.0)}", c)
                    break
                sup = ((i, j) in ga or (j, i) in ga) if opn == "sub" else ((i, j) in ga or (i, j) in gb or (j, i) in ga or (j, i) in gb)
                if not sup:
                    ctx.violation("support", f"({opn}) edge ({i},{j}) outside the operands' supports", c)
                    break
            for i in range(n):
                if S[i].nnz and S[i].max() < 1 - 1e-5:
                    ctx.violation("unit-edge", f"({opn}) non-isolated sample {i} has maximum strength {S[i].max()}", c)
                    break
            E = R.embedding_
            if E.shape != (n, 2) or not np.all(np.isfinite(E)):
                ctx.violation("embedding", f"({opn}) embedding shape {E.shape}, finite = {bool(np.all(np.isfinite(E)))}", c)
            ctx.case(key=opn + str(case) + str(t), nontrivial=set(ga) != set(gb), sample=c if len(ctx.samples) < 4 else None, part="combine", op=opn)
        # the operands themselves are the reference for every clause above: they must not have drifted
        if sparse_to_dict(A.graph_) != ga0 or sparse_to_dict(B.graph_) != gb0:
            ctx.violation("operands", "an operand's graph_ changed while the models were being combined", case)
        r1, r2 = (A + B).graph_.tocsr(), (B + A).graph_.tocsr()
        r1.sort_indices(); r2.sort_indices()
        if sha(r1.data, r1.indices, r1.indptr) != sha(r2.data, r2.indices, r2.indptr):
            ctx.violation("commutative", "(A + B).graph_ and (B + A).graph_ differ", case)
    # error cases
    Xs = rng.normal(size=(30, 3)).astype(np.float32)
    A = umap.UMAP(n_neighbors=5, n_epochs=5, random_state=1).fit(Xs)
    Bsmall = umap.UMAP(n_neighbors=5, n_epochs=5, random_state=1).fit(Xs[:25])
    # unique=True on data with repeated rows: as many embedding rows as the other operand, fewer graph vertices.
    # Combining graphs of different sizes is exactly the situation the guard exists for; without it compiled kernels index out of
    # bounds, so these calls run in a child process: a crash there is reported like any other failure to raise.
    import json as _json
    import os as _os
    import subprocess as _sp
    import sys as _sys
    import tempfile as _tf
    from common import REPO as _REPO
    Xd = Xs.copy()
    Xd[20:25] = Xd[:5]
    with _tf.TemporaryDirectory() as td:
        np.savez(_os.path.join(td, "d.npz"), Xs=Xs, Xd=Xd)
        code = (
            "import sys, json, warnings\n"
            f"sys.path.insert(0, {_REPO!r})\n"
            "warnings.filterwarnings('ignore')\n"
            "import numpy as np, umap\n"
            f"d = np.load({_os.path.join(td, 'd.npz')!r})\n"
            "A = umap.UMAP(n_neighbors=5, n_epochs=5, random_state=1).fit(d['Xs'])\n"
            "U = umap.UMAP(n_neighbors=5, n_epochs=5, random_state=1, unique=True).fit(d['Xd'])\n"
            "print(json.dumps({'sizes': [int(A.graph_.shape[0]), int(U.graph_.shape[0])]}), flush=True)\n"
            "ops = {'add': lambda p, q: p + q, 'mul': lambda p, q: p * q, 'sub': lambda p, q: p - q}\n"
            "for opn, fn in ops.items():\n"
            "    for l, r, tag in ((A, U, 'plain, unique'), (U, A, 'unique, plain')):\n"
            "        print(json.dumps({'start': [opn, tag]}), flush=True)\n"
            "        try:\n"
            "            fn(l, r); raised = False\n"
            "        except Exception:\n"
            "            raised = True\n"
            "        print(json.dumps({'done': [opn, tag], 'raised': raised}), flush=True)\n")
        pr = _sp.run([_sys.executable, "-W", "ignore", "-c", code], stdout=_sp.PIPE, stderr=_sp.PIPE, timeout=900)
    lines = [_json.loads(l) for l in pr.stdout.decode().splitlines() if l.startswith("{")]
    sizes = next((l["sizes"] for l in lines if "sizes" in l), None)
    done = {tuple(l["done"]): l["raised"] for l in lines if "done" in l}
    started = [tuple(l["start"]) for l in lines if "start" in l]
    for opn in ("add", "mul", "sub"):
        for tag in ("plain, unique", "unique, plain"):
            if (opn, tag) in done:
                if not done[(opn, tag)]:
                    ctx.violation("error-case", f"{opn} of models over {sizes} distinct samples ({tag}; equal numbers of input rows) did not raise",
                                  {"op": opn, "operands": tag})
            elif (opn, tag) in started:
                ctx.violation("error-case", f"{opn} of models over {sizes} distinct samples ({tag}) neither raised nor returned: the process died "
                                            f"(exit status {pr.returncode})", {"op": opn, "operands": tag, "exit_status": pr.returncode})
            elif pr.returncode != 0 and not started:
                ctx.violation("error-case", f"child process for the mismatched-operand cases failed before the first operation (exit status {pr.returncode}): "
                                            f"{pr.stderr.decode()[-200:]}", {"op": opn, "operands": tag})
            ctx.case(key="err-unique" + opn + tag, nontrivial=True, part="errors")
    for opn, fn in (("add", lambda p, q: p + q), ("mul", lambda p, q: p * q), ("sub", lambda p, q: p - q)):
        for other, why in ((Bsmall, "different number of samples"), (umap.UMAP(), "unfitted operand")):
            for l, r in ((A, other), (other, A)):
                try:
                    fn(l, r)
                    ctx.violation("guard", f"{opn} with {why} did not raise", {"op": opn, "why": why})
                except Exception:  # noqa
                    pass
        ctx.case(key="guard" + opn, nontrivial=False, part="guards")
