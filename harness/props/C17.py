"""C17 — densMAP reduces to UMAP at zero weight and reports the defined local radii."""
import warnings

import numpy as np

import gen
from common import Driver, f2b, b2f, sha


def radii_reference(graph, dists, n_epochs_prune):
    """log(1e-8 + sum_k mu_ik d_ik^2 / sum_k mu_ik) over the neighbours of the (pruned) symmetric graph, float64"""
    g = graph.tocoo()
    g.sum_duplicates()
    data = g.data.astype(np.float64).copy()
    if n_epochs_prune is not None:
        thr = data.max() / float(n_epochs_prune)
        keep = ~(g.data < np.float32(g.data.max()) / np.float32(n_epochs_prune)) if False else data >= thr
    else:
        keep = np.ones(len(data), bool)
    n = graph.shape[0]
    num, den = np.zeros(n), np.zeros(n)
    edges = []
    for j, k, mu, kp in zip(g.row, g.col, data, keep):
        if not kp or mu == 0:
            continue
        d = float(dists[j, k])
        num[j] += mu * d * d
        den[j] += mu
        edges.append((int(j), int(k), float(mu), d))
    with np.errstate(divide="ignore", invalid="ignore"):
        return np.log(1e-8 + num / den), edges


def run(ctx):
    import umap
    import umap.umap_ as U
    warnings.filterwarnings("ignore")
    rng = ctx.rng
    ctx.rule = ("(i) bit comparison of real embeddings: densmap=True with dens_lambda=0 or dens_frac=0 vs plain UMAP, same seed and n_epochs "
                "(5 on graphs with many weak edges, 11, 30, 200, and lists such as [40, 15] in any order, with the intermediate embeddings), several datasets / seeds, also the per-epoch flag vs the Lean model's densmapFlag; (ii) output_dens=True: "
                "(embedding, rad_orig, rad_emb) shapes and finiteness for non-isolated samples, rad_orig vs the weighted mean squared "
                "graph distance recomputed in float64 from graph_ / graph_dists_ and vs the Lean Radii model, rad_emb vs the same "
                "quantity on the embedding's own fuzzy kNN graph (squared embedding distances); unique=True with duplicated rows: one radius per input row, shared by duplicates, equal to the definition; non-trivial = every fit")
    ctx.assumptions += ["bit-identity of the real runs additionally relies on C06 (seeded determinism)"]
    drv = Driver()
    # flag table vs model
    pend = []
    for (dm, lam, fr, N) in [(1, 2.0, 0.3, 10), (1, 0.0, 0.3, 10), (1, 2.0, 0.0, 10), (0, 2.0, 0.3, 10), (1, 1.0, 1.0, 7), (1, 0.5, 0.5, 9)]:
        h = drv.add("densflag", dm, f2b(lam), f2b(fr), N)
        want = [int(bool(dm) and lam > 0 and ((n + 1) / float(N)) > (1 - fr)) for n in range(N)]
        pend.append((h, want, (dm, lam, fr, N)))
    outs = drv.run()
    for h, want, cfg in pend:
        if [int(x) for x in outs[h].split()] != want:
            ctx.mismatch("densflag", {"model": outs[h], "expected": want}, {"cfg": cfg})

    nset = 4 if ctx.thorough else 2
    for s in range(nset):
        n = int(rng.integers(60, 120))
        X, kind = gen.dataset(rng, n, int(rng.integers(3, 7)), kind="clusters")
        seed = int(rng.integers(0, 1000))
        for ne in ((11, 30, 200) if ctx.thorough else (11, 30)):
            base = dict(n_neighbors=int(rng.integers(6, 14)), random_state=seed, n_epochs=ne)
            plain = umap.UMAP(**base).fit_transform(X)
            for label, extra in (("lambda=0", dict(densmap=True, dens_lambda=0.0)), ("frac=0", dict(densmap=True, dens_frac=0.0)),
                                 ("lambda=0,frac=0.9,var_shift=0.5", dict(densmap=True, dens_lambda=0.0, dens_frac=0.9, dens_var_shift=0.5))):
                case = {"n": n, "n_epochs": ne, "seed": seed, "setting": label, "n_neighbors": base["n_neighbors"]}
                try:
                    e = umap.UMAP(**base, **extra).fit_transform(X)
                except Exception as ex:  # noqa
                    ctx.violation("exception", f"densMAP fit raised {type(ex).__name__}: {ex}", case)
                    continue
                if e.shape != plain.shape or sha(e) != sha(plain):
                    d = float(np.max(np.abs(e - plain))) if e.shape == plain.shape else float("nan")
                    ctx.violation("reduction", f"densMAP with {label} differs from plain UMAP (max |diff| = {d})", case)
                ctx.case(key=str(case), nontrivial=True, sample=case if len(ctx.samples) < 3 else None, part="reduction", setting=label, n_epochs=ne)

        # short runs (n_epochs <= 10) on a graph with many weak edges: the pruning before the optimisation must be the same
        Xs = rng.normal(size=(int(rng.integers(150, 260)), 6)).astype(np.float32)
        for ne in ((5, 0, 10) if ctx.thorough else (5,)):
            base = dict(n_neighbors=int(rng.integers(20, 32)), random_state=seed, n_epochs=ne, set_op_mix_ratio=float(rng.choice([0.1, 0.2])))
            case = {"n": len(Xs), "n_epochs": ne, "seed": seed, "setting": "lambda=0, short run, weak edges", **{k_: base[k_] for k_ in ("n_neighbors", "set_op_mix_ratio")}}
            try:
                ep = umap.UMAP(**base).fit(Xs)
                ed = umap.UMAP(densmap=True, dens_lambda=0.0, **base).fit_transform(Xs)
            except Exception as ex:  # noqa
                ctx.violation("exception", f"short-run fit raised {type(ex).__name__}: {ex}", case)
                continue
            if not np.array_equal(ed, ep.embedding_, equal_nan=True):
                ctx.violation("reduction", f"densMAP with dens_lambda=0 and n_epochs={ne} differs from plain UMAP with the same n_epochs "
                                           f"(max |diff| = {float(np.nanmax(np.abs(ed - ep.embedding_)))})", case, key="C17:short-run-pruning-depends-on-densmap")
            gd = ep.graph_.data
            ctx.case(key=str(case), nontrivial=bool(((gd < gd.max() / 500) & (gd >= gd.max() / 700)).any()), part="reduction-short", n_epochs=ne)

        # list-valued n_epochs (intermediate embeddings are kept): "equal n_epochs" means the same list, in any order
        for nel in ([[40, 15], [10, 25, 18], [12, 30]] if ctx.thorough else [[40, 15], [10, 25, 18]][s % 2: s % 2 + 1]):
            base = dict(n_neighbors=8, random_state=seed, n_epochs=list(nel))
            try:
                mp = umap.UMAP(**base).fit(X)
            except Exception as ex:  # noqa
                ctx.skip(f"plain UMAP with n_epochs={nel} not applicable: {type(ex).__name__}")
                continue
            for label, extra in (("frac=0", dict(densmap=True, dens_frac=0.0)), ("lambda=0", dict(densmap=True, dens_lambda=0.0))):
                case = {"n": n, "n_epochs": nel, "seed": seed, "setting": label}
                try:
                    md = umap.UMAP(**dict(base, n_epochs=list(nel)), **extra).fit(X)
                except Exception as ex:  # noqa
                    ctx.violation("exception", f"densMAP fit with n_epochs={nel} raised {type(ex).__name__}: {ex}", case)
                    continue
                same = np.array_equal(md.embedding_, mp.embedding_, equal_nan=True)
                la, lb = getattr(md, "embedding_list_", []), getattr(mp, "embedding_list_", [])
                same = same and len(la) == len(lb) and all(np.array_equal(a_, b_, equal_nan=True) for a_, b_ in zip(la, lb))
                if not same:
                    ctx.violation("reduction", f"densMAP with {label} and n_epochs={nel} differs from plain UMAP with the same n_epochs", case)
                ctx.case(key=str(case), nontrivial=True, part="reduction-list", setting=label, n_epochs=str(nel))

        # zero-weight reduction where the (zero-weighted) density term itself would be non-finite:
        # an isolated sample (phi_sum = 0) and graph neighbours that coincide in the layout (0 * inf)
        Xi = X.copy()
        Xi[0] = Xi[0] + 1000.0
        from sklearn.metrics import pairwise_distances as _pd
        thr = float(np.quantile(_pd(X), 0.9))
        zero_init = np.zeros((n, 2), dtype=np.float32)
        for label, common, extra in (
                ("isolated sample, lambda=0, frac=0.5", dict(disconnection_distance=thr), dict(densmap=True, dens_lambda=0.0, dens_frac=0.5)),
                ("all-zero init, lambda=0, frac=1", dict(init=zero_init), dict(densmap=True, dens_lambda=0.0, dens_frac=1.0))):
            base = dict(n_neighbors=8, random_state=seed, n_epochs=20, **common)
            case = {"n": n, "seed": seed, "setting": label}
            try:
                plain = umap.UMAP(**base).fit_transform(Xi)
            except Exception as ex:  # noqa
                ctx.skip(f"plain UMAP not applicable for '{label}': {type(ex).__name__}")
                continue
            try:
                e = umap.UMAP(**base, **extra).fit_transform(Xi)
                if e.shape != plain.shape or not np.array_equal(e, plain, equal_nan=True):
                    ctx.violation("reduction", f"densMAP with zero weight ({label}) differs from plain UMAP", case)
            except Exception as ex:  # noqa
                ctx.violation("reduction", f"densMAP with zero weight ({label}) raised {type(ex).__name__}: {ex} where plain UMAP succeeds", case)
            ctx.case(key=str(case), nontrivial=True, part="reduction-degenerate", setting=label)

        # radii
        for ne in ((30, 200) if ctx.thorough else (30,)):
            k = int(rng.integers(6, 14))
            case = {"n": n, "n_epochs": ne, "n_neighbors": k, "seed": seed}
            for dm, Xr, variant in ((False, X, "plain"), (True, X, "plain"),
                                    (False, np.vstack([X, np.repeat(X[:1] + 50.0, k + 3, axis=0)]).astype(np.float32), "duplicate-block"),
                                    (False, (X * 1e-4).astype(np.float32), "scale-1e-4"),
                                    # isolated samples at both ends of the index range (disconnection distance)
                                    (bool(s % 2), np.vstack([X[:1] + 4000.0, X, X[:2] + np.array([[2000.0], [3000.0]])]).astype(np.float32), "isolated-first-and-last")):
                n = Xr.shape[0]
                case = dict(case, variant=variant, n=n)
                extra_kw = dict(disconnection_distance=500.0) if variant == "isolated-first-and-last" else {}
                try:
                    m = umap.UMAP(n_neighbors=k, random_state=seed, n_epochs=ne, output_dens=True, densmap=dm, **extra_kw)
                    out = m.fit_transform(Xr)
                except Exception as ex:  # noqa
                    ctx.violation("exception", f"output_dens fit raised {type(ex).__name__}: {ex}", dict(case, densmap=dm))
                    continue
                if not (isinstance(out, tuple) and len(out) == 3):
                    ctx.violation("output-dens-tuple", f"fit_transform returned {type(out).__name__}", dict(case, densmap=dm))
                    continue
                emb, ro, re = out
                deg = np.asarray(m.graph_.sum(axis=1)).ravel()
                if emb.shape != (n, 2) or ro.shape != (n,) or re.shape != (n,):
                    ctx.violation("output-dens-shape", f"shapes {emb.shape}, {ro.shape}, {re.shape}", dict(case, densmap=dm))
                    continue
                if not (np.all(np.isfinite(ro[deg > 0])) and np.all(np.isfinite(re[deg > 0]))):
                    ctx.violation("radii-finite", "non-finite radius of a non-isolated sample", dict(case, densmap=dm))
                ref, edges = radii_reference(m.graph_, m.graph_dists_, ne if ne > 10 else 500)
                ok = np.isfinite(ref)
                if np.max(np.abs(ro[ok] - ref[ok])) > 2e-2:
                    i = int(np.argmax(np.where(ok, np.abs(ro - ref), 0)))
                    ctx.violation("rad-orig", f"sample {i}: rad_orig = {ro[i]}, log weighted mean squared graph distance = {ref[i]}", dict(case, densmap=dm))
                toks = ["radii", n, len(edges)]
                for (j, kk, mu, d) in edges:
                    toks += [j, kk, f2b(mu), f2b(d)]
                h = drv.add(*toks)
                mo = np.array([b2f(x) for x in drv.run()[h].split()])
                if np.max(np.abs(mo[ok] - ro[ok])) > 2e-3 * max(1.0, float(np.max(np.abs(ref[ok])))):
                    ctx.mismatch("radii", {"max_diff": float(np.max(np.abs(mo[ok] - ro[ok])))}, dict(case, densmap=dm))
                # embedded radii: the same quantity on the embedding's own fuzzy graph
                rs = np.random.RandomState(0)
                if variant != "plain":
                    ctx.case(key=str(case) + str(dm), nontrivial=True, part="radii", densmap=dm, variant=variant)
                    continue
                ki, kd, _ = U.nearest_neighbors(emb, k, "euclidean", {}, False, rs)
                eg, _, _, ed = U.fuzzy_simplicial_set(emb, k, rs, "euclidean", {}, ki, kd, return_dists=True)
                ref_e, _ = radii_reference(eg, ed, None)
                oke = np.isfinite(ref_e)
                if np.max(np.abs(re[oke] - ref_e[oke])) > 5e-3 * max(1.0, float(np.max(np.abs(ref_e[oke])))):
                    i = int(np.argmax(np.where(oke, np.abs(re - ref_e), 0)))
                    ctx.violation("rad-emb", f"sample {i}: rad_emb = {re[i]}, log weighted mean squared embedding distance to its "
                                             f"fuzzy neighbours = {ref_e[i]}", dict(case, densmap=dm))
                ctx.case(key=str(case) + str(dm), nontrivial=True, part="radii", densmap=dm)

        # radii with unique=True: one value per *input* row, duplicated rows share their radius, values follow the definition
        Xu = X.copy()
        srcs = rng.integers(0, len(Xu), 8)
        Xu[rng.integers(0, len(Xu), 8)] = Xu[srcs]
        case = {"n": len(Xu), "variant": "unique=True", "seed": seed}
        try:
            m = umap.UMAP(n_neighbors=8, random_state=seed, n_epochs=30, output_dens=True, unique=True)
            emb, ro, re = m.fit_transform(Xu)
        except Exception as ex:  # noqa
            ctx.violation("exception", f"output_dens with unique=True raised {type(ex).__name__}: {ex}", case)
            continue
        nu = len(Xu)
        if emb.shape != (nu, 2) or np.shape(ro) != (nu,) or np.shape(re) != (nu,):
            ctx.violation("output-dens-shape", f"unique=True: shapes {emb.shape}, {np.shape(ro)}, {np.shape(re)} for {nu} input rows", case)
        else:
            _, uidx, uinv = np.unique(Xu, return_index=True, return_inverse=True, axis=0)
            uinv = np.asarray(uinv).ravel()
            if not (np.array_equal(ro, ro[uidx][uinv], equal_nan=True) and np.array_equal(re, re[uidx][uinv], equal_nan=True)):
                ctx.violation("radii-unique", "identical input rows received different radii", case)
            ref, _ = radii_reference(m.graph_, m.graph_dists_, 30)
            if m.graph_.shape[0] == len(uidx):
                refx = ref[uinv]
                ok = np.isfinite(refx)
                if np.max(np.abs(ro[ok] - refx[ok])) > 2e-2:
                    i = int(np.argmax(np.where(ok, np.abs(ro - refx), 0)))
                    ctx.violation("rad-orig", f"unique=True, input row {i}: rad_orig = {ro[i]}, log weighted mean squared graph distance of "
                                              f"its distinct sample = {refx[i]}", case)
        ctx.case(key=str(case) + str(Xu[:2].tolist()), nontrivial=True, part="radii-unique")

