"""C11 — update(X2) yields the graph a fresh fit on the concatenated data would."""
import numpy as np
import scipy.sparse

import gen
from common import Driver, sparse_to_dict


REGEN = ("constants", "registry", "umapsrc")

def graph_diff(a, b):
    da, db = sparse_to_dict(a), sparse_to_dict(b)
    worst, at = 0.0, None
    for k in set(da) | set(db):
        d = abs(da.get(k, 0.0) - db.get(k, 0.0))
        if d > worst:
            worst, at = d, k
    return worst, at


def make_data(rng, metric, n, d):
    if metric in ("jaccard", "dice"):
        X = (rng.random((n, d)) < 0.35).astype(np.float32)
    elif metric == "hellinger":
        X = rng.integers(0, 6, size=(n, d)).astype(np.float32) * (rng.random((n, d)) < 0.7)
        X = X.astype(np.float32)
    else:
        X, _ = gen.dataset(rng, n, d)
    return X


def check_init_update(ctx):
    """init_update (numba) vs the Lean model on random tables, incl. new rows without any original neighbour"""
    import umap.umap_ as U
    from common import Driver, f2b, b2f
    rng = ctx.rng
    drv = Driver()
    pend = []
    for t in range(200 if ctx.thorough else 30):
        n_orig = int(rng.integers(1, 8))
        n_new = int(rng.integers(1, 6))
        dim = int(rng.integers(1, 4))
        k = int(rng.integers(1, 6))
        n = n_orig + n_new
        init = np.zeros((n, dim), dtype=np.float32)
        init[:n_orig] = rng.integers(-8, 9, size=(n_orig, dim)).astype(np.float32)      # exactly representable
        idx = rng.integers(0, n, size=(n, k)).astype(np.int64)
        if t % 3 == 0:
            idx[n_orig:] = rng.integers(n_orig, n, size=(n_new, k))                     # no original neighbour at all
        cur = init.copy()
        case = {"n_original": n_orig, "init": init.tolist(), "indices": idx.tolist()}
        try:
            U.init_update(cur, n_orig, idx)
        except Exception as e:  # noqa
            ctx.violation("init-update", f"init_update raised {type(e).__name__}", case)
            continue
        if not np.all(np.isfinite(cur)):
            ctx.violation("init-update", "init_update produced a non-finite initial position", case)
        toks = ["initupdate", n_orig, dim, n, k] + [f2b(v) for v in init.ravel()] + [int(v) for v in idx.ravel()]
        pend.append((drv.add(*toks), cur[n_orig:].copy(), case))
        ctx.case(key="iu" + str(case), nontrivial=False, part="init_update")
    outs = drv.run()
    for h, got, case in pend:
        model = np.array([b2f(x) for x in outs[h].split()]).reshape(got.shape) if outs[h].strip() else np.zeros(got.shape)
        if np.max(np.abs(model - got.astype(np.float64))) > 1e-5 * max(1.0, float(np.max(np.abs(got)))):
            ctx.mismatch("init_update", {"impl": got.tolist(), "model": model.tolist()}, case)


def run(ctx):
    import srcval as _srcval
    _srcval.validate_umap(ctx, 200 if ctx.thorough else 40, ctx.rng, only="init_update")     # translated `init_update` vs the Python source
    import umap
    rng = ctx.rng
    check_init_update(ctx)
    ctx.rule = ("datasets (n<300) split into an initial part and 1..3 update batches x metrics {euclidean, manhattan, cosine, jaccard, "
                "hellinger, euclidean with a user disconnection_distance} x batch placement {near, far cluster, duplicates of old samples}; "
                "graph after update(s) vs graph of a fresh fit on the stacked data (entrywise, tolerance 0), embedding shape / finiteness of "
                "non-isolated rows, then a further transform and update; non-trivial = the batch changes the kNN row of at least one old sample "
                "or contains samples with no old neighbour")
    ctx.assumptions += ["large-data (NN-descent) branch is out of the property's scope", "graph equality is bitwise: both sides run the same code path"]
    metrics = ["euclidean", "manhattan", "cosine", "jaccard", "hellinger", "user-threshold"]
    combos = [(m, pl) for pl in ("far", "near", "duplicates") for m in metrics]   # every combination, far ones first
    ncase = 72 if ctx.thorough else 18
    for t in range(ncase):
        metric, placement = combos[t % len(combos)]
        n1 = int(rng.integers(25, 60)) if t % 6 != 5 else int(rng.integers(4, 9))   # sometimes n1 <= n_neighbors
        d = int(rng.integers(6, 12)) if metric in ("jaccard", "hellinger") else int(rng.integers(2, 6))
        nb = int(rng.integers(1, 4))
        k = int(rng.integers(3, 9))
        if t % 6 == 5:
            nb = int(rng.integers(1, 3))
        mname = "euclidean" if metric == "user-threshold" else metric
        boundary = None
        if t % 6 == 5:
            # size thresholds: the stacked data reaches exactly n_neighbors (or one less / one more) samples with the first batch
            k = int(rng.integers(6, 12))
            n1 = int(rng.integers(3, k - 2))
            boundary = k - n1 + [0, 1, -1][(t // 6) % 3]
            if placement == "far":
                placement = "near"
            if metric == "user-threshold":
                # a quantile threshold on 3-9 initial samples can disconnect all of them, and a fit without any edge is undefined
                # (recorded under C18:empty-combined-graph); the size thresholds are exercised without a cut-off
                metric = "euclidean"
        X1 = make_data(rng, mname, n1, d)
        batches = []
        for b in range(nb):
            m = int(rng.integers(k + 2, 16)) if placement == "far" else int(rng.integers(1, 12))
            if boundary is not None and b == 0:
                m = boundary
            if placement == "duplicates":
                B = X1[rng.integers(0, n1, m)].copy()
            elif placement == "far" and mname in ("euclidean", "manhattan"):
                B = (make_data(rng, mname, m, d) * 0.3 + 50.0 * (b + 1)).astype(np.float32)
            elif placement == "far" and mname in ("jaccard",):
                # a group supported on features the old samples never use
                X1[:, d // 2:] = 0
                B = np.zeros((m, d), dtype=np.float32)
                B[:, d // 2:] = (rng.random((m, d - d // 2)) < 0.6)
                B[:, d - 1] = 1
            else:
                B = make_data(rng, mname, m, d)
            batches.append(B.astype(np.float32))
        kw = dict(n_neighbors=k, metric=mname, random_state=11, n_epochs=int(rng.choice([0, 12])), init="random",
                  set_op_mix_ratio=float(rng.choice([1.0, 0.25, 0.5])), local_connectivity=float(rng.choice([1.0, 2.0])))
        if metric == "user-threshold":
            from sklearn.metrics import pairwise_distances
            if placement == "far":
                # integer lattice with 3-4-5 offsets: some pairs lie *exactly* at the threshold 5.0
                X1 = rng.integers(0, 7, size=(n1, d)).astype(np.float32)
                X1[1] = X1[0]; X1[1, 0] += 3; X1[1, -1] += 4 if d > 1 else 0
                batches = [rng.integers(0, 7, size=b.shape).astype(np.float32) for b in batches]
                batches[0][0] = X1[2]; batches[0][0, 0] += 5
                kw["disconnection_distance"] = 5.0
            else:
                D = pairwise_distances(np.vstack([X1] + batches))
                kw["disconnection_distance"] = float(np.quantile(D[D > 0], float(rng.choice([0.3, 0.6]))))
        case = {"metric": metric, "placement": placement, "n1": n1, "k": k, "batch_sizes": [len(b) for b in batches],
                "X1": X1.tolist(), "batches": [b.tolist() for b in batches], "kwargs": {k_: v for k_, v in kw.items()}}
        if mname == "hellinger" and (X1.sum(1).min() == 0 or min(b.sum(1).min() for b in batches) == 0):
            ctx.skip("hellinger with an all-zero row")
            continue
        try:
            m = umap.UMAP(**kw).fit(X1)
            old_knn = None
            for bi, B in enumerate(batches):
                m.update(B)
                if boundary is not None and bi + 1 < len(batches):
                    # at a size threshold every intermediate state is compared, and used
                    part = np.vstack([X1] + batches[: bi + 1])
                    fp = umap.UMAP(**kw).fit(part)
                    dm, at_ = graph_diff(m.graph_, fp.graph_)
                    if m.graph_.shape != fp.graph_.shape or dm != 0.0:
                        ctx.violation("graph", f"graph after update {bi + 1} ({part.shape[0]} samples, n_neighbors={k}) differs from the fresh "
                                               f"fit's by {dm} at {at_}", case)
                    o_ = m.transform((part[:3] + 0.01).astype(np.float32))
                    if o_.shape != (3, 2):
                        ctx.violation("usable-transform", f"transform after update {bi + 1} returned shape {o_.shape}", case)
            stacked = np.vstack([X1] + batches)
            fresh = umap.UMAP(**kw).fit(stacked)
        except Exception as e:  # noqa
            ctx.violation("exception", f"{type(e).__name__}: {e}", case)
            continue
        dmax, at = graph_diff(m.graph_, fresh.graph_)
        if m.graph_.shape != fresh.graph_.shape or dmax != 0.0:
            ctx.violation("graph", f"graph after update differs from the fresh fit's by {dmax} at {at} "
                                   f"({m.graph_.nnz} vs {fresh.graph_.nnz} stored entries)", case)
        emb = m.embedding_
        deg = np.asarray(m.graph_.sum(axis=1)).ravel()
        if emb.shape != (stacked.shape[0], 2):
            ctx.violation("embedding-shape", f"embedding shape {emb.shape} for {stacked.shape[0]} stacked samples", case)
        else:
            bad = [int(i) for i in np.where(~np.isfinite(emb).all(axis=1) & (deg > 0))[0]]
            if bad:
                ctx.violation("embedding-finite", f"non-finite embedding rows of non-isolated samples: {bad[:8]}", case)
        # the model remains usable
        try:
            Y = (stacked[:4] + 0.01).astype(np.float32)
            out = m.transform(Y)
            if out.shape != (4, 2):
                ctx.violation("usable-transform", f"transform after update returned shape {out.shape}", case)
            tr = m.transform(stacked)
            if tr.shape != emb.shape or not np.array_equal(tr, m.embedding_, equal_nan=True):
                ctx.violation("usable-training", "transform(stacked data) after update is not the training embedding", case)
            m.update(batches[0][:2])
            fresh2 = umap.UMAP(**kw).fit(np.vstack([stacked, batches[0][:2]]))
            d2, at2 = graph_diff(m.graph_, fresh2.graph_)
            if d2 != 0.0:
                ctx.violation("usable-update", f"a further update gives a graph differing from the fresh fit's by {d2} at {at2}", case)
        except Exception as e:  # noqa
            ctx.violation("usable-exception", f"after update: {type(e).__name__}: {e}", case)
        # non-trivial: new samples enter an old sample's kNN row, or a new sample has no old neighbour
        fg = fresh.graph_.tocsr()
        cross = fg[:n1, n1:].nnz > 0
        lonely = any(fg[i, :n1].nnz == 0 for i in range(n1, stacked.shape[0]))
        ctx.case(key=hash(str(case["X1"])) ^ hash(str(case["batch_sizes"])), nontrivial=bool(cross or lonely),
                 sample={k_: case[k_] for k_ in ("metric", "placement", "n1", "k", "batch_sizes")},
                 metric=metric, placement=placement, batches=nb, cross=bool(cross), lonely=bool(lonely))
