"""C08 — the fitted graph does not depend on layout-stage hyperparameters."""
import warnings

import numpy as np
import scipy.sparse

import gen
from common import Driver, sha


def gsnap(g):
    g = g.tocsr()
    return sha(g.data, g.indices, g.indptr), int(np.sum(g.data == 0)), g.nnz


def run(ctx):
    import umap
    warnings.filterwarnings("ignore")
    rng = ctx.rng
    ctx.rule = ("pairs (and groups) of real fits that differ only in layout-stage hyperparameters (n_epochs in {0,1,11,200,500,None,list}, "
                "learning_rate, init, n_components, min_dist/spread, repulsion_strength, negative_sample_rate), over dense / CSR / precomputed "
                "/ supervised / forced-approximate graph paths, NumPy-scalar graph parameters (float64 graph_), a RandomState-instance seed with a callable output metric, and after update() and after using the model in + * -: graph_ bytes "
                "(data, indices, indptr) must be identical and hold no stored zero; the heap model's prediction for the layout stage is "
                "compared with what is observed; non-trivial = the two n_epochs thresholds prune different edge sets of the layout's copy")
    ctx.assumptions += ["SciPy's copy behaviour is an input to the heap model (measured each run), not proved"]
    drv = Driver()
    probe = scipy.sparse.random(6, 6, 0.5, format="csr", dtype=np.float32)
    shares = bool(np.shares_memory(probe.tocoo().data, probe.data))
    h = drv.add("heap", "layout", 1 if shares else 0)
    pred_layout = drv.run()[h].split()[1:]
    if pred_layout:
        ctx.mismatch("heap.layout", {"model_predicts_written": pred_layout}, {"tocoo_shares": shares})

    layouts = [dict(n_epochs=0), dict(n_epochs=1), dict(n_epochs=11), dict(n_epochs=200), dict(n_epochs=500), dict(n_epochs=None),
               dict(n_epochs=[3, 9]), dict(n_epochs=11, learning_rate=0.0), dict(n_epochs=30, init="random"), dict(n_epochs=30, init="pca"),
               dict(n_epochs=11, n_components=3), dict(n_epochs=11, min_dist=0.5, spread=2.0), dict(n_epochs=11, repulsion_strength=3.0),
               dict(n_epochs=11, negative_sample_rate=2)]
    # "npfloat-params": graph-stage parameters given as NumPy scalars (a parameter grid from np.linspace), which makes graph_ float64;
    # "rng-instance": random_state as a RandomState instance (a fresh, identically seeded one per fit), a callable output metric and the
    # approximate neighbour search, whose random stream nothing of the layout stage may consume
    paths = (["dense", "csr", "precomputed", "supervised", "approx", "npfloat-params", "rng-instance"] if ctx.thorough
             else ["dense", "csr", "supervised", "npfloat-params", "rng-instance"])
    nsets = 3 if ctx.thorough else 1
    for s in range(nsets):
        n = int(rng.integers(80, 140))
        X, kind = gen.dataset(rng, n, int(rng.integers(3, 8)), kind="clusters")
        y = rng.integers(0, 3, n)
        from sklearn.metrics import pairwise_distances
        for path in paths:
            base = dict(n_neighbors=int(rng.integers(8, 16)), random_state=7)
            if path == "approx":
                base["force_approximation_algorithm"] = True
            if path == "npfloat-params":
                base["set_op_mix_ratio"] = np.float64(rng.choice([0.25, 0.5, 0.75]))
                base["local_connectivity"] = np.float64(1.0)
            chosen = layouts if ctx.thorough else [layouts[i] for i in (0, 2, 3, 5, 9, 10)]
            Xp = X
            if path == "rng-instance":
                import umap.distances as UD
                base["force_approximation_algorithm"] = True
                base["output_metric"] = UD.euclidean_grad
                Xp = rng.normal(size=(400, 30)).astype(np.float32)       # noise: NN-descent is inexact, so its random stream matters
                chosen = [dict(n_epochs=11), dict(n_epochs=11, n_components=3), dict(n_epochs=30, n_components=5, init="random")]
            ref = None
            for lay in chosen:
                kw = dict(base, **lay)
                if path == "precomputed" and kw.get("init") == "pca":
                    continue
                case = {"path": path, "layout": {k: (v if not isinstance(v, list) else list(v)) for k, v in lay.items()},
                        "n": n, "n_neighbors": base["n_neighbors"], "data_kind": kind}
                if path == "rng-instance":
                    kw["random_state"] = np.random.RandomState(11)
                try:
                    if path in ("dense", "approx", "npfloat-params", "rng-instance"):
                        m = umap.UMAP(**kw).fit(Xp)
                    elif path == "csr":
                        m = umap.UMAP(**kw).fit(scipy.sparse.csr_matrix(X))
                    elif path == "precomputed":
                        m = umap.UMAP(metric="precomputed", **kw).fit(pairwise_distances(X).astype(np.float32))
                    else:
                        m = umap.UMAP(**kw).fit(X, y)
                except Exception as e:  # noqa
                    ctx.violation("exception", f"fit raised {type(e).__name__}: {e}", case)
                    continue
                hsh, zeros, nnz = gsnap(m.graph_)
                if zeros:
                    ctx.violation("stored-zero", f"graph_ holds {zeros} explicitly stored zeros ({case['layout']})", case)
                if ref is None:
                    ref = (hsh, nnz, case["layout"])
                elif hsh != ref[0]:
                    ctx.violation("graph-differs", f"graph_ differs between layout settings {ref[2]} ({ref[1]} entries) and "
                                                   f"{case['layout']} ({nnz} entries)", case)
                g = m.graph_.tocsr()
                weak = int(np.sum(g.data < g.data.max() / 200.0)) if g.nnz else 0
                ctx.case(key=str(case), nontrivial=weak > 0, sample=case if len(ctx.samples) < 4 else None, path=path,
                         n_epochs=str(lay.get("n_epochs", "default")))

        # after update(): the stored graph must still not depend on n_epochs, nor hold zeros
        ref = None
        for ne in (3, 20, 200) if ctx.thorough else (20, 200):
            m = umap.UMAP(n_neighbors=10, random_state=7, n_epochs=ne).fit(X[: n - 15])
            m.update(X[n - 15:])
            hsh, zeros, nnz = gsnap(m.graph_)
            case = {"path": "fit+update", "n_epochs": ne}
            if zeros:
                ctx.violation("stored-zero", f"after update graph_ holds {zeros} stored zeros (n_epochs={ne})", case)
            if ref is None:
                ref = (hsh, ne)
            elif ref[0] != hsh:
                ctx.violation("graph-differs", f"after update graph_ differs between n_epochs={ref[1]} and n_epochs={ne}", case)
            ctx.case(key=str(case) + str(s), nontrivial=True, path="fit+update")
        # combining models must not prune the result's stored graph either
        a = umap.UMAP(n_neighbors=10, random_state=7, n_epochs=20).fit(X)
        b = umap.UMAP(n_neighbors=14, random_state=7, n_epochs=200).fit(X[:, ::-1].copy())
        for opn, fn in (("add", lambda p, q: p + q), ("mul", lambda p, q: p * q), ("sub", lambda p, q: p - q)):
            try:
                c1, c2 = fn(a, b), fn(b, a) if opn == "add" else None
                r = fn(a, b)
            except Exception as e:  # noqa
                ctx.skip(f"{opn}: {type(e).__name__}")
                continue
            hsh, zeros, nnz = gsnap(r.graph_)
            if zeros:
                ctx.violation("stored-zero", f"({opn}) combined model's graph_ holds {zeros} stored zeros", {"op": opn})
            ctx.case(key=opn + str(s), nontrivial=True, path="combined")
