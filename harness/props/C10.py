"""C10 — transform honours its contract at every point of a model's history."""
import copy
import itertools

import numpy as np
import scipy.sparse

import gen
from common import Driver, sha


REGEN = ("constants", "registry", "umapsrc")

def data_tokens(batches):
    t = [len(batches)]
    for (i, r) in batches:
        t += [i, r]
    return t


def run_history(ctx, drv_pending, base, batches, ops, X_by_id, label, feats, ncomp, graph_mode=False):
    """run one op sequence on a deep copy of `base`; check the property after every step and queue the
    model's prediction for comparison"""
    m = copy.deepcopy(base)
    cur = [batches[0]]  # ids of the batches making up the current training data
    observed = []
    inv_rows = []
    seen = {}           # (input identity, training data identity) -> hash of the first output
    case = {"model": label, "ops": [str(o) for o in ops]}
    for o in ops:
        kind = o[0]
        try:
            if kind == "T":
                ids = cur if o[1] == "train" else [o[1]]
                if scipy.sparse.issparse(X_by_id[ids[0]]):
                    Y = scipy.sparse.vstack([X_by_id[i] for i in ids]).tocsr()
                else:
                    Y = np.vstack([X_by_id[i] for i in ids])
                out = m.transform(Y)
                out2 = m.transform(Y.copy())       # equal values in another object
                is_train = ids == cur
                if graph_mode:
                    ok_shape = out.shape == (Y.shape[0], m._raw_data.shape[0])
                    same = (out != out2).nnz == 0
                    is_emb = is_train and out is m.graph_
                    rows, cols = out.shape[0], ncomp
                else:
                    ok_shape = out.shape == (Y.shape[0], ncomp)
                    same = out.shape == out2.shape and np.array_equal(out, out2, equal_nan=True)
                    is_emb = out.shape == m.embedding_.shape and np.array_equal(out, m.embedding_, equal_nan=True)
                    rows, cols = (out.shape + (0,))[0], (out.shape + (0, 0))[1]
                if not ok_shape:
                    ctx.violation("transform-shape", f"transform of {Y.shape[0]} rows returned shape {out.shape} "
                                                     f"(after {case['ops'][:len(observed)]})", case)
                if not same:
                    ctx.violation("transform-repeat", "two transform calls with the same input differ on a seeded model", case)
                # ... and "whenever it is called again": the same input must give the same output later in the
                # history too, as long as the training data has not changed in between
                hkey = (tuple(ids), tuple(cur))
                hval = sha(out.toarray() if graph_mode else np.nan_to_num(out, nan=-1.25))
                if hkey in seen and seen[hkey] != hval:
                    ctx.violation("transform-repeat-later", f"transform of the same input differs from an earlier call in the same "
                                                            f"history (ops so far: {case['ops'][:len(observed) + 1]})", case)
                seen.setdefault(hkey, hval)
                if is_train and not is_emb:
                    ctx.violation("transform-training", "transform(current training data) is not the current training embedding", case)
                if (not is_train) and is_emb and not graph_mode:
                    ctx.violation("transform-training", "transform(other data) returned the training embedding", case)
                observed.append(f"E {rows} {cols} {1 if (is_emb if not graph_mode else is_train and is_emb) else 0}")
            elif kind == "I":
                fin = m.embedding_[np.isfinite(m.embedding_).all(axis=1)]
                if len(o) > 1 and o[1] == "all":
                    Z = fin.copy()          # the round trip: one row per training sample (same shape as the training data's)
                else:
                    Z = fin[:3] * 0.999 + 0.001 * np.nanmean(m.embedding_, axis=0)
                inv_rows.append(int(Z.shape[0]))
                out = m.inverse_transform(Z.astype(np.float32))
                if out.shape != (Z.shape[0], feats) or not np.all(np.isfinite(out)):
                    ctx.violation("inverse-shape", f"inverse_transform of {Z.shape[0]} rows: shape {out.shape}, finite={bool(np.all(np.isfinite(out)))}", case)
                observed.append(f"V {out.shape[0]} {out.shape[1]}")
            else:
                m.update(X_by_id[o[1]])
                cur = cur + [o[1]]
                n_now = sum(X_by_id[i].shape[0] for i in cur)
                if not graph_mode and m.embedding_.shape != (n_now, ncomp):
                    ctx.violation("update-embedding", f"after update embedding_ has shape {m.embedding_.shape}, training rows {n_now}", case)
                observed.append("U")
        except Exception as e:  # noqa
            ctx.violation("exception", f"{o} raised {type(e).__name__}: {e} (after {case['ops'][:len(observed)]})", case)
            return
    # model prediction
    toks = ["api", 0, ncomp, feats] + data_tokens([(batches[0], X_by_id[batches[0]].shape[0])]) + [len(ops)]
    cur = [batches[0]]
    for o in ops:
        if o[0] == "T":
            ids = cur if o[1] == "train" else [o[1]]
            toks += ["T"] + data_tokens([(i, X_by_id[i].shape[0]) for i in ids])
        elif o[0] == "I":
            toks += ["I", inv_rows.pop(0)]
        else:
            toks += ["U", o[1], X_by_id[o[1]].shape[0]]
            cur = cur + [o[1]]
    drv_pending.append((toks, observed, case, graph_mode))


def run(ctx):
    import srcval as _srcval
    _srcval.validate_umap(ctx, 200 if ctx.thorough else 40, ctx.rng, only="init_transform")     # translated `init_transform` vs the Python source
    import umap
    rng = ctx.rng
    ctx.rule = ("all operation sequences over {T(current training data), T(original data), T(new1), T(new2), inverse_transform (3 rows), update(extra)}, on exact, NN-descent, CSR-trained, graph-mode and list-n_epochs models, plus histories with the round trip inverse_transform(embedding_) (as many rows as the training data) "
                "up to length 2 (quick) / 3 (thorough) plus a seeded sample of the next length containing update-then-transform, on a seeded "
                "exact-path model (n=60); shorter ones on a forced NN-descent model "
                "and for n_epochs in {0,2,30} and transform_mode='graph'; after every step: shape, is-training-embedding, repetition equality, "
                "compared with the Lean state machine; non-trivial = sequence contains an update followed by a transform")
    ctx.assumptions += ["the abstraction (row counts, data identity) is tied by this enumeration; inverse_transform finiteness is validated only"]
    feats, ncomp = 4, 2
    X0, _ = gen.dataset(rng, 60, feats, kind="clusters")
    X_by_id = {0: X0,
               1: (X0[:7] + 0.05 * rng.normal(size=(7, feats))).astype(np.float32),
               2: (X0[20:25] + 0.05 * rng.normal(size=(5, feats))).astype(np.float32),
               3: (X0[30:38] + 0.05 * rng.normal(size=(8, feats))).astype(np.float32)}
    alphabet = [("T", "train"), ("T", 0), ("T", 1), ("T", 2), ("I",), ("U", 3)]
    pending = []
    base = umap.UMAP(n_neighbors=8, random_state=42, n_epochs=30).fit(X0)
    # exhaustive up to length 2 (quick) / 3 (thorough); longer ones: those with an update followed by a transform,
    # all of them at length 3 in thorough, a seeded sample otherwise
    full_len = 3 if ctx.thorough else 2
    seqs = [list(s) for L in range(1, full_len + 1) for s in itertools.product(alphabet, repeat=L)]
    longer = [list(s) for s in itertools.product(alphabet, repeat=full_len + 1)
              if 1 <= sum(1 for o in s if o[0] == "U") <= 2
              and any(o[0] == "U" and any(p[0] == "T" for p in s[i + 1:]) for i, o in enumerate(s))]
    pick = rng.choice(len(longer), size=min(len(longer), 120 if ctx.thorough else 24), replace=False)
    seqs += [longer[int(i)] for i in sorted(pick)]
    # histories in which the same input recurs with read-only calls in between (always run)
    recur = [[("T", 1), ("I",), ("T", 1)], [("T", 1), ("T", 2), ("T", 1)],
             [("T", 1), ("I",), ("T", 2), ("I",), ("T", 1)], [("U", 3), ("T", 1), ("I",), ("T", 1)],
             [("T", "train"), ("I",), ("T", 1), ("T", "train"), ("T", 1)],
             # the round trip inverse_transform(embedding_): as many rows as the training data
             [("T", 1), ("I", "all"), ("T", 1), ("T", "train")], [("I", "all"), ("U", 3), ("T", "train"), ("I", "all"), ("T", 1)]]
    seqs += [r for r in recur if r not in seqs]
    for ops in seqs:
        run_history(ctx, pending, base, [0], ops, X_by_id, "exact n=60 n_epochs=30", feats, ncomp)
    # other configurations, shorter histories
    cfgs = [("exact n_epochs=None", dict(n_neighbors=8, random_state=42)),
            ("exact n_epochs=0", dict(n_neighbors=8, random_state=42, n_epochs=0)),
            ("exact n_epochs=2", dict(n_neighbors=8, random_state=42, n_epochs=2))]
    short = [[("T", 1)], [("T", "train")], [("U", 3), ("T", "train"), ("T", 0)], [("T", 1), ("U", 3), ("T", 1), ("I",)]]
    for label, kw in cfgs:
        b = umap.UMAP(**kw).fit(X0)
        for ops in short:
            run_history(ctx, pending, b, [0], ops, X_by_id, label, feats, ncomp)
    bg = umap.UMAP(n_neighbors=8, random_state=42, n_epochs=30, transform_mode="graph").fit(X0)
    for ops in [[("T", 1)], [("T", "train")], [("T", 2), ("T", 1)], [("U", 3), ("T", 1)], [("U", 3), ("T", "train"), ("T", 1)]]:
        run_history(ctx, pending, bg, [0], ops, X_by_id, "graph-mode", feats, ncomp, graph_mode=True)
    # the training data given again in another (valid) memory layout: single-feature data as x[:, None] (strides (4, 0)) and as
    # x.reshape(-1, 1).copy() (strides (4, 4)); a column-major copy; a float64 copy of float32 data
    x1 = rng.normal(size=40).astype(np.float32)
    for label, A, B in (("single-feature strides", x1[:, None], x1.reshape(-1, 1).copy()),
                        ("column-major copy", X0, np.asfortranarray(X0)),
                        ("float64 copy", X0, X0.astype(np.float64))):
        case = {"model": "layout:" + label}
        try:
            m1 = umap.UMAP(n_neighbors=8, random_state=42, n_epochs=11).fit(A)
            out = m1.transform(B)
            if not (out.shape == m1.embedding_.shape and np.array_equal(out, m1.embedding_, equal_nan=True)):
                ctx.violation("transform-training", f"transform(training data, {label}) is not the training embedding", case,
                              key="C10:fingerprint-memory-layout")
        except Exception as e:  # noqa
            ctx.violation("exception", f"{label}: {type(e).__name__}: {e}", case)
        ctx.case(key="layout" + label, nontrivial=False, model="layout", length=1)
    # CSR training data (the training set is recognised by its values, whatever object carries them) and a model fitted with a
    # list of epochs (fit keeps the intermediate embeddings; the model must stay usable)
    S_by = {i: scipy.sparse.csr_matrix(np.where(np.abs(X_by_id[i]) > 0.4, X_by_id[i], 0).astype(np.float32)) for i in X_by_id}
    bs = umap.UMAP(n_neighbors=8, random_state=42, n_epochs=30).fit(S_by[0].copy())
    for ops in [[("T", "train")], [("T", 1), ("T", "train")], [("U", 3), ("T", "train"), ("T", 1)]]:
        run_history(ctx, pending, bs, [0], ops, S_by, "csr n_epochs=30", feats, ncomp)
    bl = umap.UMAP(n_neighbors=8, random_state=42, n_epochs=[10, 24]).fit(X0)
    for ops in [[("T", 1)], [("T", "train"), ("I",)], [("U", 3), ("T", 1), ("T", "train")]]:
        run_history(ctx, pending, bl, [0], ops, X_by_id, "exact n_epochs=[10, 24]", feats, ncomp)
    # a model smaller than its n_neighbors, growing through updates (still not larger than n_neighbors, then larger)
    T_by = {0: X0[:8].copy(), 1: X_by_id[1], 2: X_by_id[2], 3: X0[40:44].copy(), 4: X0[44:52].copy()}
    bt = umap.UMAP(n_neighbors=15, random_state=42, n_epochs=12).fit(T_by[0])
    for ops in [[("T", 1)], [("U", 3), ("T", 1), ("T", "train")], [("U", 3), ("I",), ("T", 2)], [("U", 3), ("U", 4), ("T", 1), ("T", "train")]]:
        run_history(ctx, pending, bt, [0], ops, T_by, "tiny n=8 < n_neighbors=15", feats, ncomp)
    # unique=True on training data with repeated rows (graph_ has one vertex per distinct row, embedding_ one row per input row)
    Q_by = dict(X_by_id)
    Q_by[0] = X0.copy()
    Q_by[0][50:58] = Q_by[0][:8]
    bq = umap.UMAP(n_neighbors=8, random_state=42, n_epochs=12, unique=True).fit(Q_by[0])
    for ops in [[("T", "train")], [("T", 1), ("T", "train"), ("T", 1)]]:
        run_history(ctx, pending, bq, [0], ops, Q_by, "unique=True with repeated rows", feats, ncomp)
    # forced NN-descent model
    Xa, _ = gen.dataset(rng, 150, feats, kind="clusters")
    Xa_by = {0: Xa, 1: (Xa[:7] + 0.05).astype(np.float32), 2: (Xa[20:25] - 0.05).astype(np.float32),
             3: (Xa[30:38] + 0.02).astype(np.float32)}
    ba = umap.UMAP(n_neighbors=8, random_state=42, n_epochs=30, force_approximation_algorithm=True).fit(Xa)
    aseqs = [[o] for o in alphabet] + [[("U", 3), ("T", "train")], [("U", 3), ("T", 0)], [("U", 3), ("T", 1)], [("U", 3), ("I",)],
                                       [("T", 1), ("U", 3)], [("U", 3), ("T", "train"), ("T", 2)]]
    aseqs += [[("T", 1), ("I",), ("T", 1)], [("U", 3), ("T", 1), ("I",), ("T", 1)], [("T", 1), ("I", "all"), ("T", 1), ("T", "train")]]
    if ctx.thorough:
        aseqs = [list(s) for L in (1, 2) for s in itertools.product(alphabet, repeat=L)] + aseqs[-3:]
        aseqs += [list(s) for s in itertools.product(alphabet, repeat=3) if any(o[0] == "U" for o in s)]
    for ops in aseqs:
        if sum(1 for o in ops if o[0] == "U") > 1:
            continue
        run_history(ctx, pending, ba, [0], ops, Xa_by, "nn-descent n=150", feats, ncomp)

    drv = Driver()
    hs = [drv.add(*p[0]) for p in pending]
    outs = drv.run()
    for h, (toks, observed, case, graph_mode) in zip(hs, pending):
        model = [x.strip() for x in outs[h].split(";")]
        if graph_mode:
            model = [" ".join(x.split()) for x in model]
        if model != observed:
            first = next((i for i, (a, b) in enumerate(zip(model, observed)) if a != b), min(len(model), len(observed)))
            ctx.mismatch("api", {"step": first, "model": model[first:first + 1], "impl": observed[first:first + 1]}, case)
        ops = case["ops"]
        nt = any(o.startswith("('U'") and any(p.startswith("('T'") for p in ops[i + 1:]) for i, o in enumerate(ops))
        ctx.case(key=case["model"] + str(ops), nontrivial=nt, sample=case, model=case["model"], length=len(ops))
    ctx.exhaustive = True
