"""C12 — every named dense metric computes its mathematical definition."""
import numpy as np

import metricgen as mg
import regen as regen_mod
from common import Driver, f2b, b2f, close

REGEN = ("constants", "registry", "distsrc")


def metric_line(drv, name, x, y, extra):
    toks = ["metric", mg.canon(name), len(x)] + [f2b(v) for v in x] + [f2b(v) for v in y] + [f2b(v) for v in extra]
    return drv.add(*toks)


def check_pair(ctx, D, drv, pend, name, x, y, args, extra, kind, exhaustive=False):
    f = D.named_distances[name]
    cname = mg.canon(name)
    x0, y0 = x.copy(), y.copy()
    a0 = [np.array(a, copy=True) if isinstance(a, np.ndarray) else a for a in args]
    case = {"metric": name, "x": x.tolist(), "y": y.tolist(), "kind": kind,
            "params": [a.tolist() if isinstance(a, np.ndarray) else a for a in args]}
    try:
        v = float(f(x, y, *args))
        vr = float(f(y0.copy(), x0.copy(), *a0))
        vx = float(f(x0.copy(), x0.copy(), *a0))
    except Exception as e:  # noqa
        ctx.violation("exception", f"{name} raised {type(e).__name__}: {e}", case, key=f"C12:{cname}:exception")
        return
    key = f"C12:{cname}"
    if not (np.array_equal(x, x0) and np.array_equal(y, y0)):
        ctx.violation("arguments-modified", f"{name} modified its arguments", case, key=key + ":mutates")
    tol = 1e-5 if cname in ("mahalanobis",) else 1e-7
    if np.isnan(v):
        ctx.violation("nan", f"{name} returned NaN", case, key=key + ":nan")
        return
    if not close(v, vr, rtol=tol, atol=1e-9):
        ctx.violation("symmetric", f"{name}(x,y)={v} but {name}(y,x)={vr}", case, key=key + ":symmetric")
    if v < -1e-9:
        ctx.violation("non-negative", f"{name} = {v} < 0", case, key=key + ":nonneg")
    if not (abs(vx) <= 2e-3 if cname == "ll_dirichlet" else
            abs(vx) <= 2e-4 if cname in ("hellinger", "poincare", "cosine", "correlation") else abs(vx) <= 1e-7):
        ctx.violation("identity", f"{name}(x,x) = {vx} != 0", case, key=key + ":identity")
    b = mg.BOUNDS.get(cname)
    if b is not None and v > b + 1e-6:
        ctx.violation("bound", f"{name} = {v} exceeds its bound {b}", case, key=key + ":bound")
    if cname == "canberra" and v > len(x) + 1e-9:
        ctx.violation("bound", f"canberra = {v} exceeds the dimension {len(x)}", case, key=key + ":bound")
    if cname == "braycurtis" and np.all(x >= 0) and np.all(y >= 0) and v > 1 + 1e-9:
        ctx.violation("bound", f"braycurtis = {v} > 1 on non-negative data", case, key=key + ":bound")
    # the textbook definition
    ref = mg.binary_reference(cname, x0, y0) if cname in mg.BINARY else mg.real_reference(cname, x0, y0, a0)
    if ref is not None and np.isfinite(ref):
        rt = 2e-5 if cname in ("mahalanobis", "hellinger", "poincare") else 1e-7
        if not close(v, ref, rtol=rt, atol=(2e-4 if cname in ("hellinger", "poincare") else 1e-9)):
            ctx.violation("definition", f"{name} = {v}, textbook definition = {ref}", case, key=key + ":definition")
    h = metric_line(drv, name, x0, y0, extra)
    pend.append((h, v, case, cname))
    nz = kind not in ("all-zero", "identical")
    ctx.case(key=hash((name, x0.tobytes(), y0.tobytes())), nontrivial=nz,
             sample=case if ctx.evaluations % 400 == 0 else None, metric=cname, kind=kind)


def run(ctx):
    import umap.distances as D
    import scipy.spatial.distance as SD
    rng = ctx.rng
    names = [n for n in D.named_distances if n not in D.DISCRETE_METRICS]
    ctx.rule = ("near-duplicate arguments (relative difference 1e-9 .. 1e-5) against the definition in extended precision for poincare, euclidean, hellinger, cosine, correlation; " +
                "for every name in named_distances (discrete excepted; aliases included): random pairs of kinds {continuous, integer, binary, "
                "zeros-in-one, all-zero, identical, sparse}, dims 1..64, all parameters; binary metrics exhaustively on {0,1}^d x {0,1}^d, "
                "d<=5 (quick d<=4 + sampled d=5); implementation vs Lean model, vs an independent float64 textbook definition and SciPy "
                "where defined; symmetry, non-negativity, identity, bounds, argument purity; non-trivial = pair neither all-zero nor identical")
    ctx.assumptions += ["float rounding not verified: real-valued metrics compared at rel 1e-7 (1e-5 where the code uses float32 internally)",
                        "the identity clause for hellinger / poincare / cosine / correlation allows the 2e-4 (ll_dirichlet, whose self "
                        "terms use a Stirling approximation: 2e-3) that sqrt / arccosh amplify from a rounding-size argument"]
    # the translated kernels (what the `*_src` theorems are about) against the Python source itself
    import srcval
    import translate
    srcval.validate(ctx, translate.DIST_FUNCS, 200 if ctx.thorough else 25, rng)
    ctx.assumptions.append("the AST -> Lean translator (harness/translate.py) is validated on every run by executing its output "
                           "(srcdrv) against the Python source (.py_func) on generated inputs; the `*_src` theorems tie its output "
                           "to the hand-written model for all inputs")
    drv = Driver()
    pend = []
    # exhaustive binary
    dmax = 5 if ctx.thorough else 4
    for name in mg.BINARY:
        if name not in D.named_distances:
            ctx.violation("registry", f"binary metric {name} missing from named_distances", {"metric": name})
            continue
        for d in range(1, dmax + 1):
            for (x, y) in mg.all_binary_pairs(d):
                check_pair(ctx, D, drv, pend, name, x.copy(), y.copy(), (), [], "binary-exhaustive", True)
        if not ctx.thorough:
            pairs = mg.all_binary_pairs(5)
            for i in rng.choice(len(pairs), 100, replace=False):
                check_pair(ctx, D, drv, pend, name, pairs[i][0].copy(), pairs[i][1].copy(), (), [], "binary-d5")
    ctx.exhaustive = True
    # random pairs for every accepted name
    per = 400 if ctx.thorough else 40
    for name in names:
        for t in range(per):
            x, y, kind = mg.vector_pair(rng, name)
            args, extra = mg.params_for(rng, name, len(x))
            if mg.canon(name) == "ll_dirichlet" and (x.sum() == 0) != (y.sum() == 0) and False:
                continue
            check_pair(ctx, D, drv, pend, name, x, y, args, extra, kind)
    outs = drv.run()
    for h, v, case, cname in pend:
        if outs[h] == "err":
            ctx.mismatch("metric", {"impl": v, "model": "err"}, case)
            continue
        m = b2f(outs[h])
        if cname in mg.BINARY:
            ok = (m == v) or close(m, v, rtol=1e-15)
        elif cname in ("hellinger", "poincare"):
            ok = close(m, v, rtol=2e-5, atol=2e-4)
        else:
            ok = close(m, v, rtol=(2e-5 if cname == "mahalanobis" else 1e-9), atol=1e-12) or (np.isnan(m) and np.isnan(v))
        if not ok:
            ctx.mismatch("metric", {"impl": v, "model": m}, case)

    # SciPy as a second oracle where it defines the metric
    scipy_map = {"euclidean": SD.euclidean, "manhattan": SD.cityblock, "chebyshev": SD.chebyshev, "canberra": SD.canberra,
                 "braycurtis": SD.braycurtis, "cosine": SD.cosine, "correlation": SD.correlation, "hamming": SD.hamming,
                 "jaccard": SD.jaccard, "dice": SD.dice, "rogerstanimoto": SD.rogerstanimoto, "russellrao": SD.russellrao,
                 "sokalsneath": SD.sokalsneath, "yule": SD.yule, "minkowski": SD.minkowski, "seuclidean": SD.seuclidean,
                 "mahalanobis": SD.mahalanobis}
    for name, sf in scipy_map.items():
        for t in range(60 if ctx.thorough else 12):
            x, y, kind = mg.vector_pair(rng, name, dim=int(rng.choice([2, 3, 7, 20])))
            if kind in ("all-zero", "zeros-in-one", "identical") or not np.any(x) or not np.any(y) or np.array_equal(x, y):
                continue   # conventions differ from SciPy's by design there
            args, _ = mg.params_for(rng, name, len(x))
            try:
                if name in mg.BINARY and name != "hamming":
                    ref = float(sf(x != 0, y != 0))
                else:
                    ref = float(sf(x, y, *args))
            except Exception:  # noqa
                continue
            if name in ("russellrao", "kulsinski") and np.array_equal(x != 0, y != 0):
                continue   # umap's documented convention: 0 on identical supports (SciPy: (n - ntt)/n)
            if name == "braycurtis" and np.any(x + y < 0):
                continue   # SciPy takes |sum(x+y)|, umap sum|x+y|: definitions agree only for non-negative sums
            v = float(D.named_distances[name](x.copy(), y.copy(), *args))
            if np.isfinite(ref) and not close(v, ref, rtol=2e-5, atol=1e-9):
                ctx.violation("scipy", f"{name} = {v}, SciPy = {ref}", {"metric": name, "x": x.tolist(), "y": y.tolist()},
                              key=f"C12:{name}:scipy")
            ctx.case(key="scipy" + name + str(t), nontrivial=True, part="scipy")

    # near-duplicate arguments (two measurements of the same sample): the definition in extended precision; formulas that are
    # algebraically equal to the definition but subtract large squared norms lose everything here
    for name in ("poincare", "euclidean", "hellinger", "cosine", "correlation"):
        f = D.named_distances[name]
        for t in range(40 if ctx.thorough else 12):
            d = int(rng.choice([2, 3, 8, 32]))
            u = rng.normal(size=d)
            if name == "poincare":
                u = u / (1 + np.linalg.norm(u)) * float(rng.choice([0.5, 0.9, 0.99]))
            if name in ("hellinger",):
                u = np.abs(u) + 0.1
            rel = float(rng.choice([1e-9, 1e-7, 1e-5]))
            v = u * (1 + rel * rng.normal(size=d))
            if name == "poincare" and not (np.dot(v, v) < 1):
                continue
            uL, vL = u.astype(np.longdouble), v.astype(np.longdouble)
            if name == "poincare":
                eps_ = 2 * np.sum((uL - vL) ** 2) / ((1 - np.sum(uL * uL)) * (1 - np.sum(vL * vL)))
                ref = float(np.sqrt(2 * eps_) * (1 - eps_ / 12))            # arccosh(1 + e) = sqrt(2e) (1 - e/12 + ...)
                tol = 3e-8 + 1e-3 * ref
            elif name == "euclidean":
                ref = float(np.sqrt(np.sum((uL - vL) ** 2)))
                tol = 1e-9 * ref + 1e-300
            elif name == "hellinger":
                ref = float(np.sqrt(max(0, 1 - np.sum(np.sqrt(uL * vL)) / np.sqrt(np.sum(uL) * np.sum(vL)))))
                tol = 3e-8 + 1e-3 * ref
            elif name == "cosine":
                ref = float(1 - np.sum(uL * vL) / np.sqrt(np.sum(uL * uL) * np.sum(vL * vL)))
                tol = 1e-15 + 1e-3 * abs(ref)
            else:
                a_, b_ = uL - uL.mean(), vL - vL.mean()
                ref = float(1 - np.sum(a_ * b_) / np.sqrt(np.sum(a_ * a_) * np.sum(b_ * b_)))
                tol = 1e-15 + 1e-3 * abs(ref)
            try:
                got = float(f(u.copy(), v.copy()))
            except Exception as e:  # noqa
                ctx.violation("exception", f"{name} raised {type(e).__name__}: {e} on near-duplicate arguments", {"metric": name, "x": u.tolist(), "y": v.tolist()},
                              key=f"C12:{name}:exception")
                continue
            if not np.isfinite(got) or got < (-1e-12 if name in ("cosine", "correlation") else 0.0) or abs(got - ref) > tol:   # 1 - ratio: one ulp of 1
                ctx.violation("definition", f"{name} of near-duplicate arguments (relative difference {rel}) = {got}, definition in extended precision = {ref}",
                              {"metric": name, "x": u.tolist(), "y": v.tolist()}, key=f"C12:{name}:near-duplicates")
            ctx.case(key="neardup" + name + str(u.tolist()), nontrivial=True, part="near-duplicates", metric=name)

    # pairwise driver used by fit for the special metrics
    for name in ["hellinger", "ll_dirichlet", "symmetric_kl", "poincare"] + (["euclidean"] if ctx.thorough else []):
        n, d = 7, 5
        X = np.abs(rng.normal(size=(n, d)))
        if name == "ll_dirichlet":
            X = np.round(X * 3) + 1
        if name == "poincare":
            X = X / (1 + np.linalg.norm(X, axis=1, keepdims=True)) * 0.9
        X0 = X.copy()
        M = D.pairwise_special_metric(X, metric=name)
        f = D.named_distances[name]
        for i in range(n):
            for j in range(n):
                ref = float(f(X0[i].copy(), X0[j].copy())) if i != j else 0.0
                if not close(float(M[i, j]), ref, rtol=1e-5, atol=2e-4):
                    ctx.violation("pairwise", f"pairwise_special_metric[{i},{j}] = {M[i, j]} vs metric = {ref}",
                                  {"metric": name, "X": X0.tolist()}, key=f"C12:{name}:pairwise")
                    break
        if not np.array_equal(X, X0):
            ctx.violation("arguments-modified", f"pairwise_special_metric({name}) modified its data", {"metric": name, "X": X0.tolist()},
                          key=f"C12:{name}:pairwise-mutates")
        ctx.case(key="pairwise" + name, nontrivial=True, part="pairwise")

    # the pairwise driver with a callable metric and parameters, called several times in one process with different parameter
    # values (what successive fits / transforms with other metric_kwds do): every call must use the parameters it was given
    par_sets = {"minkowski": [{"p": 1.0}, {"p": 3.0}, {"p": 1.5}],
                "wminkowski": [{"w": None, "p": 1.0}, {"w": None, "p": 3.0}],
                "seuclidean": [{"sigma": None}, {"sigma": None}],
                "mahalanobis": [{"vinv": None}, {"vinv": None}]}
    for name, sets in par_sets.items():
        if name not in D.named_distances:
            continue
        f = D.named_distances[name]
        n, d = 6, 4
        X = rng.normal(size=(n, d))
        Y = rng.normal(size=(3, d))
        for kw in sets:
            kw = dict(kw)
            for k_ in kw:
                if kw[k_] is None:
                    if k_ == "vinv":
                        A_ = rng.normal(size=(d, d))
                        kw[k_] = A_ @ A_.T / d + 0.5 * np.eye(d)
                    else:
                        kw[k_] = rng.uniform(0.5, 2.0, d)
            for Q in (None, Y):
                M = D.pairwise_special_metric(X.copy(), None if Q is None else Q.copy(), metric=f, kwds=dict(kw))
                P2 = X if Q is None else Q
                ref = np.array([[float(f(X[i].copy(), P2[j].copy(), *kw.values())) for j in range(P2.shape[0])] for i in range(n)])
                if Q is None:
                    np.fill_diagonal(ref, 0.0)
                if not np.allclose(M, ref, rtol=1e-5, atol=1e-6):
                    ctx.violation("pairwise", f"pairwise_special_metric({name}, kwds={ {k_: np.round(np.asarray(v), 3).tolist() for k_, v in kw.items()} }) differs from the metric "
                                              f"called with the same parameters by {float(np.max(np.abs(M - ref))):.3g} (earlier calls in this process used other parameter values)",
                                  {"metric": name, "X": X.tolist(), "kwds": {k_: np.asarray(v).tolist() for k_, v in kw.items()}}, key=f"C12:{name}:pairwise-params")
            ctx.case(key="pairwise-params" + name + str(sorted(kw)), nontrivial=True, part="pairwise-params")
