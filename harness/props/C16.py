"""C16 — categorical supervision only re-weights existing edges, symmetrically by label."""
import warnings

import numpy as np
import scipy.sparse

import gen
from common import Driver, f2b, coo_tokens, parse_coo, sparse_to_dict, close


REGEN = ("constants", "registry", "umapsrc")

def label_tokens(y):
    return [len(y)] + [("n" if int(v) == -1 else str(int(v))) for v in y]


def run(ctx):
    import srcval as _srcval
    _srcval.validate_umap(ctx, 200 if ctx.thorough else 40, ctx.rng, only="fast_intersection")     # translated `fast_intersection` vs the Python source
    import umap
    import umap.umap_ as U
    warnings.filterwarnings("ignore")
    rng = ctx.rng
    ctx.rule = ("(i) fast_intersection on random COO triples and label vectors (1-6 classes, 0-60% unlabelled) vs the Lean model, exact "
                "attenuation factors; (ii) UMAP(target_weight=w).fit(X, y).graph_ vs the model's categoricalIntersection applied to the "
                "unsupervised graph of the same data, for w in {0,.25,.5,.9,.99,1}, unique=True with duplicated rows, non-default set_op_mix_ratio / local_connectivity, label renamings (negative, permuted, adjacent integers beyond 2^24 / 2^31 / 2^40), and the "
                "property's clauses on the real graphs (symmetry, range, support subset, unit edge, renaming invariance, separation at "
                "w=1); also checks that float exp(-1e12) underflows to 0; non-trivial = at least 2 classes and one unlabelled sample")
    ctx.assumptions += ["sklearn.preprocessing.normalize(norm='max') by contract", "np.exp(-1e12) == 0.0 (asserted each run)"]
    if float(np.exp(-1.0e12)) != 0.0:
        ctx.violation("underflow-assumption", "np.exp(-1e12) is not 0.0 on this platform", {})
    drv = Driver()
    pend = []
    # (i) fast_intersection directly
    for t in range(300 if ctx.thorough else 40):
        n = int(rng.integers(2, 12))
        nnz = int(rng.integers(1, 30))
        rows = rng.integers(0, n, nnz).astype(np.int32)
        cols = rng.integers(0, n, nnz).astype(np.int32)
        vals = rng.uniform(0.01, 1.0, nnz).astype(np.float32)
        ncls = int(rng.integers(1, 7))
        y = rng.integers(0, ncls, n).astype(np.int64)
        y[rng.random(n) < float(rng.choice([0, 0.2, 0.6]))] = -1
        w = float(rng.choice([0.0, 0.25, 0.5, 0.9, 0.99, 1.0]))
        far = 2.5 / (1.0 - w) if w < 1.0 else 1.0e12
        v2 = vals.copy()
        U.fast_intersection(rows, cols, v2, y, 1.0, far)
        case = {"n": n, "rows": rows.tolist(), "cols": cols.tolist(), "vals": vals.tolist(), "labels": y.tolist(), "target_weight": w}
        # attenuation factors, clause by clause
        for q in range(nnz):
            a, b = y[rows[q]], y[cols[q]]
            want = vals[q] * (np.exp(-1.0) if (a == -1 or b == -1) else (1.0 if a == b else np.exp(-far)))
            if not close(float(v2[q]), float(want), rtol=1e-6, atol=1e-30):
                ctx.violation("attenuation", f"edge ({rows[q]},{cols[q]}) labels ({a},{b}): factor {v2[q] / vals[q]}, expected {want / vals[q]}", case)
                break
        toks = ["fastint", f2b(1.0), f2b(far)] + label_tokens(y) + [nnz]
        for q in range(nnz):
            toks += [int(rows[q]), int(cols[q]), f2b(float(vals[q]))]
        h = drv.add(*toks)
        impl = {}
        for q in range(nnz):
            impl[(int(rows[q]), int(cols[q]))] = impl.get((int(rows[q]), int(cols[q])), 0.0) + float(v2[q])
        pend.append((h, impl, case, 1e-6))
        ctx.case(key="fi" + str(case["vals"]), nontrivial=bool(len(set(y[y >= 0])) >= 2 and (y == -1).any()), part="fast_intersection", w=w)

    # (ii) real supervised fits
    nfit = 36 if ctx.thorough else 8
    for t in range(nfit):
        n = int(rng.integers(30, 70))
        X, kind = gen.dataset(rng, n, int(rng.integers(2, 6)), kind="clusters")
        ncls = int(rng.integers(1, 6))
        y = rng.integers(0, ncls, n).astype(np.int64)
        y[rng.random(n) < float(rng.choice([0, 0.2, 0.6]))] = -1
        w = [0.0, 0.25, 0.5, 0.9, 0.99, 1.0][t % 6]
        k = int(rng.integers(4, 10))
        kw = dict(n_neighbors=k, random_state=5, n_epochs=0, init="random")
        if t % 3 == 2:
            # graph-stage options of the estimator must not leak into the supervision step
            kw["set_op_mix_ratio"] = float(rng.choice([0.3, 0.75]))
            kw["local_connectivity"] = float(rng.choice([1.0, 2.0]))
        uniq = (t % 4 == 1)
        if uniq:
            # unique=True: the graph lives on the distinct rows in np.unique's (sorted) order; duplicated rows share a label
            src = rng.integers(0, n, 5)
            dst = rng.integers(0, n, 5)
            X[dst] = X[src]
            y[dst] = y[src]
            kw["unique"] = True
            _, uidx = np.unique(X, return_index=True, axis=0)
        else:
            uidx = np.arange(n)
        case = {"n": n, "k": k, "target_weight": w, "unique": bool(uniq), "set_op_mix_ratio": kw.get("set_op_mix_ratio", 1.0),
                "local_connectivity": kw.get("local_connectivity", 1.0), "labels": y.tolist(), "X": X.tolist()}
        y_in = y
        y = y[uidx]              # label of each graph vertex
        n = len(uidx)
        try:
            unsup = umap.UMAP(**kw).fit(X).graph_
            sup = umap.UMAP(target_weight=w, **kw).fit(X, y_in).graph_
            # renaming: an injective relabelling that fixes -1 (negative and large values included)
            perm = rng.permutation(ncls)
            table = {c: int(v) for c, v in zip(range(ncls), (perm * 1000 + 7) * rng.choice([-1, 1]))}
            table = {c: (v if v != -1 else 999983) for c, v in table.items()}
            y2 = np.array([table[int(v)] if v != -1 else -1 for v in y_in], dtype=np.int64)
            sup2 = umap.UMAP(target_weight=w, **kw).fit(X, y2).graph_
            # ... and one onto adjacent large integers (distinct as integers, not as float32)
            base = int(rng.choice([100000001, 2 ** 31 + 1, -(2 ** 40) - 1]))
            y3 = np.array([base + int(perm[int(v)]) if v != -1 else -1 for v in y_in], dtype=np.int64)
            sup3 = umap.UMAP(target_weight=w, **kw).fit(X, y3).graph_
        except Exception as e:  # noqa
            ctx.violation("exception", f"supervised fit raised {type(e).__name__}: {e}", case)
            continue
        g, gu = sparse_to_dict(sup), sparse_to_dict(unsup)
        if sup.shape != (n, n):
            ctx.violation("shape", f"supervised graph has shape {sup.shape}, {n} distinct samples", case)
            continue
        if (sup != sup2).nnz != 0:
            ctx.violation("renaming", "graph changes under an injective renaming of the class labels (-1 fixed)", dict(case, renamed=y2.tolist()))
        if (sup != sup3).nnz != 0:
            ctx.violation("renaming", "graph changes under an injective renaming of the class labels onto adjacent large integers (-1 fixed)",
                          dict(case, renamed=y3.tolist()))
        for (i, j), v in g.items():
            if not (0 < v <= 1 + 1e-6) or not np.isfinite(v):
                ctx.violation("range", f"entry ({i},{j}) = {v} outside (0,1]", case)
                break
            if abs(g.get((j, i), 0.0) - v) > 1e-6:
                ctx.violation("symmetric", f"({i},{j}) = {v}, ({j},{i}) = {g.get((j, i), 0.0)}", case)
                break
            if (i, j) not in gu:
                ctx.violation("support", f"supervised edge ({i},{j}) is not an edge of the unsupervised graph", case)
                break
            if w == 1.0 and y[i] != -1 and y[j] != -1 and y[i] != y[j]:
                ctx.violation("separation", f"target_weight=1 but edge ({i},{j}) joins labels {y[i]} and {y[j]}", case)
                break
        S = sup.tocsr()
        for i in range(n):
            if S[i].nnz and S[i].max() < 1 - 1e-6:
                ctx.violation("unit-edge", f"non-isolated sample {i} has maximum strength {S[i].max()} < 1", case)
                break
        far = 2.5 / (1.0 - w) if w < 1.0 else 1.0e12
        # float32 underflow shim: the implementation's weights are float32, so exp(-far) is exactly 0 once far > ~103
        # (e.g. target_weight = 0.99, far = 250) while float64 would keep 1e-109 and re-normalise it to ~1
        if far > 103.0:
            far = 1.0e12
            ctx.bin("float32_underflow_shim", True)
        toks = ["catint", f2b(1.0), f2b(far)] + label_tokens(y) + coo_tokens(unsup)
        h = drv.add(*toks)
        pend.append((h, g, {k_: v for k_, v in case.items() if k_ != "X"}, 2e-6))
        ctx.case(key=hash(str(case["X"])) ^ hash((w, str(case["labels"]))), nontrivial=bool(len(set(y[y >= 0])) >= 2 and (y == -1).any()),
                 sample={k_: case[k_] for k_ in ("n", "k", "target_weight")} if len(ctx.samples) < 4 else None, part="fit", w=w, classes=ncls)
    outs = drv.run()
    for h, impl, case, tol in pend:
        model = parse_coo(outs[h])
        for key in set(impl) | set(model):
            a, b = impl.get(key, 0.0), model.get(key, 0.0)
            if max(abs(a), abs(b)) < 1e-30:
                continue
            if not close(a, b, rtol=tol, atol=1e-7):
                ctx.mismatch("supervision", {"entry": key, "impl": a, "model": b}, case)
                break
