"""Translator validation: the Lean functions that harness/translate.py generates from umap/distances.py
(Generated/DistSrc.lean, run at Float by the compiled `srcdrv`) against the Python functions themselves
(`.py_func`: the source the translator read, executed by CPython in float64) on the same inputs.

This is what keeps the translator out of the "simply trusted" part of the trusted base: the equivalence theorems
`Src.f = Metrics.f` are about the translator's output, and this run checks that the translator's output behaves
like the source it was produced from.  Both sides perform the same float64 operations in the same order, so the
comparison is tight (1e-12 relative; 1e-6 where the Python side stores into a float32 array)."""
import os
import subprocess

import numpy as np

import metricgen as mg
from common import LEAN, InfraError, f2b, b2f

SRCDRV = os.path.join(LEAN, ".lake", "build", "bin", "srcdrv")

DOMAIN = {"standardised_euclidean": "seuclidean", "weighted_minkowski": "wminkowski", "bray_curtis": "braycurtis",
          "rogers_tanimoto": "rogerstanimoto", "sokal_michener": "sokalmichener", "sokal_sneath": "sokalsneath"}
FLOAT32_SIDE = {"minkowski_grad", "weighted_minkowski_grad", "mahalanobis", "mahalanobis_grad",
                "spherical_gaussian_energy_grad", "diagonal_gaussian_energy_grad"}


def build():
    p = subprocess.run(["lake", "build", "srcdrv"], cwd=LEAN, stdout=subprocess.PIPE, stderr=subprocess.STDOUT)
    return p.returncode == 0, p.stdout.decode()


def tok_v(v):
    return ["v", str(len(v))] + [f2b(a) for a in v]


def gen_case(rng, fname):
    """(python args tuple, driver tokens) for one call of `fname`"""
    if fname == "sign":
        a = float(rng.choice([-2.5, -0.0, 0.0, 1.0, rng.normal()]))
        return (a,), ["s", f2b(a)]
    if fname in ("approx_log_Gamma", "log_single_beta"):
        a = float(rng.choice([1.0, 2.0, 0.5, 7.0, abs(rng.normal()) * 10 + 0.1]))
        return (a,), ["s", f2b(a)]
    if fname == "log_beta":
        a = float(rng.choice([1.0, 2.0, 3.0, 4.0, 4.5, 6.0, 9.0, abs(rng.normal()) * 5 + 0.1]))
        b = float(rng.choice([1.0, 2.0, 3.0, 4.0, 4.5, 6.0, 9.0, abs(rng.normal()) * 5 + 0.1]))
        return (a, b), ["s", f2b(a), "s", f2b(b)]
    base = fname[:-5] if fname.endswith("_grad") else fname
    dom = DOMAIN.get(base, base)
    if base in ("spherical_gaussian_energy", "diagonal_gaussian_energy"):
        d = 3 if base.startswith("spherical") else 4
        x, y = rng.normal(size=d), rng.normal(size=d)
        if rng.random() < 0.2:
            x[2:] = 0.0
            y[2:] = 0.0
        return (x, y), tok_v(x) + tok_v(y)
    if base == "hyperboloid":
        d = int(rng.choice([1, 2, 3, 5]))
        x, y = rng.normal(size=d), rng.normal(size=d)
        if rng.random() < 0.2:
            y = x.copy()
        return (x, y), tok_v(x) + tok_v(y)
    x, y, _ = mg.vector_pair(rng, dom)
    args, _ = mg.params_for(rng, dom, len(x))
    toks = tok_v(x) + tok_v(y)
    for a in args:
        if np.ndim(a) == 0:
            toks += ["s", f2b(a)]
        elif np.ndim(a) == 1:
            toks += tok_v(a)
        else:
            toks += ["m", str(a.shape[0]), str(a.shape[1])] + [f2b(v) for v in np.asarray(a).ravel()]
    if base == "symmetric_kl":
        z = 1e-11
        args = (z,)
        toks += ["s", f2b(z)]
    return (x, y) + tuple(args), toks


def tok_i(v):
    return ["i", str(len(v))] + [str(int(a)) for a in v]


def gen_sparse_case(rng, fname, need_n):
    """canonical sparse pair (sorted distinct indices; values multiples of 1/8 so that the float32 stores of the Python
    side are exact), occasionally with empty / identical / disjoint supports"""
    n = int(rng.choice([1, 2, 3, 6, 12, 30]))
    kind = str(rng.choice(["random", "random", "identical-support", "disjoint", "one-empty", "both-empty", "cancelling"]))

    def vec(p):
        idx = np.nonzero(rng.random(n) < p)[0]
        val = rng.integers(1, 33, len(idx)) / 8.0 * rng.choice([-1.0, 1.0], len(idx))
        return idx.astype(np.int64), val.astype(np.float64)
    i1, d1 = vec(0.5)
    i2, d2 = vec(0.5)
    if kind == "identical-support":
        i2, d2 = i1.copy(), rng.integers(1, 33, len(i1)) / 8.0
    elif kind == "cancelling":
        i2, d2 = i1.copy(), d1.copy()
        if len(d2) > 1:
            d2[0] = -d2[0]
    elif kind == "disjoint":
        keep = ~np.isin(i2, i1)
        i2, d2 = i2[keep], d2[keep]
    elif kind == "one-empty":
        i2, d2 = i2[:0], d2[:0]
    elif kind == "both-empty":
        i1, d1, i2, d2 = i1[:0], d1[:0], i2[:0], d2[:0]
    if fname in ("sparse_hellinger", "sparse_ll_dirichlet"):
        d1, d2 = np.abs(d1), np.abs(d2)
    if fname == "sparse_ll_dirichlet":
        d1, d2 = np.ceil(d1), np.ceil(d2)
    args = [i1, d1, i2, d2]
    toks = tok_i(i1) + tok_v(d1) + tok_i(i2) + tok_v(d2)
    if need_n:
        args.append(n)
        toks += ["n", str(n)]
    if fname == "sparse_minkowski":
        p = float(rng.choice([1.0, 1.5, 2.0, 3.0]))
        args.append(p)
        toks += ["s", f2b(p)]
    return tuple(args), toks


def py_call_sparse(f, args):
    g = getattr(f, "py_func", f)
    args = tuple(a.copy() if isinstance(a, np.ndarray) else a for a in args)
    with np.errstate(all="ignore"):
        try:
            r = g(*args)
        except ZeroDivisionError:
            return "zerodiv"
    if isinstance(r, tuple):
        return ("iv", [int(v) for v in r[0]], [float(v) for v in r[1]])
    if isinstance(r, np.ndarray):
        return ("i", [int(v) for v in r])
    return ("s", float(r))


def parse_sparse_answer(ans):
    t = ans.split()
    if t and t[0] == "idx":
        if "val" in t:
            k = t.index("val")
            return ("iv", [int(v) for v in t[1:k]], [b2f(v) for v in t[k + 1:]])
        return ("i", [int(v) for v in t[1:]])
    return ("s", b2f(t[0]))


def validate_sparse(ctx, n_per, rng, label="translator-validation(sparse)"):
    """the translated kernels of umap/sparse.py (Generated/SparseSrc.lean at Float) against the Python functions"""
    import umap.sparse as S
    import umap.utils as U
    import translate
    ok, log = build()
    if not ok:
        ctx.notes.append("srcdrv did not build (translation validation unavailable): " + log[-600:])
        ctx.proof["broken"].append("translator output does not compile at Float (srcdrv): see notes")
        return 0
    _, rep = translate.translate_module(translate.sparse_source(), translate.SPARSE_FUNCS, "umap/sparse.py", "SrcSparse", "-",
                                        extra_vars=" [IntCast α]", extra_defs=translate.SPARSE_DEFS)
    rep.pop("__meta__", None)
    cases, lines = [], []
    for fname in translate.SPARSE_FUNCS:
        if rep.get(fname) != "ok":
            continue
        if fname in ("approx_log_Gamma", "log_beta", "log_single_beta"):
            continue                                   # the same text as in distances.py, validated there
        f = getattr(U, fname) if fname == "norm" else getattr(S, fname)
        for _ in range(n_per):
            if fname == "norm":
                v = rng.integers(-16, 17, int(rng.integers(0, 6))) / 8.0
                args, toks = (v,), tok_v(v)
            elif fname in ("arr_unique", "arr_union", "arr_intersect"):
                a = np.sort(rng.choice(12, int(rng.integers(0, 7)), replace=False)).astype(np.int64)
                b = np.sort(rng.choice(12, int(rng.integers(0, 7)), replace=False)).astype(np.int64)
                if fname == "arr_unique":
                    a = rng.integers(0, 6, int(rng.integers(1, 8))).astype(np.int64)     # unsorted, with repeats
                    args, toks = (a,), tok_i(a)
                else:
                    args, toks = (a, b), tok_i(a) + tok_i(b)
            else:
                nparams = len(inspect_params(f))
                need_n = "n_features" in inspect_params(f)
                args, toks = gen_sparse_case(rng, fname, need_n)
            lines.append(" ".join([fname, str(len(args))] + toks))
            cases.append((fname, f, args))
    p = subprocess.run([SRCDRV], input=("\n".join(lines) + "\n").encode(), stdout=subprocess.PIPE, stderr=subprocess.PIPE)
    if p.returncode != 0:
        raise InfraError("srcdrv failed: " + p.stderr.decode()[-1000:])
    out = p.stdout.decode().split("\n")[:len(lines)]
    n_cmp, per = 0, {}
    for (fname, f, args), ans in zip(cases, out):
        want = py_call_sparse(f, args)
        if want == "zerodiv":
            continue
        if ans in ("bad-op", ""):
            ctx.mismatch(label, {"srcdrv": ans, "python": str(want)[:200]}, case_of(fname, args))
            continue
        got = parse_sparse_answer(ans)
        n_cmp += 1
        per[fname] = per.get(fname, 0) + 1
        bad = got[0] != want[0]
        if not bad and got[0] in ("i", "iv"):
            bad = got[1] != want[1]
        if not bad:
            gv = got[2] if got[0] == "iv" else ([got[1]] if got[0] == "s" else [])
            wv = want[2] if want[0] == "iv" else ([want[1]] if want[0] == "s" else [])
            if len(gv) != len(wv):
                bad = True
            for a, b in zip(gv, wv):
                if np.isnan(a) and np.isnan(b):
                    continue
                if np.isinf(a) or np.isinf(b):
                    bad |= not (a == b)
                elif fname in ("sparse_hellinger", "sparse_ll_dirichlet"):
                    # the Python side keeps float32 products (np.zeros(..., float32)): a 1e-7 relative rounding under the
                    # final clamped square root is amplified without bound near 0, so the radicands are compared
                    if abs(a * a - b * b) > 2e-6 * max(1.0, b * b):
                        bad = True
                elif abs(a - b) > 2e-6 * max(1.0, abs(b)):
                    bad = True
        if bad:
            ctx.mismatch(label, {"srcdrv": str(got)[:300], "python": str(want)[:300]}, case_of(fname, args))
    ctx.notes.append(f"{label}: {n_cmp} calls of {len(per)} translated kernels of umap/sparse.py compared with the Python source")
    return n_cmp


def inspect_params(f):
    import inspect
    return list(inspect.signature(getattr(f, "py_func", f)).parameters)


def case_of(fname, args):
    return {"function": fname, "args": [np.asarray(a).tolist() for a in args]}


def py_call(f, args):
    """result of the Python source: list of floats, or 'none' if it raises ValueError"""
    g = getattr(f, "py_func", f)
    args = tuple(a.copy() if isinstance(a, np.ndarray) else a for a in args)
    with np.errstate(all="ignore"):
        try:
            r = g(*args)
        except ValueError:
            return "none"
        except ZeroDivisionError:
            return "zerodiv"
    if isinstance(r, tuple):
        return [float(r[0])] + [float(v) for v in np.asarray(r[1]).ravel()]
    return [float(r)]


def validate(ctx, names, n_per, rng, label="translator-validation"):
    """compare srcdrv with the Python functions; disagreements are recorded as correspondence failures
    (`ctx.mismatch`) with the input; returns the number of compared cases"""
    import umap.distances as D
    import translate
    import inspect
    ok, log = build()
    if not ok:
        ctx.notes.append("srcdrv did not build (translation validation unavailable): " + log[-600:])
        ctx.proof["broken"].append("translator output does not compile at Float (srcdrv): see notes")
        return 0
    _, rep = translate.translate_module(inspect.getsource(D), names, "umap/distances.py", "Src", "-")
    rep.pop("__meta__", None)
    cases, lines = [], []
    for fname in names:
        if rep.get(fname) != "ok":
            continue
        f = getattr(D, fname)
        for _ in range(n_per):
            args, toks = gen_case(rng, fname)
            nargs = sum(1 for t in toks if t in ("s", "v", "m", "n"))
            # count argument markers only at argument starts: rebuild from structure instead of scanning values
            nargs = len(args)
            lines.append(" ".join([fname, str(nargs)] + toks))
            cases.append((fname, f, args))
    if not lines:
        return 0
    p = subprocess.run([SRCDRV], input=("\n".join(lines) + "\n").encode(), stdout=subprocess.PIPE, stderr=subprocess.PIPE)
    if p.returncode != 0:
        raise InfraError("srcdrv failed: " + p.stderr.decode()[-1000:])
    out = p.stdout.decode().split("\n")[:len(lines)]
    if len(out) != len(lines):
        raise InfraError("srcdrv answered a different number of lines")
    n_cmp = n_skip = 0
    per = {}
    for (fname, f, args), ans in zip(cases, out):
        want = py_call(f, args)
        if want == "zerodiv":
            n_skip += 1          # CPython raises where IEEE (numba, Lean) gives inf/nan: not comparable here
            continue
        if ans == "bad-op":
            ctx.mismatch(label, {"srcdrv": "bad-op", "python": want}, case_of(fname, args))
            continue
        got = "none" if ans == "none" else [b2f(t) for t in ans.split()]
        n_cmp += 1
        per[fname] = per.get(fname, 0) + 1
        if want == "none" or got == "none":
            if want != got:
                ctx.mismatch(label, {"srcdrv": got, "python": want}, case_of(fname, args))
            continue
        tol = 2e-6 if fname in FLOAT32_SIDE else 1e-11
        # entries the Python side leaves uninitialised (np.empty never written) cannot be compared: the kernels
        # that do this (diagonal_gaussian_energy_grad: 6 cells, 4 written) are compared on the written prefix
        m = min(len(got), len(want))
        if fname == "diagonal_gaussian_energy_grad":
            m = min(m, 5)
        bad = False
        if len(got) != len(want):
            bad = True
        for a, b in zip(got[:m], want[:m]):
            if np.isnan(a) and np.isnan(b):
                continue
            if np.isinf(a) or np.isinf(b):
                bad |= not (a == b)
                continue
            if abs(a - b) > tol * max(1.0, abs(b)):
                bad = True
        if bad:
            ctx.mismatch(label, {"srcdrv": got[:8], "python": want[:8]}, case_of(fname, args))
    ctx.notes.append(f"{label}: {n_cmp} calls of {len(per)} translated kernels compared with the Python source "
                     f"({n_skip} skipped: CPython ZeroDivisionError)")
    return n_cmp


def validate_layout(ctx, n, rng, label="translator-validation(layouts)"):
    """`clip` and `rdist` of umap/layouts.py as translated (Generated/LayoutSrc.lean at Float) against the Python source"""
    import umap.layouts as L
    ok, log = build()
    if not ok:
        ctx.notes.append("srcdrv did not build (translation validation unavailable): " + log[-600:])
        ctx.proof["broken"].append("translator output does not compile at Float (srcdrv): see notes")
        return 0
    cases, lines = [], []
    for _ in range(n):
        v = float(rng.choice([4.0, -4.0, 0.0, rng.normal() * 5]))
        cases.append(("clip", L.clip, (v,)))
        lines.append(" ".join(["clip", "1", "s", f2b(v)]))
        d = int(rng.integers(1, 5))
        x, y = rng.normal(size=d), rng.normal(size=d)
        cases.append(("rdist", L.rdist, (x, y)))
        lines.append(" ".join(["rdist", "2"] + tok_v(x) + tok_v(y)))
    p = subprocess.run([SRCDRV], input=("\n".join(lines) + "\n").encode(), stdout=subprocess.PIPE, stderr=subprocess.PIPE)
    if p.returncode != 0:
        raise InfraError("srcdrv failed: " + p.stderr.decode()[-1000:])
    out = p.stdout.decode().split("\n")[:len(lines)]
    k = 0
    for (fname, f, args), ans in zip(cases, out):
        want = py_call(f, args)
        if ans in ("bad-op", "none", ""):
            ctx.mismatch(label, {"srcdrv": ans, "python": want}, case_of(fname, args))
            continue
        got = [b2f(t) for t in ans.split()]
        k += 1
        if len(got) != 1 or abs(got[0] - want[0]) > 1e-12 * max(1.0, abs(want[0])):
            ctx.mismatch(label, {"srcdrv": got, "python": want}, case_of(fname, args))
    ctx.notes.append(f"{label}: {k} calls of clip / rdist compared with the Python source")
    return k


def validate_umap(ctx, n, rng, label="translator-validation(umap_)", only=None):
    """the translated numba kernels of umap/umap_.py (Generated/UmapSrc.lean at Float) against the Python source"""
    import umap.umap_ as U
    ok, log = build()
    if not ok:
        ctx.notes.append("srcdrv did not build (translation validation unavailable): " + log[-600:])
        ctx.proof["broken"].append("translator output does not compile at Float (srcdrv): see notes")
        return 0
    cases, lines = [], []

    def tok_m(a):
        a = np.asarray(a, dtype=np.float64)
        return ["m", str(a.shape[0]), str(a.shape[1])] + [f2b(v) for v in a.ravel()]

    def tok_im(a):
        return ["im", str(a.shape[0]), str(a.shape[1])] + [str(int(v)) for v in a.ravel()]
    for _ in range(n):
        if only in (None, "_finite_mean"):
            v = rng.normal(size=int(rng.integers(0, 8))) * 3
            if len(v) and rng.random() < 0.5:
                v[rng.integers(0, len(v))] = np.inf
            cases.append(("_finite_mean", U._finite_mean, (v,)))
            lines.append(" ".join(["_finite_mean", "1"] + tok_v(v)))
        if only in (None, "fast_intersection"):
            ns, nz = int(rng.integers(2, 7)), int(rng.integers(0, 12))
            rows, cols = rng.integers(0, ns, nz), rng.integers(0, ns, nz)
            vals = rng.random(nz)
            tgt = rng.integers(-1, 3, ns).astype(np.int64)
            ud, fd = float(rng.choice([1.0, 0.5, 2.5])), float(rng.choice([5.0, 2.5, 1e12]))
            cases.append(("fast_intersection", U.fast_intersection, (rows, cols, vals, tgt, ud, fd)))
            lines.append(" ".join(["fast_intersection", "6"] + tok_i(rows) + tok_i(cols) + tok_v(vals)
                                  + ["z", str(len(tgt))] + [str(int(t)) for t in tgt] + ["s", f2b(ud), "s", f2b(fd)]))
        if only in (None, "reprocess_row"):
            p = rng.random(int(rng.integers(1, 9)))
            if rng.random() < 0.3:
                p[0] = 1.0
            k = float(rng.choice([2.0, 5.0, 15.0]))
            it = int(rng.choice([0, 1, 5, 32]))
            cases.append(("reprocess_row", U.reprocess_row, (p, k, it)))
            lines.append(" ".join(["reprocess_row", "3"] + tok_v(p) + ["s", f2b(k), "n", str(it)]))
        if only in (None, "init_transform"):
            n_new, kk, n_old, dim = int(rng.integers(1, 4)), int(rng.integers(1, 4)), int(rng.integers(1, 5)), int(rng.integers(1, 4))
            idx = rng.integers(0, n_old, (n_new, kk))
            w = rng.random((n_new, kk))
            emb = rng.integers(-8, 9, (n_old, dim)) / 4.0
            cases.append(("init_transform", U.init_transform, (idx, w, emb)))
            lines.append(" ".join(["init_transform", "3"] + tok_im(idx) + tok_m(w) + tok_m(emb)))
        if only in (None, "compute_membership_strengths"):
            nn, kk = int(rng.integers(1, 6)), int(rng.integers(1, 5))
            idx = rng.integers(0, nn, (nn, kk)).astype(np.int32)
            idx[:, 0] = np.arange(nn)
            idx[rng.random((nn, kk)) < 0.15] = -1
            dd = np.sort(rng.integers(0, 17, (nn, kk)) / 8.0, axis=1).astype(np.float32)
            sg = (rng.integers(0, 9, nn) / 4.0).astype(np.float32)           # some sigmas exactly 0
            rh = (rng.integers(0, 9, nn) / 8.0).astype(np.float32)
            rd, bp = bool(rng.integers(0, 2)), bool(rng.integers(0, 2))
            cases.append(("compute_membership_strengths", U.compute_membership_strengths, (idx, dd, sg, rh, rd, bp)))
            lines.append(" ".join(["compute_membership_strengths", "6", "zm", str(nn), str(kk)] + [str(int(v)) for v in idx.ravel()]
                                  + tok_m(dd) + tok_v(sg) + tok_v(rh) + ["b", str(int(rd)), "b", str(int(bp))]))
        if only in (None, "init_update"):
            n_tot, kk, dim = int(rng.integers(2, 7)), int(rng.integers(1, 4)), int(rng.integers(1, 3))
            n_old = int(rng.integers(1, n_tot + 1))
            idx = rng.integers(0, n_tot, (n_tot, kk))
            cur = rng.integers(-8, 9, (n_tot, dim)) / 4.0
            cases.append(("init_update", U.init_update, (cur, n_old, idx)))
            lines.append(" ".join(["init_update", "3"] + tok_m(cur) + ["n", str(n_old)] + tok_im(idx)))
    p = subprocess.run([SRCDRV], input=("\n".join(lines) + "\n").encode(), stdout=subprocess.PIPE, stderr=subprocess.PIPE)
    if p.returncode != 0:
        raise InfraError("srcdrv failed: " + p.stderr.decode()[-1000:])
    out = p.stdout.decode().split("\n")[:len(lines)]
    k_cmp, per = 0, {}
    for (fname, f, args), ans in zip(cases, out):
        g = getattr(f, "py_func", f)
        a2 = tuple(a.copy() if isinstance(a, np.ndarray) else a for a in args)
        with np.errstate(all="ignore"):
            try:
                r = g(*a2)
            except ZeroDivisionError:
                continue
        if fname == "compute_membership_strengths":
            # rows, cols, vals (+ dists): compare the three (four) output arrays cell by cell
            ints = ans.split("ints")
            t_ = ans.split()
            try:
                k0 = [i_ for i_, x_ in enumerate(t_) if x_ in ("ints", "vals")]
                parts = [t_[a_ + 1:b_] for a_, b_ in zip(k0, k0[1:] + [len(t_)])]
                g_rows, g_cols = [int(x_) for x_ in parts[0]], [int(x_) for x_ in parts[1]]
                g_vals, g_d = [b2f(x_) for x_ in parts[2]], [b2f(x_) for x_ in parts[3]]
            except Exception:  # noqa
                ctx.mismatch(label, {"srcdrv": ans[:200]}, case_of(fname, args))
                continue
            w_rows, w_cols, w_vals, w_d = r
            okc = (g_rows == [int(v) for v in w_rows] and g_cols == [int(v) for v in w_cols]
                   and len(g_vals) == len(w_vals) and all(abs(a_ - float(b_)) <= 2e-6 for a_, b_ in zip(g_vals, w_vals))
                   and (w_d is None and g_d == [] or w_d is not None and len(g_d) == len(w_d)
                        and all(abs(a_ - float(b_)) <= 1e-7 for a_, b_ in zip(g_d, w_d))))
            k_cmp += 1
            per[fname] = per.get(fname, 0) + 1
            if not okc:
                ctx.mismatch(label, {"srcdrv": [g_rows[:6], g_cols[:6], g_vals[:6]], "python": [list(map(int, w_rows[:6])), list(map(int, w_cols[:6])), list(map(float, w_vals[:6]))]},
                             case_of(fname, args))
            continue
        if fname == "fast_intersection":
            want = [float(v) for v in a2[2]]            # in-place procedure: the mutated `values`
        elif fname == "init_update":
            want = [float(v) for v in np.asarray(a2[0]).ravel()]
        elif isinstance(r, np.ndarray):
            want = [float(v) for v in np.asarray(r).ravel()]
        else:
            want = [float(r)]
        if ans in ("bad-op", "none"):
            ctx.mismatch(label, {"srcdrv": ans, "python": want[:8]}, case_of(fname, args))
            continue
        got = [b2f(t) for t in ans.split()]
        k_cmp += 1
        per[fname] = per.get(fname, 0) + 1
        tol = 2e-6 if fname == "init_transform" else 1e-11      # init_transform accumulates in a float32 array
        bad = len(got) != len(want)
        for a, b in zip(got, want):
            if np.isnan(a) and np.isnan(b):
                continue
            if np.isinf(a) or np.isinf(b):
                bad |= not (a == b)
            elif abs(a - b) > tol * max(1.0, abs(b)):
                bad = True
        if bad:
            ctx.mismatch(label, {"srcdrv": got[:8], "python": want[:8]}, case_of(fname, args))
    ctx.notes.append(f"{label}: {k_cmp} calls of {sorted(per)} compared with the Python source")
    return k_cmp
