"""Translator validation: the Lean functions that harness/translate.py generates from umap/distances.py
(Generated/DistSrc.lean, run at Float by the compiled `srcdrv`) against the Python functions themselves
(`.py_func`: the source the translator read, executed by CPython in float64) on the same inputs.

This is what keeps the translator out of the "simply trusted" part of the trusted base: the equivalence theorems
`Src.f = Metrics.f` are about the translator's output, and this run checks that the translator's output behaves
like the source it was produced from.  Both sides perform the same float64 operations in the same order, so the
comparison is tight (1e-12 relative; 1e-6 where the Python side stores into a float32 array)."""
import os
import subprocess

import numpy as np

import metricgen as mg
from common import LEAN, InfraError, f2b, b2f

SRCDRV = os.path.join(LEAN, ".lake", "build", "bin", "srcdrv")

DOMAIN = {"standardised_euclidean": "seuclidean", "weighted_minkowski": "wminkowski", "bray_curtis": "braycurtis",
          "rogers_tanimoto": "rogerstanimoto", "sokal_michener": "sokalmichener", "sokal_sneath": "sokalsneath"}
FLOAT32_SIDE = {"minkowski_grad", "weighted_minkowski_grad", "mahalanobis", "mahalanobis_grad",
                "spherical_gaussian_energy_grad", "diagonal_gaussian_energy_grad"}


def build():
    p = subprocess.run(["lake", "build", "srcdrv"], cwd=LEAN, stdout=subprocess.PIPE, stderr=subprocess.STDOUT)
    return p.returncode == 0, p.stdout.decode()


def tok_v(v):
    return ["v", str(len(v))] + [f2b(a) for a in v]


def gen_case(rng, fname):
    """(python args tuple, driver tokens) for one call of `fname`"""
    if fname == "sign":
        a = float(rng.choice([-2.5, -0.0, 0.0, 1.0, rng.normal()]))
        return (a,), ["s", f2b(a)]
    if fname in ("approx_log_Gamma", "log_single_beta"):
        a = float(rng.choice([1.0, 2.0, 0.5, 7.0, abs(rng.normal()) * 10 + 0.1]))
        return (a,), ["s", f2b(a)]
    if fname == "log_beta":
        a = float(rng.choice([1.0, 2.0, 3.0, 4.0, 4.5, 6.0, 9.0, abs(rng.normal()) * 5 + 0.1]))
        b = float(rng.choice([1.0, 2.0, 3.0, 4.0, 4.5, 6.0, 9.0, abs(rng.normal()) * 5 + 0.1]))
        return (a, b), ["s", f2b(a), "s", f2b(b)]
    base = fname[:-5] if fname.endswith("_grad") else fname
    dom = DOMAIN.get(base, base)
    if base in ("spherical_gaussian_energy", "diagonal_gaussian_energy"):
        d = 3 if base.startswith("spherical") else 4
        x, y = rng.normal(size=d), rng.normal(size=d)
        if rng.random() < 0.2:
            x[2:] = 0.0
            y[2:] = 0.0
        return (x, y), tok_v(x) + tok_v(y)
    if base == "hyperboloid":
        d = int(rng.choice([1, 2, 3, 5]))
        x, y = rng.normal(size=d), rng.normal(size=d)
        if rng.random() < 0.2:
            y = x.copy()
        return (x, y), tok_v(x) + tok_v(y)
    x, y, _ = mg.vector_pair(rng, dom)
    args, _ = mg.params_for(rng, dom, len(x))
    toks = tok_v(x) + tok_v(y)
    for a in args:
        if np.ndim(a) == 0:
            toks += ["s", f2b(a)]
        elif np.ndim(a) == 1:
            toks += tok_v(a)
        else:
            toks += ["m", str(a.shape[0]), str(a.shape[1])] + [f2b(v) for v in np.asarray(a).ravel()]
    if base == "symmetric_kl":
        z = 1e-11
        args = (z,)
        toks += ["s", f2b(z)]
    return (x, y) + tuple(args), toks


def case_of(fname, args):
    return {"function": fname, "args": [np.asarray(a).tolist() for a in args]}


def py_call(f, args):
    """result of the Python source: list of floats, or 'none' if it raises ValueError"""
    g = getattr(f, "py_func", f)
    args = tuple(a.copy() if isinstance(a, np.ndarray) else a for a in args)
    with np.errstate(all="ignore"):
        try:
            r = g(*args)
        except ValueError:
            return "none"
        except ZeroDivisionError:
            return "zerodiv"
    if isinstance(r, tuple):
        return [float(r[0])] + [float(v) for v in np.asarray(r[1]).ravel()]
    return [float(r)]


def validate(ctx, names, n_per, rng, label="translator-validation"):
    """compare srcdrv with the Python functions; disagreements are recorded as correspondence failures
    (`ctx.mismatch`) with the input; returns the number of compared cases"""
    import umap.distances as D
    import translate
    import inspect
    ok, log = build()
    if not ok:
        ctx.notes.append("srcdrv did not build (translation validation unavailable): " + log[-600:])
        ctx.proof["broken"].append("translator output does not compile at Float (srcdrv): see notes")
        return 0
    _, rep = translate.translate_module(inspect.getsource(D), names, "umap/distances.py", "Src", "-")
    rep.pop("__meta__", None)
    cases, lines = [], []
    for fname in names:
        if rep.get(fname) != "ok":
            continue
        f = getattr(D, fname)
        for _ in range(n_per):
            args, toks = gen_case(rng, fname)
            nargs = sum(1 for t in toks if t in ("s", "v", "m", "n"))
            # count argument markers only at argument starts: rebuild from structure instead of scanning values
            nargs = len(args)
            lines.append(" ".join([fname, str(nargs)] + toks))
            cases.append((fname, f, args))
    if not lines:
        return 0
    p = subprocess.run([SRCDRV], input=("\n".join(lines) + "\n").encode(), stdout=subprocess.PIPE, stderr=subprocess.PIPE)
    if p.returncode != 0:
        raise InfraError("srcdrv failed: " + p.stderr.decode()[-1000:])
    out = p.stdout.decode().split("\n")[:len(lines)]
    if len(out) != len(lines):
        raise InfraError("srcdrv answered a different number of lines")
    n_cmp = n_skip = 0
    per = {}
    for (fname, f, args), ans in zip(cases, out):
        want = py_call(f, args)
        if want == "zerodiv":
            n_skip += 1          # CPython raises where IEEE (numba, Lean) gives inf/nan: not comparable here
            continue
        if ans == "bad-op":
            ctx.mismatch(label, {"srcdrv": "bad-op", "python": want}, case_of(fname, args))
            continue
        got = "none" if ans == "none" else [b2f(t) for t in ans.split()]
        n_cmp += 1
        per[fname] = per.get(fname, 0) + 1
        if want == "none" or got == "none":
            if want != got:
                ctx.mismatch(label, {"srcdrv": got, "python": want}, case_of(fname, args))
            continue
        tol = 2e-6 if fname in FLOAT32_SIDE else 1e-11
        # entries the Python side leaves uninitialised (np.empty never written) cannot be compared: the kernels
        # that do this (diagonal_gaussian_energy_grad: 6 cells, 4 written) are compared on the written prefix
        m = min(len(got), len(want))
        if fname == "diagonal_gaussian_energy_grad":
            m = min(m, 5)
        bad = False
        if len(got) != len(want):
            bad = True
        for a, b in zip(got[:m], want[:m]):
            if np.isnan(a) and np.isnan(b):
                continue
            if np.isinf(a) or np.isinf(b):
                bad |= not (a == b)
                continue
            if abs(a - b) > tol * max(1.0, abs(b)):
                bad = True
        if bad:
            ctx.mismatch(label, {"srcdrv": got[:8], "python": want[:8]}, case_of(fname, args))
    ctx.notes.append(f"{label}: {n_cmp} calls of {len(per)} translated kernels compared with the Python source "
                     f"({n_skip} skipped: CPython ZeroDivisionError)")
    return n_cmp
