"""Corpus of minimised witnesses of every defect found so far (KNOWN_FINDINGS.json), run first by each check.

Each witness is a small deterministic program against the real code that returns a string describing the failure
if the defect is present, else None.  `fixed` findings must not reproduce (a reproduction is reported as a violation
under the finding's key — a fixed entry suppresses nothing); `open` findings are reported under their key, which the
verdict logic turns into a KNOWN-FINDING line.
"""
import os
import warnings

import numpy as np
import scipy.sparse


def _rng(seed=0):
    return np.random.default_rng(seed)


# ---------------------------------------------------------------- C01
def c01_sigma_inf():
    import umap.umap_ as U
    d = np.sort(_rng(0).random((5, 10)).astype(np.float32), axis=1) * 1000.0
    d[:, 0] = 0
    s, _ = U.smooth_knn_dist(d, 10.0)
    if not np.all(np.isfinite(s)):
        return f"kNN distances at scale 1e3: sigma = {s.tolist()}"
    d = np.sort(_rng(0).random((3, 8)).astype(np.float32), axis=1)
    d[:, 0] = 0
    d[1, 5:] = np.inf
    s, _ = U.smooth_knn_dist(d, 8.0)
    if not np.all(np.isfinite(s)):
        return f"row with inf entries: sigma = {s.tolist()}"
    return None


# ---------------------------------------------------------------- C04 / C10 / C11
def _fit(**kw):
    import umap
    X = _rng(1).normal(size=(50, 4)).astype(np.float32)
    return umap.UMAP(n_neighbors=6, random_state=1, **kw).fit(X), X


def c04_all_far():
    m, X = _fit(n_epochs=10, disconnection_distance=3.0)
    try:
        out = m.transform((X[:3] + 1000.0).astype(np.float32))
    except Exception as e:  # noqa
        return f"transform of an all-far batch raised {type(e).__name__}"
    return None if np.isnan(out).all() else "all-far batch did not give NaN rows"


def c10_small_epochs():
    m, X = _fit(n_epochs=2)
    try:
        out = m.transform((X[:3] + 0.01).astype(np.float32))
        return None if out.shape == (3, 2) else f"shape {out.shape}"
    except Exception as e:  # noqa
        return f"transform with n_epochs=2 raised {type(e).__name__}"


def c10_stale_fingerprint():
    m, X = _fit(n_epochs=10)
    m.update((X[:8] + 0.3).astype(np.float32))
    out = m.transform(X)
    return None if out.shape[0] == 50 else f"fit(X); update(B); transform(X) returned {out.shape[0]} rows for 50"


def c10_approx_raw_order():
    import umap
    X = _rng(2).normal(size=(150, 4)).astype(np.float32)
    B = (X[30:38] + 0.02).astype(np.float32)
    m = umap.UMAP(n_neighbors=8, random_state=42, n_epochs=10, force_approximation_algorithm=True).fit(X)
    m.update(B)
    out = m.transform(np.vstack([X, B]))
    return None if out.shape == m.embedding_.shape and np.array_equal(out, m.embedding_, equal_nan=True) else \
        "NN-descent model: transform(current training data) after update is not embedding_"


def c11_threshold():
    import umap
    X = (_rng(3).random((40, 12)) < 0.3).astype(np.float32)
    X[:20, 6:] = 0
    X[20:, :6] = 0
    X[:, 0] = 1
    X[20:, 0] = 0
    X[20:, 11] = 1
    kw = dict(n_neighbors=5, metric="jaccard", random_state=1, n_epochs=0, init="random")
    # a small new group (fewer than k samples) sharing no feature with the old ones: its kNN rows must
    # reach old samples at jaccard distance exactly 1, which a fresh fit disconnects
    Z = np.vstack([X[:20], X[20:24]])
    a = umap.UMAP(**kw).fit(Z[:20])
    a.update(Z[20:])
    b = umap.UMAP(**kw).fit(Z)
    return None if abs(a.graph_ - b.graph_).max() == 0 else "update ignores the disconnection distance (jaccard): graph differs from a fresh fit"


def c11_far_batch():
    m, X = _fit(n_epochs=5)
    try:
        m.update((_rng(4).normal(size=(12, 4)) * 0.1 + 500.0).astype(np.float32))
    except Exception as e:  # noqa
        return f"update with a far batch raised {type(e).__name__}"
    return None if np.all(np.isfinite(m.embedding_)) else "update with a far batch: non-finite embedding"


def c11_nan_poison():
    m, X = _fit(n_epochs=5, disconnection_distance=1.6)
    if not np.isnan(m.embedding_).any():
        return None
    m.update((X[:5] + 0.05).astype(np.float32))
    deg = np.asarray(m.graph_.sum(axis=1)).ravel()
    bad = ~np.isfinite(m.embedding_).all(axis=1) & (deg > 0)
    return "update on a model with disconnected samples: all-NaN embedding" if bad.any() else None


def c11_truncated_k():
    import umap
    X = _rng(5).normal(size=(40, 4)).astype(np.float32)
    kw = dict(n_neighbors=15, random_state=1, n_epochs=0, init="random")
    a = umap.UMAP(**kw).fit(X[:10])
    a.update(X[10:])
    b = umap.UMAP(**kw).fit(X)
    return None if abs(a.graph_ - b.graph_).max() == 0 else "fit on 10 samples (n_neighbors=15) + update: graph differs from a fresh fit"


# ---------------------------------------------------------------- C05
def c05_constant_init():
    import umap
    X = _rng(6).normal(size=(30, 4)).astype(np.float32)
    init = _rng(7).normal(size=(30, 2)).astype(np.float32)
    init[:, 0] = 2.0
    e = umap.UMAP(n_neighbors=5, init=init, n_epochs=5, random_state=1).fit_transform(X)
    return None if np.all(np.isfinite(e)) else "ndarray init with a constant column: NaN embedding"


def c05_csr_unique():
    import umap
    X = np.zeros((20, 6), dtype=np.float32)
    r = _rng(8)
    for i in range(20):
        X[i, r.choice(6, 3, replace=False)] = r.uniform(0.5, 2, 3)
    X[5] = X[4]
    try:
        e = umap.UMAP(unique=True, n_neighbors=5, n_epochs=5, random_state=1).fit_transform(scipy.sparse.csr_matrix(X))
    except Exception as ex:  # noqa
        return f"unique=True on CSR rows of equal nnz raised {type(ex).__name__}"
    return None if e.shape == (20, 2) else f"shape {e.shape}"


def c05_all_identical():
    import umap
    X = np.tile(np.array([[1.0, 2.0, 3.0]], dtype=np.float32), (12, 1))
    e = np.asarray(umap.UMAP(unique=True, n_neighbors=5, n_epochs=5, random_state=1).fit_transform(X))
    return None if e.shape == (12, 2) and e.dtype == np.float32 else f"unique=True, identical rows: shape {e.shape} dtype {e.dtype}"


def c05_unique_init():
    import umap
    X = _rng(9).normal(size=(30, 4)).astype(np.float32)
    X[10:20] = X[:10]
    init = _rng(10).normal(size=(30, 2)).astype(np.float32)
    try:
        e = umap.UMAP(unique=True, n_neighbors=5, init=init, n_epochs=5, random_state=1).fit_transform(X)
    except Exception as ex:  # noqa
        return f"ndarray init + unique=True + duplicates raised {type(ex).__name__}"
    return None if e.shape == (30, 2) else f"shape {e.shape}"


def c05_pca_novar():
    import umap
    X = np.tile(np.array([[1.0, 2.0, 3.0, 4.0]], dtype=np.float32), (15, 1))
    e = umap.UMAP(init="pca", n_neighbors=5, n_epochs=5, random_state=1).fit_transform(X)
    return None if np.all(np.isfinite(e)) else "init='pca' on identical rows: NaN embedding"


def c05_two_distinct():
    import umap
    Xw = np.array([[0.0, 1.0], [2.0, 3.0]] * 6, dtype=np.float32)
    try:
        e = np.asarray(umap.UMAP(unique=True, n_neighbors=4, n_epochs=5, random_state=1).fit_transform(Xw))
    except Exception as ex:  # noqa
        return f"two distinct rows, unique=True: {type(ex).__name__}: {str(ex)[:80]}"
    return None if e.shape == (12, 2) and np.all(np.isfinite(e)) else f"two distinct rows, unique=True: shape {e.shape}"


# ---------------------------------------------------------------- C08 / C09
def c08_pruned():
    import umap
    X = _rng(11).normal(size=(100, 5)).astype(np.float32)
    a = umap.UMAP(n_neighbors=12, random_state=1, n_epochs=11).fit(X).graph_.tocsr()
    b = umap.UMAP(n_neighbors=12, random_state=1, n_epochs=400).fit(X).graph_.tocsr()
    if np.any(a.data == 0) or np.any(b.data == 0):
        return "graph_ holds stored zeros"
    return None if abs(a - b).max() == 0 else "graph_ differs between n_epochs 11 and 400"


def get_graph_elements_fn():
    """umap.parametric_umap cannot be imported here (no TensorFlow): extract the pure function by AST"""
    import ast
    import os
    from common import REPO
    src = open(os.path.join(REPO, "umap", "parametric_umap.py")).read()
    fn = [n for n in ast.parse(src).body if isinstance(n, ast.FunctionDef) and n.name == "get_graph_elements"][0]
    ns = {"np": np}
    exec(compile(ast.Module([fn], []), "get_graph_elements", "exec"), ns)
    return ns["get_graph_elements"]


def c08_gge():
    g = scipy.sparse.random(30, 30, 0.3, format="csr", dtype=np.float32, random_state=1)
    g.data = np.linspace(0.001, 1, g.nnz).astype(np.float32)
    before = g.copy()
    get_graph_elements_fn()(g, 50)
    return None if abs(g - before).max() == 0 and not np.any(g.data == 0) else "get_graph_elements modified the graph it was given"


def c09_sub():
    import umap
    X = _rng(12).normal(size=(60, 5)).astype(np.float32)
    A = umap.UMAP(n_neighbors=6, random_state=1, n_epochs=11).fit(X)
    B = umap.UMAP(n_neighbors=9, random_state=2, n_epochs=11).fit(X[:, ::-1].copy())
    before = A.graph_.copy()
    A - B
    return None if abs(A.graph_ - before).max() == 0 else "A - B rewrote A.graph_"


def c09_knn():
    import umap
    from sklearn.metrics import pairwise_distances
    X = _rng(13).normal(size=(40, 3)).astype(np.float32)
    D = pairwise_distances(X)
    idx = np.argsort(D, axis=1)[:, :8]
    dist = np.take_along_axis(D, idx, axis=1).astype(np.float32)
    i0, d0 = idx.copy(), dist.copy()
    umap.UMAP(n_neighbors=6, precomputed_knn=(idx, dist), disconnection_distance=float(np.quantile(dist[:, 1:], 0.5)), n_epochs=3,
              random_state=1).fit(X)
    return None if np.array_equal(idx, i0) and np.array_equal(dist, d0) else "fit wrote into the caller's precomputed_knn arrays"


def c18_empty_contrast():
    import umap
    X = _rng(17).normal(size=(40, 3)).astype(np.float32)
    A = umap.UMAP(n_neighbors=2, random_state=1, n_epochs=5).fit(X)
    B = umap.UMAP(n_neighbors=12, random_state=2, n_epochs=5, local_connectivity=5.0).fit(X)
    try:
        R = A - B
    except Exception as e:  # noqa
        return f"A - B with every edge of A at full strength in B raised {type(e).__name__}"
    return None if R.embedding_.shape == (40, 2) else f"embedding shape {R.embedding_.shape}"


# ---------------------------------------------------------------- C12 / C13 / C14
def c12_skl_mutates():
    import umap.distances as D
    x, y = np.array([1.0, 2.0, 3.0]), np.array([2.0, 2.0, 5.0])
    x0 = x.copy()
    D.symmetric_kl(x, y)
    return None if np.array_equal(x, x0) else "symmetric_kl modified its argument"


def c12_lld_self():
    import umap.distances as D
    x = np.array([6.0, 5.0, 4.0, 2.0, 2.0, 0.0])
    v = D.ll_dirichlet(x, x.copy())
    return None if v == 0.0 else f"ll_dirichlet(x, x) = {v}"


def c13_corr_mean():
    import umap.distances as D
    import umap.sparse as S
    x = np.array([1.5, 0, 4.5, 0, 0, 3.0], dtype=np.float32)
    y = np.array([1.5, 1, 0, 0, 2, 0], dtype=np.float32)
    ix, iy = np.nonzero(x)[0].astype(np.int32), np.nonzero(y)[0].astype(np.int32)
    a, b = S.sparse_correlation(ix, x[ix], iy, y[iy], 6), D.correlation(x, y)
    return None if abs(a - b) < 1e-5 else f"sparse_correlation = {a}, dense = {b} (stored value equals the row mean)"


def c13_corr_empty():
    import umap.distances as D
    import umap.sparse as S
    x, y = np.array([1.0, 1.0], dtype=np.float32), np.zeros(2, dtype=np.float32)
    ix, iy = np.nonzero(x)[0].astype(np.int32), np.nonzero(y)[0].astype(np.int32)
    a, b = S.sparse_correlation(ix, x[ix], iy, y[iy], 2), D.correlation(x, y)
    return None if a == b else f"sparse_correlation(constant, empty) = {a}, dense = {b}"


def c13_lld_empty():
    import umap.distances as D
    try:
        v = D.ll_dirichlet(np.array([2.0, 3.0, 0.0]), np.zeros(3))
    except ZeroDivisionError:
        return "dense ll_dirichlet raised ZeroDivisionError on an all-zero vector"
    return None if v == 1e8 else f"dense ll_dirichlet(x, 0) = {v}, sparse convention 1e8"


def _fd(f, x, y, args=(), h=1e-5):
    g = np.zeros(len(x))
    for i in range(len(x)):
        xp, xm = x.copy(), x.copy()
        xp[i] += h
        xm[i] -= h
        g[i] = (float(f(xp, y.copy(), *args)[0]) - float(f(xm, y.copy(), *args)[0])) / (2 * h)
    return g


def _grad_witness(name, x, y, args=()):
    import umap.distances as D
    f = D.named_distances_with_gradients[name]
    _, g = f(x.copy(), y.copy(), *args)
    g = np.asarray(g, dtype=float)[:len(x)]
    gf = _fd(f, x, y, args)
    cos = float(np.dot(g, gf) / (np.linalg.norm(g) * np.linalg.norm(gf) + 1e-300))
    ratio = float(np.linalg.norm(g) / (np.linalg.norm(gf) + 1e-300))
    if cos < 1 - 1e-3 or abs(ratio - 1) > 5e-3:
        return f"{name}_grad vs finite differences: cosine {cos:.4f}, magnitude ratio {ratio:.4f}"
    return None


_X = np.array([0.7, -1.2, 2.1, 0.4, -0.6, 1.5])
_Y = np.array([-0.3, 0.8, 1.1, -1.4, 0.9, -2.0])


def c14_minkowski():
    return _grad_witness("minkowski", _X, _Y, (3.0,))


def c14_wminkowski():
    return _grad_witness("wminkowski", _X, _Y, (np.array([0.5, 1.5, 1.0, 2.0, 0.7, 1.2]), 3.0))


def c14_cosine():
    return _grad_witness("cosine", _X, _Y)


def c14_correlation():
    return _grad_witness("correlation", _X, _Y)


def c14_hellinger():
    return _grad_witness("hellinger", np.abs(_X) + 0.1, 2 * np.abs(_Y) + 0.1)


def c14_braycurtis():
    return _grad_witness("braycurtis", _X, _Y)


def c14_hellinger_zero():
    """one-dimensional input: the Hellinger distance is identically 0 (differentiable, derivative 0)"""
    import umap.distances as D
    d, g = D.hellinger_grad(np.array([0.3]), np.array([0.7]))
    return None if (d == 0.0 and np.all(np.asarray(g) == 0.0)) else f"hellinger_grad([0.3], [0.7]) = ({d}, {np.asarray(g).tolist()})"


def c14_symmetric_kl():
    return _grad_witness("symmetric_kl", np.abs(_X) + 0.1, np.abs(_Y) + 0.1)


def c14_gaussian_energy():
    return _grad_witness("gaussian_energy", np.array([0.3, -0.5, 1.2, 0.8, 0.4]), np.array([-0.2, 0.6, 0.9, 1.4, -0.3]))


def c14_diag_det_zero():
    """both widths zero in one direction: the fall-back branch (`# TODO` upstream) returns mu_1^2 + mu_2^2 with gradient
    [0, 0, 1, 1]; the returned distance is differentiable in the two location coordinates there, with derivative 2 mu"""
    import umap.distances as D
    x, y = np.array([1.0, 2.0, 0.0, 0.0]), np.array([0.0, 1.0, 0.0, 0.0])
    d, g = D.diagonal_gaussian_energy_grad(x.copy(), y.copy())
    h = 1e-4
    fd = []
    for i in (0, 1):
        xp, xm = x.copy(), x.copy()
        xp[i] += h
        xm[i] -= h
        fd.append((D.diagonal_gaussian_energy_grad(xp, y.copy())[0] - D.diagonal_gaussian_energy_grad(xm, y.copy())[0]) / (2 * h))
    ok = abs(float(g[0]) - fd[0]) < 1e-3 and abs(float(g[1]) - fd[1]) < 1e-3
    return None if ok else f"diagonal_gaussian_energy_grad at det = 0: location gradient {np.asarray(g)[:2].tolist()}, finite differences {np.round(fd, 4).tolist()}"


def c14_diag_grad_length():
    """regular branch of diagonal_gaussian_energy_grad: the gradient has one entry per input coordinate (the pinned tree
    returned np.empty(6) with four cells written: two cells of uninitialised memory, and a length that depended on the branch)"""
    import umap.distances as D
    x, y = np.array([0.3, 0.2, 1.0, 2.0]), np.array([0.0, 0.1, 0.5, 1.0])
    _, g = D.diagonal_gaussian_energy_grad(x.copy(), y.copy())
    return None if np.asarray(g).shape == (4,) else f"diagonal_gaussian_energy_grad returns a gradient of shape {np.asarray(g).shape} for 4-vectors"


def c19_empty_relation():
    """two consecutive datasets that share no sample: the relation dictionary between them is empty (an injective partial
    relation like any other); the pinned tree raised ValueError (max of an empty sequence)"""
    from umap.aligned_umap import expand_relations
    try:
        T = expand_relations([{0: 0, 1: 1}, {}], 2)
    except Exception as e:  # noqa
        return f"expand_relations([{{0: 0, 1: 1}}, {{}}], 2) raised {type(e).__name__}: {e}"
    ok = T.shape[0] == 3 and int(T[0, 3, 0]) == 0 and int(T[0, 4, 0]) == -1 and int(T[2, 1, 0]) == -1
    return None if ok else f"expand_relations with an empty second relation: tensor {T.tolist()}"


def c10_strides():
    """single-feature training data given again with other strides: x[:, None] has strides (4, 0), x.reshape(-1, 1).copy() has
    (4, 4); both are C-contiguous and equal; the pinned fingerprint (joblib.hash of the array) included the strides"""
    import umap
    x = _rng(0).normal(size=40).astype(np.float32)
    with warnings.catch_warnings():
        warnings.simplefilter("ignore")
        m = umap.UMAP(n_neighbors=5, random_state=1, n_epochs=11).fit(x[:, None])
        out = m.transform(x.reshape(-1, 1).copy())
    return None if np.array_equal(out, m.embedding_) else "transform(training data with other strides) is not the training embedding"


def c10_graph_update():
    """update on a transform_mode='graph' model (the pinned tree read the absent embedding_: AttributeError)"""
    import umap
    X = _rng(1).normal(size=(50, 4)).astype(np.float32)
    with warnings.catch_warnings():
        warnings.simplefilter("ignore")
        m = umap.UMAP(n_neighbors=5, random_state=1, transform_mode="graph").fit(X[:40])
        try:
            m.update(X[40:])
            g = m.transform(X[:3] + 0.01)
        except Exception as e:  # noqa
            return f"update / transform on a graph-mode model raised {type(e).__name__}: {e}"
    return None if g.shape == (3, 50) else f"graph-mode transform after update has shape {g.shape}"


def c13_lld_fractional():
    """ll_dirichlet on fractional values: the dense metric counts only entries > 0.9, the sparse one every stored entry"""
    import umap.distances as D
    import umap.sparse as S
    x, y = np.array([0.5, 2.0, 0.0, 3.0]), np.array([1.0, 0.5, 2.0, 0.0])
    ix, iy = np.nonzero(x)[0].astype(np.int32), np.nonzero(y)[0].astype(np.int32)
    vs = float(S.sparse_ll_dirichlet(ix, x[ix].astype(np.float32), iy, y[iy].astype(np.float32)))
    vd = float(D.ll_dirichlet(x, y))
    return None if abs(vs - vd) <= 2e-3 else f"sparse ll_dirichlet = {vs:.4f}, dense ll_dirichlet on the same (fractional) vectors = {vd:.4f}"


def c10_csr_copy():
    import umap
    X = _rng(0).normal(size=(60, 5)).astype(np.float32)
    S = scipy.sparse.csr_matrix(np.where(np.abs(X) > 0.5, X, 0))
    with warnings.catch_warnings():
        warnings.simplefilter("ignore")
        m = umap.UMAP(n_neighbors=8, random_state=1, n_epochs=12).fit(S)
        t = m.transform(S.copy())
    return None if np.array_equal(t, m.embedding_, equal_nan=True) else "transform(copy of the CSR training data) is not embedding_"


def c10_list_epochs():
    import umap
    X = _rng(0).normal(size=(60, 5)).astype(np.float32)
    try:
        with warnings.catch_warnings():
            warnings.simplefilter("ignore")
            m = umap.UMAP(n_neighbors=8, random_state=1, n_epochs=[6, 12]).fit(X)
            out = m.transform((X[:4] + 0.01).astype(np.float32))
            inv = m.inverse_transform(m.embedding_[:3])
    except Exception as e:  # noqa
        return f"model fitted with n_epochs=[6, 12]: {type(e).__name__}: {e}"
    return None if out.shape == (4, 2) and inv.shape == (3, 5) else f"shapes {out.shape}, {inv.shape}"


def c05_densmap_isolated():
    import umap
    X = _rng(0).normal(size=(60, 5)).astype(np.float32)
    X[0] += 1000
    try:
        with warnings.catch_warnings():
            warnings.simplefilter("ignore")
            e = umap.UMAP(n_neighbors=8, random_state=1, n_epochs=12, densmap=True, disconnection_distance=50.0).fit_transform(X)
    except Exception as ex:  # noqa
        return f"densMAP with an isolated sample: {type(ex).__name__}: {ex}"
    return None if e.shape == (60, 2) and np.isfinite(e[1:]).all() else "densMAP with an isolated sample: non-finite rows of connected samples"


def c05_unique_explicit_zero():
    import umap
    X = _rng(0).normal(size=(30, 5)).astype(np.float32)
    X[np.abs(X) < 0.6] = 0
    X[10] = X[0]
    S = scipy.sparse.csr_matrix(X)
    zc = int(np.where(X[0] == 0)[0][0])
    ind, dat, ptr = [], [], [0]
    for i in range(30):
        a, b = S.indptr[i], S.indptr[i + 1]
        c, v = S.indices[a:b].tolist(), S.data[a:b].tolist()
        if i == 10:
            c.append(zc)
            v.append(0.0)
        ind += c
        dat += v
        ptr.append(len(ind))
    S2 = scipy.sparse.csr_matrix((np.array(dat, dtype=np.float32), np.array(ind), np.array(ptr)), shape=S.shape)
    with warnings.catch_warnings():
        warnings.simplefilter("ignore")
        e = umap.UMAP(n_neighbors=5, unique=True, random_state=1, n_epochs=8).fit_transform(S2)
    return None if np.array_equal(e[0], e[10], equal_nan=True) else "unique=True: identical CSR rows (one with an explicitly stored zero) get different embedding rows"


def c04_metric_supervision_far_edges():
    """a continuous target: the target's neighbour graph joins samples of both clusters; the general fuzzy intersection works on the
    union of the two supports (absent entries count as half the smallest stored value) and the renormalisation lifts them to 1"""
    import umap
    r = _rng(0)
    X = np.vstack([r.normal(size=(30, 3)), r.normal(size=(30, 3)) + 20]).astype(np.float32)
    y = r.normal(size=60)
    with warnings.catch_warnings():
        warnings.simplefilter("ignore")
        g = umap.UMAP(n_neighbors=6, disconnection_distance=10.0, target_metric="l2", random_state=1, n_epochs=0).fit(X, y).graph_.tocoo()
    far = sum(1 for i, j in zip(g.row, g.col) if np.linalg.norm(X[i] - X[j]) >= 10.0)
    return None if far == 0 else f"supervised fit with a continuous target: {far} edges join samples at distance >= disconnection_distance"


def c14_correlation_orthogonal():
    return _grad_witness("correlation", np.array([1.0, -1.0, 0.0, 0.0]), np.array([0.0, 0.0, 1.0, -1.0]))


def c14_hellinger_zero_entry():
    import umap.distances as D
    d, g = D.hellinger_grad(np.array([0.3, 0.2, 0.5]), np.array([0.6, 0.0, 0.4]))
    if not np.all(np.isfinite(g)):
        return f"hellinger_grad with y = [0.6, 0, 0.4]: gradient {np.asarray(g).tolist()}"
    return _grad_witness("hellinger", np.array([0.3, 0.2, 0.5]), np.array([0.6, 0.0, 0.4]))


def c12_hellinger_proportional():
    import umap.distances as D
    x = np.array([0.91275558, 0.60663578, 0.72949656, 0.54362499, 0.93507242])
    r = _rng(0)
    bad = [float(v) for v in (D.hellinger(x, 3 * x),) + tuple(D.hellinger(z, 3 * z) for z in r.random((200, 5))) if not (abs(v) < 1e-6)]
    return None if not bad else f"hellinger(x, 3x) = {bad[0]} for {len(bad)} of 201 proportional pairs (definition: 0)"


def c20_sticky_force_flag():
    import umap
    r = _rng(0)
    X = r.normal(size=(120, 30)).astype(np.float32)
    from sklearn.metrics import pairwise_distances
    Dm = pairwise_distances(X)
    idx = np.argsort(Dm, axis=1)[:, :8]
    dist = np.take_along_axis(Dm, idx, axis=1).astype(np.float32)
    kw = dict(n_neighbors=8, random_state=1, n_epochs=0, init="random")
    with warnings.catch_warnings():
        warnings.simplefilter("ignore")
        est = umap.UMAP(precomputed_knn=(idx, dist), **kw)
        est.fit(X)
        g = est.fit(X[:-5]).graph_
        ref = umap.UMAP(**kw).fit(X[:-5]).graph_
    return None if (g != ref).nnz == 0 else "estimator refitted with an ignored precomputed_knn differs from an ordinary fit (force_approximation_algorithm stuck at True)"


def c19_tensor_width():
    """datasets with more samples than the largest index named in a relation, under numba bounds checking (child process)"""
    import subprocess
    import sys
    from common import REPO
    code = ("import sys, warnings\n"
            f"sys.path.insert(0, {REPO!r})\n"
            "warnings.filterwarnings('ignore')\n"
            "import numpy as np\n"
            "from umap import AlignedUMAP\n"
            "r = np.random.RandomState(0)\n"
            "Xs = [r.normal(size=(40, 4)).astype(np.float32) for _ in range(3)]\n"
            "m = AlignedUMAP(n_neighbors=5, n_epochs=10, random_state=1).fit(Xs, relations=[{i: i for i in range(10)}] * 2)\n"
            "print('SHAPES', [e.shape for e in m.embeddings_])\n")
    env = dict(os.environ, NUMBA_BOUNDSCHECK="1", NUMBA_CACHE_DIR=os.path.join(os.environ.get("NUMBA_CACHE_DIR", "/tmp"), "boundscheck"))
    pr = subprocess.run([sys.executable, "-W", "ignore", "-c", code], stdout=subprocess.PIPE, stderr=subprocess.PIPE, env=env, timeout=900)
    out = pr.stdout.decode()
    if pr.returncode == 0 and "SHAPES [(40, 2), (40, 2), (40, 2)]" in out:
        return None
    tail = pr.stderr.decode().strip().splitlines()[-1:] or [""]
    return f"AlignedUMAP on 40-sample datasets related through samples 0..9 only, with bounds checking: exit {pr.returncode}, {tail[0][:120]}"


def c19_aligned_unique():
    from umap import AlignedUMAP
    r = _rng(0)
    Xs = [r.normal(size=(30, 4)).astype(np.float32) for _ in range(2)]
    Xs[0][5] = Xs[0][3]
    Xs[0][9] = Xs[0][7]
    try:
        with warnings.catch_warnings():
            warnings.simplefilter("ignore")
            m = AlignedUMAP(n_neighbors=5, n_epochs=5, random_state=1, unique=True).fit(Xs, relations=[{i: i for i in range(30)}])
        shapes = [tuple(e.shape) for e in m.embeddings_]
    except Exception as e:  # noqa
        return f"AlignedUMAP(unique=True) with repeated rows raised {type(e).__name__}: {str(e)[:80]}"
    return None if shapes == [(30, 2), (30, 2)] else f"AlignedUMAP(unique=True), 30-row dataset with 2 repeated rows: embeddings of shapes {shapes}"


def c13_cosine_empty_rows():
    """several all-zero rows under cosine: umap's cosine (dense and sparse kernels) gives two zero vectors the distance 0, scikit-learn's
    sparse cosine_distances — used for CSR input below 4096 samples — gives 1"""
    import umap
    r = _rng(0)
    X = r.normal(size=(40, 6)).astype(np.float32)
    X[np.abs(X) < 0.7] = 0
    X[3] = 0
    X[11] = 0
    X[25] = 0
    kw = dict(metric="cosine", n_neighbors=5, random_state=1, n_epochs=0, init="random")
    with warnings.catch_warnings():
        warnings.simplefilter("ignore")
        a = umap.UMAP(**kw).fit(X).graph_
        b = umap.UMAP(**kw).fit(scipy.sparse.csr_matrix(X)).graph_
    d = float(abs(a - b).max())
    return None if d < 1e-5 else f"cosine with three all-zero rows: graph of fit(CSR) differs from graph of fit(dense) by {d}"


def c05_verbose_short_run():
    import contextlib
    import io
    import umap
    X = _rng(0).normal(size=(40, 4)).astype(np.float32)
    try:
        with warnings.catch_warnings(), contextlib.redirect_stdout(io.StringIO()), contextlib.redirect_stderr(io.StringIO()):
            warnings.simplefilter("ignore")
            e = umap.UMAP(n_neighbors=6, n_epochs=5, verbose=True, random_state=1).fit_transform(X)
    except Exception as ex:  # noqa
        return f"UMAP(n_epochs=5, verbose=True).fit_transform raised {type(ex).__name__}: {ex}"
    return None if e.shape == (40, 2) and np.isfinite(e).all() else f"shape {e.shape}"


def c05_sparse_precomputed_tiny():
    import umap
    from sklearn.metrics import pairwise_distances
    X = _rng(0).random((8, 6))
    D = scipy.sparse.csr_matrix(pairwise_distances(X))
    try:
        with warnings.catch_warnings():
            warnings.simplefilter("ignore")
            e = umap.UMAP(metric="precomputed", random_state=1, n_epochs=5).fit_transform(D)
    except Exception as ex:  # noqa
        return f"sparse precomputed distances of 8 samples (n_neighbors=15): {type(ex).__name__}: {str(ex)[:90]}"
    return None if e.shape == (8, 2) and np.isfinite(e).all() else f"shape {e.shape}"


def c10_epochs_tuple():
    import umap
    X = _rng(0).normal(size=(60, 5)).astype(np.float32)
    try:
        with warnings.catch_warnings():
            warnings.simplefilter("ignore")
            for ne in ((6, 12), np.array([6, 12])):
                m = umap.UMAP(n_neighbors=8, random_state=1, n_epochs=ne).fit(X[:50])
                a = m.transform(X[50:55])
                b = m.inverse_transform(m.embedding_[:3])
                m.update(X[50:])
                if a.shape != (5, 2) or b.shape != (3, 5) or m.embedding_.shape != (60, 2):
                    return f"n_epochs={ne!r}: shapes {a.shape}, {b.shape}, {m.embedding_.shape}"
    except Exception as e:  # noqa
        return f"model fitted with n_epochs given as a tuple / array: {type(e).__name__}: {str(e)[:90]}"
    return None


def c10_sparse_update_formats():
    import umap
    r = _rng(0)
    X = r.normal(size=(70, 5)).astype(np.float32)
    X[np.abs(X) < 0.5] = 0
    S = scipy.sparse.csr_matrix(X)
    try:
        with warnings.catch_warnings():
            warnings.simplefilter("ignore")
            m = umap.UMAP(n_neighbors=8, random_state=1, n_epochs=6).fit(S[:60])
            m.update(X[60:])                      # a dense batch on a sparse model
            S64 = S.copy()
            S64.indices = S64.indices.astype(np.int64)
            S64.indptr = S64.indptr.astype(np.int64)
            same = np.array_equal(m.transform(S64), m.embedding_, equal_nan=True)
            m.update(S[:3])
    except Exception as e:  # noqa
        return f"sparse model updated with a dense batch: {type(e).__name__}: {str(e)[:90]}"
    return None if same else "transform(stacked training data with int64 index arrays) is not embedding_"


def c11_densmap_update():
    import umap
    X = _rng(0).normal(size=(90, 5)).astype(np.float32)
    try:
        with warnings.catch_warnings():
            warnings.simplefilter("ignore")
            for kw in (dict(densmap=True), dict(output_dens=True)):
                m = umap.UMAP(random_state=1, n_epochs=12, **kw).fit(X[:60])
                m.update(X[60:])
                f = umap.UMAP(random_state=1, n_epochs=12, **kw).fit(X)
                if m.embedding_.shape != (90, 2) or not np.isfinite(m.embedding_).all() or (m.graph_ != f.graph_).nnz:
                    return f"update with {kw}: embedding {m.embedding_.shape}, graph differs from the fresh fit's in {(m.graph_ != f.graph_).nnz} entries"
    except Exception as e:  # noqa
        return f"update of a densMAP / output_dens model: {type(e).__name__}: {str(e)[:90]}"
    return None


def c17_rad_emb_truncated_k():
    import umap
    X = _rng(0).normal(size=(10, 5)).astype(np.float32)
    with warnings.catch_warnings():
        warnings.simplefilter("ignore")
        r0 = umap.UMAP(random_state=1, n_epochs=12, output_dens=True).fit_transform(X)
        r1 = umap.UMAP(random_state=1, n_epochs=12, output_dens=True, densmap=True, dens_lambda=0.0).fit_transform(X)
    if not np.array_equal(r0[0], r1[0]):
        return "densMAP at zero weight differs from UMAP on 10 samples"
    d = float(np.max(np.abs(r0[2] - r1[2])))
    return None if d < 1e-6 else f"10 samples (fewer than n_neighbors): embedded radii with and without densmap=True (same embedding) differ by {d}"


def c17_short_run():
    """n_epochs <= 10 on a graph with edges between max/700 and max/500"""
    import umap
    X = _rng(0).normal(size=(300, 6)).astype(np.float32)
    kw = dict(n_neighbors=30, random_state=3, n_epochs=5, set_op_mix_ratio=0.2)
    with warnings.catch_warnings():
        warnings.simplefilter("ignore")
        a = umap.UMAP(**kw).fit_transform(X)
        b = umap.UMAP(densmap=True, dens_lambda=0.0, **kw).fit_transform(X)
    return None if np.array_equal(a, b, equal_nan=True) else f"densMAP (dens_lambda=0, n_epochs=5) differs from UMAP by {float(np.nanmax(np.abs(a - b)))}"


def c03_pynn_sparse_small():
    """a metric only pynndescent registers (accepted for sparse input) on a small CSR matrix"""
    import umap
    X = np.abs(_rng(5).normal(size=(30, 5))).astype(np.float32)
    try:
        with warnings.catch_warnings():
            warnings.simplefilter("ignore")
            a = umap.UMAP(metric="sqeuclidean", n_neighbors=5, n_epochs=0, init="random", random_state=1).fit(scipy.sparse.csr_matrix(X)).graph_
            b = umap.UMAP(metric="sqeuclidean", n_neighbors=5, n_epochs=0, init="random", random_state=1).fit(X).graph_
    except Exception as e:  # noqa
        return f"fit(CSR, metric='sqeuclidean') raised {type(e).__name__}: {e}"
    return None if abs(a - b).max() < 1e-5 else "fit(CSR, metric='sqeuclidean') differs from the dense fit"


# ---------------------------------------------------------------- C15 / C17 / C19 / C20
def c15_symmetric_path():
    """a path with equal weights: the start vector of the eigen-solver (all ones) is invariant under the reflection of the path, the
    Krylov space never leaves the symmetric subspace, and the (antisymmetric) Fiedler vector is never found"""
    import umap.spectral as S
    n = 20
    A = np.zeros((n, n))
    for i in range(n - 1):
        A[i, i + 1] = A[i + 1, i] = 1.0
    with warnings.catch_warnings():
        warnings.simplefilter("ignore")
        E = np.asarray(S.spectral_layout(np.zeros((n, 2)), scipy.sparse.csr_matrix(A), 2, np.random.RandomState(0)))
    sd = np.sqrt(A.sum(0))
    L = np.eye(n) - A / sd[:, None] / sd[None, :]
    vals = np.linalg.eigvalsh(L)
    v = E[:, 0] / np.linalg.norm(E[:, 0])
    lam = float(v @ L @ v)
    return None if abs(lam - vals[1]) < 2e-3 else f"equal-weight path on 20 vertices: column 0 has eigenvalue {lam:.4f}, the smallest non-trivial one is {vals[1]:.4f}"


def c15_trivial_missing():
    import umap.spectral as S
    r = _rng(14)
    bad = 0
    for t in range(6):
        n = 12
        A = np.triu((r.random((n, n)) < 0.4) * r.uniform(0.05, 1.0, (n, n)), 1)
        for i in range(n - 1):
            A[i, i + 1] = r.uniform(0.2, 1.0)
        A = A + A.T
        G = scipy.sparse.csr_matrix(A)
        with warnings.catch_warnings():
            warnings.simplefilter("ignore")
            E = np.asarray(S.spectral_layout(np.zeros((n, 2)), G, 2, np.random.RandomState(t)))
        sd = np.sqrt(A.sum(0))
        L = np.eye(n) - (A / sd[:, None]) / sd[None, :]
        vals = np.linalg.eigvalsh(L)
        if np.min(np.diff(vals[:4])) < 1e-3:
            continue
        v = E[:, 0] / np.linalg.norm(E[:, 0])
        if abs(float(v @ L @ v) - vals[1]) > 5e-3:
            bad += 1
    return f"spectral layout's first column is not the Fiedler vector on {bad} of 6 small connected graphs" if bad else None


def c17_rad_emb():
    import umap
    import umap.umap_ as U
    X = _rng(15).normal(size=(80, 4)).astype(np.float32)
    m = umap.UMAP(n_neighbors=8, random_state=1, n_epochs=30, output_dens=True)
    emb, ro, re = m.fit_transform(X)
    rs = np.random.RandomState(0)
    ki, kd, _ = U.nearest_neighbors(emb, 8, "euclidean", {}, False, rs)
    eg, _, _, ed = U.fuzzy_simplicial_set(emb, 8, rs, "euclidean", {}, ki, kd, return_dists=True)
    g = eg.tocoo()
    num, den = np.zeros(80), np.zeros(80)
    for j, k, mu in zip(g.row, g.col, g.data):
        num[j] += mu * float(ed[j, k]) ** 2
        den[j] += mu
    ref = np.log(1e-8 + num / den)
    return None if np.max(np.abs(ref - re)) < 5e-2 else "rad_emb is not the log weighted mean *squared* embedding distance"


def c19_last_dataset():
    from umap.aligned_umap import expand_relations
    T = expand_relations([{0: 1, 1: 0}], 1)
    return None if T[0, 2].tolist() == [1, 0] else f"forward relation into the last dataset dropped: {T[0, 2].tolist()}"


def c20_prune():
    import umap
    from sklearn.metrics import pairwise_distances
    X = _rng(16).normal(size=(80, 3)).astype(np.float32)
    D = pairwise_distances(X)
    idx = np.argsort(D, axis=1)[:, :10]
    dist = np.take_along_axis(D, idx, axis=1).astype(np.float32)
    kw = dict(n_neighbors=5, random_state=1, n_epochs=0, init="random")
    a = umap.UMAP(precomputed_knn=(idx, dist), **kw).fit(X).graph_
    b = umap.UMAP(precomputed_knn=(idx[:, :5].copy(), dist[:, :5].copy()), **kw).fit(X).graph_
    return None if abs(a - b).max() == 0 else "extra precomputed_knn columns are not pruned (n < 4096, no force flag)"


WITNESSES = {
    "C01:sigma-inf-large-scale": c01_sigma_inf,
    "C04:transform-all-far-raises": c04_all_far,
    "C05:init-constant-column": c05_constant_init,
    "C05:csr-unique-equal-nnz": c05_csr_unique,
    "C05:unique-all-identical-single-row": c05_all_identical,
    "C05:unique-with-init-array": c05_unique_init,
    "C05:pca-no-variance-nan": c05_pca_novar,
    "C05:unique-too-few-distinct-rows": c05_two_distinct,
    "C08:graph-pruned-by-layout": c08_pruned,
    "C08:get-graph-elements-prunes-graph": c08_gge,
    "C09:sub-mutates-left-operand": c09_sub,
    "C09:fit-writes-precomputed-knn": c09_knn,
    "C10:transform-small-n-epochs": c10_small_epochs,
    "C10:update-stale-fingerprint": c10_stale_fingerprint,
    "C10:approx-update-raw-data-order": c10_approx_raw_order,
    "C11:update-ignores-disconnection": c11_threshold,
    "C11:update-far-batch-zerodivision": c11_far_batch,
    "C11:update-nan-poisoning": c11_nan_poison,
    "C11:update-truncated-n-neighbors": c11_truncated_k,
    "C12:symmetric_kl-mutates": c12_skl_mutates,
    "C12:ll_dirichlet-self-nan": c12_lld_self,
    "C13:sparse-correlation-zero-product": c13_corr_mean,
    "C13:sparse-correlation-empty-vs-constant": c13_corr_empty,
    "C13:ll_dirichlet-empty-rows": c13_lld_empty,
    "C14:minkowski_grad": c14_minkowski,
    "C14:weighted_minkowski_grad": c14_wminkowski,
    "C14:cosine_grad": c14_cosine,
    "C14:correlation_grad": c14_correlation,
    "C14:hellinger_grad": c14_hellinger,
    "C14:hellinger_grad-zero-distance": c14_hellinger_zero,
    "C14:diagonal_gaussian_energy_grad-det-zero": c14_diag_det_zero,
    "C14:diagonal_gaussian_energy_grad-shape": c14_diag_grad_length,
    "C03:pynn-only-metric-sparse-small-data": c03_pynn_sparse_small,
    "C17:short-run-pruning-depends-on-densmap": c17_short_run,
    "C14:correlation_grad-zero-centred-dot": c14_correlation_orthogonal,
    "C14:hellinger_grad-zero-entry": c14_hellinger_zero_entry,
    "C12:hellinger-proportional-nan": c12_hellinger_proportional,
    "C20:force-flag-sticks-to-estimator": c20_sticky_force_flag,
    "C19:relation-tensor-narrower-than-datasets": c19_tensor_width,
    "C19:aligned-unique-wrong-shape": c19_aligned_unique,
    "C13:cosine-empty-rows-sklearn-convention": c13_cosine_empty_rows,
    "C05:verbose-short-run-zerodivision": c05_verbose_short_run,
    "C05:sparse-precomputed-fewer-samples-than-neighbours": c05_sparse_precomputed_tiny,
    "C10:n_epochs-tuple-or-array": c10_epochs_tuple,
    "C10:sparse-update-format-and-index-dtype": c10_sparse_update_formats,
    "C11:densmap-update-stale-distances": c11_densmap_update,
    "C17:rad_emb-untruncated-n_neighbors": c17_rad_emb_truncated_k,
    "C15:symmetric-graph-start-vector": c15_symmetric_path,
    "C10:sparse-training-data-not-recognised": c10_csr_copy,
    "C10:list-n_epochs-transform-typeerror": c10_list_epochs,
    "C13:ll_dirichlet-fractional-values": c13_lld_fractional,
    "C10:fingerprint-memory-layout": c10_strides,
    "C10:graph-mode-update": c10_graph_update,
    "C05:densmap-isolated-sample": c05_densmap_isolated,
    "C04:metric-supervision-adds-far-edges": c04_metric_supervision_far_edges,
    "C05:unique-explicit-zero": c05_unique_explicit_zero,
    "C14:bray_curtis_grad": c14_braycurtis,
    "C14:symmetric_kl_grad": c14_symmetric_kl,
    "C14:gaussian_energy_grad": c14_gaussian_energy,
    "C15:solver-misses-trivial-eigenpair": c15_trivial_missing,
    "C17:rad-emb-unsquared": c17_rad_emb,
    "C18:empty-combined-graph": c18_empty_contrast,
    "C19:forward-into-last-dataset": c19_last_dataset,
    "C19:empty-relation-dict": c19_empty_relation,
    "C20:extra-columns-not-pruned": c20_prune,
}


def run(ctx):
    """run the witnesses of this property's findings first"""
    from common import load_known_findings
    warnings.filterwarnings("ignore")
    n = 0
    for f in load_known_findings():
        if f.get("property") != ctx.prop:
            continue
        w = WITNESSES.get(f["key"])
        if w is None:
            continue
        n += 1
        try:
            res = w()
        except Exception as e:  # noqa
            res = f"witness raised {type(e).__name__}: {str(e)[:100]}"
        if res is not None:
            ctx.violation("corpus", f"{f['key']} ({f['status']}): {res}", {"finding": f["key"]}, key=f["key"])
        ctx.case(key="corpus:" + f["key"], nontrivial=False, part="corpus")
    ctx.notes.append(f"corpus: {n} witnesses of recorded findings replayed first")
