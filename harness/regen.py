"""Regenerate lean/Generated/*.lean from the live /repo package (import, not text matching).

Tables and constants the theorems depend on: tolerances, disconnection distances, metric registries
(name -> __name__ of the target function), defaults.  Files are rewritten only when their content changes,
so that `lake build` is a no-op on an unchanged tree.
"""
import inspect
import os
from fractions import Fraction

from common import LEAN


def rat(x):
    f = Fraction(float(x))
    return f"(({f.numerator} : Rat) / {f.denominator})"


def lstr(s):
    return '"' + str(s).replace('"', '\\"') + '"'


def write_if_changed(path, content):
    old = open(path).read() if os.path.exists(path) else None
    if old != content:
        with open(path, "w") as f:
            f.write(content)
        return True
    return False


def fname(f):
    return getattr(f, "__name__", None) or getattr(getattr(f, "py_func", None), "__name__", "?")


def regen(ctx=None):
    import numpy as np
    import umap.umap_ as U
    import umap.distances as D
    import umap.sparse as S

    out = []
    out.append("/- GENERATED from the live /repo package by harness/regen.py — do not edit. -/")
    out.append("namespace Umap.Generated\n")
    out.append(f"def smoothKTolerance : Rat := {rat(U.SMOOTH_K_TOLERANCE)}")
    out.append(f"def minKDistScale : Rat := {rat(U.MIN_K_DIST_SCALE)}")
    sig = inspect.signature(U.smooth_knn_dist.py_func)
    out.append(f"def smoothKnnNIter : Nat := {int(sig.parameters['n_iter'].default)}")
    sig = inspect.signature(U.reprocess_row.py_func)
    out.append(f"def reprocessNIters : Nat := {int(sig.parameters['n_iters'].default)}")
    out.append(f"def reprocessK : Nat := {int(sig.parameters['k'].default)}")
    out.append(f"def int32Min : Int := {int(U.INT32_MIN)}")
    out.append(f"def int32Max : Int := {int(U.INT32_MAX)}")
    dd = sorted(U.DISCONNECTION_DISTANCES.items())
    out.append("def disconnectionDistances : List (String × Rat) := [" +
               ", ".join(f"({lstr(k)}, {rat(v)})" for k, v in dd) + "]")
    out.append("\nend Umap.Generated")
    c1 = write_if_changed(os.path.join(LEAN, "Generated", "Constants.lean"), "\n".join(out) + "\n")

    out = []
    out.append("/- GENERATED from the live /repo package by harness/regen.py — do not edit. -/")
    out.append("namespace Umap.Generated\n")

    def table(name, d):
        items = sorted((k, fname(v)) for k, v in d.items())
        out.append(f"def {name} : List (String × String) := [" +
                   ",\n  ".join(f"({lstr(k)}, {lstr(v)})" for k, v in items) + "]\n")

    table("namedDistances", D.named_distances)
    table("namedDistancesWithGradients", D.named_distances_with_gradients)
    table("sparseNamedDistances", S.sparse_named_distances)
    out.append("def sparseNeedNFeatures : List String := [" +
               ", ".join(lstr(x) for x in sorted(S.sparse_need_n_features)) + "]")
    out.append("def discreteMetrics : List String := [" +
               ", ".join(lstr(x) for x in sorted(D.DISCRETE_METRICS)) + "]")
    out.append("\nend Umap.Generated")
    c2 = write_if_changed(os.path.join(LEAN, "Generated", "Registry.lean"), "\n".join(out) + "\n")
    write_if_changed(os.path.join(LEAN, "Generated.lean"),
                     "-- root of the Generated library (rewritten from the live /repo by harness/regen.py)\n"
                     "import Generated.Constants\nimport Generated.Registry\n")
    if ctx is not None:
        ctx.notes.append(f"regen: Constants changed={c1}, Registry changed={c2}")
    return c1 or c2


if __name__ == "__main__":
    import sys
    sys.path.insert(0, os.path.dirname(os.path.abspath(__file__)))
    print(regen())
