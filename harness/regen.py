"""Regenerate lean/Generated/*.lean from the live /repo package (import, not text matching).

Tables and constants the theorems depend on: tolerances, disconnection distances, metric registries
(name -> __name__ of the target function), defaults.  Files are rewritten only when their content changes,
so that `lake build` is a no-op on an unchanged tree.
"""
import inspect
import os
from fractions import Fraction

from common import LEAN


def rat(x):
    f = Fraction(float(x))
    return f"(({f.numerator} : Rat) / {f.denominator})"


def lstr(s):
    return '"' + str(s).replace('"', '\\"') + '"'


def write_if_changed(path, content):
    old = open(path).read() if os.path.exists(path) else None
    if old != content:
        with open(path, "w") as f:
            f.write(content)
        return True
    return False


def fname(f):
    return getattr(f, "__name__", None) or getattr(getattr(f, "py_func", None), "__name__", "?")


def regen(ctx=None, parts=("constants", "registry", "knn", "seeded", "distsrc", "sparsesrc", "layoutsrc", "umapsrc", "utilssrc")):
    """rewrite the requested Generated files from the live package; returns True if anything changed"""
    changed = []
    if "constants" in parts:
        changed.append(("Constants", regen_constants()))
    if "registry" in parts:
        changed.append(("Registry", regen_registry()))
    if "knn" in parts:
        changed.append(("KnnDecision", regen_knn_decision()))
    if "seeded" in parts:
        changed.append(("Seeded", regen_seeded()))
    if "distsrc" in parts:
        import translate
        ch, rep = translate.regen_dist_src(LEAN, write_if_changed)
        changed.append(("DistSrc", ch))
        bad = {k: v for k, v in rep.items() if v != "ok"}
        if ctx is not None:
            ctx.notes.append(f"translate: {len(rep) - len(bad)} of {len(rep)} kernels of umap/distances.py translated"
                             + ("; NOT translated: " + "; ".join(f"{k} ({v})" for k, v in bad.items()) if bad else ""))
    if "layoutsrc" in parts:
        import translate
        ch, rep = translate.regen_layout_src(LEAN, write_if_changed)
        changed.append(("LayoutSrc", ch))
        bad = {k: v for k, v in rep.items() if v != "ok"}
        if ctx is not None:
            ctx.notes.append(f"translate: {len(rep) - len(bad)} of {len(rep)} scalar kernels of umap/layouts.py translated"
                             + ("; NOT translated: " + "; ".join(f"{k} ({v})" for k, v in bad.items()) if bad else ""))
    if "utilssrc" in parts:
        import translate
        ch, rep = translate.regen_utils_src(LEAN, write_if_changed)
        changed.append(("UtilsSrc", ch))
        bad = {k: v for k, v in rep.items() if v != "ok"}
        if ctx is not None:
            ctx.notes.append(f"translate: {len(rep) - len(bad)} of {len(rep)} kernels of umap/utils.py translated (tau_rand_int)"
                             + ("; NOT translated: " + "; ".join(f"{k} ({v})" for k, v in bad.items()) if bad else ""))
    if "umapsrc" in parts:
        import translate
        ch, rep = translate.regen_umap_src(LEAN, write_if_changed)
        changed.append(("UmapSrc", ch))
        bad = {k: v for k, v in rep.items() if v != "ok"}
        if ctx is not None:
            ctx.notes.append(f"translate: {len(rep) - len(bad)} of {len(rep)} numba kernels of umap/umap_.py translated"
                             + ("; NOT translated: " + "; ".join(f"{k} ({v})" for k, v in bad.items()) if bad else ""))
    if "sparsesrc" in parts:
        import translate
        ch, rep = translate.regen_sparse_src(LEAN, write_if_changed)
        changed.append(("SparseSrc", ch))
        bad = {k: v for k, v in rep.items() if v != "ok"}
        if ctx is not None:
            ctx.notes.append(f"translate: {len(rep) - len(bad)} of {len(rep)} kernels of umap/sparse.py translated"
                             + ("; NOT translated: " + "; ".join(f"{k} ({v})" for k, v in bad.items()) if bad else ""))
    write_if_changed(os.path.join(LEAN, "Generated.lean"),
                     "-- root of the Generated library (rewritten from the live /repo by harness/regen.py)\n"
                     "import Generated.Constants\nimport Generated.Registry\nimport Generated.KnnDecision\nimport Generated.Seeded\nimport Generated.DistSrc\nimport Generated.RunCommon\nimport Generated.DistSrcRun\nimport Generated.SparseSrc\nimport Generated.SparseSrcRun\nimport Generated.LayoutSrc\nimport Generated.LayoutSrcRun\nimport Generated.UmapSrc\nimport Generated.UmapSrcRun\nimport Generated.UtilsSrc\n")
    if ctx is not None:
        ctx.notes.append("regen: " + ", ".join(f"{n} changed={c}" for n, c in changed))
    return any(c for _, c in changed)


def regen_constants():
    import umap.umap_ as U
    out = []
    out.append("/- GENERATED from the live /repo package by harness/regen.py — do not edit. -/")
    out.append("namespace Umap.Generated\n")
    out.append(f"def smoothKTolerance : Rat := {rat(U.SMOOTH_K_TOLERANCE)}")
    out.append(f"def minKDistScale : Rat := {rat(U.MIN_K_DIST_SCALE)}")
    sig = inspect.signature(U.smooth_knn_dist.py_func)
    out.append(f"def smoothKnnNIter : Nat := {int(sig.parameters['n_iter'].default)}")
    sig = inspect.signature(U.reprocess_row.py_func)
    out.append(f"def reprocessNIters : Nat := {int(sig.parameters['n_iters'].default)}")
    out.append(f"def reprocessK : Nat := {int(sig.parameters['k'].default)}")
    out.append(f"def int32Min : Int := {int(U.INT32_MIN)}")
    out.append(f"def int32Max : Int := {int(U.INT32_MAX)}")
    dd = sorted(U.DISCONNECTION_DISTANCES.items())
    out.append("def disconnectionDistances : List (String × Rat) := [" +
               ", ".join(f"({lstr(k)}, {rat(v)})" for k, v in dd) + "]")
    out.append("\nend Umap.Generated")
    return write_if_changed(os.path.join(LEAN, "Generated", "Constants.lean"), "\n".join(out) + "\n")


def regen_registry():
    import umap.distances as D
    import umap.sparse as S
    out = []
    out.append("/- GENERATED from the live /repo package by harness/regen.py — do not edit. -/")
    out.append("namespace Umap.Generated\n")

    def table(name, d):
        items = sorted((k, fname(v)) for k, v in d.items())
        out.append(f"def {name} : List (String × String) := [" +
                   ",\n  ".join(f"({lstr(k)}, {lstr(v)})" for k, v in items) + "]\n")

    table("namedDistances", D.named_distances)
    table("namedDistancesWithGradients", D.named_distances_with_gradients)
    table("sparseNamedDistances", S.sparse_named_distances)
    out.append("def sparseNeedNFeatures : List String := [" +
               ", ".join(lstr(x) for x in sorted(S.sparse_need_n_features)) + "]")
    out.append("def discreteMetrics : List String := [" +
               ", ".join(lstr(x) for x in sorted(D.DISCRETE_METRICS)) + "]")
    out.append("\nend Umap.Generated")
    return write_if_changed(os.path.join(LEAN, "Generated", "Registry.lean"), "\n".join(out) + "\n")


def observe_knn_decision(cols, k, rows, n, force):
    """what the live UMAP decides for a precomputed_knn of shape (rows, cols) on n samples:
    (ignored, columns used, force_approximation_algorithm afterwards)"""
    import warnings
    import numpy as np
    import umap
    idx = np.zeros((rows, cols), dtype=np.int64)
    dst = np.zeros((rows, cols), dtype=np.float32)
    m = umap.UMAP(n_neighbors=k, precomputed_knn=(idx, dst), force_approximation_algorithm=force)
    with warnings.catch_warnings():
        warnings.simplefilter("ignore")
        # the preamble of fit(), then the validation itself
        m._raw_data = np.zeros((n, 2), dtype=np.float32)
        m._initial_alpha = m.learning_rate
        m.knn_indices, m.knn_dists = m.precomputed_knn[0], m.precomputed_knn[1]
        m.knn_search_index = None
        m._validate_parameters()
    if m.knn_dists is None:
        return True, 0, bool(force)
    # "force flag afterwards" = whether fit will take the approximate-neighbour code path: the parameter itself, or the private
    # decision recorded by the validation (the parameter is no longer overwritten)
    return False, int(m.knn_dists.shape[1]), bool(m.force_approximation_algorithm or getattr(m, "_knn_takes_approximate_path", False))


KNN_GRID = [(cols, 5, rows, n, force)
            for cols in (3, 5, 8) for (rows, n) in ((30, 30), (30, 31), (4096, 4096), (4096, 4000))
            for force in (False, True)]


def regen_knn_decision():
    rows_ = []
    for (cols, k, rows, n, force) in KNN_GRID:
        ign, used, f2 = observe_knn_decision(cols, k, rows, n, force)
        b = lambda x: "true" if x else "false"
        rows_.append(f"(({cols}, {k}, {rows}, {n}, {b(force)}, ({b(ign)}, {used}, {b(f2)})))")
    out = ["/- GENERATED from the live /repo package by harness/regen.py — do not edit.",
           "   Observed behaviour of UMAP._validate_parameters on the precomputed_knn abstraction grid:",
           "   (cols, k, rows, n, force) ↦ (ignored, columns used, force flag afterwards). -/",
           "namespace Umap.Generated\n",
           "def knnDecisionTable : List (Nat × Nat × Nat × Nat × Bool × (Bool × Nat × Bool)) := [",
           ",\n  ".join(rows_) + "]",
           "\nend Umap.Generated"]
    return write_if_changed(os.path.join(LEAN, "Generated", "KnnDecision.lean"), "\n".join(out) + "\n")




def observe_seeded(random_state, n_jobs):
    """what the live UMAP does for a (random_state, n_jobs) pair on a tiny fit:
    (n_jobs in force during fit, `parallel` flag handed to the layout stage in fit, in transform)"""
    import warnings
    import numpy as np
    import umap
    import umap.umap_ as U
    import umap.layouts as L
    seen = {}
    orig_sse = U.simplicial_set_embedding
    orig_ole = U.optimize_layout_euclidean

    def sse(*a, **k):
        seen["fit_parallel"] = bool(k.get("parallel", a[19] if len(a) > 19 else False))
        return orig_sse(*a, **k)

    def ole(*a, **k):
        seen.setdefault("calls", []).append(bool(k.get("parallel", a[13] if len(a) > 13 else False)))
        return orig_ole(*a, **k)

    U.simplicial_set_embedding = sse
    U.optimize_layout_euclidean = ole
    try:
        with warnings.catch_warnings():
            warnings.simplefilter("ignore")
            X = np.random.RandomState(0).normal(size=(30, 3)).astype(np.float32)
            m = umap.UMAP(n_neighbors=5, n_epochs=3, random_state=random_state, n_jobs=n_jobs).fit(X)
            jobs = int(m.n_jobs)
            seen["calls"] = []
            m.transform(X[:4] + 0.01)
            tpar = bool(seen["calls"][-1]) if seen["calls"] else False
    finally:
        U.simplicial_set_embedding = orig_sse
        U.optimize_layout_euclidean = orig_ole
    return jobs, bool(seen.get("fit_parallel", False)), tpar


def regen_seeded():
    rows = []
    for rs, name in ((None, "none"), (0, "zero"), (42, "int")):
        for nj in (1, -1, 4):
            jobs, fpar, tpar = observe_seeded(rs, nj)
            b = lambda x: "true" if x else "false"
            rows.append(f"(({lstr(name)}, {b(rs is not None)}, ({nj} : Int), ({jobs} : Int), {b(fpar)}, {b(tpar)}))")
    out = ["/- GENERATED from the live /repo package by harness/regen.py — do not edit.",
           "   Observed on a tiny fit + transform: (seed kind, seeded?, n_jobs requested, n_jobs in force, parallel flag given to the",
           "   layout stage in fit, parallel flag given to the layout optimiser in transform). -/",
           "namespace Umap.Generated\n",
           "def seededTable : List (String × Bool × Int × Int × Bool × Bool) := [",
           ",\n  ".join(rows) + "]",
           "\nend Umap.Generated"]
    return write_if_changed(os.path.join(LEAN, "Generated", "Seeded.lean"), "\n".join(out) + "\n")


if __name__ == "__main__":
    import sys
    sys.path.insert(0, os.path.dirname(os.path.abspath(__file__)))
    print(regen())
