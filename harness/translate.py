"""Python-AST -> Lean translator for the numba kernels of umap/distances.py (and the merge helpers of umap/sparse.py).

The translation is *shallow* and purely syntactic: every kernel becomes a total Lean function over the same
unbundled-generic scalar `α` the hand-written model uses (`UmapModel.Scalar`), so that
`theorem Src.f = Metrics.f` (UmapProps/C12Src.lean, C14Src.lean) can be stated and re-checked by `lake build`
on every run.  What is translated is what the source *says*:

  * `for i in range(n): body`      -> `(List.range n).foldl (fun st i => body') st0`, the state being the tuple of
                                       variables the body assigns that are live before the loop;
  * `v = e`, `v += e`              -> `let v := e'`;  `a[i] = e` -> `let a := a.set i e'`
  * `if c: A else: B` (+ rest)     -> `if c' then A' else B'` with the join on the assigned variables, or the
                                       continuation duplicated when a branch returns;
  * `x[i]`                         -> `x.getD i 0` (numba does no bounds check; every read the kernels make is in range
                                       when the arguments have the same length, which every equivalence theorem assumes);
  * `e ** 2`                       -> `sq e'` (`e' * e'`);  other powers `T.pow`;
  * float literals                 -> exact decimal fractions of naturals (`0.9` -> `9/10`, `1e-6` -> `1/1000000`);
  * `np.sqrt`, `np.log`, ...       -> the `Transc` record;  `np.abs` -> `absV`, `np.sign` -> `signV`, `sign` -> `signPM`;
  * vector expressions             -> `zipWith` / `map` (broadcast by kind).

Anything outside this fragment makes the function *untranslatable*: it is omitted from the generated file (with a
comment saying why), so that the equivalence theorem about it stops compiling -- a broken proof obligation, which
the check then turns into a failing-input search (never silently into "held").
"""
import ast
import inspect
import textwrap
from fractions import Fraction


class Untranslatable(Exception):
    pass


# kinds: S scalar, V vector, M matrix, B bool, N natural (index / length), Z integer, T tuple (list of kinds)
ARG_KINDS = {
    "x": "V", "y": "V", "u": "V", "v": "V", "data1": "V", "data2": "V", "sigma": "V", "w": "V",
    "vinv": "M", "p": "S", "z": "S", "a": "S", "b": "S",
    "ind1": "NV", "ind2": "NV", "n_features": "N", "ar1": "NV", "ar2": "NV", "arr": "NV", "vec": "V", "val": "S",
    "rows": "NV", "cols": "NV", "values": "V", "target": "ZV", "unknown_dist": "S", "far_dist": "S",
    "probabilities": "V", "k": "S", "n_iters": "N", "indices": "NM", "weights": "M", "embedding": "M",
    "current_init": "M", "n_original_samples": "N", "state": "WV",
    "knn_indices": "ZM", "knn_dists": "M", "sigmas": "V", "rhos": "V", "return_dists": "B", "bipartite": "B",
}
LEAN_TYPES = {"S": "α", "V": "List α", "M": "List (List α)", "B": "Bool", "N": "Nat", "Z": "Int", "NV": "List Nat",
              "BV": "List Bool", "NM": "List (List Nat)", "ZV": "List Int", "W": "BitVec 64", "WV": "List (BitVec 64)", "ZM": "List (List Int)"}

FN_ARG_KINDS = {
    "_finite_mean": {"values": "V"},
    "approx_log_Gamma": {"x": "S"}, "log_beta": {"x": "S", "y": "S"}, "log_single_beta": {"x": "S"},
    "sign": {"a": "S"},
}

RESERVED = {"at", "from", "have", "show", "then", "end", "fun", "let", "in", "do", "by", "open", "local"}


def lname(v):
    return v + "_" if v in RESERVED else v


def lit_scalar(val):
    """exact decimal value of a Python literal as a Lean term of type α"""
    f = Fraction(repr(val)) if isinstance(val, float) else Fraction(val)
    if f < 0:
        return f"(-{lit_scalar(-val)})"
    if f.denominator == 1:
        n = f.numerator
        return "0" if n == 0 else "1" if n == 1 else f"(({n} : Nat) : α)"
    num = "1" if f.numerator == 1 else f"(({f.numerator} : Nat) : α)"
    return f"({num} / (({f.denominator} : Nat) : α))"


class Fn:
    """translation of one function"""

    def __init__(self, node, known):
        self.node = node
        self.known = known            # name -> (lean name, arg kinds, return kind) of already translated helpers
        self.uses_T = False
        self.uses_pi = False
        self.uses_inf = False
        self.consts = {}
        self.loops = []               # enclosing translated loops: dicts with 'brk' (name or None) and 'state'
        self.mutated = []             # argument arrays the function writes into (procedures return them)
        self.ret_int_bits = None      # numba signature "i4(...)": the result is truncated to that many bits
        for d in node.decorator_list:
            if isinstance(d, ast.Call) and d.args and isinstance(d.args[0], ast.Constant) and isinstance(d.args[0].value, str):
                sig = d.args[0].value.strip()
                if sig.startswith("i4("):
                    self.ret_int_bits = 32
                elif sig.startswith("i8("):
                    self.ret_int_bits = 64
        self.partial = any(isinstance(n, ast.Raise) for n in ast.walk(node))

    # ---------------------------------------------------------------- expressions
    def cast(self, code, kind, to):
        if kind == to:
            return code
        if kind == "N" and to == "S":
            return f"(({code} : Nat) : α)"
        if kind == "Z" and to == "S":
            return f"(({code} : Int) : α)"
        if kind == "N" and to == "Z":
            return f"(({code} : Nat) : Int)"
        if kind == "B" and to == "S":
            return f"(b2s {code})"
        if kind == "Z" and to == "N":
            return f"({code}).toNat"
        raise Untranslatable(f"cannot cast {kind} to {to}: {code}")

    def const(self, node, want=None):
        v = node.value
        if v is None:
            return "([] : List α)", "V"          # an absent optional output array
        if isinstance(v, bool):
            return ("true" if v else "false"), "B"
        if isinstance(v, int) and want in ("N", None):
            return str(v), "N"
        if isinstance(v, (int, float)):
            return lit_scalar(v), "S"
        raise Untranslatable(f"constant {v!r}")

    def expr(self, e, env, want=None):
        """returns (lean code, kind)"""
        if isinstance(e, ast.Constant):
            return self.const(e, want)
        if isinstance(e, ast.Name):
            if e.id not in env:
                if e.id in self.consts:
                    v = self.consts[e.id]
                    if v == "inf":
                        self.uses_inf = True
                        return "infv", "S"
                    return lit_scalar(v), "S"
                raise Untranslatable(f"unknown variable {e.id}")
            return lname(e.id), env[e.id]
        if isinstance(e, ast.Attribute) and e.attr == "size":
            c, k = self.expr(e.value, env)
            if k in ("M", "NM", "ZM"):
                return f"(({c}).length * (({c}).getD 0 []).length)", "N"
            if k in ("V", "NV", "ZV", "BV"):
                return f"({c}).length", "N"
            raise Untranslatable(".size of a non-array")
        if isinstance(e, ast.Attribute) and e.attr == "flat":
            c, k = self.expr(e.value, env)
            if k == "V":
                return c, "V"
            if k == "M":
                return f"({c}).flatten", "V"
            raise Untranslatable(".flat of a non-array")
        if isinstance(e, ast.Attribute):
            src = ast.unparse(e)
            if src == "np.pi":
                self.uses_pi = True
                return "pi", "S"
            raise Untranslatable(f"attribute {src}")
        if isinstance(e, ast.Subscript):
            return self.subscript(e, env)
        if isinstance(e, ast.UnaryOp) and isinstance(e.op, ast.USub) and isinstance(e.operand, ast.Constant) \
                and isinstance(e.operand.value, int) and want in ("Z", "N"):
            return f"(-{e.operand.value} : Int)", "Z"
        if isinstance(e, ast.UnaryOp):
            c, k = self.expr(e.operand, env, want)
            if isinstance(e.op, ast.USub):
                if k == "N":
                    c, k = self.cast(c, k, "S"), "S"
                if k == "V":
                    return f"(({c}).map (fun a => -a))", "V"
                return f"(-{c})", k
            if isinstance(e.op, ast.Not):
                return f"(!{self.as_bool(e.operand, env)})", "B"
            raise Untranslatable("unary " + ast.dump(e.op))
        if isinstance(e, ast.BinOp):
            return self.binop(e, env, want)
        if isinstance(e, ast.BoolOp):
            op = " && " if isinstance(e.op, ast.And) else " || "
            return "(" + op.join(self.as_bool(v, env) for v in e.values) + ")", "B"
        if isinstance(e, ast.Compare):
            c = self.compare(e, env)
            return c, ("BV" if c.startswith("(List.zipWith") else "B")
        if isinstance(e, ast.Call):
            return self.call(e, env, want)
        if isinstance(e, ast.Tuple):
            parts = [self.expr(x, env) for x in e.elts]
            return "(" + ", ".join(c for c, _ in parts) + ")", tuple(k for _, k in parts)
        if isinstance(e, ast.IfExp):
            c = self.cond(e.test, env)
            a, ka = self.expr(e.body, env, want)
            b, kb = self.expr(e.orelse, env, want)
            k = self.join_kind(ka, kb)
            return f"(if {c} then {self.cast(a, ka, k)} else {self.cast(b, kb, k)})", k
        raise Untranslatable("expression " + ast.unparse(e))

    @staticmethod
    def join_kind(a, b):
        if a == b:
            return a
        if {a, b} <= {"N", "S", "B", "Z"}:
            return "S"
        raise Untranslatable(f"kinds {a} / {b}")

    def subscript(self, e, env):
        src = ast.unparse(e)
        # x.shape[0]
        if (isinstance(e.value, ast.Attribute) and e.value.attr == "shape" and isinstance(e.value.value, ast.Name)
                and isinstance(e.slice, ast.Constant) and e.slice.value == 0):
            return f"{lname(e.value.value.id)}.length", "N"
        if (isinstance(e.value, ast.Attribute) and e.value.attr == "shape"
                and isinstance(e.slice, ast.Constant) and e.slice.value == 0):
            c, k = self.expr(e.value.value, env)
            if k in ("V", "NV", "BV", "M", "NM", "ZV", "ZM"):
                return f"({c}).length", "N"
        if (isinstance(e.value, ast.Attribute) and e.value.attr == "shape"
                and isinstance(e.slice, ast.Constant) and e.slice.value == 1):
            c, k = self.expr(e.value.value, env)
            if k in ("M", "NM", "ZM"):
                return f"(({c}).getD 0 []).length", "N"       # column count of a non-empty matrix
        # slices a[:n], a[1:], a[:-1]
        if isinstance(e.slice, ast.Slice) and e.slice.step is None:
            c, k = self.expr(e.value, env)
            if k in ("V", "NV", "BV"):
                lo, hi = e.slice.lower, e.slice.upper
                if lo is None and hi is not None:
                    if isinstance(hi, ast.UnaryOp) and isinstance(hi.op, ast.USub) and isinstance(hi.operand, ast.Constant) and hi.operand.value == 1:
                        return f"({c}).dropLast", k
                    h, kh = self.expr(hi, env, "N")
                    if kh == "N":
                        return f"(({c}).take {h})", k
                if hi is None and isinstance(lo, ast.Constant) and isinstance(lo.value, int) and lo.value >= 0:
                    return f"(({c}).drop {lo.value})", k
            raise Untranslatable("slice " + src)
        # component of a returned tuple: f(...)[0]
        if isinstance(e.slice, ast.Constant) and isinstance(e.slice.value, int) and not isinstance(e.value, ast.Name):
            c, k = self.expr(e.value, env)
            if isinstance(k, tuple) and len(k) == 2 and e.slice.value in (0, 1):
                return f"({c}).{e.slice.value + 1}", k[e.slice.value]
        # boolean mask
        if isinstance(e.value, (ast.Name, ast.Subscript)) and not isinstance(e.slice, (ast.Constant, ast.Tuple)):
            c, k = self.expr(e.value, env)
            try:
                m, km = self.expr(e.slice, env)
            except Untranslatable:
                m, km = None, None
            if km == "BV" and k in ("V", "NV"):
                return f"(maskSel {c} {m})", k
        if isinstance(e.value, ast.Name):
            base, k = self.expr(e.value, env)
            if k == "V":
                i, ki = self.expr(e.slice, env, "N")
                return f"({base}.getD {self.cast(i, ki, 'N')} 0)", "S"
            if k == "NV":
                i, ki = self.expr(e.slice, env, "N")
                return f"({base}.getD {self.cast(i, ki, 'N')} 0)", "N"
            if k == "ZV":
                i, ki = self.expr(e.slice, env, "N")
                return f"({base}.getD {self.cast(i, ki, 'N')} 0)", "Z"
            if k == "WV":
                i, ki = self.expr(e.slice, env, "N")
                return f"({base}.getD {self.cast(i, ki, 'N')} 0)", "W"
            if k == "ZM" and isinstance(e.slice, ast.Tuple) and len(e.slice.elts) == 2:
                i, ki = self.expr(e.slice.elts[0], env, "N")
                j, kj = self.expr(e.slice.elts[1], env, "N")
                return f"(({base}.getD {self.cast(i, ki, 'N')} []).getD {self.cast(j, kj, 'N')} 0)", "Z"
            if k == "NM" and isinstance(e.slice, ast.Tuple) and len(e.slice.elts) == 2:
                i, ki = self.expr(e.slice.elts[0], env, "N")
                j, kj = self.expr(e.slice.elts[1], env, "N")
                return f"(({base}.getD {self.cast(i, ki, 'N')} []).getD {self.cast(j, kj, 'N')} 0)", "N"
            if k == "M" and isinstance(e.slice, ast.Tuple) and len(e.slice.elts) == 2:
                i, ki = self.expr(e.slice.elts[0], env, "N")
                j, kj = self.expr(e.slice.elts[1], env, "N")
                return f"(({base}.getD {self.cast(i, ki, 'N')} []).getD {self.cast(j, kj, 'N')} 0)", "S"
        raise Untranslatable("subscript " + src)

    def binop(self, e, env, want):
        if isinstance(e.op, ast.Pow):
            a, ka = self.expr(e.left, env, "S")
            if isinstance(e.right, ast.Constant) and e.right.value in (2, 3) and isinstance(e.right.value, int):
                f = "sq" if e.right.value == 2 else "cube"
                if ka == "V":
                    return f"(({a}).map {f})", "V"
                return f"({f} {self.cast(a, ka, 'S')})", "S"
            b, kb = self.expr(e.right, env, "S")
            self.uses_T = True
            if ka == "V":
                raise Untranslatable("vector power")
            return f"(T.pow {self.cast(a, ka, 'S')} {self.cast(b, kb, 'S')})", "S"
        if isinstance(e.op, (ast.BitAnd, ast.BitOr)):
            try:
                a_, ka_ = self.expr(e.left, env)
                b_, kb_ = self.expr(e.right, env)
            except Untranslatable:
                ka_ = kb_ = None
            if ka_ == "B" and kb_ == "B":
                return f"({a_} {'&&' if isinstance(e.op, ast.BitAnd) else '||'} {b_})", "B"
        if isinstance(e.op, (ast.BitAnd, ast.BitXor, ast.BitOr, ast.LShift, ast.RShift)):
            # int64 words (numba's i8): `>>` is the arithmetic shift
            def word(x):
                if isinstance(x, ast.Constant) and isinstance(x.value, int) and not isinstance(x.value, bool) and x.value >= 0:
                    return f"{x.value}#64", "W"
                return self.expr(x, env, "W")
            a, ka = word(e.left)
            if isinstance(e.op, (ast.LShift, ast.RShift)):
                if not (isinstance(e.right, ast.Constant) and isinstance(e.right.value, int) and 0 <= e.right.value < 64):
                    raise Untranslatable("shift by a non-literal amount")
                if ka != "W":
                    raise Untranslatable("shift of a non-word")
                return (f"({a} <<< {e.right.value})" if isinstance(e.op, ast.LShift) else f"(({a}).sshiftRight {e.right.value})"), "W"
            b, kb = word(e.right)
            if ka != "W" or kb != "W":
                raise Untranslatable("bit operation on non-words")
            sym = {ast.BitAnd: "&&&", ast.BitXor: "^^^", ast.BitOr: "|||"}[type(e.op)]
            return f"({a} {sym} {b})", "W"
        ops = {ast.Add: "+", ast.Sub: "-", ast.Mult: "*", ast.Div: "/"}
        if type(e.op) not in ops:
            raise Untranslatable("operator " + ast.dump(e.op))
        op = ops[type(e.op)]
        # literals take the kind of the other operand; division is always scalar
        lw = rw = "S" if isinstance(e.op, ast.Div) else want
        def lit_kind(c, other):
            # a float literal makes the arithmetic floating point; an int literal takes the other operand's kind
            if isinstance(c.value, float) or other in ("S", "V", "B") or isinstance(e.op, ast.Div):
                return "S"
            return "N"
        if isinstance(e.left, ast.Constant) and not isinstance(e.right, ast.Constant):
            b, kb = self.expr(e.right, env, rw)
            a, ka = self.expr(e.left, env, lit_kind(e.left, kb))
        else:
            a, ka = self.expr(e.left, env, lw)
            b, kb = self.expr(e.right, env, lit_kind(e.right, ka) if isinstance(e.right, ast.Constant) else
                              ("S" if (ka in ("S", "V", "B") or isinstance(e.op, ast.Div)) else "N"))
        if ka == "V" and kb == "V":
            return f"(List.zipWith (fun a b => a {op} b) {a} {b})", "V"
        if ka == "V":
            return f"(({a}).map (fun a => a {op} {self.cast(b, kb, 'S')}))", "V"
        if kb == "V":
            return f"(({b}).map (fun b => {self.cast(a, ka, 'S')} {op} b))", "V"
        if ka == "N" and kb == "N" and isinstance(e.op, ast.Sub):
            return f"((({a} : Nat) : Int) - (({b} : Nat) : Int))", "Z"      # Python ints do not truncate
        if ka == "N" and kb == "N" and not isinstance(e.op, ast.Div):
            return f"({a} {op} {b})", "N"
        if {ka, kb} <= {"N", "Z"} and not isinstance(e.op, ast.Div):
            return f"({self.cast(a, ka, 'Z')} {op} {self.cast(b, kb, 'Z')})", "Z"
        return f"({self.cast(a, ka, 'S')} {op} {self.cast(b, kb, 'S')})", "S"

    def compare(self, e, env):
        """Bool-valued"""
        if len(e.ops) != 1:
            raise Untranslatable("chained comparison")
        op = e.ops[0]
        l, r = e.left, e.comparators[0]
        def intlit(c):
            return isinstance(c, ast.Constant) and not isinstance(c.value, bool) and float(c.value) == int(c.value) and c.value >= 0
        if isinstance(l, ast.Constant) and not isinstance(r, ast.Constant):
            b, kb = self.expr(r, env)
            a, ka = (str(int(l.value)), "N") if (kb in ("N", "Z") and intlit(l)) else self.expr(l, env, "S")
        else:
            a, ka = self.expr(l, env)
            if isinstance(r, ast.Constant) and ka in ("N", "Z") and intlit(r):
                b, kb = str(int(r.value)), "N"
            elif ka in ("N", "Z") and isinstance(r, ast.UnaryOp) and isinstance(r.op, ast.USub) and intlit(r.operand):
                b, kb = f"(-{int(r.operand.value)} : Int)", "Z"
            else:
                b, kb = self.expr(r, env, "N" if ka in ("N",) else "S")
        if isinstance(op, (ast.In, ast.NotIn)) and kb == "NV" and ka == "N":
            return f"(({b}).contains {a})" if isinstance(op, ast.In) else f"(!(({b}).contains {a}))"
        if ka == "NV" and kb == "NV" and isinstance(op, (ast.Eq, ast.NotEq)):
            t = "==" if isinstance(op, ast.Eq) else "!="
            return f"(List.zipWith (fun a b => a {t} b) {a} {b})"       # kind BV: see `expr`
        if ka == "V" or kb == "V":
            raise Untranslatable("vector comparison outside np.sum")
        if {ka, kb} <= {"N", "Z"} and "Z" in (ka, kb):
            a, b = self.cast(a, ka, "Z"), self.cast(b, kb, "Z")
            t = {ast.Eq: "==", ast.NotEq: "!=", ast.Lt: "<", ast.LtE: "≤", ast.Gt: ">", ast.GtE: "≥"}[type(op)]
            return f"({a} {t} {b})" if t in ("==", "!=") else f"(decide ({a} {t} {b}))"
        if ka == "B" and isinstance(r, ast.Constant) and isinstance(r.value, bool) and isinstance(op, (ast.Eq, ast.NotEq)):
            neg = (r.value is False) == isinstance(op, ast.Eq)
            return f"(!{a})" if neg else a
        if ka == "B" and kb == "B":
            if isinstance(op, ast.NotEq):
                return f"(xor {a} {b})"
            if isinstance(op, ast.Eq):
                return f"(!(xor {a} {b}))"
        if ka == "N" and kb == "N":
            t = {ast.Eq: "==", ast.NotEq: "!=", ast.Lt: "<", ast.LtE: "≤", ast.Gt: ">", ast.GtE: "≥"}[type(op)]
            if t in ("==", "!="):
                return f"({a} {t} {b})"
            return f"(decide ({a} {t} {b}))"
        a, b = self.cast(a, ka, "S"), self.cast(b, kb, "S")
        if isinstance(op, ast.Eq):
            return f"(eqV {a} {b})"
        if isinstance(op, ast.NotEq):
            return f"(!(eqV {a} {b}))"
        if isinstance(op, ast.Lt):
            return f"(decide ({a} < {b}))"
        if isinstance(op, ast.Gt):
            return f"(decide ({b} < {a}))"
        if isinstance(op, ast.LtE):
            return f"(decide ({a} ≤ {b}))"
        if isinstance(op, ast.GtE):
            return f"(decide ({b} ≤ {a}))"
        raise Untranslatable("comparison " + ast.dump(op))

    def as_bool(self, e, env):
        c, k = self.expr(e, env)
        if k != "B":
            raise Untranslatable("truthiness of a non-boolean: " + ast.unparse(e))
        return c

    def cond(self, e, env):
        """condition of an `if`: a single order comparison stays a Prop (as in the hand-written model),
        anything else is a Bool"""
        if isinstance(e, ast.Compare) and len(e.ops) == 1 and isinstance(e.ops[0], (ast.Lt, ast.Gt, ast.LtE, ast.GtE)):
            c = self.compare(e, env)
            if c.startswith("(decide (") and c.endswith("))"):
                return c[len("(decide ("):-2]
        return self.as_bool(e, env)

    CALLS1 = {"np.sqrt": "T.sqrt", "np.log": "T.log", "np.exp": "T.exp", "np.sin": "T.sin", "np.cos": "T.cos",
              "np.arcsin": "T.asin", "np.arccosh": "T.acosh"}

    def call(self, e, env, want):
        f = ast.unparse(e.func)
        args = e.args
        if f in self.CALLS1 and len(args) == 1:
            a, k = self.expr(args[0], env, "S")
            self.uses_T = True
            g = self.CALLS1[f]
            if k == "V":
                return f"(({a}).map {g})", "V"
            return f"({g} {self.cast(a, k, 'S')})", "S"
        if f == "np.log2" and len(args) == 1:
            a, k = self.expr(args[0], env, "S")
            self.uses_T = True
            return f"((T.log {self.cast(a, k, 'S')}) / (T.log ((2 : Nat) : α)))", "S"
        if f == "np.isfinite" and len(args) == 1:
            a, k = self.expr(args[0], env, "S")
            self.uses_inf = True
            a = self.cast(a, k, "S")
            return f"((decide ({a} < infv)) && (decide ((-infv) < {a})))", "B"
        if f == "np.power" and len(args) == 2 and not (isinstance(args[1], ast.Constant) and args[1].value == 2):
            a, ka = self.expr(args[0], env, "S")
            b, kb = self.expr(args[1], env, "S")
            self.uses_T = True
            if ka == "V" and kb != "V":
                return f"(({a}).map (fun a => T.pow a {self.cast(b, kb, 'S')}))", "V"
            if ka != "V" and kb != "V":
                return f"(T.pow {self.cast(a, ka, 'S')} {self.cast(b, kb, 'S')})", "S"
            raise Untranslatable("np.power of two arrays")
        if f in ("np.abs", "abs", "np.fabs") and len(args) == 1:
            a, k = self.expr(args[0], env, "S")
            if k == "V":
                return f"(({a}).map absV)", "V"
            return f"(absV {self.cast(a, k, 'S')})", "S"
        if f == "np.sign" and len(args) == 1:
            a, k = self.expr(args[0], env, "S")
            if k == "V":
                return f"(({a}).map signV)", "V"
            return f"(signV {self.cast(a, k, 'S')})", "S"
        if f == "float" and len(args) == 1:
            a, k = self.expr(args[0], env, "S")
            return self.cast(a, k, "S"), "S"
        if f == "int" and len(args) == 1:
            a, k = self.expr(args[0], env, "S")
            if k == "N":
                return a, "N"
            self.uses_T = True
            return f"(T.trunc {self.cast(a, k, 'S')})", "Z"
        if f in ("max", "min") and len(args) == 2:
            a, ka = self.expr(args[0], env, "S")
            b, kb = self.expr(args[1], env, "S")
            g = "maxV" if f == "max" else "minV"
            return f"({g} {self.cast(a, ka, 'S')} {self.cast(b, kb, 'S')})", "S"
        if f == "pow" and len(args) == 2:
            a, ka = self.expr(args[0], env, "S")
            b, kb = self.expr(args[1], env, "S")
            self.uses_T = True
            return f"(T.pow {self.cast(a, ka, 'S')} {self.cast(b, kb, 'S')})", "S"
        if f == "np.power" and len(args) == 2 and isinstance(args[1], ast.Constant) and args[1].value == 2:
            a, k = self.expr(args[0], env, "S")
            if k == "V":
                return f"(({a}).map sq)", "V"
            return f"(sq {self.cast(a, k, 'S')})", "S"
        if f == "np.sum" and len(args) == 1:
            # np.sum(x != 0): count of non-zero entries
            a0 = args[0]
            if (isinstance(a0, ast.Compare) and len(a0.ops) == 1 and isinstance(a0.ops[0], ast.NotEq)
                    and isinstance(a0.comparators[0], ast.Constant) and a0.comparators[0].value == 0):
                v, k = self.expr(a0.left, env)
                if k == "V":
                    return f"((({v}).countP (fun a => !(eqV a 0)) : Nat) : α)", "S"
            a, k = self.expr(a0, env, "S")
            if k == "V":
                return f"(sumL {a})", "S"
            raise Untranslatable("np.sum of a non-vector")
        if f in ("np.zeros", "np.empty") and len(args) >= 1:
            n = args[0]
            src = ast.unparse(n)
            # np.zeros(x.shape) / np.empty(x.shape[0], dtype=...)
            if isinstance(n, ast.Attribute) and n.attr == "shape":
                return f"(List.replicate {lname(n.value.id)}.length (0 : α))", "V"
            if isinstance(n, ast.Tuple) and len(n.elts) == 2:
                r, kr = self.expr(n.elts[0], env, "N")
                c2, kc = self.expr(n.elts[1], env, "N")
                if kr == "N" and kc == "N":
                    return f"(List.replicate {r} (List.replicate {c2} (0 : α)))", "M"
            c, k = self.expr(n, env, "N")
            if k == "N":
                if any(kw.arg == "dtype" and ast.unparse(kw.value) in ("np.int32", "np.int64", "np.intp") for kw in e.keywords):
                    return f"(List.replicate {c} (0 : Int))", "ZV"
                return f"(List.replicate {c} (0 : α))", "V"
            raise Untranslatable("array constructor " + src)
        if f == "np.array" and len(args) == 1 and isinstance(args[0], ast.List):
            parts = [self.expr(x, env, "S") for x in args[0].elts]
            return "[" + ", ".join(self.cast(c, k, "S") for c, k in parts) + "]", "V"
        if f == "np.concatenate" and len(args) == 1 and isinstance(args[0], ast.Tuple) and len(args[0].elts) == 2:
            a, ka = self.expr(args[0].elts[0], env)
            b, kb = self.expr(args[0].elts[1], env)
            if ka == kb and ka in ("V", "NV", "BV"):
                return f"({a} ++ {b})", ka
            raise Untranslatable("concatenate of different kinds")
        if f == "np.sort" and len(args) == 1:
            a, k = self.expr(args[0], env)
            if k == "NV":
                return f"(sortN {a})", "NV"
            raise Untranslatable("np.sort of a non-index array")
        if f == "np.ones" and len(args) >= 1 and isinstance(args[0], ast.Constant) and any(
                kw.arg == "dtype" and ast.unparse(kw.value) in ("np.bool_", "bool") for kw in e.keywords):
            return f"(List.replicate {int(args[0].value)} true)", "BV"
        if f == "np.all" and len(args) == 1:
            a, k = self.expr(args[0], env)
            if k == "BV":
                return f"(({a}).all id)", "B"
            raise Untranslatable("np.all of a non-boolean array")
        if f == "set" and len(args) == 1:
            a, k = self.expr(args[0], env)
            if k == "NV":
                return a, "NV"
            raise Untranslatable("set of a non-index array")
        if f == "sign" and len(args) == 1:
            a, k = self.expr(args[0], env, "S")
            return f"(signPM {self.cast(a, k, 'S')})", "S"
        if f in self.known:
            lean, akinds, rk, usesT, usesPi, usesInf = self.known[f]
            if len(args) != len(akinds):
                raise Untranslatable(f"call of {f} with {len(args)} arguments")
            cs = []
            for a_, k_ in zip(args, akinds):
                c, k = self.expr(a_, env, k_)
                cs.append(self.cast(c, k, k_))
            pre = ""
            if usesT:
                self.uses_T = True
                pre += " T"
            if usesPi:
                self.uses_pi = True
                pre += " pi"
            if usesInf:
                self.uses_inf = True
                pre += " infv"
            return f"({lean}{pre} " + " ".join(cs) + ")", rk
        raise Untranslatable("call " + ast.unparse(e))

    # ---------------------------------------------------------------- statements
    @staticmethod
    def assigned(stmts):
        """names assigned anywhere in a statement list, in order of first assignment"""
        out = []

        def add(n):
            if n not in out:
                out.append(n)
        for s in stmts:
            for n in ast.walk(s):
                if isinstance(n, (ast.Assign, ast.AugAssign)):
                    ts = n.targets if isinstance(n, ast.Assign) else [n.target]
                    for t in ts:
                        if isinstance(t, ast.Name):
                            add(t.id)
                        elif isinstance(t, ast.Subscript) and isinstance(t.value, ast.Name):
                            add(t.value.id)
                        elif isinstance(t, ast.Tuple):
                            for x in t.elts:
                                if isinstance(x, ast.Name):
                                    add(x.id)
        return out

    @staticmethod
    def returns(stmts):
        """does every path through the list end in return / raise?"""
        if not stmts:
            return False
        s = stmts[-1]
        if isinstance(s, (ast.Return, ast.Raise, ast.Break, ast.Continue)):
            return True
        if isinstance(s, ast.If):
            return Fn.returns(s.body) and Fn.returns(s.orelse)
        return False

    def ret(self, code):
        return f"some {code}" if self.partial else code

    def tuple_of(self, names, env):
        if len(names) == 1:
            return lname(names[0])
        return "(" + ", ".join(lname(n) for n in names) + ")"

    def tuple_type(self, names, env):
        return " × ".join(LEAN_TYPES[env[n]] if " " not in LEAN_TYPES[env[n]] else f"({LEAN_TYPES[env[n]]})" for n in names)

    def proj(self, i, n, base="st"):
        if n == 1:
            return base
        return base + ".2" * i + (".1" if i < n - 1 else "")

    def block(self, stmts, env, ind, tail=None):
        """translate a statement list into a Lean expression.  `tail` is the expression to return when the list
        falls off its end (the join tuple of an enclosing `if` / loop body); `None` at function level."""
        pad = "  " * ind
        if not stmts:
            if tail is None:
                if self.mutated:
                    self.ret_kind = tuple(env[v] for v in self.mutated) if len(self.mutated) > 1 else env[self.mutated[0]]
                    return pad + self.ret(self.tuple_of(self.mutated, env))
                raise Untranslatable("function falls off its end")
            return pad + tail(env)
        s, rest = stmts[0], stmts[1:]
        if isinstance(s, ast.Expr) and isinstance(s.value, ast.Constant) and isinstance(s.value.value, str):
            return self.block(rest, env, ind, tail)          # docstring
        if isinstance(s, ast.Break):
            if not self.loops or not self.loops[-1]["brk"]:
                raise Untranslatable("break outside a translated loop")
            lp = self.loops[-1]
            return pad + f"let {lp['brk']} : Bool := true\n" + pad + self.tuple_of(lp["state"], env)
        if isinstance(s, ast.Continue):
            if not self.loops:
                raise Untranslatable("continue outside a translated loop")
            return pad + self.tuple_of(self.loops[-1]["state"], env)
        if isinstance(s, ast.Return) and s.value is None:
            if not self.mutated:
                raise Untranslatable("bare return in a function that mutates nothing")
            self.ret_kind = tuple(env[v] for v in self.mutated) if len(self.mutated) > 1 else env[self.mutated[0]]
            return pad + self.ret(self.tuple_of(self.mutated, env))
        if isinstance(s, ast.Return) and self.ret_int_bits:
            c, k = self.expr(s.value, env, "W")
            if k != "W":
                raise Untranslatable("integer-typed return of a non-word")
            val = f"(({c}).truncate {self.ret_int_bits} : BitVec {self.ret_int_bits}).toInt"
            if self.mutated:
                self.ret_kind = ("Z",) + tuple(env[v] for v in self.mutated)
                return pad + "(" + val + ", " + ", ".join(lname(v) for v in self.mutated) + ")"
            self.ret_kind = "Z"
            return pad + val
        if isinstance(s, ast.Return):
            c, k = self.expr(s.value, env, "S")
            if isinstance(k, str) and k in ("N", "B", "Z"):
                c = self.cast(c, k, "S")
            self.ret_kind = k if not (isinstance(k, str) and k in ("N", "B", "Z")) else "S"
            return pad + self.ret(c)
        if isinstance(s, ast.Raise):
            return pad + "none"
        if isinstance(s, ast.Assign):
            if len(s.targets) != 1:
                raise Untranslatable("multiple assignment")
            t = s.targets[0]
            if isinstance(t, ast.Name):
                want = env.get(t.id, None if self.index_like(s.value) else "S")
                c, k = self.expr(s.value, env, want if want != "N" else None)
                if t.id in env and env[t.id] != k:
                    c = self.cast(c, k, env[t.id])
                    k = env[t.id]
                elif t.id not in env and k == "N" and self.scalar_later(t.id, rest):
                    c, k = self.cast(c, k, "S"), "S"
                env2 = dict(env)
                env2[t.id] = k
                ty = f" : {LEAN_TYPES[k]}" if isinstance(k, str) and k in LEAN_TYPES else ""
                return pad + f"let {lname(t.id)}{ty} := {c}\n" + self.block(rest, env2, ind, tail)
            if isinstance(t, ast.Subscript) and isinstance(t.value, ast.Name) and env.get(t.value.id) == "V":
                i, ki = self.expr(t.slice, env, "N")
                c, k = self.expr(s.value, env, "S")
                a = lname(t.value.id)
                return pad + f"let {a} := {a}.set {self.cast(i, ki, 'N')} {self.cast(c, k, 'S')}\n" + self.block(rest, env, ind, tail)
            if isinstance(t, ast.Subscript) and isinstance(t.value, ast.Name) and env.get(t.value.id) == "ZV":
                i, ki = self.expr(t.slice, env, "N")
                c, k = self.expr(s.value, env, "N")
                a = lname(t.value.id)
                return pad + f"let {a} := {a}.set {self.cast(i, ki, 'N')} {self.cast(c, k, 'Z')}\n" + self.block(rest, env, ind, tail)
            if isinstance(t, ast.Subscript) and isinstance(t.value, ast.Name) and env.get(t.value.id) == "WV":
                i, ki = self.expr(t.slice, env, "N")
                c, k = self.expr(s.value, env, "W")
                if k != "W":
                    raise Untranslatable("store of a non-word into a word array")
                a = lname(t.value.id)
                return pad + f"let {a} := {a}.set {self.cast(i, ki, 'N')} {c}\n" + self.block(rest, env, ind, tail)
            if isinstance(t, ast.Subscript) and isinstance(t.value, ast.Name) and env.get(t.value.id) == "NV":
                i, ki = self.expr(t.slice, env, "N")
                c, k = self.expr(s.value, env, "N")
                a = lname(t.value.id)
                return pad + f"let {a} := {a}.set {self.cast(i, ki, 'N')} {self.cast(c, k, 'N')}\n" + self.block(rest, env, ind, tail)
            if isinstance(t, ast.Subscript) and isinstance(t.value, ast.Name) and env.get(t.value.id) == "M" \
                    and isinstance(t.slice, ast.Tuple) and len(t.slice.elts) == 2:
                i, ki = self.expr(t.slice.elts[0], env, "N")
                j, kj = self.expr(t.slice.elts[1], env, "N")
                c, k = self.expr(s.value, env, "S")
                a = lname(t.value.id)
                i, j = self.cast(i, ki, "N"), self.cast(j, kj, "N")
                return pad + f"let {a} := {a}.set {i} (({a}.getD {i} []).set {j} {self.cast(c, k, 'S')})\n" + self.block(rest, env, ind, tail)
            if isinstance(t, ast.Tuple) and all(isinstance(x, ast.Name) for x in t.elts):
                c, k = self.expr(s.value, env)
                if not (isinstance(k, tuple) and len(k) == len(t.elts)):
                    raise Untranslatable("tuple assignment from a non-tuple")
                env2 = dict(env)
                for x, kx in zip(t.elts, k):
                    env2[x.id] = kx
                names = ", ".join(lname(x.id) for x in t.elts)
                return pad + f"let ({names}) := {c}\n" + self.block(rest, env2, ind, tail)
            raise Untranslatable("assignment target " + ast.unparse(t))
        if isinstance(s, ast.AugAssign):
            ops = {ast.Add: "+", ast.Sub: "-", ast.Mult: "*", ast.Div: "/"}
            if type(s.op) not in ops:
                raise Untranslatable("augmented operator")
            op = ops[type(s.op)]
            t = s.target
            if isinstance(t, ast.Name):
                if t.id not in env:
                    raise Untranslatable("augmented assignment to an unknown variable")
                k0 = env[t.id]
                c, k = self.expr(s.value, env, k0 if k0 in ("S", "N") else "S")
                if k0 == "S":
                    return pad + f"let {lname(t.id)} := {lname(t.id)} {op} {self.cast(c, k, 'S')}\n" + self.block(rest, env, ind, tail)
                if k0 == "N" and k == "N" and op != "/":
                    return pad + f"let {lname(t.id)} := {lname(t.id)} {op} {c}\n" + self.block(rest, env, ind, tail)
                raise Untranslatable("augmented assignment kinds")
            if isinstance(t, ast.Subscript) and isinstance(t.value, ast.Name) and env.get(t.value.id) == "V":
                i, ki = self.expr(t.slice, env, "N")
                i = self.cast(i, ki, "N")
                c, k = self.expr(s.value, env, "S")
                a = lname(t.value.id)
                return pad + f"let {a} := {a}.set {i} (({a}.getD {i} 0) {op} {self.cast(c, k, 'S')})\n" + self.block(rest, env, ind, tail)
            if isinstance(t, ast.Subscript) and isinstance(t.value, ast.Name) and env.get(t.value.id) == "M" \
                    and isinstance(t.slice, ast.Tuple) and len(t.slice.elts) == 2:
                i, ki = self.expr(t.slice.elts[0], env, "N")
                j, kj = self.expr(t.slice.elts[1], env, "N")
                i, j = self.cast(i, ki, "N"), self.cast(j, kj, "N")
                c, k = self.expr(s.value, env, "S")
                a = lname(t.value.id)
                return (pad + f"let {a} := {a}.set {i} (({a}.getD {i} []).set {j} ((({a}.getD {i} []).getD {j} 0) {op} {self.cast(c, k, 'S')}))\n"
                        + self.block(rest, env, ind, tail))
            raise Untranslatable("augmented target")
        if isinstance(s, ast.Expr) and isinstance(s.value, ast.Call) and ast.unparse(s.value.func).endswith(".sort") \
                and isinstance(s.value.func, ast.Attribute) and isinstance(s.value.func.value, ast.Name) \
                and env.get(s.value.func.value.id) == "NV" and not s.value.args:
            a = lname(s.value.func.value.id)
            return pad + f"let {a} := sortN {a}\n" + self.block(rest, env, ind, tail)
        if isinstance(s, ast.For):
            return self.loop(s, rest, env, ind, tail)
        if isinstance(s, ast.While):
            return self.whileloop(s, rest, env, ind, tail)
        if isinstance(s, ast.If):
            return self.ifstmt(s, rest, env, ind, tail)
        raise Untranslatable("statement " + type(s).__name__)

    def scalar_later(self, name, rest):
        """an integer-literal initialisation (`x = 0`) of a variable that later takes float values is a scalar"""
        for s in rest:
            for n in ast.walk(s):
                if isinstance(n, ast.AugAssign) and isinstance(n.target, ast.Name) and n.target.id == name:
                    return not self.index_like(n.value)
                if isinstance(n, ast.Assign) and any(isinstance(t, ast.Name) and t.id == name for t in n.targets):
                    return not self.index_like(n.value)
        return False

    @staticmethod
    def index_like(e):
        return isinstance(e, ast.Name) or (isinstance(e, ast.Constant) and isinstance(e.value, int))

    def whileloop(self, s, rest, env, ind, tail):
        """`while c: body` -> `whileN fuel (fun st => c) (fun st => body) st0`; the fuel is the sum of the lengths the
        condition compares its counters with, plus one (each iteration of the merge loops advances a counter)"""
        pad = "  " * ind
        if s.orelse:
            raise Untranslatable("while / else")
        for n_ in ast.walk(s):
            if isinstance(n_, (ast.Return, ast.Raise, ast.Break, ast.Continue)):
                raise Untranslatable("control transfer inside a loop")
        lens = []
        for n_ in ast.walk(s.test):
            if isinstance(n_, ast.Subscript) and isinstance(n_.value, ast.Attribute) and n_.value.attr == "shape" \
                    and isinstance(n_.value.value, ast.Name):
                lens.append(f"{lname(n_.value.value.id)}.length")
        if not lens:
            raise Untranslatable("while loop without a length bound in its condition")
        fuel = "(" + " + ".join(lens) + " + 1)"
        state = [v for v in self.assigned(s.body) if v in env]
        if not state:
            raise Untranslatable("loop without state")
        n = len(state)
        ty = self.tuple_type(state, env)
        unpack = "".join("  " * (ind + 2) + f"let {lname(v)} := {self.proj(j, n)}\n" for j, v in enumerate(state))
        cond = self.as_bool(s.test, env)
        body = self.block(s.body, dict(env), ind + 2, tail=lambda e_: self.tuple_of(state, e_))
        out = pad + f"let {self.tuple_of(state, env) if n > 1 else lname(state[0])} := whileN {fuel}\n"
        out += pad + f"    (fun (st : {ty}) =>\n" + unpack + "  " * (ind + 2) + cond + ")\n"
        out += pad + f"    (fun (st : {ty}) =>\n" + unpack + body + ")\n"
        out += pad + "    " + self.tuple_of(state, env) + "\n"
        return out + self.block(rest, env, ind, tail)

    def loop(self, s, rest, env, ind, tail):
        pad = "  " * ind
        it_code = it_kind = None
        if isinstance(s.target, ast.Name) and isinstance(s.iter, (ast.Name, ast.Attribute)) and not s.orelse:
            try:
                it_code, it_kind = self.expr(s.iter, env)
            except Untranslatable:
                it_code = it_kind = None
        if it_kind in ("V", "NV"):
            # for v in data: ...  -> a fold over the list itself
            for n_ in ast.walk(s):
                if isinstance(n_, (ast.Return, ast.Raise, ast.Break, ast.Continue)):
                    raise Untranslatable("control transfer inside a loop")
            state = [v for v in self.assigned(s.body) if v in env]
            if not state:
                raise Untranslatable("loop without state")
            ek = "S" if it_kind == "V" else "N"
            env_in = dict(env)
            env_in[s.target.id] = ek
            n = len(state)
            hdr = pad + f"let {self.tuple_of(state, env) if n > 1 else lname(state[0])} := ({it_code}).foldl (fun (st : {self.tuple_type(state, env)}) ({lname(s.target.id)} : {LEAN_TYPES[ek]}) =>\n"
            unpack = "".join("  " * (ind + 2) + f"let {lname(v)} := {self.proj(j, n)}\n" for j, v in enumerate(state))
            body = self.block(s.body, env_in, ind + 2, tail=lambda e_: self.tuple_of(state, e_))
            return hdr + unpack + body + ") " + self.tuple_of(state, env) + "\n" + self.block(rest, env, ind, tail)
        if not (isinstance(s.target, ast.Name) and isinstance(s.iter, ast.Call) and ast.unparse(s.iter.func) == "range"
                and not s.orelse):
            raise Untranslatable("loop form")
        a = s.iter.args
        if len(a) == 1:
            n, k = self.expr(a[0], env, "N")
            rng = f"(List.range {self.cast(n, k, 'N')})"
        elif len(a) == 2:
            lo, kl = self.expr(a[0], env, "N")
            hi, kh = self.expr(a[1], env, "N")
            rng = f"(rangeFrom {self.cast(lo, kl, 'N')} {self.cast(hi, kh, 'N')})"
        else:
            raise Untranslatable("range with a step")
        for n_ in ast.walk(s):
            if isinstance(n_, (ast.Return, ast.Raise)):
                raise Untranslatable("return / raise inside a loop")
        has_brk = self.own_transfer(s.body, ast.Break)
        brk = None
        if has_brk:
            brk = f"brk{len(self.loops)}_"
            env = dict(env)
            env[brk] = "B"
        state = [v for v in self.assigned(s.body) if v in env] + ([brk] if brk else [])
        local = [v for v in self.assigned(s.body) if v not in env]
        used_after = {n.id for r in rest for n in ast.walk(r) if isinstance(n, ast.Name)}
        for v in local:
            if v in used_after and v not in self.assigned(rest[:1] if False else []):
                # a loop-local that is read after the loop without being re-assigned first would need a pre-loop value
                if not self.reassigned_before_use(v, rest):
                    raise Untranslatable(f"loop-local variable {v} is read after the loop")
        if not state:
            raise Untranslatable("loop without state")
        i = lname(s.target.id)
        env_in = dict(env)
        env_in[s.target.id] = "N"
        n = len(state)
        hdr = (pad + f"let {brk} : Bool := false\n" if brk else "")
        hdr += pad + f"let {self.tuple_of(state, env) if n > 1 else lname(state[0])} := {rng}.foldl (fun (st : {self.tuple_type(state, env)}) ({i} : Nat) =>\n"
        unpack = "".join("  " * (ind + 2) + f"let {lname(v)} := {self.proj(j, n)}\n" for j, v in enumerate(state))
        self.loops.append({"brk": brk, "state": state})
        try:
            if brk:
                body = ("  " * (ind + 2) + f"if {brk} then {self.tuple_of(state, env_in)} else\n"
                        + self.block(s.body, env_in, ind + 3, tail=lambda e_: self.tuple_of(state, e_)))
            else:
                body = self.block(s.body, env_in, ind + 2, tail=lambda e_: self.tuple_of(state, e_))
        finally:
            self.loops.pop()
        ftr = ") " + self.tuple_of(state, env) + "\n"
        return hdr + unpack + body + ftr + self.block(rest, env, ind, tail)

    @staticmethod
    def own_transfer(stmts, kind):
        """does the loop body contain a `break` / `continue` of its own (not one of a nested loop)?"""
        for st in stmts:
            if isinstance(st, kind):
                return True
            if isinstance(st, ast.If) and (Fn.own_transfer(st.body, kind) or Fn.own_transfer(st.orelse, kind)):
                return True
        return False

    def reassigned_before_use(self, v, rest):
        for s in rest:
            reads = any(isinstance(n, ast.Name) and n.id == v and isinstance(n.ctx, ast.Load) for n in ast.walk(s))
            if isinstance(s, ast.Assign) and any(isinstance(t, ast.Name) and t.id == v for t in s.targets):
                return not any(isinstance(n, ast.Name) and n.id == v for n in ast.walk(s.value))
            if isinstance(s, ast.For) and v in self.assigned(s.body):
                return True          # becomes a fresh loop-local there
            if reads:
                return False
        return True

    def ifstmt(self, s, rest, env, ind, tail):
        pad = "  " * ind
        c = self.cond(s.test, env)
        rb, ro = self.returns(s.body), self.returns(s.orelse) if s.orelse else False
        if rb and ro:
            if rest:
                raise Untranslatable("code after an if whose branches both return")
            return (pad + f"if {c} then\n" + self.block(s.body, env, ind + 1, None) + "\n" + pad + "else\n"
                    + self.block(s.orelse, env, ind + 1, None))
        if rb and not s.orelse:
            return (pad + f"if {c} then\n" + self.block(s.body, env, ind + 1, None) + "\n" + pad + "else\n"
                    + self.block(rest, env, ind + 1, tail))
        if rb or ro:
            # one branch returns, the other continues into `rest`
            if rb:
                return (pad + f"if {c} then\n" + self.block(s.body, env, ind + 1, None) + "\n" + pad + "else\n"
                        + self.block(list(s.orelse) + list(rest), env, ind + 1, tail))
            return (pad + f"if {c} then\n" + self.block(list(s.body) + list(rest), env, ind + 1, tail) + "\n" + pad
                    + "else\n" + self.block(s.orelse, env, ind + 1, None))
        # neither returns: join on the variables either branch assigns
        vs = self.assigned(list(s.body) + list(s.orelse))
        # kinds of variables first defined inside the branches: translate the body once to learn them
        env_b = self.kinds_after(s.body, env)
        env_o = self.kinds_after(s.orelse, env) if s.orelse else dict(env)
        used_after = {n.id for r in rest for n in ast.walk(r) if isinstance(n, ast.Name)}
        if tail is not None:
            used_after |= set(env)             # an enclosing join may mention any live variable
        join = [v for v in vs if (v in env or (v in env_b and v in env_o)) and (v in used_after or v in env or tail is not None)]
        if not join:
            raise Untranslatable("if without effect")
        env2 = dict(env)
        for v in join:
            kb, ko = env_b.get(v, env.get(v)), env_o.get(v, env.get(v))
            if kb != ko:
                raise Untranslatable(f"variable {v} has kinds {kb} / {ko} in the two branches")
            env2[v] = kb
        t = lambda e_: self.tuple_of(join, e_)   # noqa: E731
        out = pad + f"let {self.tuple_of(join, env2)} := (\n"
        out += pad + f"  if {c} then\n" + self.block(s.body, env, ind + 2, t) + "\n"
        out += pad + "  else\n" + self.block(s.orelse, env, ind + 2, t) + ")\n"
        return out + self.block(rest, env2, ind, tail)

    def kinds_after(self, stmts, env):
        """environment after a straight-line statement list (only what `block` itself would compute)"""
        env = dict(env)
        for s in stmts:
            if isinstance(s, ast.Assign) and len(s.targets) == 1 and isinstance(s.targets[0], ast.Name):
                try:
                    _, k = self.expr(s.value, env, env.get(s.targets[0].id, "S"))
                except Untranslatable:
                    raise
                if s.targets[0].id not in env:
                    if k == "N":
                        k = "S"
                    env[s.targets[0].id] = k
            elif isinstance(s, ast.If):
                eb = self.kinds_after(s.body, env)
                eo = self.kinds_after(s.orelse, env)
                for v in eb:
                    if v in eo and v not in env:
                        env[v] = eb[v]
            elif isinstance(s, ast.For):
                pass
        return env

    # ---------------------------------------------------------------- function
    def translate(self, lean_name):
        node = self.node
        args = [a.arg for a in node.args.args]
        env = {}
        for a in args:
            k = FN_ARG_KINDS.get(node.name, {}).get(a, ARG_KINDS.get(a))
            if k is None:
                raise Untranslatable(f"argument {a} of unknown kind")
            env[a] = k
        self.ret_kind = "S"
        for n_ in ast.walk(node):
            if isinstance(n_, (ast.Assign, ast.AugAssign)):
                for t in (n_.targets if isinstance(n_, ast.Assign) else [n_.target]):
                    if isinstance(t, ast.Subscript) and isinstance(t.value, ast.Name) and t.value.id in args \
                            and t.value.id not in self.mutated:
                        self.mutated.append(t.value.id)
        body = self.block(list(node.body), env, 1, None)
        rk = self.ret_kind
        rt = self.kind_type(rk)
        if self.partial:
            rt = f"Option ({rt})"
        params = ""
        if self.uses_T:
            params += " (T : Transc α)"
        if self.uses_pi:
            params += " (pi : α)"
        if self.uses_inf:
            params += " (infv : α)"
        for a in args:
            params += f" ({lname(a)} : {LEAN_TYPES[env[a]]})"
        code = f"def {lean_name}{params} : {rt} :=\n{body}\n"
        return code, [env[a] for a in args], rk

    def kind_type(self, k):
        if isinstance(k, tuple):
            return " × ".join(self.kind_type(x) if " " not in self.kind_type(x) else f"({self.kind_type(x)})" for x in k)
        return LEAN_TYPES[k]


PRELUDE = """/- GENERATED from the source text of {src} in the live /repo by harness/translate.py — do not edit.
   One Lean definition per numba kernel, obtained by a purely syntactic translation of the function's AST
   (loops -> folds over `List.range`, `x[i]` -> `x.getD i 0`, `e ** 2` -> `sq e`, float literals -> exact decimal
   fractions).  `UmapProps/{props}` proves each of them equal to the hand-written model the property theorems
   are about; a change to the source changes this file and that proof is re-checked. -/
import UmapModel.Scalar

set_option linter.unusedVariables false

namespace Umap
namespace {ns}

section
variable {{α : Type}} [Add α] [Sub α] [Mul α] [Div α] [Neg α] [LT α] [LE α]
  [DecidableLT α] [DecidableLE α] [OfNat α 0] [OfNat α 1] [NatCast α]{extra_vars}

/-- `e ** 2` -/
def sq (a : α) : α := a * a
/-- `e ** 3` -/
def cube (a : α) : α := a * a * a
/-- a Python bool used as a number -/
def b2s (b : Bool) : α := if b then 1 else 0
/-- `range(lo, hi)` -/
def rangeFrom (lo hi : Nat) : List Nat := (List.range (hi - lo)).map (lo + ·)
{extra_defs}
"""

SPARSE_DEFS = """/-- `while c: body` with explicit fuel (the translator supplies the sum of the lengths the condition mentions + 1);
    when the fuel runs out the current state is returned -/
def whileN {σ : Type} : Nat → (σ → Bool) → (σ → σ) → σ → σ
  | 0, _, _, s => s
  | n + 1, c, f, s => if c s then whileN n c f (f s) else s
/-- `np.sort` on an index array (contract: ascending, stable) -/
def sortN (l : List Nat) : List Nat := l.mergeSort (fun a b => decide (a ≤ b))
/-- boolean-mask indexing `a[flag]` (contract: the entries whose flag is set, in order) -/
def maskSel {β : Type} (a : List β) (flag : List Bool) : List β := ((a.zip flag).filter (·.2)).map (·.1)
"""


def camel(name):
    parts = name.lstrip("_").split("_")
    return parts[0] + "".join(p[:1].upper() + p[1:] for p in parts[1:])


def translate_module(source, names, src_label, ns, props, extra_vars="", extra_defs=""):
    """returns (lean text, report) where report maps function name -> 'ok' | reason"""
    tree = ast.parse(source)
    fns = {n.name: n for n in tree.body if isinstance(n, ast.FunctionDef)}
    consts = {}
    for n in tree.body:          # module-level numeric constants (SMOOTH_K_TOLERANCE = 1e-5, NPY_INFINITY = np.inf, ...)
        if isinstance(n, ast.Assign) and len(n.targets) == 1 and isinstance(n.targets[0], ast.Name):
            if isinstance(n.value, ast.Constant) and isinstance(n.value.value, (int, float)) and not isinstance(n.value.value, bool):
                consts[n.targets[0].id] = n.value.value
            elif ast.unparse(n.value) in ("np.inf", "numpy.inf", "float('inf')", 'float("inf")'):
                consts[n.targets[0].id] = "inf"
    out = [PRELUDE.format(src=src_label, ns=ns, props=props, extra_vars=extra_vars, extra_defs=extra_defs)]
    known, report, meta = {}, {}, {}
    for name in names:
        if name not in fns:
            report[name] = "not found in the module"
            out.append(f"-- {name}: not found in {src_label}\n")
            continue
        lean_name = camel(name)
        fn = Fn(fns[name], known)
        fn.consts = consts
        try:
            code, akinds, rk = fn.translate(lean_name)
        except Untranslatable as e:
            report[name] = f"untranslatable: {e}"
            out.append(f"-- {name}: outside the translated fragment ({e})\n")
            continue
        except Exception as e:  # noqa
            report[name] = f"translator error: {type(e).__name__}: {e}"
            out.append(f"-- {name}: translator error ({type(e).__name__})\n")
            continue
        known[name] = (lean_name, akinds, rk, fn.uses_T, fn.uses_pi, fn.uses_inf)
        meta[name] = (lean_name, akinds, rk, fn.uses_T, fn.uses_pi, fn.partial, fn.uses_inf)
        report[name] = "ok"
        lines = inspect.cleandoc(ast.get_docstring(fns[name]) or "").split("\n")[0]
        out.append(f"/-- `{name}` ({src_label}:{fns[name].lineno}) -/\n" + code)
    out.append(f"end\nend {ns}\nend Umap\n")
    report["__meta__"] = meta
    return "\n".join(out), report


DIST_FUNCS = [
    "sign", "euclidean", "standardised_euclidean", "manhattan", "chebyshev", "minkowski", "weighted_minkowski",
    "mahalanobis", "hamming", "canberra", "bray_curtis", "jaccard", "matching", "dice", "kulsinski",
    "rogers_tanimoto", "russellrao", "sokal_michener", "sokal_sneath", "haversine", "yule", "cosine", "correlation",
    "hellinger", "poincare", "approx_log_Gamma", "log_beta", "log_single_beta", "ll_dirichlet", "symmetric_kl",
]
GRAD_FUNCS = [
    "euclidean_grad", "standardised_euclidean_grad", "manhattan_grad", "chebyshev_grad", "minkowski_grad",
    "weighted_minkowski_grad", "mahalanobis_grad", "canberra_grad", "bray_curtis_grad", "cosine_grad",
    "correlation_grad", "hellinger_grad", "haversine_grad", "hyperboloid_grad", "symmetric_kl_grad",
    "spherical_gaussian_energy_grad", "diagonal_gaussian_energy_grad",
]


RUN_COMMON = """/- GENERATED by harness/translate.py — do not edit.  Argument / result encoding shared by the dispatch tables that run
   the translated kernels at `Float` (srcdrv). -/
import UmapModel.Scalar

namespace Umap
namespace SrcRun

instance : IntCast Float := ⟨Float.ofInt⟩

inductive Arg where
  | s : Float → Arg
  | v : List Float → Arg
  | m : List (List Float) → Arg
  | n : Nat → Arg
  | i : List Nat → Arg
  | im : List (List Nat) → Arg
  | z : List Int → Arg
  | zm : List (List Int) → Arg
  | b : Bool → Arg

def fb (x : Float) : String := toString x.toBits.toNat
def outS (x : Float) : List String := [fb x]
def outSV (p : Float × List Float) : List String := fb p.1 :: p.2.map fb
def outV (l : List Float) : List String := l.map fb
def outZZVV (p : List Int × List Int × List Float × List Float) : List String :=
  ("ints" :: p.1.map toString) ++ ("ints" :: p.2.1.map toString) ++ ("vals" :: p.2.2.1.map fb) ++ ("vals" :: p.2.2.2.map fb)
def outM (m : List (List Float)) : List String := m.flatten.map fb
def infF : Float := 1.0 / 0.0
def outI (l : List Nat) : List String := "idx" :: l.map toString
def outIV (p : List Nat × List Float) : List String := ("idx" :: p.1.map toString) ++ ("val" :: p.2.map fb)
def outO {β} (f : β → List String) : Option β → List String
  | some b => f b
  | none => ["none"]
def piF : Float := 3.141592653589793

end SrcRun
end Umap
"""

RUN_PRELUDE = """/- GENERATED by harness/translate.py — do not edit.  Dispatch table that runs the translated kernels of
   Generated/{mod}.lean at `Float`, used by `srcdrv` to validate the *translator* against the Python functions
   themselves (`.py_func`) on every run. -/
import Generated.RunCommon
import Generated.{mod}

namespace Umap
namespace SrcRun

def {fn} (name : String) (a : List Arg) : List String :=
  match name, a with
"""


def run_table(known, mod="DistSrc", ns="Src", fn="run"):
    """Lean text of the dispatch table for the translated functions (`known` as built by translate_module)"""
    out = [RUN_PRELUDE.format(mod=mod, fn=fn)]
    tag = {"S": "s", "V": "v", "M": "m", "N": "n", "NV": "i", "NM": "im", "ZV": "z", "ZM": "zm", "B": "b"}
    outs = {"S": "outS", ("S", "V"): "outSV", "NV": "outI", ("NV", "V"): "outIV", "V": "outV", "M": "outM",
            ("ZV", "ZV", "V", "V"): "outZZVV"}
    for name, (lean, akinds, rk, usesT, usesPi, partial, usesInf) in known.items():
        if any(k not in tag for k in akinds) or rk not in outs:
            continue
        o = outs[rk]
        pats = ", ".join(f".{tag[k]} a{i}" for i, k in enumerate(akinds))
        call = (f"{ns}.{lean}" + (" floatT" if usesT else "") + (" piF" if usesPi else "") + (" infF" if usesInf else "")
                + "".join(f" a{i}" for i in range(len(akinds))))
        res = f"outO {o} ({call})" if partial else f"{o} ({call})"
        out.append(f'  | "{name}", [{pats}] => {res}')
    out.append('  | _, _ => ["bad-op"]\n\nend SrcRun\nend Umap\n')
    return "\n".join(out)


SPARSE_FUNCS = [
    "norm", "arr_unique", "arr_union", "arr_intersect", "sparse_sum", "sparse_diff", "sparse_mul",
    "sparse_euclidean", "sparse_manhattan", "sparse_chebyshev", "sparse_minkowski", "sparse_hamming", "sparse_canberra",
    "sparse_bray_curtis", "sparse_jaccard", "sparse_matching", "sparse_dice", "sparse_kulsinski", "sparse_rogers_tanimoto",
    "sparse_russellrao", "sparse_sokal_michener", "sparse_sokal_sneath", "sparse_cosine", "sparse_hellinger",
    "sparse_correlation", "approx_log_Gamma", "log_beta", "log_single_beta", "sparse_ll_dirichlet",
]


def sparse_source():
    import umap.sparse as S
    import umap.utils as U
    return inspect.getsource(U.norm.py_func) + "\n\n" + inspect.getsource(S)


def regen_sparse_src(lean_dir, write_if_changed):
    import os
    text, rep = translate_module(sparse_source(), SPARSE_FUNCS, "umap/sparse.py", "SrcSparse", "C13Src*.lean",
                                 extra_vars=" [IntCast α]", extra_defs=SPARSE_DEFS)
    meta = rep.pop("__meta__")
    changed = write_if_changed(os.path.join(lean_dir, "Generated", "SparseSrc.lean"), text)
    changed |= write_if_changed(os.path.join(lean_dir, "Generated", "RunCommon.lean"), RUN_COMMON)
    changed |= write_if_changed(os.path.join(lean_dir, "Generated", "SparseSrcRun.lean"),
                                run_table(meta, "SparseSrc", "SrcSparse", "runSparse"))
    return changed, rep


UMAP_FUNCS = ["_finite_mean", "fast_intersection", "reprocess_row", "init_transform", "init_update", "compute_membership_strengths"]


def regen_umap_src(lean_dir, write_if_changed):
    import os
    import umap.umap_ as U
    text, rep = translate_module(inspect.getsource(U), UMAP_FUNCS, "umap/umap_.py", "SrcUmap", "C01Src / C10Src / C11Src / C16Src / C18Src")
    meta = rep.pop("__meta__")
    ch = write_if_changed(os.path.join(lean_dir, "Generated", "UmapSrc.lean"), text)
    ch |= write_if_changed(os.path.join(lean_dir, "Generated", "RunCommon.lean"), RUN_COMMON)
    ch |= write_if_changed(os.path.join(lean_dir, "Generated", "UmapSrcRun.lean"), run_table(meta, "UmapSrc", "SrcUmap", "runUmap"))
    return ch, rep


UTILS_FUNCS = ["tau_rand_int"]


def regen_utils_src(lean_dir, write_if_changed):
    import os
    import umap.utils as Ut
    text, rep = translate_module(inspect.getsource(Ut), UTILS_FUNCS, "umap/utils.py", "SrcUtils", "C07Src.lean")
    rep.pop("__meta__")
    return write_if_changed(os.path.join(lean_dir, "Generated", "UtilsSrc.lean"), text), rep


LAYOUT_FUNCS = ["clip", "rdist"]


def regen_layout_src(lean_dir, write_if_changed):
    import os
    import umap.layouts as L
    text, rep = translate_module(inspect.getsource(L), LAYOUT_FUNCS, "umap/layouts.py", "SrcLayout", "C07Src.lean")
    meta = rep.pop("__meta__")
    ch = write_if_changed(os.path.join(lean_dir, "Generated", "LayoutSrc.lean"), text)
    ch |= write_if_changed(os.path.join(lean_dir, "Generated", "LayoutSrcRun.lean"),
                           run_table(meta, "LayoutSrc", "SrcLayout", "runLayout"))
    return ch, rep


def regen_dist_src(lean_dir, write_if_changed):
    import os
    import umap.distances as D
    src = inspect.getsource(D)
    text, rep = translate_module(src, DIST_FUNCS + GRAD_FUNCS, "umap/distances.py", "Src", "C12Src.lean / C14Src.lean")
    meta = rep.pop("__meta__")
    changed = write_if_changed(os.path.join(lean_dir, "Generated", "DistSrc.lean"), text)
    changed |= write_if_changed(os.path.join(lean_dir, "Generated", "RunCommon.lean"), RUN_COMMON)
    changed |= write_if_changed(os.path.join(lean_dir, "Generated", "DistSrcRun.lean"), run_table(meta))
    return changed, rep


if __name__ == "__main__":
    import sys
    if len(sys.argv) > 1 and sys.argv[1] == "umap":
        import umap.umap_ as U
        text, rep = translate_module(inspect.getsource(U), UMAP_FUNCS, "umap/umap_.py", "SrcUmap", "UmapSrcProofs")
        sys.stdout.write(text)
        rep.pop("__meta__")
        for k, v in rep.items():
            sys.stderr.write(f"{k}: {v}\n")
        sys.exit(0)
    if len(sys.argv) > 1 and sys.argv[1] == "sparse":
        text, rep = translate_module(sparse_source(), SPARSE_FUNCS, "umap/sparse.py", "SrcSparse", "C13Src*.lean",
                                     extra_vars=" [IntCast α]", extra_defs=SPARSE_DEFS)
        sys.stdout.write(text)
        rep.pop("__meta__")
        for k, v in rep.items():
            sys.stderr.write(f"{k}: {v}\n")
        sys.exit(0)
    import umap.distances as D
    text, rep = translate_module(inspect.getsource(D), DIST_FUNCS + GRAD_FUNCS, "umap/distances.py", "Src", "C12Src.lean")
    sys.stdout.write(text)
    rep.pop("__meta__")
    for k, v in rep.items():
        sys.stderr.write(f"{k}: {v}\n")
