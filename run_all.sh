#!/bin/bash
# run every check (quick by default) on the current tree; usage: run_all.sh [quick|thorough] [ids...]
tier=${1:-quick}; shift
ids=${@:-C01 C02 C03 C04 C05 C06 C07 C08 C09 C10 C11 C12 C13 C14 C15 C16 C17 C18 C19 C20}
cd "$(dirname "$0")"
for p in $ids; do /usr/bin/time -f "$p %es" ./check $p --tier $tier 2>&1 | grep -v "^KNOWN" | tail -2; done
