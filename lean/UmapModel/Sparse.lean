/-
  UmapModel.Sparse — merge-based sparse arithmetic and the sparse metrics
  (umap/sparse.py).  A sparse vector is a list of `(index, value)` pairs with strictly
  increasing indices (canonical CSR row: sorted, no stored zeros).
-/
import UmapModel.Scalar
import UmapModel.Metrics

namespace Umap
namespace Sparse

abbrev SVec (α : Type) := List (Nat × α)

section
variable {α : Type} [Add α] [Sub α] [Mul α] [Div α] [Neg α] [LT α] [LE α]
  [DecidableLT α] [DecidableLE α] [OfNat α 0] [OfNat α 1] [NatCast α]

def isZ (x : α) : Bool := eqV x 0

/-- three-way merge applying `f` on common indices, `g1` / `g2` on one-sided ones; results that
    are exactly zero are dropped (`sparse_sum`, and with other arguments `sparse_mul`). -/
def merge (f : α → α → Option α) (g1 g2 : α → Option α) : SVec α → SVec α → SVec α
  | [], [] => []
  | (i, a) :: t, [] =>
      (match g1 a with | some v => [(i, v)] | none => []) ++ merge f g1 g2 t []
  | [], (j, b) :: u =>
      (match g2 b with | some v => [(j, v)] | none => []) ++ merge f g1 g2 [] u
  | (i, a) :: t, (j, b) :: u =>
    if i = j then
      (match f a b with | some v => [(i, v)] | none => []) ++ merge f g1 g2 t u
    else if i < j then
      (match g1 a with | some v => [(i, v)] | none => []) ++ merge f g1 g2 t ((j, b) :: u)
    else
      (match g2 b with | some v => [(j, v)] | none => []) ++ merge f g1 g2 ((i, a) :: t) u
termination_by x y => x.length + y.length

def keepNZ (v : α) : Option α := if isZ v then none else some v

def sparseSum (x y : SVec α) : SVec α := merge (fun a b => keepNZ (a + b)) keepNZ keepNZ x y
def sparseDiff (x y : SVec α) : SVec α := sparseSum x (y.map (fun p => (p.1, -p.2)))
def sparseMul (x y : SVec α) : SVec α :=
  merge (fun a b => keepNZ (a * b)) (fun _ => none) (fun _ => none) x y

/-- `arr_union(ind1, ind2).shape[0]` and `arr_intersect(ind1, ind2).shape[0]`. -/
def unionSize (x y : SVec α) : Nat :=
  (merge (fun _ _ => some (1 : α)) (fun _ => some 1) (fun _ => some 1) x y).length
def interSize (x y : SVec α) : Nat :=
  (merge (fun _ _ => some (1 : α)) (fun _ => none) (fun _ => none) x y).length

def vals (x : SVec α) : List α := x.map (·.2)

def toDense (n : Nat) (x : SVec α) : List α :=
  (List.range n).map (fun i => match x.find? (·.1 == i) with | some p => p.2 | none => 0)

/-! ### metrics -/

def sEuclidean (T : Transc α) (x y : SVec α) : α :=
  T.sqrt (sumL ((vals (sparseDiff x y)).map (fun d => d * d)))
def sManhattan (x y : SVec α) : α := sumL ((vals (sparseDiff x y)).map absV)
def sChebyshev (x y : SVec α) : α := maxL 0 ((vals (sparseDiff x y)).map absV)
def sMinkowski (T : Transc α) (p : α) (x y : SVec α) : α :=
  T.pow (sumL ((vals (sparseDiff x y)).map (fun d => T.pow (absV d) p))) (1 / p)
def sHamming (n : Nat) (x y : SVec α) : α := Metrics.rat (sparseDiff x y).length n

def sCanberra (x y : SVec α) : α :=
  let ax := x.map (fun p => (p.1, absV p.2))
  let ay := y.map (fun p => (p.1, absV p.2))
  let den := (sparseSum ax ay).map (fun p => (p.1, 1 / p.2))
  let num := (sparseDiff x y).map (fun p => (p.1, absV p.2))
  sumL (vals (sparseMul num den))

def sBrayCurtis (x y : SVec α) : α :=
  let den := (vals (sparseSum x y)).map absV
  if den.length = 0 then 0 else
  let d := sumL den
  if isZ d then 0 else sumL ((vals (sparseDiff x y)).map absV) / d

def sCounts (n : Nat) (x y : SVec α) : Metrics.Counts :=
  let tt := interSize x y
  { n := n, tt := tt, tf := x.length - tt, ft := y.length - tt }

def sJaccard (x y : SVec α) : α := Metrics.jaccardC (sCounts 0 x y)
def sMatching (n : Nat) (x y : SVec α) : α := Metrics.matchingC (sCounts n x y)
def sDice (x y : SVec α) : α := Metrics.diceC (sCounts 0 x y)
def sKulsinski (n : Nat) (x y : SVec α) : α := Metrics.kulsinskiC (sCounts n x y)
def sRogersTanimoto (n : Nat) (x y : SVec α) : α := Metrics.rogersTanimotoC (sCounts n x y)
def sSokalMichener (n : Nat) (x y : SVec α) : α := Metrics.sokalMichenerC (sCounts n x y)
def sSokalSneath (x y : SVec α) : α := Metrics.sokalSneathC (sCounts 0 x y)

def sRussellRao (n : Nat) (x y : SVec α) : α :=
  if x.map (·.1) = y.map (·.1) then 0 else
  let tt := interSize x y
  let nz1 := (vals x).countP (fun v => !isZ v)
  let nz2 := (vals y).countP (fun v => !isZ v)
  if tt = nz1 ∧ tt = nz2 then 0 else Metrics.rat (n - tt) n

def sCosine (T : Transc α) (x y : SVec α) : α :=
  let r := sumL (vals (sparseMul x y))
  let n1 := T.sqrt (sumL ((vals x).map (fun v => v * v)))
  let n2 := T.sqrt (sumL ((vals y).map (fun v => v * v)))
  if isZ n1 && isZ n2 then 0
  else if isZ n1 || isZ n2 then 1
  else 1 - r / (n1 * n2)

def sHellinger (T : Transc α) (x y : SVec α) : α :=
  let r := sumL ((vals (sparseMul x y)).map T.sqrt)
  let n1 := sumL (vals x)
  let n2 := sumL (vals y)
  let snp := T.sqrt (n1 * n2)
  if isZ n1 && isZ n2 then 0
  else if isZ n1 || isZ n2 then 1
  else if snp < r then 0
  else T.sqrt (1 - r / snp)

/-- `sparse_correlation` as repaired: common indices come from the index intersection. -/
def sCorrelation (T : Transc α) (n : Nat) (x y : SVec α) : α :=
  if x.length = 0 ∧ y.length = 0 then 0 else
  let mx := sumL (vals x) / (n : α)
  let my := sumL (vals y) / (n : α)
  let sx := x.map (fun p => (p.1, p.2 - mx))
  let sy := y.map (fun p => (p.1, p.2 - my))
  let norm1 := T.sqrt (sumL ((vals sx).map (fun v => v * v)) + ((n - x.length : Nat) : α) * (mx * mx))
  let norm2 := T.sqrt (sumL ((vals sy).map (fun v => v * v)) + ((n - y.length : Nat) : α) * (my * my))
  let common := fun (i : Nat) => x.any (·.1 == i) && y.any (·.1 == i)
  let dp0 := sumL (vals (sparseMul sx sy))
  let dp1 := sx.foldl (fun acc p => if common p.1 then acc else acc - p.2 * my) dp0
  let dp2 := sy.foldl (fun acc p => if common p.1 then acc else acc - p.2 * mx) dp1
  let dp := dp2 + mx * my * ((n - unionSize x y : Nat) : α)
  if isZ norm1 && isZ norm2 then 0
  else if isZ dp then 1
  else 1 - dp / (norm1 * norm2)

def sLlDirichlet (T : Transc α) (pi big : α) (x y : SVec α) : α :=
  let n1 := sumL (vals x)
  let n2 := sumL (vals y)
  if isZ n1 && isZ n2 then 0
  else if isZ n1 || isZ n2 then big
  else
    let lb := sumL ((merge (fun a b => if isZ (a * b) then none else some (Metrics.logBeta T pi a b))
                      (fun _ => none) (fun _ => none) x y).map (·.2))
    let sd1 := sumL ((vals x).map (Metrics.logSingleBeta T pi))
    let sd2 := sumL ((vals y).map (Metrics.logSingleBeta T pi))
    let v := 1 / n2 * (lb - Metrics.logBeta T pi n1 n2 - (sd2 - Metrics.logSingleBeta T pi n2))
           + 1 / n1 * (lb - Metrics.logBeta T pi n2 n1 - (sd1 - Metrics.logSingleBeta T pi n1))
    T.sqrt (maxV 0 v)

end
end Sparse
end Umap
