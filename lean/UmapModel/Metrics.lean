/-
  UmapModel.Metrics — the dense metrics behind `umap.distances.named_distances`
  (the discrete target-only metrics excepted), with the code's conventions for all-zero
  vectors.  Vectors are `List α` of equal length.
-/
import UmapModel.Scalar

namespace Umap
namespace Metrics

section
variable {α : Type} [Add α] [Sub α] [Mul α] [Div α] [Neg α] [LT α] [LE α]
  [DecidableLT α] [DecidableLE α] [OfNat α 0] [OfNat α 1] [NatCast α]

def two : α := ((2 : Nat) : α)

/-- `x[i] != 0` -/
def nzB (x : α) : Bool := !(eqV x 0)

def diffs (x y : List α) : List α := (x.zip y).map (fun p => p.1 - p.2)

/-! ### Minkowski family -/

def euclidean (T : Transc α) (x y : List α) : α :=
  T.sqrt (sumL ((diffs x y).map (fun d => d * d)))

def manhattan (x y : List α) : α := sumL ((diffs x y).map absV)

def chebyshev (x y : List α) : α := maxL 0 ((diffs x y).map absV)

def minkowski (T : Transc α) (p : α) (x y : List α) : α :=
  T.pow (sumL ((diffs x y).map (fun d => T.pow (absV d) p))) (1 / p)

def seuclidean (T : Transc α) (sigma : List α) (x y : List α) : α :=
  T.sqrt (sumL (((diffs x y).zip sigma).map (fun p => (p.1 * p.1) / p.2)))

def wminkowski (T : Transc α) (w : List α) (p : α) (x y : List α) : α :=
  T.pow (sumL (((diffs x y).zip w).map (fun q => q.2 * T.pow (absV q.1) p))) (1 / p)

/-- `vinv` row-major. -/
def mahalanobis (T : Transc α) (vinv : List (List α)) (x y : List α) : α :=
  let d := diffs x y
  T.sqrt (sumL ((vinv.zip d).map (fun rd => sumL ((rd.1.zip d).map (fun q => q.1 * q.2)) * rd.2)))

/-! ### other real-valued metrics -/

def canberra (x y : List α) : α :=
  sumL ((x.zip y).map (fun p =>
    let den := absV p.1 + absV p.2
    if 0 < den then absV (p.1 - p.2) / den else 0))

def brayCurtis (x y : List α) : α :=
  let num := sumL ((x.zip y).map (fun p => absV (p.1 - p.2)))
  let den := sumL ((x.zip y).map (fun p => absV (p.1 + p.2)))
  if 0 < den then num / den else 0

def dot (x y : List α) : α := sumL ((x.zip y).map (fun p => p.1 * p.2))

def cosine (T : Transc α) (x y : List α) : α :=
  let r := dot x y
  let nx := dot x x
  let ny := dot y y
  if eqV nx 0 && eqV ny 0 then 0
  else if eqV nx 0 || eqV ny 0 then 1
  else 1 - r / T.sqrt (nx * ny)

def mean (x : List α) : α := sumL x / (x.length : α)

def correlation (T : Transc α) (x y : List α) : α :=
  let mx := mean x
  let my := sumL y / (x.length : α)
  let sx := x.map (· - mx)
  let sy := y.map (· - my)
  let nx := dot sx sx
  let ny := dot sy sy
  let dp := dot sx sy
  if eqV nx 0 && eqV ny 0 then 0
  else if eqV dp 0 then 1
  else 1 - dp / T.sqrt (nx * ny)

def hellinger (T : Transc α) (x y : List α) : α :=
  let r := sumL ((x.zip y).map (fun p => T.sqrt (p.1 * p.2)))
  let lx := sumL x
  let ly := sumL y
  if eqV lx 0 && eqV ly 0 then 0
  else if eqV lx 0 || eqV ly 0 then 1
  else T.sqrt (maxV 0 (1 - r / T.sqrt (lx * ly)))

/-- only defined for 2-d data (`ValueError` otherwise): `none`. -/
def haversine (T : Transc α) (x y : List α) : Option α :=
  match x, y with
  | [x0, x1], [y0, y1] =>
    let half : α := 1 / two
    let sLat := T.sin (half * (x0 - y0))
    let sLong := T.sin (half * (x1 - y1))
    some (two * T.asin (T.sqrt (sLat * sLat + T.cos x0 * T.cos y0 * (sLong * sLong))))
  | _, _ => none

def poincare (T : Transc α) (u v : List α) : α :=
  let su := dot u u
  let sv := dot v v
  let sd := sumL ((diffs u v).map (fun d => d * d))
  T.acosh (1 + two * (sd / ((1 - su) * (1 - sv))))

/-- `symmetric_kl(x, y, z)`: symmetrised KL divergence of the smoothed, normalised vectors. -/
def symmetricKl (T : Transc α) (z : α) (x y : List α) : α :=
  let xs := sumL (x.map (· + z))
  let ys := sumL (y.map (· + z))
  let terms := (x.zip y).map (fun p =>
    let px := (p.1 + z) / xs
    let py := (p.2 + z) / ys
    (px * T.log (px / py), py * T.log (py / px)))
  (sumL (terms.map (·.1)) + sumL (terms.map (·.2))) / two

/-! ### ll_dirichlet -/

def approxLogGamma (T : Transc α) (pi : α) (x : α) : α :=
  if eqV x 1 then 0
  else x * T.log x - x + (1 / two) * T.log (two * pi / x) + 1 / (x * ((12 : Nat) : α))

def logBeta (T : Transc α) (pi : α) (x y : α) : α :=
  let a := minV x y
  let b := maxV x y
  if b < ((5 : Nat) : α) then
    let n := (T.trunc a).toNat
    (List.range (n - 1)).foldl (fun v i =>
      v + (T.log (((i + 1 : Nat) : α)) - T.log (b + ((i + 1 : Nat) : α)))) (-(T.log b))
  else approxLogGamma T pi x + approxLogGamma T pi y - approxLogGamma T pi (x + y)

def logSingleBeta (T : Transc α) (pi : α) (x : α) : α :=
  T.log two * (-(two) * x + 1 / two) + (1 / two) * T.log (two * pi / x)
    + (1 / ((8 : Nat) : α)) / x

/-- `ll_dirichlet(data1, data2)` with the empty-vector conventions and the clamp at 0. -/
def llDirichlet (T : Transc α) (pi big : α) (d1 d2 : List α) : α :=
  let n1 := sumL d1
  let n2 := sumL d2
  if eqV n1 0 && eqV n2 0 then 0
  else if eqV n1 0 || eqV n2 0 then big
  else
    let thr : α := ((9 : Nat) : α) / ((10 : Nat) : α)
    let acc := (d1.zip d2).foldl (fun (acc : α × α × α) p =>
      if thr < p.1 * p.2 then
        (acc.1 + logBeta T pi p.1 p.2, acc.2.1 + logSingleBeta T pi p.1, acc.2.2 + logSingleBeta T pi p.2)
      else
        (acc.1, (if thr < p.1 then acc.2.1 + logSingleBeta T pi p.1 else acc.2.1),
                (if thr < p.2 then acc.2.2 + logSingleBeta T pi p.2 else acc.2.2))) (0, 0, 0)
    let lb := acc.1
    let v := 1 / n2 * (lb - logBeta T pi n1 n2 - (acc.2.2 - logSingleBeta T pi n2))
           + 1 / n1 * (lb - logBeta T pi n2 n1 - (acc.2.1 - logSingleBeta T pi n1))
    T.sqrt (maxV 0 v)

/-! ### binary metrics, through the three counts -/

structure Counts where
  n : Nat      -- length
  tt : Nat     -- both non-zero
  tf : Nat     -- only x non-zero
  ft : Nat     -- only y non-zero
  deriving DecidableEq, Repr

def counts (x y : List α) : Counts :=
  (x.zip y).foldl (fun (c : Counts) (p : α × α) =>
    match nzB p.1, nzB p.2 with
    | true, true => { c with tt := c.tt + 1 }
    | true, false => { c with tf := c.tf + 1 }
    | false, true => { c with ft := c.ft + 1 }
    | false, false => c) { n := x.length, tt := 0, tf := 0, ft := 0 }

def Counts.neq (c : Counts) : Nat := c.tf + c.ft

def rat (a b : Nat) : α := (a : α) / (b : α)

/-- hamming compares values, not supports: fraction of positions with `x[i] != y[i]`. -/
def hamming (x y : List α) : α :=
  rat ((x.zip y).countP (fun p => !(eqV p.1 p.2))) x.length

def jaccardC (c : Counts) : α :=
  let nnz := c.tt + c.tf + c.ft
  if nnz = 0 then 0 else rat (nnz - c.tt) nnz

def matchingC (c : Counts) : α := rat c.neq c.n

def diceC (c : Counts) : α :=
  if c.neq = 0 then 0 else rat c.neq (2 * c.tt + c.neq)

def kulsinskiC (c : Counts) : α :=
  -- `num_not_equal - num_true_true + n` is computed in floats by the code; `tt ≤ n`, so the
  -- reordered `Nat` expression below never truncates.
  if c.neq = 0 then 0 else rat (c.neq + c.n - c.tt) (c.neq + c.n)

def rogersTanimotoC (c : Counts) : α := rat (2 * c.neq) (c.n + c.neq)

def russellRaoC (c : Counts) : α :=
  -- `num_true_true == sum(x != 0) and num_true_true == sum(y != 0)`
  if c.tf = 0 ∧ c.ft = 0 then 0 else rat (c.n - c.tt) c.n

def sokalMichenerC (c : Counts) : α := rat (2 * c.neq) (c.n + c.neq)

def sokalSneathC (c : Counts) : α :=
  if c.neq = 0 then 0 else (c.neq : α) / ((1 / two) * (c.tt : α) + (c.neq : α))

def yuleC (c : Counts) : α :=
  let ff := c.n - c.tt - c.tf - c.ft
  if c.tf = 0 ∨ c.ft = 0 then 0
  else rat (2 * c.tf * c.ft) (c.tt * ff + c.tf * c.ft)

end
end Metrics
end Umap
