/-
  UmapModel.Rng — the Tausworthe generator (umap/utils.py `tau_rand_int`) on numba's int64
  semantics: the three state words are int64 (`BitVec 64`, two's complement; `>>` is the
  arithmetic shift), the result is truncated to int32 by the `i4(i8[:])` signature, and the
  negative-sample vertex is `result % n_vertices` with Python's floor-mod.
-/
namespace Umap
namespace Rng

abbrev Word := BitVec 64
abbrev RState := Word × Word × Word

def mask32 : Word := 0xFFFFFFFF#64

def step0 (s : Word) : Word :=
  (((s &&& 4294967294#64) <<< 12) &&& mask32) ^^^ ((((s <<< 13) &&& mask32) ^^^ s).sshiftRight 19)
def step1 (s : Word) : Word :=
  (((s &&& 4294967288#64) <<< 4) &&& mask32) ^^^ ((((s <<< 2) &&& mask32) ^^^ s).sshiftRight 25)
def step2 (s : Word) : Word :=
  (((s &&& 4294967280#64) <<< 17) &&& mask32) ^^^ ((((s <<< 3) &&& mask32) ^^^ s).sshiftRight 11)

/-- one draw: the new state and the int32 result (as a signed `Int`). -/
def tauRandInt (st : RState) : RState × Int :=
  let s0 := step0 st.1
  let s1 := step1 st.2.1
  let s2 := step2 st.2.2
  let r : Word := s0 ^^^ s1 ^^^ s2
  ((s0, s1, s2), (r.truncate 32 : BitVec 32).toInt)

/-- Python's `r % n` for `n > 0` (result in `[0, n)`). -/
def floorMod (r : Int) (n : Nat) : Nat := (r % (n : Int)).toNat

/-- the vertex drawn for a negative sample. -/
def drawVertex (st : RState) (nVertices : Nat) : RState × Nat :=
  let (st', r) := tauRandInt st
  (st', floorMod r nVertices)

/-- per-vertex state: `rng_state + bits(float64(head_embedding[v, 0]))` (int64 wrap-around). -/
def vertexState (rs : RState) (coordBits : Word) : RState :=
  (rs.1 + coordBits, rs.2.1 + coordBits, rs.2.2 + coordBits)

end Rng
end Umap
