/-
  UmapModel.Schedule — the scheduling stage that precedes the layout optimiser
  (umap/umap_.py, in `simplicial_set_embedding` and in `UMAP.transform`):

      graph.data[graph.data < (graph.data.max() / float(n_epochs))] = 0.0
      graph.eliminate_zeros()
      epochs_per_sample = make_epochs_per_sample(graph.data, n_epochs)

  `graph.data` is the flat array of edge weights, here a `List α`.  `make_epochs_per_sample`
  itself is `Sgd.makeEpochsPerSample`.  Generic in the scalar type, Mathlib-free.
-/
import UmapModel.Scalar
import UmapModel.Sgd

namespace Umap
namespace Schedule

section
variable {α : Type} [Add α] [Sub α] [Mul α] [Div α] [Neg α] [LT α] [LE α]
  [DecidableLT α] [DecidableLE α] [OfNat α 0] [OfNat α 1] [NatCast α] [Inhabited α]

/-- `graph.data.max()` / `weights.max()`: the running maximum, exactly as
    `Sgd.makeEpochsPerSample` computes it (started from the first entry). -/
def wmax (ws : List α) : α := maxL (ws.headD 0) ws

/-- `graph.data[graph.data < graph.data.max() / float(n)] = 0.0`. -/
def prune (n : Nat) (ws : List α) : List α :=
  let thr := wmax ws / (n : α)
  ws.map fun w => if w < thr then 0 else w

/-- `graph.eliminate_zeros()`: stored entries equal to `0` are dropped, order kept. -/
def eliminate (ws : List α) : List α := ws.filter fun w => !(eqV w 0)

/-- the scheduling stage: prune, eliminate, `make_epochs_per_sample`. -/
def schedule (n : Nat) (ws : List α) : List α :=
  Sgd.makeEpochsPerSample (eliminate (prune n ws)) n

/-- what results if the elimination is skipped (the zeroed entries stay stored). -/
def scheduleNoElim (n : Nat) (ws : List α) : List α :=
  Sgd.makeEpochsPerSample (prune n ws) n

end
end Schedule
end Umap
