/-
  UmapModel.Grad — the `*_grad` functions behind
  `umap.distances.named_distances_with_gradients`: each returns the distance and its gradient
  with respect to the first argument.  `eps` is the regularising constant the code adds to a
  denominator (1e-6 / 1e-8); at `eps = 0` the gradients are the exact derivatives.
-/
import UmapModel.Scalar
import UmapModel.Metrics

namespace Umap
namespace Grad
open Metrics

section
variable {α : Type} [Add α] [Sub α] [Mul α] [Div α] [Neg α] [LT α] [LE α]
  [DecidableLT α] [DecidableLE α] [OfNat α 0] [OfNat α 1] [NatCast α]

def euclideanGrad (T : Transc α) (eps : α) (x y : List α) : α × List α :=
  let d := euclidean T x y
  (d, (diffs x y).map (fun v => v / (eps + d)))

def seuclideanGrad (T : Transc α) (eps : α) (sigma x y : List α) : α × List α :=
  let d := seuclidean T sigma x y
  (d, ((diffs x y).zip sigma).map (fun p => p.1 / (eps + d * p.2)))

def manhattanGrad (x y : List α) : α × List α :=
  (manhattan x y, (diffs x y).map signV)

/-- index of the first strict maximum of `|x_i - y_i|` (0 for an all-zero difference). -/
def argmaxAbs (ds : List α) : Nat × α :=
  let r := ds.foldl (fun (acc : Nat × Nat × α) v =>
    let a := absV v
    if acc.2.2 < a then (acc.1 + 1, acc.1, a) else (acc.1 + 1, acc.2.1, acc.2.2)) (0, 0, 0)
  (r.2.1, r.2.2)

def chebyshevGrad (x y : List α) : α × List α :=
  let ds := diffs x y
  let (mi, m) := argmaxAbs ds
  (m, ds.zipIdx.map (fun (v, i) => if i = mi then signV v else 0))

def minkowskiGrad (T : Transc α) (p : α) (x y : List α) : α × List α :=
  let ds := diffs x y
  let s := sumL (ds.map (fun d => T.pow (absV d) p))
  let scale := if 0 < s then T.pow s (1 / p - 1) else 0
  (T.pow s (1 / p), ds.map (fun d => T.pow (absV d) (p - 1) * signPM d * scale))

def wminkowskiGrad (T : Transc α) (w : List α) (p : α) (x y : List α) : α × List α :=
  let ds := diffs x y
  let s := sumL ((ds.zip w).map (fun q => q.2 * T.pow (absV q.1) p))
  let scale := if 0 < s then T.pow s (1 / p - 1) else 0
  (T.pow s (1 / p), (ds.zip w).map (fun q => q.2 * T.pow (absV q.1) (p - 1) * signPM q.1 * scale))

def mahalanobisGrad (T : Transc α) (eps : α) (vinv : List (List α)) (x y : List α) : α × List α :=
  let d := diffs x y
  let vd := vinv.map (fun row => sumL ((row.zip d).map (fun q => q.1 * q.2)))
  let dist := T.sqrt (sumL ((vd.zip d).map (fun q => q.1 * q.2)))
  (dist, vd.map (fun v => v / (eps + dist)))

def canberraGrad (x y : List α) : α × List α :=
  (canberra x y, (x.zip y).map (fun p =>
    let den := absV p.1 + absV p.2
    if 0 < den then signV (p.1 - p.2) / den - absV (p.1 - p.2) * signV p.1 / (den * den) else 0))

def brayCurtisGrad (x y : List α) : α × List α :=
  let num := sumL ((x.zip y).map (fun p => absV (p.1 - p.2)))
  let den := sumL ((x.zip y).map (fun p => absV (p.1 + p.2)))
  if 0 < den then
    let dist := num / den
    (dist, (x.zip y).map (fun p => (signV (p.1 - p.2) - dist * signV (p.1 + p.2)) / den))
  else (0, x.map (fun _ => 0))

def cosineGrad (T : Transc α) (x y : List α) : α × List α :=
  let r := dot x y
  let nx := dot x x
  let ny := dot y y
  if eqV nx 0 && eqV ny 0 then (0, x.map (fun _ => 0))
  else if eqV nx 0 || eqV ny 0 then (1, x.map (fun _ => 0))
  else (1 - r / T.sqrt (nx * ny),
        (x.zip y).map (fun p => (p.1 * r - p.2 * nx) / T.sqrt (nx * nx * nx * ny)))

def correlationGrad (T : Transc α) (x y : List α) : α × List α :=
  let mx := mean x
  let my := sumL y / (x.length : α)
  let sx := x.map (· - mx)
  let sy := y.map (· - my)
  let nx := dot sx sx
  let ny := dot sy sy
  let dp := dot sx sy
  if eqV nx 0 && eqV ny 0 then (0, x.map (fun _ => 0))
  else if eqV nx 0 || eqV ny 0 then (1, x.map (fun _ => 0))
  else
    let nrm := T.sqrt (nx * ny)
    let c := dp / nrm
    (1 - c, (sx.zip sy).map (fun p => p.1 * (c / nx) - p.2 / nrm))

def hellingerGrad (T : Transc α) (x y : List α) : α × List α :=
  let gt := (x.zip y).map (fun p => T.sqrt (p.1 * p.2))
  let r := sumL gt
  let lx := sumL x
  let ly := sumL y
  if eqV lx 0 && eqV ly 0 then (0, x.map (fun _ => 0))
  else if eqV lx 0 || eqV ly 0 then (1, x.map (fun _ => 0))
  else
    let dd := T.sqrt (lx * ly)
    let dist := T.sqrt (maxV 0 (1 - r / dd))
    -- zero distance (proportional arguments): zero gradient instead of a division by zero
    if eqV dist 0 then (dist, x.map (fun _ => 0)) else
    let c := (ly * r) / (two * (dd * dd * dd))
    (dist, (y.zip gt).map (fun p =>
      (c - (if eqV p.1 0 then 0 else p.1 / (two * p.2 * dd))) / (two * dist)))

/-- `haversine_grad` (note the `+ π/2` shift of the latitude inside the function). -/
def haversineGrad (T : Transc α) (pi eps : α) (x y : List α) : Option (α × List α) :=
  match x, y with
  | [x0, x1], [y0, y1] =>
    let half : α := 1 / two
    let sLat := T.sin (half * (x0 - y0))
    let cLat := T.cos (half * (x0 - y0))
    let sLong := T.sin (half * (x1 - y1))
    let cLong := T.cos (half * (x1 - y1))
    let hp := pi / two
    let a0 := T.cos (x0 + hp) * T.cos (y0 + hp) * (sLong * sLong)
    let a1 := a0 + sLat * sLat
    let d := two * T.asin (T.sqrt (minV (maxV (absV a1) 0) 1))
    let denom := T.sqrt (absV (a1 - 1)) * T.sqrt (absV a1)
    some (d, [ (sLat * cLat - T.sin (x0 + hp) * T.cos (y0 + hp) * (sLong * sLong)) / (denom + eps),
               (T.cos (x0 + hp) * T.cos (y0 + hp) * sLong * cLong) / (denom + eps) ])
  | _, _ => none

def hyperboloidGrad (T : Transc α) (eps : α) (x y : List α) : α × List α :=
  let s := T.sqrt (1 + dot x x)
  let t := T.sqrt (1 + dot y y)
  let B0 := s * t - dot x y
  let B := if B0 ≤ 1 then 1 + eps else B0
  let gc := 1 / (T.sqrt (B - 1) * T.sqrt (B + 1))
  (T.acosh B, (x.zip y).map (fun p => gc * ((p.1 * t) / s - p.2)))

/-- `symmetric_kl_grad` as repaired. -/
def symmetricKlGrad (T : Transc α) (z : α) (x y : List α) : α × List α :=
  let xs := sumL (x.map (· + z))
  let ys := sumL (y.map (· + z))
  let px := x.map (fun v => (v + z) / xs)
  let py := y.map (fun v => (v + z) / ys)
  let dist := symmetricKl T z x y
  let gp := (px.zip py).map (fun p => (T.log (p.1 / p.2) - p.2 / p.1 + 1) / two)
  let m := sumL ((px.zip gp).map (fun p => p.1 * p.2))
  (dist, gp.map (fun g => (g - m) / xs))

def sphericalGaussianEnergyGrad (T : Transc α) (pi : α) (x y : List α) : Option (α × List α) :=
  match x, y with
  | [x0, x1, x2], [y0, y1, y2] =>
    let m1 := x0 - y0
    let m2 := x1 - y1
    let sg := absV x2 + absV y2
    let ss := signV x2
    let q := m1 * m1 + m2 * m2
    some (q / (two * sg) + T.log sg + T.log (two * pi),
          [m1 / sg, m2 / sg, ss * (1 / sg - q / (two * (sg * sg)))])
  | _, _ => none

def diagonalGaussianEnergyGrad (T : Transc α) (pi : α) (x y : List α) : Option (α × List α) :=
  match x, y with
  | [x0, x1, x2, x3], [y0, y1, y2, y3] =>
    let m1 := x0 - y0
    let m2 := x1 - y1
    let s11 := absV x2 + absV y2
    let s22 := absV x3 + absV y3
    let det := s11 * s22
    if eqV det 0 then some (m1 * m1 + m2 * m2, [0, 0, 1, 1]) else
    let md := absV s22 * (m1 * m1) + absV s11 * (m2 * m2)
    some ((md / det + T.log (absV det)) / two + T.log (two * pi),
          [ (two * s22 * m1) / (two * det), (two * s11 * m2) / (two * det),
            signV x2 * (s22 * (det - md) + det * (m2 * m2)) / (two * (det * det)),
            signV x3 * (s11 * (det - md) + det * (m1 * m1)) / (two * (det * det)) ])
  | _, _ => none

end
end Grad
end Umap
