/-
  UmapModel.Spectral — what the spectral initialisation *constructs and selects*
  (umap/spectral.py `_spectral_layout`, `multi_component_layout`).  The eigen-solver itself
  (ARPACK / LOBPCG) is an external call and enters the theorems as a contract.
-/
import UmapModel.Scalar
import UmapModel.Graph

namespace Umap
namespace Spectral

section
variable {α : Type} [Add α] [Sub α] [Mul α] [Div α] [Neg α] [LT α] [LE α]
  [DecidableLT α] [DecidableLE α] [OfNat α 0] [OfNat α 1] [NatCast α]

/-- `sqrt_deg = sqrt(graph.sum(axis=0))` : column sums. -/
def sqrtDeg (T : Transc α) (A : Graph.Coo α) (n : Nat) : List α :=
  (List.range n).map (fun j => T.sqrt (sumL ((A.filter (fun t => t.2.1 == j)).map (·.2.2))))

/-- one entry of `L = I - D·A·D`, `D = diag(1 / sqrt_deg)`. -/
def lapEntry (sdi sdj aij : α) (diag : Bool) : α :=
  (if diag then 1 else 0) - (1 / sdi) * aij * (1 / sdj)

/-- the normalised Laplacian as COO triples: all positions of `A` plus the diagonal. -/
def laplacian (T : Transc α) (A : Graph.Coo α) (n : Nat) : Graph.Coo α :=
  let sd := sqrtDeg T A n
  let pos := (Graph.positions A ++ (List.range n).map (fun i => (i, i))).eraseDups
  pos.map (fun (i, j) => (i, j, lapEntry (sd.getD i 1) (sd.getD j 1) (Graph.lookup A i j) (i == j)))

/-- insertion of an index into a list sorted by key (stable: after equal keys). -/
def insertBy (key : Nat → α) (i : Nat) : List Nat → List Nat
  | [] => [i]
  | j :: t => if key i < key j then i :: j :: t else j :: insertBy key i t

/-- `np.argsort(eigenvalues)` (stable). -/
def argsort (vals : List α) : List Nat :=
  (List.range vals.length).foldl (fun acc i => insertBy (fun j => vals.getD j 0) i acc) []

/-- `order = np.argsort(eigenvalues)[1:k]`, `k = dim + 1`: drop the smallest, keep `dim`. -/
def selectOrder (vals : List α) (dim : Nat) : List Nat := ((argsort vals).drop 1).take dim

end

/-- rank of row `r` among the rows carrying the same component label (its row inside the
    component's block): `result[component_labels == label] = block`. -/
def rankInLabel (labels : List Nat) (r : Nat) : Nat :=
  ((labels.take r).filter (· == labels.getD r 0)).length

/-- the multi-component assembly: row `r` of the result is row `rankInLabel r` of the block of
    its label. -/
def assemble {β : Type} [Inhabited β] (labels : List Nat) (blocks : Nat → List β) : List β :=
  (List.range labels.length).map (fun r => (blocks (labels.getD r 0)).getD (rankInLabel labels r) default)

end Spectral
end Umap
