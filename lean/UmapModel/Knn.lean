/-
  UmapModel.Knn — smooth_knn_dist and compute_membership_strengths
  (umap/umap_.py: `smooth_knn_dist`, `_finite_mean`, `compute_membership_strengths`).

  A kNN distance row is a `List (Option α)`: `some d` is a finite distance, `none` is `inf`
  (a neighbour disconnected by the disconnection distance).  Column 0 is the sample itself.
-/
import UmapModel.Scalar

namespace Umap
namespace Knn

section
variable {α : Type} [Add α] [Sub α] [Mul α] [Div α] [Neg α] [LT α] [LE α]
  [DecidableLT α] [DecidableLE α] [OfNat α 0] [OfNat α 1] [NatCast α]

/-- `ith_distances[ith_distances > 0.0]` — `inf > 0`, so disconnected entries are kept. -/
def nzDists (row : List (Option α)) : List (Option α) :=
  row.filter (fun d => match d with | some x => decide (0 < x) | none => true)

/-- the finite entries of a row. -/
def finites (row : List (Option α)) : List α := row.filterMap id

/-- IEEE `a + t * (b - a)` on extended values, for `t > 0`. -/
def interp (a b : Option α) (t : α) : Ext α :=
  match a, b with
  | some x, some y => .fin (x + t * (y - x))
  | some _, none   => .inf
  | none,   some _ => .nan     -- inf + t * (y - inf): not reachable on sorted rows
  | none,   none   => .nan     -- inf - inf

def ofOpt : Option α → Ext α
  | some x => .fin x
  | none => .inf

/-- `np.max(non_zero_dists)` as an extended value. -/
def maxExt (nz : List (Option α)) : Ext α :=
  if nz.any (·.isNone) then .inf else .fin (maxL 0 (finites nz))

/--
  rho (umap_.py `smooth_knn_dist`, the block computing `rho[i]`).
  `lcIdx = int(floor(local_connectivity))`, `lcFrac = local_connectivity - lcIdx`,
  `tol = SMOOTH_K_TOLERANCE`.
-/
def rho (tol : α) (lcIdx : Nat) (lcFrac : α) (row : List (Option α)) : Ext α :=
  let nz := nzDists row
  -- `non_zero_dists.shape[0] >= local_connectivity`
  if (lcIdx : α) + lcFrac ≤ (nz.length : α) then
    if 0 < lcIdx then
      match nz[lcIdx - 1]? with
      | none => .fin 0    -- unreachable: lcIdx ≤ nz.length
      | some a =>
        if tol < lcFrac then
          match nz[lcIdx]? with
          | none => ofOpt a   -- unreachable: lcFrac > 0 ⇒ lcIdx < nz.length
          | some b => interp a b lcFrac
        else ofOpt a
    else
      match nz[0]? with
      | none => .fin 0    -- the code reads out of bounds here; with lcFrac = 0 the product is 0
      | some (some a) => .fin (lcFrac * a)
      | some none => if 0 < lcFrac then .inf else .nan  -- t * inf ; 0 * inf = nan
  else if 0 < nz.length then maxExt nz
  else .fin 0

/-- one term of `psum`: `exp(-((d - rho)/mid))` if `d - rho > 0` else `1`. -/
def psumTerm (T : Transc α) (r : Ext α) (mid : α) (d : Option α) : α :=
  match r, d with
  | .fin r, some d => if 0 < d - r then T.exp (-((d - r) / mid)) else 1
  | .fin _, none => 0            -- exp(-(inf / mid)) = 0
  | .inf, some _ => 1            -- d - inf = -inf, not > 0
  | .inf, none => 1              -- inf - inf = nan, `nan > 0` is false
  | .nan, _ => 1

/-- `psum` over columns `1 ..` of the row (the caller passes `row.tail`). -/
def psum (T : Transc α) (r : Ext α) (mid : α) (ds : List (Option α)) : α :=
  sumL (ds.map (psumTerm T r mid))

/-- bisection state: `lo`, `hi` (`none` = still `inf`), `mid`, and whether the loop has hit `break`. -/
structure BState (α : Type) where
  lo : α
  hi : Option α
  mid : α
  done : Bool

/-- one iteration of the `for n in range(n_iter)` loop. -/
def bisectStep (T : Transc α) (tol target : α) (r : Ext α) (ds : List (Option α))
    (s : BState α) : BState α :=
  if s.done then s else
  let p := psum T r s.mid ds
  if absV (p - target) < tol then { s with done := true }
  else if target < p then
    { s with hi := some s.mid, mid := (s.lo + s.mid) / (1 + 1) }
  else
    match s.hi with
    | none => { s with lo := s.mid, mid := s.mid * (1 + 1) }
    | some h => { s with lo := s.mid, mid := (s.mid + h) / (1 + 1) }

def bisectInit : BState α := { lo := 0, hi := none, mid := 1, done := false }

/-- `n_iter` iterations from `(0, inf, 1)`. -/
def bisect (T : Transc α) (tol target : α) (r : Ext α) (ds : List (Option α)) (nIter : Nat) :
    BState α :=
  (List.range nIter).foldl (fun s _ => bisectStep T tol target r ds s) bisectInit

/-- `_finite_mean`: mean of the finite entries, `0` if there are none. -/
def finiteMean (xs : List (Option α)) : α :=
  let f := finites xs
  if f.length = 0 then 0 else sumL f / (f.length : α)

/-- `rho[i] > 0.0` on extended values (`nan > 0` is false). -/
def extPos : Ext α → Bool
  | .fin r => decide (0 < r)
  | .inf => true
  | .nan => false

/-- the floor applied to the bisection result (umap_.py, the `MIN_K_DIST_SCALE` block). -/
def applyFloor (minScale : α) (sigma : α) (r : Ext α) (row : List (Option α)) (globalMean : α) : α :=
  let m := if extPos r then finiteMean row else globalMean
  if sigma < minScale * m then minScale * m else sigma

/-- sigma and rho for one row. `target = log2(k) * bandwidth`. -/
def smoothKnnRow (T : Transc α) (tol minScale target : α) (lcIdx : Nat) (lcFrac : α)
    (nIter : Nat) (globalMean : α) (row : List (Option α)) : α × Ext α :=
  let r := rho tol lcIdx lcFrac row
  let s := bisect T tol target r row.tail nIter
  (applyFloor minScale s.mid r row globalMean, r)

/-- `smooth_knn_dist` for a whole table. -/
def smoothKnn (T : Transc α) (tol minScale target : α) (lcIdx : Nat) (lcFrac : α)
    (nIter : Nat) (rows : List (List (Option α))) : List (α × Ext α) :=
  let gm := finiteMean rows.flatten
  rows.map (smoothKnnRow T tol minScale target lcIdx lcFrac nIter gm)

/--
  membership strength of one (non-skipped, non-self) neighbour at finite distance `d`
  (umap_.py `compute_membership_strengths`): `1` if `d - rho <= 0` or `sigma == 0`,
  else `exp(-((d - rho)/sigma))`.
-/
def member (T : Transc α) (d : α) (r : α) (sigma : α) : α :=
  if d - r ≤ 0 ∨ (sigma ≤ 0 ∧ 0 ≤ sigma) then 1 else T.exp (-((d - r) / sigma))

/-- membership for an extended rho; `none` = NaN strength. -/
def memberExt (T : Transc α) (d : α) (r : Ext α) (sigma : α) : Option α :=
  match r with
  | .fin r => some (member T d r sigma)
  | .inf => some 1                -- d - inf = -inf <= 0
  | .nan => if sigma ≤ 0 ∧ 0 ≤ sigma then some 1 else none

/--
  One row of the directed membership table.  `idx[j] = none` encodes index `-1` (skipped);
  entry `j` is `(column, strength)`; the sample itself (`col = self`) gets strength `0`
  unless `bipartite`.
-/
def memberRow (T : Transc α) (bipartite : Bool) (self : Nat) (sigma : α) (r : Ext α)
    (idx : List (Option Nat)) (ds : List (Option α)) : List (Option (Nat × Option α)) :=
  (idx.zip ds).map fun (i, d) =>
    match i with
    | none => none
    | some c =>
      if !bipartite && c == self then some (c, some 0)
      else match d with
        | some d => some (c, memberExt T d r sigma)
        | none => some (c, match r with
            | .fin _ => some 0      -- exp(-(inf/sigma)) = 0
            | .inf => none          -- inf - inf = nan
            | .nan => none)

end
end Knn
end Umap
