/-
  UmapModel.ParSgd — one epoch of the edge-parallel SGD kernel as "any order of the iterations"
  (umap/layouts.py `_optimize_layout_euclidean_single_epoch`):

      for i in numba.prange(epochs_per_sample.shape[0]):      # one iteration per EDGE
          if epoch_of_next_sample[i] <= n:
              j = head[i]; k = tail[i]
              current = head_embedding[j]; other = tail_embedding[k]
              ...
              current[d] += grad_d * alpha
              if move_other: other[d] += -grad_d * alpha
              ...
              for p in range(n_neg_samples):
                  k = tau_rand_int(rng_state_per_sample[j]) % n_vertices   # advances the state
                  other = tail_embedding[k]
                  ... current[d] += grad_d * alpha

  The shared state is one *cell per vertex*: row `j` of the embedding together with the RNG state
  `rng_state_per_sample[j]` (both are indexed by the head vertex `j = head[i]`).  The per-edge
  arrays (`epoch_of_next_sample[i]`, `epoch_of_next_negative_sample[i]`) are read and written by
  iteration `i` only and are therefore folded into the per-edge update function.

  * `move_other = False` (the kernel `UMAP.transform` runs: `head_embedding` is the embedding of
    the new points, `tail_embedding` the frozen training embedding): iteration `i` is a
    read-modify-write of the ONE cell `head i` — `edgeStep`.
  * `move_other = True` (the kernel `fit` runs: `head_embedding` and `tail_embedding` are the
    same array): iteration `i` reads the cells `head i` and `tail i` and writes both —
    `edgeStep2`.  (The reads of third rows by the negative samples are not modelled; they can only
    add further dependence.  A UMAP graph has a zero diagonal, so `head i ≠ tail i`; should they
    coincide the head value is the one kept.)

  `numba.prange` may run the iterations in any order; truly interleaved executions (torn rows)
  are not modelled — "any order" already suffices to exhibit the dependence on the schedule.
  Generic in the cell type `β`, Mathlib-free.
-/
import UmapModel.Par

namespace Umap
namespace ParSgd

section
variable {β : Type}

/-- iteration `i` of the `move_other = False` kernel: the cell of vertex `head i` is replaced by
    `f i` of its current content; every other cell is left alone.  `f i` closes over everything
    that is loop invariant for the epoch (the frozen `tail_embedding`, `a`, `b`, `alpha`, `n`,
    the per-edge schedule entries); an edge that is not due this epoch has `f i = id`. -/
def edgeStep (f : Nat → β → β) (head : Nat → Nat) (cells : Nat → β) (i : Nat) : Nat → β :=
  fun c => if c = head i then f i (cells (head i)) else cells c

/-- one epoch: the iterations run one after the other in the order `order`. -/
def epoch (f : Nat → β → β) (head : Nat → Nat) (order : List Nat) (cells : Nat → β) : Nat → β :=
  order.foldl (edgeStep f head) cells

/-- iteration `i` of the `move_other = True` kernel: reads the cells of `head i` and `tail i`,
    `g i` returns the new contents of both (head first). -/
def edgeStep2 (g : Nat → β → β → β × β) (head tail : Nat → Nat) (cells : Nat → β) (i : Nat) :
    Nat → β :=
  let r := g i (cells (head i)) (cells (tail i))
  fun c => if c = head i then r.1 else if c = tail i then r.2 else cells c

/-- one epoch of the `move_other = True` kernel in the order `order`. -/
def epoch2 (g : Nat → β → β → β × β) (head tail : Nat → Nat) (order : List Nat)
    (cells : Nat → β) : Nat → β :=
  order.foldl (edgeStep2 g head tail) cells

/-- the epoch as the selected kernel runs it on `m` edges: the sequential kernel
    (`numba.njit(..., parallel=False)`, `prange` = `range`) visits `0, 1, …, m-1`; the parallel
    kernel visits them in whatever order `sched` the runtime happens to pick. -/
def runEpoch (k : Par.Kernel) (sched : List Nat) (m : Nat) (f : Nat → β → β) (head : Nat → Nat)
    (cells : Nat → β) : Nat → β :=
  match k with
  | .sequential => epoch f head (List.range m) cells
  | .parallel => epoch f head sched cells

/-- same for the `move_other = True` kernel. -/
def runEpoch2 (k : Par.Kernel) (sched : List Nat) (m : Nat) (g : Nat → β → β → β × β)
    (head tail : Nat → Nat) (cells : Nat → β) : Nat → β :=
  match k with
  | .sequential => epoch2 g head tail (List.range m) cells
  | .parallel => epoch2 g head tail sched cells

end

end ParSgd
end Umap
