/-
  UmapModel.Api — the API-level state machines.

  * `validatePrecomputedKnn` : the `if / elif` chain at the end of `UMAP._validate_parameters`
    that decides whether a supplied `precomputed_knn` is used, and with how many columns (C20).
  * `St`, `Op`, `step` : an abstract model of a fitted estimator that tracks only *which* data it
    was trained on (as a list of batch identifiers with their row counts), the fingerprint that
    `transform` compares against, and the number of embedding rows (C10, C11).
-/
namespace Umap
namespace Api

/-! ### precomputed_knn validation (umap_.py `_validate_parameters`, last block) -/

inductive KnnDecision where
  | ignore                                     -- warn, compute the kNN normally
  | use (colsUsed : Nat) (forceApprox : Bool)  -- use the first `colsUsed` columns
  deriving DecidableEq, Repr

/-- `pinned = true` reproduces the pinned revision, in which the branch that switches
    `force_approximation_algorithm` on shadows the pruning branch. -/
def validatePrecomputedKnn (pinned : Bool) (cols k rows n : Nat) (force : Bool) : KnnDecision :=
  if cols < k then .ignore
  else if rows ≠ n then .ignore
  else if pinned then
    if rows < 4096 ∧ force = false then .use cols true
    else if k < cols then .use k force
    else .use cols force
  else
    let force' := if rows < 4096 ∧ force = false then true else force
    if k < cols then .use k force' else .use cols force'

/-! ### a fitted model's history (umap_.py `fit`, `transform`, `inverse_transform`, `update`) -/

/-- a batch of rows: identifier and number of rows. Stacking data = appending batch lists. -/
abbrev Data := List (Nat × Nat)

def rowsOf (d : Data) : Nat := (d.map (·.2)).foldl (· + ·) 0

structure St where
  raw : Data          -- the current training data (`_raw_data`)
  fp : Data           -- what `_input_hash` was computed from
  embRows : Nat       -- rows of `embedding_`
  cols : Nat          -- n_components
  feats : Nat         -- number of input features
  deriving DecidableEq, Repr

inductive Op where
  | transform (y : Data)
  | inverseTransform (zRows : Nat)
  | update (b : Nat × Nat)
  deriving DecidableEq, Repr

inductive Out where
  | embedding (rows cols : Nat) (isTraining : Bool)
  | inverse (rows feats : Nat)
  | updated
  deriving DecidableEq, Repr

def fit (x : Data) (cols feats : Nat) : St :=
  { raw := x, fp := x, embRows := rowsOf x, cols := cols, feats := feats }

/-- `staleFingerprint = true` reproduces the pinned `update`, which did not refresh `_input_hash`. -/
def step (staleFingerprint : Bool) (s : St) : Op → St × Out
  | .transform y =>
    if y = s.fp then (s, .embedding s.embRows s.cols true)     -- the training-data shortcut
    else (s, .embedding (rowsOf y) s.cols false)
  | .inverseTransform z => (s, .inverse z s.feats)
  | .update b =>
    let raw' := s.raw ++ [b]
    ({ s with raw := raw', fp := if staleFingerprint then s.fp else raw', embRows := rowsOf raw' },
     .updated)

def run (stale : Bool) (s : St) (ops : List Op) : St := ops.foldl (fun s o => (step stale s o).1) s

/-! ### update versus a fresh fit (C11) -/

/-- graph-stage configuration: metric, k, mix ratio, … and the disconnection threshold. -/
structure GraphCfg (C : Type) where
  params : C
  threshold : Option Nat   -- `none` = inf

/-- The graph stage as a function of the configuration and the stacked data; `dropThreshold`
    reproduces the pinned `update`, which skipped the disconnection step. -/
def updateGraph {C G : Type} (stage : GraphCfg C → Data → G) (dropThreshold : Bool)
    (cfg : GraphCfg C) (old : Data) (b : Nat × Nat) : G :=
  stage (if dropThreshold then { cfg with threshold := none } else cfg) (old ++ [b])

end Api
end Umap
