/-
  UmapModel.Radii — densMAP's local radii (umap/umap_.py `simplicial_set_embedding`:
  the `rad_orig` block and the `rad_emb` block).  An edge list entry is
  `(j, k, mu, d)`: head, tail, membership strength, distance; both blocks accumulate
  `mu * d²` and `mu` at *both* endpoints of every listed entry.
-/
import UmapModel.Scalar

namespace Umap
namespace Radii

section
variable {α : Type} [Add α] [Sub α] [Mul α] [Div α] [Neg α] [LT α] [LE α]
  [DecidableLT α] [DecidableLE α] [OfNat α 0] [OfNat α 1] [NatCast α]

abbrev Edge (α : Type) := Nat × Nat × α × α

/-- `ro[i]` before the logarithm: Σ over listed entries incident to `i` (as head or as tail). -/
def accNum (es : List (Edge α)) (i : Nat) : α :=
  sumL (es.map (fun e =>
    (if e.1 = i then e.2.2.1 * (e.2.2.2 * e.2.2.2) else 0)
    + (if e.2.1 = i then e.2.2.1 * (e.2.2.2 * e.2.2.2) else 0)))

/-- `mu_sum[i]`. -/
def accDen (es : List (Edge α)) (i : Nat) : α :=
  sumL (es.map (fun e => (if e.1 = i then e.2.2.1 else 0) + (if e.2.1 = i then e.2.2.1 else 0)))

/-- `log(epsilon + ro / mu_sum)`. -/
def radius (T : Transc α) (eps : α) (es : List (Edge α)) (i : Nat) : α :=
  T.log (eps + accNum es i / accDen es i)

/-- the membership-weighted mean squared distance to the neighbours listed in row `i`. -/
def rowNum (es : List (Edge α)) (i : Nat) : α :=
  sumL (es.map (fun e => if e.1 = i then e.2.2.1 * (e.2.2.2 * e.2.2.2) else 0))
def rowDen (es : List (Edge α)) (i : Nat) : α :=
  sumL (es.map (fun e => if e.1 = i then e.2.2.1 else 0))
def colNum (es : List (Edge α)) (i : Nat) : α :=
  sumL (es.map (fun e => if e.2.1 = i then e.2.2.1 * (e.2.2.2 * e.2.2.2) else 0))
def colDen (es : List (Edge α)) (i : Nat) : α :=
  sumL (es.map (fun e => if e.2.1 = i then e.2.2.1 else 0))

end
end Radii
end Umap
