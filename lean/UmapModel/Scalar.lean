/-
  UmapModel.Scalar — the scalar vocabulary shared by every model file.

  Model functions are written *unbundled-generic*: they only ask for the operations they
  use (`Add`, `Mul`, `LT`, …) so that the very same term can be
    * executed at `Float` by the compiled driver (correspondence with /repo), and
    * reasoned about at `ℝ` (or any linear ordered field) in `UmapProofs` / `UmapProps`.
  Transcendental functions are passed explicitly as a `Transc α` record.
  This file imports nothing (no Mathlib) so that the driver links as a plain `lean_exe`.
-/

namespace Umap

/-- The transcendental functions used by the numerical kernels. -/
structure Transc (α : Type) where
  exp  : α → α
  log  : α → α
  sqrt : α → α
  /-- `pow x y = x ^ y` (real power). -/
  pow  : α → α → α
  sin  : α → α
  cos  : α → α
  asin : α → α
  acosh : α → α
  /-- `int(x)`: truncation toward zero. -/
  trunc : α → Int
  /-- integer to scalar. -/
  ofInt : Int → α

instance : NatCast Float := ⟨Float.ofNat⟩

/-- The `Float` instance used by the driver. -/
def floatT : Transc Float where
  exp := Float.exp
  log := Float.log
  sqrt := Float.sqrt
  pow := Float.pow
  sin := Float.sin
  cos := Float.cos
  asin := Float.asin
  acosh := Float.acosh
  trunc := fun x => x.toInt64.toInt
  ofInt := Float.ofInt

/-- An extended value: finite, `+∞`, or IEEE NaN (the result of `∞ - ∞`).
    umap uses `inf` as the distance to a disconnected neighbour. -/
inductive Ext (α : Type) where
  | fin : α → Ext α
  | inf : Ext α
  | nan : Ext α
  deriving Repr

section
variable {α : Type}

/-- sum of a list, left to right, starting from `0` (the shape of every accumulator loop). -/
def sumL [Add α] [OfNat α 0] (xs : List α) : α := xs.foldl (· + ·) 0

/-- running maximum starting from `init` (`result = max(result, v)` loops). -/
def maxL [LT α] [DecidableLT α] (init : α) (xs : List α) : α :=
  xs.foldl (fun m v => if m < v then v else m) init

/-- running minimum starting from `init`. -/
def minL [LT α] [DecidableLT α] (init : α) (xs : List α) : α :=
  xs.foldl (fun m v => if v < m then v else m) init

def absV [Neg α] [LT α] [DecidableLT α] [OfNat α 0] (x : α) : α := if x < 0 then -x else x

def maxV [LT α] [DecidableLT α] (a b : α) : α := if a < b then b else a
def minV [LT α] [DecidableLT α] (a b : α) : α := if b < a then b else a

/-- `np.sign` : −1, 0 or 1. -/
def signV [Neg α] [LT α] [DecidableLT α] [OfNat α 0] [OfNat α 1] (x : α) : α :=
  if x < 0 then -1 else if 0 < x then 1 else 0

/-- `umap.distances.sign` : −1 for negatives, otherwise 1 (note: `sign 0 = 1`). -/
def signPM [Neg α] [LT α] [DecidableLT α] [OfNat α 0] [OfNat α 1] (x : α) : α :=
  if x < 0 then -1 else 1

/-- equality test that is also available on `Float` (which has no `DecidableEq`). -/
def eqV [LE α] [DecidableLE α] (a b : α) : Bool := decide (a ≤ b) && decide (b ≤ a)

end

end Umap
