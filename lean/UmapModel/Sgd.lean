/-
  UmapModel.Sgd — the layout optimiser (umap/layouts.py
  `_optimize_layout_euclidean_single_epoch`, `optimize_layout_euclidean`;
  umap/umap_.py `make_epochs_per_sample`).

  Generic in the scalar type; `rnd` is the rounding applied at every float32 store / float32
  operation of the code (`id` over ℝ, float32 rounding when executed at `Float`).
  `head_embedding is tail_embedding` (ordinary fit) is the flag `aliased`.
-/
import UmapModel.Scalar
import UmapModel.Rng

namespace Umap
namespace Sgd

section
variable {α : Type} [Add α] [Sub α] [Mul α] [Div α] [Neg α] [LT α] [LE α]
  [DecidableLT α] [DecidableLE α] [OfNat α 0] [OfNat α 1] [NatCast α] [Inhabited α]

/-- `clip`: clamp into `[-4, 4]`. -/
def clip (x : α) : α :=
  if ((4 : Nat) : α) < x then ((4 : Nat) : α) else if x < -((4 : Nat) : α) then -((4 : Nat) : α) else x

/-- `rdist`: squared euclidean distance, accumulated in float32. -/
def rdist (rnd : α → α) (x y : Array α) (dim : Nat) : α :=
  (List.range dim).foldl (fun acc d =>
    let diff := rnd (x[d]! - y[d]!)
    rnd (acc + rnd (diff * diff))) 0

/-- attractive coefficient as coded: `-2ab d²^(b-1) / (a d²^b + 1)` for `d² > 0`, else `0`. -/
def attractCoeff (T : Transc α) (a b d2 : α) : α :=
  if 0 < d2 then (-((2 : Nat) : α) * a * b * T.pow d2 (b - 1)) / (a * T.pow d2 b + 1) else 0

/-- repulsive coefficient as coded: `2γb / ((0.001 + d²)(a d²^b + 1))`. -/
def repulseCoeff (T : Transc α) (a b gamma d2 : α) : α :=
  (((2 : Nat) : α) * gamma * b) / (((1 : α) / ((1000 : Nat) : α) + d2) * (a * T.pow d2 b + 1))

structure Params (α : Type) where
  a : α
  b : α
  gamma : α
  dim : Nat
  nVertices : Nat
  moveOther : Bool
  aliased : Bool

structure State (α : Type) where
  head : Array (Array α)
  tail : Array (Array α)     -- unused (and kept unchanged) when `aliased`
  eons : Array α             -- epoch_of_next_sample
  eonns : Array α            -- epoch_of_next_negative_sample
  rng : Array Rng.RState     -- rng_state_per_sample

def tailRow (P : Params α) (s : State α) (k : Nat) : Array α :=
  if P.aliased then s.head[k]! else s.tail[k]!

def setHead (s : State α) (j d : Nat) (v : α) : State α :=
  { s with head := s.head.modify j (fun row => row.set! d v) }

def setTail (P : Params α) (s : State α) (k d : Nat) (v : α) : State α :=
  if P.aliased then { s with head := s.head.modify k (fun row => row.set! d v) }
  else { s with tail := s.tail.modify k (fun row => row.set! d v) }

/-- the attractive move along one edge `(j, k)`; `cor` is densMAP's `grad_cor_coeff`
    (`none` when the density term is off). -/
def attractMove (rnd : α → α) (P : Params α) (alpha gc : α) (cor : Option α) (j k : Nat)
    (s : State α) : State α :=
  (List.range P.dim).foldl (fun s d =>
    let cur := s.head[j]![d]!
    let oth := (tailRow P s k)[d]!
    let g0 := clip (gc * (cur - oth))
    let g := match cor with
      | none => g0
      | some c => g0 + clip (((2 : Nat) : α) * c * (cur - oth))
    let s := setHead s j d (rnd (cur + g * alpha))
    if P.moveOther then
      let oth' := (tailRow P s k)[d]!
      setTail P s k d (rnd (oth' + (-g) * alpha))
    else s) s

/-- one negative sample for head vertex `j`. -/
def negSample (T : Transc α) (rnd : α → α) (P : Params α) (alpha : α) (j : Nat) (s : State α) :
    State α :=
  let (st', k) := Rng.drawVertex s.rng[j]! P.nVertices
  let s := { s with rng := s.rng.set! j st' }
  let d2 := rdist rnd s.head[j]! (tailRow P s k) P.dim
  if 0 < d2 then
    let gc := repulseCoeff T P.a P.b P.gamma d2
    (List.range P.dim).foldl (fun s d =>
      let cur := s.head[j]![d]!
      let oth := (tailRow P s k)[d]!
      let g := if 0 < gc then clip (gc * (cur - oth)) else 0
      setHead s j d (rnd (cur + g * alpha))) s
  else s      -- `j == k: continue`, or `grad_coeff = 0`: no move (`x += 0`)

/-- processing of edge `i` in epoch `n` (the body of the `for i` loop). -/
def edgeStep (T : Transc α) (rnd : α → α) (P : Params α) (hd tl : Array Nat) (eps epns : Array α)
    (alpha : α) (n : Nat) (cor : Option (Nat → α → α)) (s : State α) (i : Nat) : State α :=
  if s.eons[i]! ≤ (n : α) then
    let j := hd[i]!
    let k := tl[i]!
    let d2 := rdist rnd s.head[j]! (tailRow P s k) P.dim
    let gc := attractCoeff T P.a P.b d2
    let s := attractMove rnd P alpha gc (cor.map (fun f => f i d2)) j k s
    let s := { s with eons := s.eons.set! i (s.eons[i]! + eps[i]!) }
    let nNeg := T.trunc (((n : α) - s.eonns[i]!) / epns[i]!)
    let s := (List.range nNeg.toNat).foldl (fun s _ => negSample T rnd P alpha j s) s
    { s with eonns := s.eonns.set! i (s.eonns[i]! + T.ofInt nNeg * epns[i]!) }
  else s

/-- one epoch: edges in index order (the sequential kernel). -/
def epoch (T : Transc α) (rnd : α → α) (P : Params α) (hd tl : Array Nat) (eps epns : Array α)
    (alpha : α) (n : Nat) (cor : Option (Nat → α → α)) (s : State α) : State α :=
  (List.range eps.size).foldl (edgeStep T rnd P hd tl eps epns alpha n cor) s

/-- learning rate in force during epoch `n` of `N`: the code updates `alpha` *after* epoch `n`
    to `α₀ (1 - n/N)`, so epoch 0 and epoch 1 both... epoch `n ≥ 1` runs with `α₀ (1 - (n-1)/N)`. -/
def alphaAt (alpha0 : α) (N n : Nat) : α :=
  if n = 0 then alpha0 else alpha0 * (1 - ((n - 1 : Nat) : α) / (N : α))

/-- the epoch loop `for n in range(N)` (plain UMAP: no density term). -/
def runEpochs (T : Transc α) (rnd : α → α) (P : Params α) (hd tl : Array Nat) (eps epns : Array α)
    (alpha0 : α) (N : Nat) (s : State α) : State α :=
  (List.range N).foldl (fun s n => epoch T rnd P hd tl eps epns (alphaAt alpha0 N n) n none s) s

/-- `make_epochs_per_sample(weights, n_epochs)`: `-1` where `n_epochs * w / w_max` is not
    positive, else `n_epochs / (n_epochs * (w / w_max))`. -/
def makeEpochsPerSample (ws : List α) (nEpochs : Nat) : List α :=
  let wmax := maxL (ws.headD 0) ws
  ws.map fun w =>
    let ns := (nEpochs : α) * (w / wmax)
    if 0 < ns then (nEpochs : α) / ns else -1

/-! ### the sampling clock of a single edge, in isolation -/

/-- `(epoch_of_next_sample, visits)` after the test-and-advance of epoch `n`. -/
def edgeClock (eps : α) (st : α × Nat) (n : Nat) : α × Nat :=
  if st.1 ≤ (n : α) then (st.1 + eps, st.2 + 1) else st

/-- run epochs `0 .. N-1` from the initial clock `eps`. -/
def runClock (eps : α) (N : Nat) : α × Nat :=
  (List.range N).foldl (edgeClock eps) (eps, 0)

/-- densMAP's per-epoch switch (layouts.py, `densmap_flag`). -/
def densmapFlag (densmap : Bool) (lambda frac : α) (n N : Nat) : Bool :=
  densmap && decide (0 < lambda) && decide (1 - frac < ((n + 1 : Nat) : α) / (N : α))

end
end Sgd
end Umap

namespace Umap
namespace Sgd

section
variable {α : Type} [Add α] [Sub α] [Mul α] [Div α] [Neg α] [LT α] [LE α]
  [DecidableLT α] [DecidableLE α] [OfNat α 0] [OfNat α 1] [NatCast α] [Inhabited α]

/-- the epoch loop with the densMAP switch: in epochs where the flag is on the attractive move
    carries the density-correlation term `corf n` (computed from the per-epoch statistics of
    `_optimize_layout_euclidean_densmap_epoch_init`); otherwise the plain epoch runs. -/
def runEpochsDens (T : Transc α) (rnd : α → α) (P : Params α) (hd tl : Array Nat) (eps epns : Array α)
    (alpha0 : α) (N : Nat) (densmap : Bool) (lambda frac : α) (corf : Nat → State α → Nat → α → α)
    (s : State α) : State α :=
  (List.range N).foldl (fun s n =>
    epoch T rnd P hd tl eps epns (alphaAt alpha0 N n) n
      (if densmapFlag densmap lambda frac n N then some (corf n s) else none) s) s

end
end Sgd
end Umap

namespace Umap
namespace Sgd

section
variable {α : Type} [Add α] [Sub α] [Mul α] [Div α] [Neg α] [LT α] [LE α]
  [DecidableLT α] [DecidableLE α] [OfNat α 0] [OfNat α 1] [NatCast α] [Inhabited α]

/-! ### the generic-output-metric kernel (layouts.py `_optimize_layout_generic_single_epoch`) -/

/-- membership weight of the low-dimensional curve at distance `d`: `1 / (1 + a d^(2b))`, `1` at 0. -/
def wl (T : Transc α) (a b d : α) : α :=
  if 0 < d then T.pow (1 + a * T.pow d (((2 : Nat) : α) * b)) (-1) else 1

/-- attractive move of the generic kernel: `grad_coeff = 2b (w_l - 1) / (d + 1e-6)`, each coordinate
    moved by `clip(grad_coeff * grad[d]) * alpha`; with `move_other` the tail moves along the
    gradient taken from the other side (computed *before* any move). -/
def genAttractMove (T : Transc α) (rnd : α → α) (P : Params α) (eps6 alpha : α)
    (metric : Array α → Array α → α × Array α) (j k : Nat) (s : State α) : State α :=
  let cur := s.head[j]!
  let oth := tailRow P s k
  let (d, g) := metric cur oth
  let (_, gr) := metric oth cur
  let gc := ((2 : Nat) : α) * P.b * (wl T P.a P.b d - 1) / (d + eps6)
  (List.range P.dim).foldl (fun s dd =>
    let c := s.head[j]![dd]!
    let s := setHead s j dd (rnd (c + clip (gc * g[dd]!) * alpha))
    if P.moveOther then
      let o := (tailRow P s k)[dd]!
      setTail P s k dd (rnd (o + clip (gc * gr[dd]!) * alpha))
    else s) s

/-- one negative sample of the generic kernel: `grad_coeff = γ 2b w_l / (d + 1e-6)`. -/
def genNegSample (T : Transc α) (rnd : α → α) (P : Params α) (eps6 alpha : α)
    (metric : Array α → Array α → α × Array α) (j : Nat) (s : State α) : State α :=
  let (st', k) := Rng.drawVertex s.rng[j]! P.nVertices
  let s := { s with rng := s.rng.set! j st' }
  let (d, g) := metric s.head[j]! (tailRow P s k)
  if ¬ (0 < d) ∧ j = k then s else
  let w := wl T P.a P.b d
  let gc := P.gamma * ((2 : Nat) : α) * P.b * w / (d + eps6)
  (List.range P.dim).foldl (fun s dd =>
    let c := s.head[j]![dd]!
    setHead s j dd (rnd (c + clip (gc * g[dd]!) * alpha))) s

def genEdgeStep (T : Transc α) (rnd : α → α) (P : Params α) (eps6 : α)
    (metric : Array α → Array α → α × Array α) (hd tl : Array Nat) (eps epns : Array α)
    (alpha : α) (n : Nat) (s : State α) (i : Nat) : State α :=
  if s.eons[i]! ≤ (n : α) then
    let j := hd[i]!
    let k := tl[i]!
    let s := genAttractMove T rnd P eps6 alpha metric j k s
    let s := { s with eons := s.eons.set! i (s.eons[i]! + eps[i]!) }
    let nNeg := T.trunc (((n : α) - s.eonns[i]!) / epns[i]!)
    let s := (List.range nNeg.toNat).foldl (fun s _ => genNegSample T rnd P eps6 alpha metric j s) s
    { s with eonns := s.eonns.set! i (s.eonns[i]! + T.ofInt nNeg * epns[i]!) }
  else s

def genEpoch (T : Transc α) (rnd : α → α) (P : Params α) (eps6 : α)
    (metric : Array α → Array α → α × Array α) (hd tl : Array Nat) (eps epns : Array α)
    (alpha : α) (n : Nat) (s : State α) : State α :=
  (List.range eps.size).foldl (genEdgeStep T rnd P eps6 metric hd tl eps epns alpha n) s

/-- the generic epoch loop; same learning-rate rule as the euclidean one. -/
def genRunEpochs (T : Transc α) (rnd : α → α) (P : Params α) (eps6 : α)
    (metric : Array α → Array α → α × Array α) (hd tl : Array Nat) (eps epns : Array α)
    (alpha0 : α) (N : Nat) (s : State α) : State α :=
  (List.range N).foldl (fun s n => genEpoch T rnd P eps6 metric hd tl eps epns (alphaAt alpha0 N n) n s) s

/-! ### the parametric variant's edge replication (parametric_umap.py `get_graph_elements`) -/

/-- `epochs_per_sample = n_epochs * weight` (weights below `max / n_epochs` zeroed first), each
    edge repeated `int(epochs_per_sample)` times. -/
def parametricRepeats (T : Transc α) (ws : List α) (nEpochs : Nat) : List Nat :=
  let wmax := maxL (ws.headD 0) ws
  ws.map fun w =>
    let w' := if w < wmax / (nEpochs : α) then 0 else w
    (T.trunc ((nEpochs : α) * w')).toNat

end
end Sgd
end Umap
