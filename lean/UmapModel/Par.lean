/-
  UmapModel.Par — `numba.prange` loops as "any permutation of the iterations"
  (umap/utils.py `fast_knn_indices`, `submatrix`; umap/aligned_umap.py `in1d`; the parallel
  SGD kernel of umap/layouts.py), and the kernel-selection logic for seeded models
  (umap/umap_.py `_validate_parameters`, `_fit_embed_data`, `transform`).
-/
namespace Umap
namespace Par

/-- a loop whose iteration `i` writes only cell `i` with a value that depends only on `i` and on
    loop-invariant inputs (rows of `fast_knn_indices`, cells of `submatrix`, entries of `in1d`). -/
def parFor {β : Type} (body : Nat → β) (is : List Nat) (init : Nat → β) : Nat → β :=
  is.foldl (fun arr i => fun c => if c = i then body i else arr c) init

/-- a racy loop: iteration `i` *reads and updates* a shared cell (the parallel SGD kernel moves
    `head_embedding[j]` from several edges). `upd i v` is the new value of the shared cell. -/
def racyFor {β : Type} (upd : Nat → β → β) (is : List Nat) (init : β) : β :=
  is.foldl (fun v i => upd i v) init

inductive Kernel where
  | sequential
  | parallel
  deriving DecidableEq, Repr

/-- `parallel = self.random_state is None`; `_get_optimize_layout_euclidean_single_epoch_fn`. -/
def kernelChoice (seeded : Bool) : Kernel := if seeded then .sequential else .parallel

/-- `if self.n_jobs != 1 and self.random_state is not None: self.n_jobs = 1`. -/
def effectiveJobs (seeded : Bool) (nJobs : Int) : Int := if seeded ∧ nJobs ≠ 1 then 1 else nJobs

end Par
end Umap
