/-
  UmapModel.Heap — which buffers an API operation may write (C08, C09).

  A *program* is the data flow of one operation written as primitive steps over program
  variables; buffers have identities.  A conversion (`check_array`, `astype(copy=False)`,
  `tocoo()`, `tocsr()`, `np.asarray`, a slice) *may* return a view of its source: whether it does
  is decided, per conversion site, by an alias resolution `ρ : Site → Bool` (`true` = shares).
  `run` returns the list of buffers written.  The properties quantify over **all** resolutions.
-/
namespace Umap
namespace Heap

abbrev Var := Nat
abbrev Buf := Nat
abbrev Site := Nat

inductive Step where
  | alloc (v : Var)                       -- v := fresh array (arithmetic result, np.zeros, fancy index, …)
  | copy (dst src : Var)                  -- dst := src.copy()  (always fresh)
  | conv (dst src : Var) (site : Site)    -- dst := convert(src): shares src's buffer iff ρ site
  | view (dst src : Var)                  -- dst := a view of src (always shares): x.data, slices, attribute aliasing
  | write (v : Var)                       -- in-place write through v
  deriving DecidableEq, Repr

structure HS where
  env : List (Var × Buf)
  next : Buf
  written : List Buf
  deriving DecidableEq, Repr

def bufOf (s : HS) (v : Var) : Buf :=
  match s.env.find? (·.1 == v) with
  | some p => p.2
  | none => 0

def bind (s : HS) (v : Var) (b : Buf) : HS := { s with env := (v, b) :: s.env }

def stepRun (ρ : Site → Bool) (s : HS) : Step → HS
  | .alloc v => { bind s v s.next with next := s.next + 1 }
  | .copy d _ => { bind s d s.next with next := s.next + 1 }
  | .conv d src site =>
      if ρ site then bind s d (bufOf s src) else { bind s d s.next with next := s.next + 1 }
  | .view d src => bind s d (bufOf s src)
  | .write v => { s with written := bufOf s v :: s.written }

def run (ρ : Site → Bool) (prog : List Step) (s0 : HS) : HS := prog.foldl (stepRun ρ) s0

/-- initial state: variables `0 .. n-1` are the protected inputs (operands' fields, caller
    arrays), each in its own buffer `1 .. n`. -/
def init (n : Nat) : HS :=
  { env := (List.range n).map (fun v => (v, v + 1)), next := n + 1, written := [] }

/-- no protected buffer (`1 .. n`) is written. -/
def frameSafe (n : Nat) (s : HS) : Bool := s.written.all (fun b => !(1 ≤ b && b ≤ n))

/-- all resolutions over sites `0 .. k-1`, as functions. -/
def resolutions (k : Nat) : List (Site → Bool) :=
  (List.range (2 ^ k)).map (fun m => fun site => (m >>> site) % 2 == 1)

/-- the operation is frame-safe under every alias resolution of its `k` sites. -/
def safeForAll (n k : Nat) (prog : List Step) : Bool :=
  (resolutions k).all (fun ρ => frameSafe n (run ρ prog (init n)))

/-! ## the programs (repaired tree unless named `…Pinned`)

Protected variables — `0`: `graph_` (of the left / only operand), `1`: `embedding_`,
`2`: `_raw_data`, `3`: right operand's `graph_`, `4`: caller's data `X`, `5`: caller's `y`,
`6`: caller's `init`, `7`: caller's knn indices, `8`: caller's knn dists.  `nProt = 9`. -/

def nProt : Nat := 9

/-- `simplicial_set_embedding(data, graph, …, init)` with `graph = v`, `init = w` (repaired:
    `graph.tocoo(copy=True)`). Sites: 0 = `np.array(init)` is a copy; the rescale allocates. -/
def layoutStage (g initv : Var) : List Step :=
  [ .copy 20 g, .write 20,            -- graph = graph.tocoo(copy=True); sum_duplicates; prune
    .copy 21 initv,                    -- init_data = np.array(init)
    .alloc 22,                         -- embedding = (10 * (… - min) / range).astype(float32)
    .write 22 ]                        -- optimize_layout_*(embedding, embedding, …) moves it in place

/-- the pinned revision: `graph = graph.tocoo()` — site 0 may share. -/
def layoutStagePinned (g initv : Var) : List Step :=
  [ .conv 20 g 0, .write 20, .copy 21 initv, .alloc 22, .write 22 ]

/-- `fit(X, y)`: sites 0 = `check_array(X)`, 1 = `check_array(init)`, 2 = `check_array(y)`,
    3 = `pairwise_distances(…, 'precomputed')` returning its argument. -/
def fitProg : List Step :=
  [ .conv 10 4 0,                      -- X = check_array(X, float32, C)
    .view 2 10,                        -- self._raw_data = X
    .conv 11 6 1,                      -- init = check_array(self.init)
    .copy 12 7, .copy 13 8,            -- self._knn_indices / _knn_dists = precomputed.copy()
    .write 12, .write 13,              -- disconnection: indices := -1, dists := inf
    .alloc 14,                         -- X[index]  (fancy index: fresh)
    .conv 15 14 3, .write 15,          -- dmat = pairwise_distances(X[index]); dmat[dmat >= d] = inf
    .alloc 0,                          -- self.graph_ = fuzzy_simplicial_set(...)  (fresh)
    .conv 16 5 2, .alloc 17,           -- y_ = check_array(y)[index]
    .alloc 18, .write 18 ]             -- supervised: graph_.tocoo() of a fresh graph, written in place
  ++ layoutStage 0 11
  ++ [ .alloc 1 ]                      -- self.embedding_ = embedding[inverse]

/-- `transform(X)`: sites 0 = `check_array(X)`. -/
def transformProg : List Step :=
  [ .conv 10 4 0,
    .alloc 11, .write 11,              -- indices / dists (fresh), indices[dists >= d] = -1
    .alloc 12,                         -- graph = coo_matrix(vals, …)
    .alloc 13,                         -- embedding = init_graph_transform(…)
    .write 12,                         -- graph.data[graph.data < …] = 0
    .copy 14 1,                        -- self.embedding_.astype(np.float32, copy=True)
    .write 13 ]                        -- optimize_layout_*(embedding, <copy>, …, move_other=False)

/-- `inverse_transform(X)`. -/
def inverseProg : List Step :=
  [ .conv 10 4 0, .alloc 11, .alloc 12, .write 12 ]   -- head = init_transform(…) (fresh), optimised in place

/-- `A - B` (repaired: `simplicial_set1.tocoo(copy=True)`); sites 1,2 = `tocsr()` of the operands. -/
def subProg : List Step :=
  [ .copy 10 0, .conv 11 0 1, .conv 12 3 2, .write 10,   -- general_sset_intersection writes result.data
    .copy 13 10, .alloc 14 ]                             -- normalize(copy) ; union with transpose (fresh)
  ++ layoutStage 14 14

def subProgPinned : List Step :=
  [ .conv 10 0 0, .conv 11 0 1, .conv 12 3 2, .write 10, .copy 13 10, .alloc 14 ]
  ++ layoutStage 14 14

/-- `A + B`, `A * B`: the result is computed into `(A.graph_ + B.graph_).tocoo()` (fresh sum). -/
def addMulProg : List Step :=
  [ .alloc 10, .conv 11 0 1, .conv 12 3 2, .write 10,
    .copy 13 10, .conv 15 13 3, .write 15, .alloc 14 ]  -- normalize(copy); tocsr; reset_local_metrics in place
  ++ layoutStage 14 14

/-- `update(X)`: site 0 = `check_array(X)`. -/
def updateProg : List Step :=
  [ .conv 10 4 0, .alloc 2, .alloc 11, .write 11, .alloc 0, .alloc 12, .write 12 ]
  ++ layoutStage 0 12 ++ [ .alloc 1 ]

end Heap
end Umap
