/-
  UmapModel.Relations — AlignedUMAP's relation tensor (umap/aligned_umap.py `invert_dict`,
  `expand_relations`).  Pure `Nat` / `Option Nat`; `none` is the code's `-1`.

  A relation dict is an association list `List (Nat × Nat)`; lookup takes the first match, so a
  Python dict is represented by listing its items with later insertions first (for key-unique
  lists the order is irrelevant).
-/
namespace Umap
namespace Relations

abbrev Dict := List (Nat × Nat)

/-- `d.get(k, -1)`. -/
def dget (d : Dict) (k : Nat) : Option Nat :=
  match d with
  | [] => none
  | (a, b) :: t => if a = k then some b else dget t k

/-- `invert_dict`: `{value: key for key, value in d.items()}`. -/
def invert (d : Dict) : Dict := d.map (fun p => (p.2, p.1))

/-- following a list of dicts from `k` (`-1` is absorbing: `d.get(-1, -1) = -1`). -/
def chain (ds : List Dict) (k : Nat) : Option Nat :=
  ds.foldl (fun acc d => acc.bind (dget d)) (some k)

/-- the inner loop `for k in range(j + 1): mapping = relation_dicts[i + k].get(...)`,
    reading the dicts by index as the code does (`none` if an index were out of range). -/
def fwdLoop (dicts : List Dict) (i : Nat) : Nat → Option Nat → Option Nat
  | 0, acc => acc
  | n + 1, acc =>
    -- steps t = 0 .. n : apply dicts[i + t]
    let prev := fwdLoop dicts i n acc
    match dicts[i + n]? with
    | some d => prev.bind (dget d)
    | none => none

/-- the inner loop `for k in range(0, j - 1, -1): mapping = reverse_relation_dicts[i + k - 1].get(...)`
    with `j = -m`: applies `rev[i-1], rev[i-2], …, rev[i-m-1]`. -/
def bwdLoop (rev : List Dict) (i : Nat) : Nat → Option Nat → Option Nat
  | 0, acc => acc
  | n + 1, acc =>
    let prev := bwdLoop rev i n acc
    -- step t = n : apply rev[i - n - 1]   (the code guarantees i - n - 1 ≥ 0 here)
    if i < n + 1 then none else
    match rev[i - n - 1]? with
    | some d => prev.bind (dget d)
    | none => none

/--
  `expand_relations(relation_dicts, window_size)[i, col, k]`.
  `pinnedBoundary = true` reproduces the off-by-one forward test of the pinned revision
  (`i + j + 1 >= len`), `false` the repaired one (`i + j >= len`).
-/
def expandEntry (pinnedBoundary : Bool) (dicts : List Dict) (w i col k : Nat) : Option Nat :=
  let L := dicts.length
  if w < col then
    -- forward half: col = w + j + 1, j in 0 .. w-1
    let j := col - w - 1
    if j < w then
      let out := if pinnedBoundary then decide (i + j + 1 ≥ L) else decide (i + j ≥ L)
      if out then none else fwdLoop dicts i (j + 1) (some k)
    else none
  else if col < w then
    -- backward half: col = w + j - 1 with j = -m, m in 0 .. w-1, i.e. col = w - 1 - m
    let m := w - 1 - col
    if i < m + 1 then none   -- `i + j - 1 < 0`
    else bwdLoop (dicts.map invert) i (m + 1) (some k)
  else none  -- centre column is never written

/-- the whole tensor, as nested lists `[dataset][column][sample]`. -/
def expandRelations (pinnedBoundary : Bool) (dicts : List Dict) (w maxN : Nat) :
    List (List (List (Option Nat))) :=
  (List.range (dicts.length + 1)).map fun i =>
    (List.range (2 * w + 1)).map fun col =>
      (List.range maxN).map fun k => expandEntry pinnedBoundary dicts w i col k

/-- key-unique and value-unique (an injective partial map). -/
def Injective (d : Dict) : Prop :=
  (d.map Prod.fst).Nodup ∧ (d.map Prod.snd).Nodup

end Relations
end Umap
