/-
  UmapModel.SparseRow — the canonical (lil) form of a stored sparse row and the key that
  `umap.utils.csr_unique` hashes to decide which rows of a sparse matrix are the same sample
  (`unique=True`).

  A *stored* row is a list of `(column, value)` pairs exactly as a CSR matrix may hold it: in
  any order, possibly with the same column several times (scipy defines the matrix entry as the
  sum of the duplicates) and possibly with explicitly stored zeros.

  `csr_unique` first calls `matrix.tolil()` — per row: column indices sorted ascending, duplicate
  entries summed — (`canon`), then builds for each row the tuple
      `[x[j] for j in stored] + [y[j] for j in stored]`,  `stored = [j | y[j] != 0]`
  i.e. the columns of the non-zero entries followed by their values (`key`), and lets `np.unique`
  compare those tuples.

  Remark on the shape of the key.  Python concatenates the list of columns and the list of values
  into one flat tuple; here the key is kept as the list of `(column, value)` pairs.  The two carry
  the same information: both halves of the flat tuple have the same length (half of the tuple's
  length), so the flat tuple determines the two halves, and `zip` / `unzip` is a bijection between
  a pair of lists of equal length and a list of pairs.  Hence two rows have equal flat tuples iff
  they have equal lists of pairs.  (Columns are integers and values floats in the tuple; Python
  compares `1 == 1.0` as equal, which cannot create a collision between *different* pair lists of
  the same length either, since position `k` of the tuple is compared with position `k`.)

  This file imports no Mathlib and is unbundled-generic like the rest of the model.
-/
import UmapModel.Scalar

namespace Umap
namespace SparseRow

/-- a stored sparse row: `(column, value)` pairs in any order, duplicates and zeros allowed. -/
abbrev Row (α : Type) := List (Nat × α)

/-- insert a column index into a strictly ascending list of column indices (no duplicate is
    created when it is already present). -/
def insertCol (j : Nat) : List Nat → List Nat
  | [] => [j]
  | c :: cs =>
    if j < c then j :: c :: cs
    else if j = c then c :: cs
    else c :: insertCol j cs

section
variable {α : Type}

/-- the distinct stored columns of a row, in ascending order (`lil_matrix.rows[i]`). -/
def cols (row : Row α) : List Nat := row.foldr (fun p acc => insertCol p.1 acc) []

variable [Add α] [OfNat α 0]

/-- what the matrix holds at column `j` of this row: the sum of the values stored at column `j`
    (`0` when nothing is stored there). -/
def valueAt (row : Row α) (j : Nat) : α :=
  sumL ((row.filter (fun p => p.1 == j)).map (·.2))

/-- the lil form of the row (`tolil()`): distinct columns in ascending order, each carrying the
    summed value. -/
def canon (row : Row α) : Row α := (cols row).map (fun j => (j, valueAt row j))

/-- the dense row of width `n`. -/
def dense (n : Nat) (row : Row α) : List α := (List.range n).map (valueAt row)

variable [LE α] [DecidableLE α]

/-- the key `csr_unique` hashes for this row: the lil form without the entries whose value is `0`
    (`stored = [j for j, v in enumerate(y) if v != 0]`), kept as pairs — see the remark in the
    file header about the flat tuple Python builds. -/
def key (row : Row α) : Row α := (canon row).filter (fun p => !eqV p.2 0)

end

end SparseRow
end Umap
