/-
  UmapModel.Pipeline — the shape / definedness stages of `fit_transform`
  (umap/umap_.py: `n_neighbors` truncation in `fit`, the `unique=True` index / inverse round
  trip, the per-axis rescaling of the initial layout in `simplicial_set_embedding`,
  `noisy_scale_coords`, the NaN post-processing of isolated samples).
-/
import UmapModel.Scalar

namespace Umap
namespace Pipeline

/-- effective number of neighbours: `n - 1` when the (distinct) data has no more rows than
    `n_neighbors`, else `n_neighbors`. -/
def truncateK (n k : Nat) : Nat := if n ≤ k then n - 1 else k

/-- `unique=True`: the distinct rows (first occurrences) and, for every input row, the position
    of its representative among them.  (NumPy returns the distinct rows sorted; the order is
    immaterial for the round trip.) -/
def distinctRows {β : Type} [BEq β] (xs : List β) : List β := xs.eraseDups

def inverseIndex {β : Type} [BEq β] (xs : List β) : List Nat :=
  xs.map (fun x => (distinctRows xs).idxOf x)

/-- `embedding[inverse]`. -/
def expand {γ : Type} [Inhabited γ] (emb : List γ) (inverse : List Nat) : List γ :=
  inverse.map (fun i => emb.getD i default)

section
variable {α : Type} [Add α] [Sub α] [Mul α] [Div α] [Neg α] [LT α] [LE α]
  [DecidableLT α] [DecidableLE α] [OfNat α 0] [OfNat α 1] [NatCast α]

/-- one coordinate of `10 * (e - min) / range`, the range of a constant axis being replaced by 1
    (repaired code; the pinned revision divided by the zero range). -/
def rescale10 (mn mx x : α) : α :=
  let r := mx - mn
  let r := if eqV r 0 then 1 else r
  ((10 : Nat) : α) * (x - mn) / r

/-- `noisy_scale_coords` factor: `max_coord / max|coords|`, `1` for an all-zero layout. -/
def expansion (maxCoord maxAbs : α) : α := if 0 < maxAbs then maxCoord / maxAbs else 1

end
end Pipeline
end Umap

namespace Umap
namespace Pipeline

section
variable {α : Type} [Add α] [Sub α] [Mul α] [Div α] [Neg α] [LT α] [LE α]
  [DecidableLT α] [DecidableLE α] [OfNat α 0] [OfNat α 1] [NatCast α]

/--
  `init_update(current_init, n_original_samples, indices)` for one new row `i`
  (umap_.py): every coordinate accumulates the coordinates of the row's neighbours among the
  original samples; the counter `n` is incremented once per (neighbour, coordinate) pair — i.e. it
  ends at `count * dim` — and the row is divided by it unless it is zero (repaired code).
  `orig j` is the current init row of original sample `j`; `row0` the new row's initial value.
-/
def initUpdateRow (nOrig dim : Nat) (orig : Nat → List α) (row0 : List α) (nbrs : List Nat) : List α :=
  let olds := nbrs.filter (· < nOrig)
  let n := olds.length * dim
  let summed := (List.range dim).map (fun d =>
    olds.foldl (fun acc j => acc + (orig j).getD d 0) (row0.getD d 0))
  if n = 0 then summed else summed.map (fun v => v / (n : α))

/--
  `init_transform(indices, weights, embedding)` (umap_.py; used by `inverse_transform` to place new points in
  data space): row `i`, coordinate `d` is `Σ_j weights[i][j] * embedding[indices[i][j]][d]`, accumulated left to
  right from `0`; `dim = embedding.shape[1]`.
-/
def initTransform (dim : Nat) (indices : List (List Nat)) (weights : List (List α)) (embedding : List (List α)) :
    List (List α) :=
  (indices.zip weights).map (fun iw =>
    (List.range dim).map (fun d =>
      (iw.1.zip iw.2).foldl (fun acc jw => acc + jw.2 * ((embedding.getD jw.1 []).getD d 0)) 0))

end
end Pipeline
end Umap
