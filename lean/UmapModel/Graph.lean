/-
  UmapModel.Graph — assembly of the directed membership matrix and the fuzzy set operations
  (umap/umap_.py `fuzzy_simplicial_set`, `fast_intersection`, `reset_local_connectivity`,
   `reprocess_row`; umap/sparse.py `general_sset_union`, `general_sset_intersection`).

  A sparse matrix is a list of COO triples `(row, col, value)`; the value *of the matrix*
  at `(i, j)` is `lookup` = the sum of the triples at that position (COO → CSR conversion
  sums duplicates), `0` when there is none.
-/
import UmapModel.Scalar
import UmapModel.Knn

namespace Umap
namespace Graph

abbrev Coo (α : Type) := List (Nat × Nat × α)

section
variable {α : Type} [Add α] [Sub α] [Mul α] [Div α] [Neg α] [LT α] [LE α]
  [DecidableLT α] [DecidableLE α] [OfNat α 0] [OfNat α 1] [NatCast α]

/-- value of the matrix at `(i, j)`. -/
def lookup (A : Coo α) (i j : Nat) : α :=
  sumL ((A.filter (fun t => t.1 == i && t.2.1 == j)).map (·.2.2))

def isZero (x : α) : Bool := eqV x 0

/-- `eliminate_zeros`. -/
def elimZeros (A : Coo α) : Coo α := A.filter (fun t => !isZero t.2.2)

/-- the fuzzy mix of union and intersection: `r*(a + b - a*b) + (1 - r)*(a*b)`. -/
def mix (r a b : α) : α := r * (a + b - a * b) + (1 - r) * (a * b)

def transposeC (A : Coo α) : Coo α := A.map (fun t => (t.2.1, t.1, t.2.2))

/-- distinct positions of a COO list, in first-occurrence order. -/
def positions (A : Coo α) : List (Nat × Nat) :=
  (A.map (fun t => (t.1, t.2.1))).eraseDups

/-- `set_op_mix_ratio * (R + Rᵀ - R∘Rᵀ) + (1 - set_op_mix_ratio) * (R∘Rᵀ)`, then `eliminate_zeros`. -/
def symmetrize (r : α) (A : Coo α) : Coo α :=
  let pos := positions (A ++ transposeC A)
  elimZeros (pos.map (fun (i, j) => (i, j, mix r (lookup A i j) (lookup A j i))))

/--
  Directed membership triples from the per-row output of `Knn.memberRow`
  (`-1` entries are skipped: they stay at row 0, col 0, value 0 in the code and are removed
  by `eliminate_zeros`).  NaN strengths are reported as `none`.
-/
def assemble (rows : List (List (Option (Nat × Option α)))) : Option (Coo α) :=
  let triples := (rows.zipIdx.map fun (row, i) =>
      row.filterMap (fun e => e.map (fun (c, v) => (i, c, v)))).flatten
  if triples.any (fun t => t.2.2.isNone) then none
  else some (elimZeros (triples.filterMap (fun t => t.2.2.map (fun v => (t.1, t.2.1, v)))))

/-! ### categorical supervision (`fast_intersection`) -/

/-- `values[nz] *= exp(-unknown_dist)` / `exp(-far_dist)`; labels: `none` = −1 (unlabelled). -/
def fastIntersection (T : Transc α) (labels : List (Option Int)) (unknownDist farDist : α)
    (A : Coo α) : Coo α :=
  A.map fun (i, j, v) =>
    match labels[i]?, labels[j]? with
    | some (some a), some (some b) =>
        if a == b then (i, j, v) else (i, j, v * T.exp (-farDist))
    | _, _ => (i, j, v * T.exp (-unknownDist))

/-- rows `0 .. n-1` of a COO matrix as lists of `(col, value)`. -/
def rowOf (A : Coo α) (i : Nat) : List (Nat × α) :=
  (A.filter (·.1 == i)).map (fun t => (t.2.1, t.2.2))

/-- `sklearn.preprocessing.normalize(norm="max")`: divide each row by its max abs value
    (rows whose max is 0 are left alone). -/
def rowMaxNormalize (A : Coo α) : Coo α :=
  A.map fun (i, j, v) =>
    let m := maxL 0 ((rowOf A i).map (fun p => absV p.2))
    if isZero m then (i, j, v) else (i, j, v / m)

/-- fuzzy union with the transpose: `S + Sᵀ - S∘Sᵀ`, then `eliminate_zeros`. -/
def unionTranspose (A : Coo α) : Coo α := symmetrize 1 A

/-- `reset_local_connectivity(simplicial_set, reset_local_metric=False)`. -/
def resetLocalConnectivity (A : Coo α) : Coo α := unionTranspose (rowMaxNormalize A)

/-- `discrete_metric_simplicial_set_intersection` for a categorical target. -/
def categoricalIntersection (T : Transc α) (labels : List (Option Int)) (unknownDist farDist : α)
    (A : Coo α) : Coo α :=
  resetLocalConnectivity (elimZeros (fastIntersection T labels unknownDist farDist A))

/-! ### general set operations on two graphs (`umap.sparse.general_sset_*`) -/

/-- stored value at `(i,j)` in a CSR matrix (the *last* matching entry wins in the code's scan),
    or `dflt` when absent. -/
def storedOr (A : Coo α) (i j : Nat) (dflt : α) : α :=
  match (A.filter (fun t => t.1 == i && t.2.1 == j)).getLast? with
  | some t => t.2.2
  | none => dflt

def dataMin (A : Coo α) (f : α → α) : Option α :=
  match A with
  | [] => none
  | t :: ts => some (minL (f t.2.2) (ts.map (fun u => f u.2.2)))

/-- `max(data.min() / 2.0, 1.0e-8)`. -/
def halfMin (eps : α) (A : Coo α) (f : α → α) : Option α :=
  (dataMin A f).map (fun m => maxV (m / (1 + 1)) eps)

/-- `general_sset_union` on the positions of `A + B`. -/
def ssetUnion (eps : α) (A B : Coo α) : Option (Coo α) :=
  match halfMin eps A id, halfMin eps B id with
  | some lmin, some rmin =>
    let pos := positions (A ++ B)
    some (pos.map fun (i, j) =>
      let l := storedOr A i j lmin
      let r := storedOr B i j rmin
      (i, j, l + r - l * r))
  | _, _ => none   -- `data.min()` of an empty array raises

/-- `general_sset_intersection` (both `right_complement` settings, `mix_weight`).
    Positions: those of `A + B` (or of `A` alone for the complement); entries failing the
    keep-condition retain their prior value (`A+B`'s sum, or `A`'s value). -/
def ssetIntersection (T : Transc α) (eps cap : α) (rightComplement : Bool) (w : α) (A B : Coo α) :
    Option (Coo α) :=
  let rf : α → α := if rightComplement then (fun x => 1 - x) else id
  match halfMin eps A id, halfMin eps B rf with
  | some lmin, some rmin0 =>
    let rmin := minV rmin0 cap
    let pos := if rightComplement then positions A else positions (A ++ B)
    some (pos.map fun (i, j) =>
      let l := storedOr A i j lmin
      let r := match (B.filter (fun t => t.1 == i && t.2.1 == j)).getLast? with
               | some t => rf t.2.2
               | none => rmin
      if lmin < l ∨ rmin < r then
        if w < 1 / (1 + 1) then (i, j, l * T.pow r (w / (1 - w)))
        else (i, j, T.pow l ((1 - w) / w) * r)
      else
        (i, j, if rightComplement then lookup A i j else lookup A i j + lookup B i j))
  | _, _ => none

/-- `reprocess_row`: bisection on the exponent `t` so that `Σ p^t = log2 k`. -/
def reprocessRow (T : Transc α) (tol target : α) (nIter : Nat) (ps : List α) : List α :=
  let step := fun (s : Knn.BState α) (_ : Nat) =>
    if s.done then s else
    let p := sumL (ps.map (fun x => T.pow x s.mid))
    if absV (p - target) < tol then { s with done := true }
    else if p < target then { s with hi := some s.mid, mid := (s.lo + s.mid) / (1 + 1) }
    else match s.hi with
      | none => { s with lo := s.mid, mid := s.mid * (1 + 1) }
      | some h => { s with lo := s.mid, mid := (s.mid + h) / (1 + 1) }
  let s := (List.range nIter).foldl step Knn.bisectInit
  ps.map (fun x => T.pow x s.mid)

end
end Graph
end Umap

namespace Umap
namespace Graph

section
variable {α : Type} [Add α] [Sub α] [Mul α] [Div α] [Neg α] [LT α] [LE α]
  [DecidableLT α] [DecidableLE α] [OfNat α 0] [OfNat α 1] [NatCast α]

/-- the directed membership rows of a kNN table (`smooth_knn_dist` + `compute_membership_strengths`). -/
def memberRows (T : Transc α) (tol minScale target : α) (lcIdx : Nat) (lcFrac : α) (nIter : Nat)
    (idx : List (List (Option Nat))) (ds : List (List (Option α))) :
    List (List (Option (Nat × Option α))) :=
  let sr := Knn.smoothKnn T tol minScale target lcIdx lcFrac nIter ds
  (idx.zip (ds.zip sr)).zipIdx.map fun ((ix, d, s, rh), i) => Knn.memberRow T false i s rh ix d

/-- the whole graph stage from a kNN table: `fuzzy_simplicial_set(..., knn_indices, knn_dists,
    set_op_mix_ratio = r)`; `none` if a strength is NaN. -/
def graphOfKnn (T : Transc α) (tol minScale target : α) (lcIdx : Nat) (lcFrac : α) (nIter : Nat) (r : α)
    (idx : List (List (Option Nat))) (ds : List (List (Option α))) : Option (Coo α) :=
  (assemble (memberRows T tol minScale target lcIdx lcFrac nIter idx ds)).map (symmetrize r)

/-- the first `k` columns of a table (`knn_indices[:, :n_neighbors]`). -/
def takeCols {β : Type} (k : Nat) (tbl : List (List β)) : List (List β) := tbl.map (·.take k)

/-- `init_graph_transform`: `none` = an all-NaN row (no neighbour), a neighbour of strength 1
    copies its position, otherwise the strength-weighted mean of the neighbours' positions. -/
def initGraphTransformRow (row : List (Nat × α)) (emb : Nat → List α) (dim : Nat) : Option (List α) :=
  if row.length = 0 then none else
  match row.find? (fun p => eqV p.2 1) with
  | some p =>
      -- rows before the unit entry have already been accumulated, then overwritten by the copy
      some (emb p.1)
  | none =>
    let s := sumL (row.map (·.2))
    some ((List.range dim).map (fun d => sumL (row.map (fun p => p.2 / s * (emb p.1).getD d 0))))

end
end Graph
end Umap
