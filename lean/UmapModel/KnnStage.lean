/-
  UmapModel.KnnStage — the exact (small-data) neighbour stage of `UMAP.fit`
  (umap/umap_.py, the `self._small_data` branch of `fit`:
     `dmat[dmat >= self._disconnection_distance] = np.inf`
     → `fuzzy_simplicial_set(dmat, n_neighbors, …, "precomputed", …)`
     → `nearest_neighbors(X, n_neighbors, metric="precomputed", …)`:
         `knn_indices = fast_knn_indices(X, n_neighbors)`          (umap/utils.py: per row
                                                                    `X[row].argsort()[:n_neighbors]`)
         `knn_dists = X[np.arange(n)[:, None], knn_indices]`
         `knn_indices[knn_dists == np.inf] = -1`).

  A distance matrix is a `List (List α)` of finite values; after the disconnection step an entry
  is an `Option α`, `none` standing for `inf`.  The kNN table uses the conventions of
  `UmapModel.Knn` / `UmapModel.Graph`: index `none` = `-1`, distance `none` = `inf`.

  `argsort` is modelled as the *stable* sort (ties keep index order).  numpy's
  `argsort(kind="quicksort")` does not promise an order among exactly tied values; every
  statement that does not mention ties is independent of that choice.
-/
import UmapModel.Scalar

namespace Umap
namespace KnnStage

section
variable {α : Type} [LT α] [LE α] [DecidableLT α] [DecidableLE α]

/-- one entry of `dmat[dmat >= disconnection_distance] = np.inf`; `thr = none`: no threshold
    (the default `disconnection_distance = inf` leaves every finite entry alone). -/
def cut (thr : Option α) (d : α) : Option α :=
  match thr with
  | none => some d
  | some t => if t ≤ d then none else some d

/-- `dmat[dmat >= self._disconnection_distance] = np.inf`. -/
def threshold (thr : Option α) (D : List (List α)) : List (List (Option α)) :=
  D.map (fun row => row.map (cut thr))

/-- strict comparison of extended values (`none = inf`): `some a < some b ↔ a < b`, every finite
    value is below `inf`, and `inf` is below nothing. -/
def ltExt : Option α → Option α → Bool
  | some a, some b => decide (a < b)
  | some _, none => true
  | none, _ => false

/-- insertion of an index into a list sorted by (extended) key — stable: after equal keys. -/
def insertExt (key : Nat → Option α) (i : Nat) : List Nat → List Nat
  | [] => [i]
  | j :: t => if ltExt (key i) (key j) then i :: j :: t else j :: insertExt key i t

/-- `X[row].argsort()`: the indices of the row in non-decreasing order of value, `inf` largest,
    ties in index order. -/
def argsortExt (row : List (Option α)) : List Nat :=
  (List.range row.length).foldl (fun acc i => insertExt (fun j => row.getD j none) i acc) []

/-- one row of the kNN table: the first `k` indices of the sorted order with their values;
    `knn_indices[knn_dists == inf] = -1` reports an index at distance `inf` as `none`. -/
def knnRow (k : Nat) (row : List (Option α)) : List (Option Nat) × List (Option α) :=
  let order := (argsortExt row).take k
  (order.map (fun j => (row.getD j none).map (fun _ => j)), order.map (fun j => row.getD j none))

/-- the whole exact stage: `(knn_indices, knn_dists)` of the thresholded distance matrix. -/
def exactStage (thr : Option α) (k : Nat) (D : List (List α)) :
    List (List (Option Nat)) × List (List (Option α)) :=
  let rows := (threshold thr D).map (knnRow k)
  (rows.map (·.1), rows.map (·.2))

end
end KnnStage
end Umap
