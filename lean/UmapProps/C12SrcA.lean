import UmapModel.Metrics
import Generated.DistSrc
import UmapProofs.SrcLemmas
import Mathlib.Tactic

set_option linter.unusedSectionVars false

namespace Umap
namespace C12SrcA
open SrcLemmas

section helpers
variable {α β γ δ σ : Type}

theorem foldl_triple (l : List δ) (g₁ : α → δ → α) (g₂ : β → δ → β) (g₃ : γ → δ → γ)
    (a : α) (b : β) (c : γ) :
    l.foldl (fun (st : α × β × γ) p => (g₁ st.1 p, g₂ st.2.1 p, g₃ st.2.2 p)) (a, b, c)
      = (l.foldl g₁ a, l.foldl g₂ b, l.foldl g₃ c) := by
  induction l generalizing a b c with
  | nil => rfl
  | cons p l ih => simp [ih]

/-- the `a = np.zeros(n); for i in range(n): a[i] = f i` idiom builds `map f (range n)` -/
theorem foldl_set_range_aux (init : List α) (f : Nat → α) (k : Nat) (hk : k ≤ init.length) :
    (List.range k).foldl (fun st i => st.set i (f i)) init
      = (List.range k).map f ++ init.drop k := by
  induction k with
  | zero => simp
  | succ k ih =>
    have hk' : k < init.length := hk
    rw [List.range_succ, List.foldl_append, ih (Nat.le_of_lt hk')]
    simp only [List.foldl_cons, List.foldl_nil, List.map_append, List.map_cons, List.map_nil]
    have hlen : ((List.range k).map f).length = k := by simp
    rw [List.set_append_right _ _ (by rw [hlen])]
    rw [hlen, Nat.sub_self, List.drop_eq_getElem_cons hk', List.set_cons_zero]
    simp only [List.append_assoc, List.singleton_append]

theorem foldl_set_range (n : Nat) (f : Nat → α) (d : α) :
    (List.range n).foldl (fun st i => st.set i (f i)) (List.replicate n d)
      = (List.range n).map f := by
  rw [foldl_set_range_aux _ f n (by simp)]
  simp

/-- an index comprehension over two lists of the same length is a map over their zip -/
theorem map_range_getD₂ (x : List α) (y : List β) (dx : α) (dy : β) (h : x.length = y.length)
    (g : α → β → γ) :
    (List.range x.length).map (fun i => g (x.getD i dx) (y.getD i dy))
      = (x.zip y).map (fun p => g p.1 p.2) := by
  apply List.ext_getElem
  · simp [h]
  · intro i h₁ h₂
    have hx : i < x.length := by simpa using h₁
    have hy : i < y.length := h ▸ hx
    simp [List.getD_eq_getElem?_getD, List.getElem?_eq_getElem hx, List.getElem?_eq_getElem hy]

theorem foldl_zip_self (l : List α) (g : σ → α × α → σ) (s : σ) :
    (l.zip l).foldl g s = l.foldl (fun st a => g st (a, a)) s := by
  rw [List.zip_eq_zipWith, List.zipWith_self, List.foldl_map]

end helpers

section generic
variable {α : Type} [Add α] [Sub α] [Mul α] [Div α] [Neg α] [LT α] [LE α]
  [DecidableLT α] [DecidableLE α] [OfNat α 0] [OfNat α 1] [NatCast α]

theorem euclidean_src (T : Transc α) (x y : List α) (h : x.length = y.length) :
    Src.euclidean T x y = Metrics.euclidean T x y := by
  unfold Src.euclidean Metrics.euclidean Metrics.diffs
  simp only []
  -- the *model* side is turned into index-loop form (its body is stable); the two loop bodies are then compared by `simp`,
  -- so that body-level rewrites of the source (a temporary variable, `d * d` for `d ** 2`) are followed
  have hm : sumL (((x.zip y).map (fun p => p.1 - p.2)).map (fun d => d * d))
      = (List.range x.length).foldl
          (fun st i => st + (x.getD i 0 - y.getD i 0) * (x.getD i 0 - y.getD i 0)) 0 := by
    rw [foldl_range_getD₂ x y 0 0 h (fun st a b => st + (a - b) * (a - b))]
    simp [sumL, List.foldl_map]
  rw [hm] <;> (congr 1 <;> (apply List.foldl_ext; intro st i _; simp [Src.sq]))

theorem manhattan_src (x y : List α) (h : x.length = y.length) :
    Src.manhattan x y = Metrics.manhattan x y := by
  unfold Src.manhattan Metrics.manhattan Metrics.diffs
  simp only []
  -- model side into index-loop form, then the loop bodies are compared (follows body-level rewrites of the source)
  have hm : sumL (((x.zip y).map (fun p => p.1 - p.2)).map absV)
      = (List.range x.length).foldl (fun st i => st + absV (x.getD i 0 - y.getD i 0)) 0 := by
    rw [foldl_range_getD₂ x y 0 0 h (fun st a b => st + absV (a - b))]
    simp [sumL, List.foldl_map]
  rw [hm] <;> (apply List.foldl_ext; intro st i _; simp)

theorem chebyshev_src (x y : List α) (h : x.length = y.length) :
    Src.chebyshev x y = Metrics.chebyshev x y := by
  unfold Src.chebyshev Metrics.chebyshev Metrics.diffs
  simp only []
  rw [foldl_range_getD₂ x y 0 0 h (fun st a b => maxV st (absV (a - b)))]
  simp [maxL, maxV, List.foldl_map]

theorem minkowski_src (T : Transc α) (p : α) (x y : List α) (h : x.length = y.length) :
    Src.minkowski T x y p = Metrics.minkowski T p x y := by
  unfold Src.minkowski Metrics.minkowski Metrics.diffs
  simp only []
  rw [foldl_range_getD₂ x y 0 0 h (fun st a b => st + T.pow (absV (a - b)) p)]
  simp [sumL, List.foldl_map]

theorem standardisedEuclidean_src (T : Transc α) (sigma x y : List α)
    (h : x.length = y.length) (hs : x.length = sigma.length) :
    Src.standardisedEuclidean T x y sigma = Metrics.seuclidean T sigma x y := by
  unfold Src.standardisedEuclidean Metrics.seuclidean Metrics.diffs
  simp only []
  rw [foldl_range_getD₃ x y sigma 0 0 0 h hs (fun st a b s => st + Src.sq (a - b) / s)]
  simp [sumL, List.foldl_map, Src.sq, List.zip_map_left]

theorem weightedMinkowski_src (T : Transc α) (w : List α) (p : α) (x y : List α)
    (h : x.length = y.length) (hw : x.length = w.length) :
    Src.weightedMinkowski T x y w p = Metrics.wminkowski T w p x y := by
  unfold Src.weightedMinkowski Metrics.wminkowski Metrics.diffs
  simp only []
  rw [foldl_range_getD₃ x y w 0 0 0 h hw (fun st a b s => st + s * T.pow (absV (a - b)) p)]
  simp [sumL, List.foldl_map, List.zip_map_left]

theorem brayCurtis_src (x y : List α) (h : x.length = y.length) :
    Src.brayCurtis x y = Metrics.brayCurtis x y := by
  unfold Src.brayCurtis Metrics.brayCurtis
  simp only []
  rw [foldl_range_getD₂ x y 0 0 h
    (fun (st : α × α) a b => (st.1 + absV (a - b), st.2 + absV (a + b)))]
  rw [foldl_pair (x.zip y) (fun s p => s + absV (p.1 - p.2)) (fun s p => s + absV (p.1 + p.2))]
  simp [sumL, List.foldl_map]

theorem poincare_src (T : Transc α) (u v : List α) :
    Src.poincare T u v = Metrics.poincare T u v := by
  unfold Src.poincare Metrics.poincare Metrics.dot Metrics.diffs Metrics.two
  simp [List.zip_eq_zipWith, List.map_zipWith, Src.sq, Function.comp_def]

/-! ### mahalanobis -/

theorem mahalanobis_core (vinv : List (List α)) (d : List α) (hv : vinv.length = d.length)
    (hr : ∀ r ∈ vinv, r.length = d.length) :
    (List.range d.length).foldl (fun (st : α) (i : Nat) =>
        st + ((List.range d.length).foldl (fun (st : α) (j : Nat) =>
          st + ((vinv.getD i []).getD j 0) * (d.getD j 0)) 0) * (d.getD i 0)) 0
      = sumL ((vinv.zip d).map
          (fun rd => sumL ((rd.1.zip d).map (fun q => q.1 * q.2)) * rd.2)) := by
  have e1 := foldl_range_getD₂ vinv d [] 0 hv
    (fun (st : α) (row : List α) (di : α) =>
      st + ((List.range d.length).foldl (fun (st : α) (j : Nat) =>
          st + (row.getD j 0) * (d.getD j 0)) 0) * di) 0
  rw [hv] at e1
  rw [e1]
  simp only [sumL, List.foldl_map]
  apply List.foldl_ext
  intro st p hp
  have hp1 : p.1.length = d.length := hr _ (List.of_mem_zip hp).1
  have e2 := foldl_range_getD₂ p.1 d 0 0 hp1 (fun (st : α) a b => st + a * b) 0
  rw [hp1] at e2
  rw [e2]

theorem mahalanobis_src (T : Transc α) (vinv : List (List α)) (x y : List α)
    (h : x.length = y.length)
    (hv : vinv.length = x.length ∧ ∀ r ∈ vinv, r.length = x.length) :
    Src.mahalanobis T x y vinv = Metrics.mahalanobis T vinv x y := by
  unfold Src.mahalanobis Metrics.mahalanobis
  simp only []
  rw [foldl_set_range x.length (fun i => x.getD i 0 - y.getD i 0) 0,
    map_range_getD₂ x y 0 0 h (fun a b => a - b)]
  have hd : (Metrics.diffs x y).length = x.length := by simp [Metrics.diffs, h]
  have := mahalanobis_core vinv (Metrics.diffs x y) (hv.1.trans hd.symm)
    (fun r hr => (hv.2 r hr).trans hd.symm)
  rw [hd] at this
  unfold Metrics.diffs at this ⊢
  rw [this]

/-! ### cosine, correlation -/

theorem cosine_src (T : Transc α) (x y : List α) (h : x.length = y.length) :
    Src.cosine T x y = Metrics.cosine T x y := by
  unfold Src.cosine Metrics.cosine Metrics.dot
  simp only []
  rw [foldl_triple (List.range x.length) (fun s i => s + x.getD i 0 * y.getD i 0)
    (fun s i => s + Src.sq (x.getD i 0)) (fun s i => s + Src.sq (y.getD i 0))]
  have e1 : (List.range x.length).foldl (fun s i => s + x.getD i 0 * y.getD i 0) 0
      = sumL ((x.zip y).map (fun p => p.1 * p.2)) := by
    rw [foldl_range_getD₂ x y 0 0 h (fun st a b => st + a * b)]
    simp [sumL, List.foldl_map]
  have e2 : ∀ z : List α, (List.range z.length).foldl (fun s i => s + Src.sq (z.getD i 0)) 0
      = sumL ((z.zip z).map (fun p => p.1 * p.2)) := by
    intro z
    rw [foldl_range_getD' z 0 (fun st a => st + Src.sq a)]
    simp [sumL, List.foldl_map, foldl_zip_self, Src.sq]
  have e3 := e2 y
  rw [← h] at e3
  rw [e1, e2 x, e3]

theorem correlation_src (T : Transc α) (x y : List α) (h : x.length = y.length) :
    Src.correlation T x y = Metrics.correlation T x y := by
  unfold Src.correlation Metrics.correlation Metrics.mean Metrics.dot
  simp only []
  rw [foldl_pair (List.range x.length) (fun s i => s + x.getD i 0) (fun s i => s + y.getD i 0)]
  have m1 : (List.range x.length).foldl (fun s i => s + x.getD i 0) 0 = sumL x := by
    rw [foldl_range_getD' x 0 (fun st a => st + a)]; rfl
  have m2 : (List.range x.length).foldl (fun s i => s + y.getD i 0) 0 = sumL y := by
    rw [h, foldl_range_getD' y 0 (fun st a => st + a)]; rfl
  rw [m1, m2]
  simp only []
  generalize sumL x / ((x.length : Nat) : α) = mx
  generalize sumL y / ((x.length : Nat) : α) = my
  rw [foldl_triple (List.range x.length) (fun s i => s + Src.sq (x.getD i 0 - mx))
    (fun s i => s + Src.sq (y.getD i 0 - my))
    (fun s i => s + (x.getD i 0 - mx) * (y.getD i 0 - my))]
  have e2 : ∀ (z : List α) (m : α),
      (List.range z.length).foldl (fun s i => s + Src.sq (z.getD i 0 - m)) 0
      = sumL (((z.map (· - m)).zip (z.map (· - m))).map (fun p => p.1 * p.2)) := by
    intro z m
    rw [foldl_range_getD' z 0 (fun st a => st + Src.sq (a - m))]
    simp [sumL, List.foldl_map, foldl_zip_self, Src.sq]
  have e1 : (List.range x.length).foldl
        (fun s i => s + (x.getD i 0 - mx) * (y.getD i 0 - my)) 0
      = sumL (((x.map (· - mx)).zip (y.map (· - my))).map (fun p => p.1 * p.2)) := by
    rw [foldl_range_getD₂ x y 0 0 h (fun st a b => st + (a - mx) * (b - my))]
    simp [sumL, List.foldl_map, List.zip_map]
  have e3 := e2 y my
  rw [← h] at e3
  rw [e1, e2 x mx, e3]

/-! ### the three kernels whose equality needs one law of the scalars; the law is a named
    hypothesis here and is discharged for ordered fields below -/

theorem hamming_src_of (hc0 : ((0 : Nat) : α) = 0) (hcs : ∀ n : Nat, ((n + 1 : Nat) : α) = (n : α) + 1)
    (x y : List α) (h : x.length = y.length) :
    Src.hamming x y = Metrics.hamming x y := by
  unfold Src.hamming Metrics.hamming Metrics.rat
  simp only []
  rw [foldl_range_getD₂ x y 0 0 h (fun st a b => if !(eqV a b) then st + 1 else st)]
  congr 1
  have key : ∀ (l : List (α × α)) (k : Nat),
      l.foldl (fun st p => if !(eqV p.1 p.2) then st + 1 else st) ((k : Nat) : α)
        = ((k + l.countP (fun p => !(eqV p.1 p.2)) : Nat) : α) := by
    intro l
    induction l with
    | nil => intro k; simp
    | cons p l ih =>
      intro k
      rw [List.foldl_cons, List.countP_cons]
      by_cases hp : (!(eqV p.1 p.2)) = true
      · rw [if_pos hp, if_pos hp, ← hcs, ih]
        congr 1; omega
      · rw [if_neg hp, if_neg hp, ih]
        rfl
  have := key (x.zip y) 0
  rw [hc0, Nat.zero_add] at this
  exact this

theorem canberra_src_of (h0 : ∀ a : α, a + 0 = a) (x y : List α) (h : x.length = y.length) :
    Src.canberra x y = Metrics.canberra x y := by
  unfold Src.canberra Metrics.canberra
  simp only []
  rw [foldl_range_getD₂ x y 0 0 h (fun st a b =>
    if 0 < absV a + absV b then st + absV (a - b) / (absV a + absV b) else st)]
  simp only [sumL, List.foldl_map]
  apply List.foldl_ext
  intro st p _
  by_cases hp : 0 < absV p.1 + absV p.2
  · simp [hp]
  · simp [hp, h0]

theorem hellinger_src_of (hmax : ∀ v : α, maxV v 0 = maxV 0 v) (T : Transc α) (x y : List α)
    (h : x.length = y.length) :
    Src.hellinger T x y = Metrics.hellinger T x y := by
  unfold Src.hellinger Metrics.hellinger
  simp only []
  rw [foldl_triple (List.range x.length) (fun s i => s + T.sqrt (x.getD i 0 * y.getD i 0))
    (fun s i => s + x.getD i 0) (fun s i => s + y.getD i 0)]
  have m0 : (List.range x.length).foldl (fun s i => s + T.sqrt (x.getD i 0 * y.getD i 0)) 0
      = sumL ((x.zip y).map (fun p => T.sqrt (p.1 * p.2))) := by
    rw [foldl_range_getD₂ x y 0 0 h (fun st a b => st + T.sqrt (a * b))]
    simp [sumL, List.foldl_map]
  have m1 : (List.range x.length).foldl (fun s i => s + x.getD i 0) 0 = sumL x := by
    rw [foldl_range_getD' x 0 (fun st a => st + a)]; rfl
  have m2 : (List.range x.length).foldl (fun s i => s + y.getD i 0) 0 = sumL y := by
    rw [h, foldl_range_getD' y 0 (fun st a => st + a)]; rfl
  rw [m0, m1, m2]
  simp only [hmax]

end generic

/-! ### ordered fields: the three laws hold, so the equalities are unconditional -/
section field
variable {K : Type} [Field K] [LinearOrder K] [IsStrictOrderedRing K]

theorem hamming_src (x y : List K) (h : x.length = y.length) :
    Src.hamming x y = Metrics.hamming x y :=
  hamming_src_of Nat.cast_zero (fun n => Nat.cast_succ n) x y h

theorem canberra_src (x y : List K) (h : x.length = y.length) :
    Src.canberra x y = Metrics.canberra x y :=
  canberra_src_of add_zero x y h

theorem maxV_zero_comm (v : K) : maxV v 0 = maxV 0 v := by
  unfold maxV
  rcases lt_trichotomy v 0 with hv | hv | hv
  · simp [hv, not_lt.mpr hv.le]
  · simp [hv]
  · simp [hv, not_lt.mpr hv.le]

theorem hellinger_src (T : Transc K) (x y : List K) (h : x.length = y.length) :
    Src.hellinger T x y = Metrics.hellinger T x y :=
  hellinger_src_of maxV_zero_comm T x y h

end field

end C12SrcA
end Umap
