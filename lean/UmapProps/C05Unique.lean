/-
  C05 / C13 — `unique=True` on sparse input: the canonical form of a stored sparse row and the
  key `umap.utils.csr_unique` hashes.

  Model: `Umap.SparseRow` (`valueAt`, `cols`, `canon`, `key`, `dense`).  Everything is proved
  over an arbitrary linear ordered field `K`.

  * `cols_sorted`, `mem_cols`                 – the stored columns, strictly ascending
  * `canon_sorted`, `canon_valueAt`,
    `canon_perm_invariant`                    – the lil form: sorted, same matrix, storage order
                                                irrelevant
  * `key_sorted`, `key_nonzero`, `key_valueAt`,
    `mem_key`                                 – the key: sorted, no zero, same matrix
  * `key_eq_iff_valueAt_eq`,
    `key_eq_iff_dense_eq`                     – same key ↔ same sample
  * `keyWithZeros`, `pinned_key_counterexample`
                                              – the key hashed before `fix: d24727b` separates two
                                                stored forms of the same sample
  * `inverse`, `inverse_lt`, `inverse_le`, `key_inverse`, `inverse_first`, `dense_inverse`,
    `inverse_idem`, `inverse_eq_iff_key_eq`, `inverse_eq_iff_dense_eq`, `unique_partition`,
    `unique_rows_sparse`, `unique_rows_sparse_iff`, `unique_rows_pipeline`
                                              – the first-occurrence index (`index[inverse[i]]` of
                                                `np.unique`) partitions the rows by sample
-/
import UmapModel.SparseRow
import UmapModel.Pipeline
import UmapProofs.Basic
import Mathlib.Tactic
import Mathlib.Data.List.Sort
import Mathlib.Algebra.BigOperators.Group.List.Basic

set_option linter.unusedSectionVars false

namespace Umap
namespace C05
open SparseRow

variable {K : Type} [Field K] [LinearOrder K] [IsStrictOrderedRing K]

theorem eqV_false_iff (a b : K) : eqV a b = false ↔ a ≠ b := by
  rw [← Bool.not_eq_true, eqV_iff]

/-! ### 0. the stored columns -/

theorem mem_insertCol (j x : Nat) (l : List Nat) : x ∈ insertCol j l ↔ x = j ∨ x ∈ l := by
  induction l with
  | nil => simp [insertCol]
  | cons c cs ih =>
    unfold insertCol
    split_ifs with h1 h2
    · simp
    · subst h2; simp
    · simp only [List.mem_cons, ih]; tauto

theorem insertCol_sorted (j : Nat) (l : List Nat) (h : l.Pairwise (· < ·)) :
    (insertCol j l).Pairwise (· < ·) := by
  induction l with
  | nil => simp [insertCol]
  | cons c cs ih =>
    rw [List.pairwise_cons] at h
    unfold insertCol
    split_ifs with h1 h2
    · refine List.pairwise_cons.2 ⟨?_, List.pairwise_cons.2 h⟩
      intro a ha
      rcases List.mem_cons.1 ha with rfl | ha
      · exact h1
      · exact lt_trans h1 (h.1 a ha)
    · exact List.pairwise_cons.2 h
    · refine List.pairwise_cons.2 ⟨?_, ih h.2⟩
      intro a ha
      rcases (mem_insertCol j a cs).1 ha with rfl | ha
      · omega
      · exact h.1 a ha

theorem cols_cons {α : Type} (p : Nat × α) (row : Row α) :
    cols (p :: row) = insertCol p.1 (cols row) := rfl

/-- the columns listed are exactly the columns stored. -/
theorem mem_cols {α : Type} (row : Row α) (j : Nat) : j ∈ cols row ↔ ∃ p ∈ row, p.1 = j := by
  induction row with
  | nil => simp [cols]
  | cons p row ih =>
    rw [cols_cons, mem_insertCol, ih]
    simp only [List.mem_cons, exists_eq_or_imp]
    exact or_congr_left eq_comm

/-- the columns are strictly ascending (in particular distinct). -/
theorem cols_sorted {α : Type} (row : Row α) : (cols row).Pairwise (· < ·) := by
  induction row with
  | nil => simp [cols]
  | cons p row ih => rw [cols_cons]; exact insertCol_sorted _ _ ih

theorem cols_nodup {α : Type} (row : Row α) : (cols row).Nodup :=
  (cols_sorted row).imp (fun h => Nat.ne_of_lt h)

/-! ### 1. `valueAt` -/

@[simp] theorem valueAt_nil (j : Nat) : valueAt ([] : Row K) j = 0 := by
  simp [valueAt]

theorem valueAt_cons (p : Nat × K) (row : Row K) (j : Nat) :
    valueAt (p :: row) j = (if p.1 = j then p.2 else 0) + valueAt row j := by
  unfold valueAt
  by_cases h : p.1 = j
  · simp [h]
  · simp [h]

/-- nothing stored at column `j` ⇒ the matrix holds `0` there. -/
theorem valueAt_eq_zero (row : Row K) (j : Nat) (h : ∀ p ∈ row, p.1 ≠ j) : valueAt row j = 0 := by
  induction row with
  | nil => simp
  | cons p row ih =>
    rw [valueAt_cons, if_neg (h p (List.mem_cons_self ..)),
      ih (fun q hq => h q (List.mem_cons_of_mem _ hq)), add_zero]

theorem valueAt_eq_zero_of_not_mem_cols (row : Row K) (j : Nat) (h : j ∉ cols row) :
    valueAt row j = 0 :=
  valueAt_eq_zero row j (fun p hp hpj => h ((mem_cols row j).2 ⟨p, hp, hpj⟩))

theorem mem_cols_of_valueAt_ne_zero (row : Row K) (j : Nat) (h : valueAt row j ≠ 0) :
    j ∈ cols row := by
  by_contra hc; exact h (valueAt_eq_zero_of_not_mem_cols row j hc)

/-- the order of storage does not change the matrix. -/
theorem valueAt_perm {row row' : Row K} (h : row.Perm row') (j : Nat) :
    valueAt row j = valueAt row' j := by
  unfold valueAt
  rw [sumL_eq_sum, sumL_eq_sum]
  exact ((h.filter _).map _).sum_eq

/-- a row with distinct columns holds exactly what it stores. -/
theorem valueAt_map_nodup (cs : List Nat) (hcs : cs.Nodup) (f : Nat → K) (j : Nat) :
    valueAt (cs.map (fun c => (c, f c))) j = if j ∈ cs then f j else 0 := by
  induction cs with
  | nil => simp
  | cons c cs ih =>
    rw [List.nodup_cons] at hcs
    rw [List.map_cons, valueAt_cons, ih hcs.2]
    by_cases h : c = j
    · subst h; simp [hcs.1]
    · have h' : ¬ j = c := fun e => h e.symm
      simp [h, h']

/-- dropping the stored zeros does not change the matrix. -/
theorem valueAt_filter_nonzero (row : Row K) (j : Nat) :
    valueAt (row.filter (fun p => !eqV p.2 0)) j = valueAt row j := by
  induction row with
  | nil => simp
  | cons p row ih =>
    rw [List.filter_cons]
    by_cases hz : p.2 = 0
    · have : (!eqV p.2 (0 : K)) = false := by simp [hz]
      rw [this, valueAt_cons, hz]
      simp [ih]
    · have : (!eqV p.2 (0 : K)) = true := by
        rw [Bool.not_eq_true', eqV_false_iff]; exact hz
      rw [this, if_pos rfl, valueAt_cons, valueAt_cons, ih]

/-! ### 2. the lil form `canon` -/

theorem canon_cols (row : Row K) : (canon row).map (·.1) = cols row := by
  unfold canon
  rw [List.map_map]
  exact List.map_id' _

/-- **canon_sorted**: the columns of the lil form are strictly ascending. -/
theorem canon_sorted (row : Row K) : ((canon row).map (·.1)).Pairwise (· < ·) := by
  rw [canon_cols]; exact cols_sorted row

/-- **canon_valueAt**: the lil form holds the same matrix row. -/
theorem canon_valueAt (row : Row K) (j : Nat) : valueAt (canon row) j = valueAt row j := by
  unfold canon
  rw [valueAt_map_nodup _ (cols_nodup row)]
  split_ifs with h
  · rfl
  · exact (valueAt_eq_zero_of_not_mem_cols row j h).symm

/-- the entries of the lil form: one per stored column, with the summed value. -/
theorem mem_canon (row : Row K) (p : Nat × K) :
    p ∈ canon row ↔ p.1 ∈ cols row ∧ p.2 = valueAt row p.1 := by
  unfold canon
  rw [List.mem_map]
  constructor
  · rintro ⟨j, hj, rfl⟩; exact ⟨hj, rfl⟩
  · rintro ⟨h1, h2⟩; exact ⟨p.1, h1, by rw [← h2]⟩

theorem cols_perm_invariant {α : Type} {row row' : Row α} (h : row.Perm row') :
    cols row = cols row' := by
  refine (cols_sorted row).eq_of_mem_iff (cols_sorted row') (fun j => ?_)
  rw [mem_cols, mem_cols]
  exact ⟨fun ⟨p, hp, e⟩ => ⟨p, h.mem_iff.1 hp, e⟩, fun ⟨p, hp, e⟩ => ⟨p, h.mem_iff.2 hp, e⟩⟩

/-- **canon_perm_invariant**: the order in which the entries are stored does not matter. -/
theorem canon_perm_invariant {row row' : Row K} (h : row.Perm row') : canon row = canon row' := by
  unfold canon
  rw [cols_perm_invariant h]
  exact List.map_congr_left (fun j _ => by rw [valueAt_perm h])

/-- the lil form is a fixed point: canonicalising twice changes nothing. -/
theorem canon_idem (row : Row K) : canon (canon row) = canon row := by
  have hc : cols (canon row) = cols row := by
    refine (cols_sorted _).eq_of_mem_iff (cols_sorted _) (fun j => ?_)
    rw [mem_cols]
    constructor
    · rintro ⟨p, hp, rfl⟩; exact ((mem_canon row p).1 hp).1
    · intro hj; exact ⟨(j, valueAt row j), (mem_canon row _).2 ⟨hj, rfl⟩, rfl⟩
  have : canon (canon row) = (cols (canon row)).map (fun j => (j, valueAt (canon row) j)) := rfl
  rw [this, hc]
  exact List.map_congr_left (fun j _ => by rw [canon_valueAt])

/-! ### 3. the key -/

/-- the columns that carry a non-zero value, ascending. -/
def supp (row : Row K) : List Nat := (cols row).filter (fun j => !eqV (valueAt row j) 0)

theorem mem_supp (row : Row K) (j : Nat) : j ∈ supp row ↔ valueAt row j ≠ 0 := by
  unfold supp
  rw [List.mem_filter]
  simp only [Bool.not_eq_true', ← Bool.not_eq_true, eqV_iff]
  exact ⟨fun h => h.2, fun h => ⟨mem_cols_of_valueAt_ne_zero row j h, h⟩⟩

theorem supp_sorted (row : Row K) : (supp row).Pairwise (· < ·) :=
  (cols_sorted row).sublist List.filter_sublist

theorem key_eq_map (row : Row K) : key row = (supp row).map (fun j => (j, valueAt row j)) := by
  unfold key canon supp
  rw [List.filter_map]
  rfl

/-- the columns of a key are strictly ascending. -/
theorem key_sorted (row : Row K) : ((key row).map (·.1)).Pairwise (· < ·) := by
  rw [key_eq_map, List.map_map]
  have : ((fun p : Nat × K => p.1) ∘ fun j => (j, valueAt row j)) = id := rfl
  rw [this, List.map_id]
  exact supp_sorted row

/-- **key_nonzero**: no zero value in a key. -/
theorem key_nonzero (row : Row K) : ∀ p ∈ key row, p.2 ≠ 0 := by
  intro p hp
  unfold key at hp
  have := (List.mem_filter.1 hp).2
  rw [Bool.not_eq_true', eqV_false_iff] at this
  exact this

/-- **key_valueAt**: the key holds the same matrix row. -/
theorem key_valueAt (row : Row K) (j : Nat) : valueAt (key row) j = valueAt row j := by
  unfold key
  rw [valueAt_filter_nonzero, canon_valueAt]

/-- the entries of a key: exactly the non-zero entries of the matrix row. -/
theorem mem_key (row : Row K) (p : Nat × K) :
    p ∈ key row ↔ p.2 = valueAt row p.1 ∧ p.2 ≠ 0 := by
  rw [key_eq_map, List.mem_map]
  constructor
  · rintro ⟨j, hj, rfl⟩; exact ⟨rfl, (mem_supp row j).1 hj⟩
  · rintro ⟨h1, h2⟩
    exact ⟨p.1, (mem_supp row p.1).2 (h1 ▸ h2), by rw [← h1]⟩

/-- the key is a function of the matrix row only. -/
theorem key_eq_iff_valueAt_eq (row row' : Row K) :
    key row = key row' ↔ ∀ j, valueAt row j = valueAt row' j := by
  constructor
  · intro h j
    rw [← key_valueAt row j, h, key_valueAt]
  · intro h
    have hs : supp row = supp row' := by
      refine (supp_sorted row).eq_of_mem_iff (supp_sorted row') (fun j => ?_)
      rw [mem_supp, mem_supp, h j]
    rw [key_eq_map, key_eq_map, hs]
    exact List.map_congr_left (fun j _ => by rw [h j])

/-- canonicalisation and permutation do not change the key. -/
theorem key_perm_invariant {row row' : Row K} (h : row.Perm row') : key row = key row' :=
  (key_eq_iff_valueAt_eq row row').2 (valueAt_perm h)

theorem key_canon (row : Row K) : key (canon row) = key row :=
  (key_eq_iff_valueAt_eq _ _).2 (canon_valueAt row)

theorem key_idem (row : Row K) : key (key row) = key row :=
  (key_eq_iff_valueAt_eq _ _).2 (key_valueAt row)

theorem dense_eq_iff (n : Nat) (row row' : Row K) :
    dense n row = dense n row' ↔ ∀ j < n, valueAt row j = valueAt row' j := by
  unfold dense
  rw [List.map_inj_left]
  simp only [List.mem_range]

theorem dense_length (n : Nat) (row : Row K) : (dense n row).length = n := by
  simp [dense]

theorem dense_getElem (n : Nat) (row : Row K) (j : Nat) (hj : j < n) :
    (dense n row)[j]'(by rw [dense_length]; exact hj) = valueAt row j := by
  simp [dense]

/-- one direction needs no bound on the columns: same key ⇒ same dense row of any width. -/
theorem dense_eq_of_key_eq (n : Nat) {row row' : Row K} (h : key row = key row') :
    dense n row = dense n row' :=
  (dense_eq_iff n row row').2 (fun j _ => (key_eq_iff_valueAt_eq row row').1 h j)

/-- **key_eq_iff_dense_eq**: two stored rows (columns `< n`) get the same key exactly when they
    are the same sample — whatever the storage order, duplicate entries or explicit zeros. -/
theorem key_eq_iff_dense_eq (n : Nat) (row row' : Row K)
    (h : ∀ p ∈ row, p.1 < n) (h' : ∀ p ∈ row', p.1 < n) :
    key row = key row' ↔ dense n row = dense n row' := by
  refine ⟨dense_eq_of_key_eq n, fun hd => (key_eq_iff_valueAt_eq row row').2 (fun j => ?_)⟩
  by_cases hj : j < n
  · exact (dense_eq_iff n row row').1 hd j hj
  · rw [valueAt_eq_zero row j (fun p hp e => hj (e ▸ h p hp)),
      valueAt_eq_zero row' j (fun p hp e => hj (e ▸ h' p hp))]

/-! ### 4. the key hashed before the fix -/

/-- what `csr_unique` hashed before `fix: d24727b`: the lil form *with* its stored zeros. -/
def keyWithZeros (row : Row K) : Row K := canon row

/-- a sample stored with an explicit zero, and the same sample without it. -/
def pinA : Row ℚ := [(0, 1), (1, 0)]
def pinB : Row ℚ := [(0, 1)]

/-- **pinned_key_counterexample**: the two stored rows are the same sample (equal dense rows) but
    the old key tells them apart — so identical samples reached the neighbour search.  The
    repaired key identifies them. -/
theorem pinned_key_counterexample :
    dense 2 pinA = dense 2 pinB ∧ keyWithZeros pinA ≠ keyWithZeros pinB
      ∧ key pinA = key pinB := by
  decide +kernel

/-- the old key is still sound in the other direction (it never merges different samples): it
    was only too fine. -/
theorem keyWithZeros_eq_imp_key_eq (row row' : Row K)
    (h : keyWithZeros row = keyWithZeros row') : key row = key row' := by
  unfold keyWithZeros at h
  unfold key
  rw [h]

/-! ### 5. the partition computed by `np.unique` on the keys -/

/-- index of the first row whose key is `k` (`rows.length` when there is none). -/
def firstWith (rows : List (Row K)) (k : Row K) : Nat :=
  rows.findIdx (fun r => decide (key r = k))

/-- index of the first row with the same key as row `i` (`index[inverse[i]]` in the notation of
    `np.unique(keys, return_index=True, return_inverse=True)`: the row of the matrix whose
    embedding is reused for row `i`). -/
def inverse (rows : List (Row K)) (i : Nat) : Nat :=
  firstWith rows (key (rows.getD i []))

theorem inverse_eq (rows : List (Row K)) (i : Nat) (hi : i < rows.length) :
    inverse rows i = firstWith rows (key rows[i]) := by
  unfold inverse
  congr 2
  simp [List.getD, hi]

theorem firstWith_le (rows : List (Row K)) (k : Row K) (i : Nat) (hi : i < rows.length)
    (h : key rows[i] = k) : firstWith rows k ≤ i := by
  unfold firstWith
  by_contra hc
  have := List.not_of_lt_findIdx (Nat.lt_of_not_le hc)
  simp [h] at this

theorem key_firstWith (rows : List (Row K)) (k : Row K) (h : firstWith rows k < rows.length) :
    key (rows[firstWith rows k]'h) = k := by
  have := @List.findIdx_getElem _ (fun r => decide (key r = k)) rows h
  exact of_decide_eq_true this

theorem firstWith_first (rows : List (Row K)) (k : Row K) (j : Nat) (hl : j < rows.length)
    (hj : j < firstWith rows k) : key rows[j] ≠ k := by
  have := List.not_of_lt_findIdx hj
  simpa using this

theorem inverse_le (rows : List (Row K)) (i : Nat) (hi : i < rows.length) :
    inverse rows i ≤ i := by
  rw [inverse_eq rows i hi]
  exact firstWith_le rows _ i hi rfl

theorem inverse_lt (rows : List (Row K)) (i : Nat) (hi : i < rows.length) :
    inverse rows i < rows.length :=
  lt_of_le_of_lt (inverse_le rows i hi) hi

/-- the chosen representative has the same key. -/
theorem key_inverse (rows : List (Row K)) (i : Nat) (hi : i < rows.length) :
    key (rows[inverse rows i]'(inverse_lt rows i hi)) = key rows[i] := by
  have h := inverse_lt rows i hi
  have e := inverse_eq rows i hi
  have : ∀ m (hm : m < rows.length), m = firstWith rows (key rows[i]) →
      key rows[m] = key rows[i] := by
    intro m hm em
    subst em
    exact key_firstWith rows _ hm
  exact this _ h e

/-- … and it is the first such row. -/
theorem inverse_first (rows : List (Row K)) (i k : Nat) (hi : i < rows.length)
    (hk : k < inverse rows i) :
    key (rows[k]'(lt_trans hk (inverse_lt rows i hi))) ≠ key rows[i] := by
  rw [inverse_eq rows i hi] at hk
  exact firstWith_first rows _ k _ hk

/-- the representative only depends on the key of the row. -/
theorem inverse_congr (rows : List (Row K)) (i j : Nat) (hi : i < rows.length)
    (hj : j < rows.length) (h : key rows[i] = key rows[j]) : inverse rows i = inverse rows j := by
  rw [inverse_eq rows i hi, inverse_eq rows j hj, h]

/-- two rows share their representative exactly when they have the same key. -/
theorem inverse_eq_iff_key_eq (rows : List (Row K)) (i j : Nat) (hi : i < rows.length)
    (hj : j < rows.length) : inverse rows i = inverse rows j ↔ key rows[i] = key rows[j] := by
  refine ⟨fun h => ?_, inverse_congr rows i j hi hj⟩
  rw [← key_inverse rows i hi, ← key_inverse rows j hj]
  simp only [h]

/-- the representative is the same sample. -/
theorem dense_inverse (n : Nat) (rows : List (Row K)) (i : Nat) (hi : i < rows.length) :
    dense n (rows[inverse rows i]'(inverse_lt rows i hi)) = dense n rows[i] :=
  dense_eq_of_key_eq n (key_inverse rows i hi)

/-- `inverse` is idempotent: a representative represents itself. -/
theorem inverse_idem (rows : List (Row K)) (i : Nat) (hi : i < rows.length) :
    inverse rows (inverse rows i) = inverse rows i :=
  inverse_congr rows _ _ (inverse_lt rows i hi) hi (key_inverse rows i hi)

/-- two rows (columns `< n`) share their representative exactly when they are the same sample. -/
theorem inverse_eq_iff_dense_eq (n : Nat) (rows : List (Row K))
    (hn : ∀ r ∈ rows, ∀ p ∈ r, p.1 < n) (i j : Nat) (hi : i < rows.length)
    (hj : j < rows.length) :
    inverse rows i = inverse rows j ↔ dense n rows[i] = dense n rows[j] := by
  rw [inverse_eq_iff_key_eq rows i j hi hj]
  exact key_eq_iff_dense_eq n _ _ (hn _ (List.getElem_mem hi)) (hn _ (List.getElem_mem hj))

/-- **unique_partition**: for every row `i` the representative `inverse rows i` is a row of the
    matrix, not after `i`, the same sample as row `i`, and its own representative. -/
theorem unique_partition (n : Nat) (rows : List (Row K)) (i : Nat) (hi : i < rows.length) :
    ∃ h : inverse rows i < rows.length,
      inverse rows i ≤ i
      ∧ dense n (rows[inverse rows i]'h) = dense n rows[i]
      ∧ inverse rows (inverse rows i) = inverse rows i :=
  ⟨inverse_lt rows i hi, inverse_le rows i hi, dense_inverse n rows i hi, inverse_idem rows i hi⟩

/-- mapping the embedding of the rows back through `inverse`: `out[i] = emb (inverse i)`.
    Identical samples (columns `< n`) get identical output rows. -/
theorem unique_rows_sparse {γ : Type} (n : Nat) (rows : List (Row K)) (emb : Nat → γ)
    (hn : ∀ r ∈ rows, ∀ p ∈ r, p.1 < n) (i j : Nat) (hi : i < rows.length)
    (hj : j < rows.length) (hd : dense n rows[i] = dense n rows[j]) :
    emb (inverse rows i) = emb (inverse rows j) := by
  rw [(inverse_eq_iff_dense_eq n rows hn i j hi hj).2 hd]

/-- … and when the embedding separates the distinct representatives, only identical samples
    do. -/
theorem unique_rows_sparse_iff {γ : Type} (n : Nat) (rows : List (Row K)) (emb : Nat → γ)
    (hn : ∀ r ∈ rows, ∀ p ∈ r, p.1 < n)
    (hinj : ∀ a b, a < rows.length → b < rows.length → inverse rows a = a → inverse rows b = b →
      emb a = emb b → a = b)
    (i j : Nat) (hi : i < rows.length) (hj : j < rows.length) :
    emb (inverse rows i) = emb (inverse rows j) ↔ dense n rows[i] = dense n rows[j] := by
  refine ⟨fun h => ?_, unique_rows_sparse n rows emb hn i j hi hj⟩
  exact (inverse_eq_iff_dense_eq n rows hn i j hi hj).1
    (hinj _ _ (inverse_lt rows i hi) (inverse_lt rows j hj) (inverse_idem rows i hi)
      (inverse_idem rows j hj) h)

/-- the same statement for the `unique=True` round trip of `Umap.Pipeline` run on the keys
    (`distinctRows` / `inverseIndex` / `expand`, see `C05.unique_rows`): identical samples —
    however they are stored — receive the identical embedding row. -/
theorem unique_rows_pipeline {γ : Type} [Inhabited γ] (n : Nat) (rows : List (Row K))
    (emb : List γ) (hn : ∀ r ∈ rows, ∀ p ∈ r, p.1 < n) (i j : Nat) (hi : i < rows.length)
    (hj : j < rows.length) (hd : dense n rows[i] = dense n rows[j]) :
    (Pipeline.expand emb (Pipeline.inverseIndex (rows.map key)))[i]'(by
        simp [Pipeline.expand, Pipeline.inverseIndex]; exact hi)
      = (Pipeline.expand emb (Pipeline.inverseIndex (rows.map key)))[j]'(by
        simp [Pipeline.expand, Pipeline.inverseIndex]; exact hj) := by
  have hk : key rows[i] = key rows[j] :=
    (key_eq_iff_dense_eq n _ _ (hn _ (List.getElem_mem hi)) (hn _ (List.getElem_mem hj))).2 hd
  simp only [Pipeline.expand, Pipeline.inverseIndex, List.getElem_map, hk]

/-! ### 6. non-vacuity: concrete stored rows over ℚ -/

/-- the same sample `(1, 0, 5)` stored three ways: canonical; shuffled with a duplicate column
    and an explicit zero; with a cancelling pair.  And a different sample. -/
def exA : Row ℚ := [(0, 1), (2, 5)]
def exB : Row ℚ := [(2, 2), (1, 0), (0, 1), (2, 3)]
def exC : Row ℚ := [(1, 4), (2, 5), (1, -4), (0, 1)]
def exD : Row ℚ := [(0, 1), (2, 4)]

example : (∀ p ∈ exA, p.1 < 3) ∧ (∀ p ∈ exB, p.1 < 3) ∧ (∀ p ∈ exC, p.1 < 3)
    ∧ (∀ p ∈ exD, p.1 < 3) := by decide +kernel
example : canon exB = [(0, 1), (1, 0), (2, 5)] := by decide +kernel
example : canon exC = [(0, 1), (1, 0), (2, 5)] := by decide +kernel
example : key exB = [(0, 1), (2, 5)] ∧ key exA = key exB ∧ key exB = key exC := by
  decide +kernel
example : dense 3 exA = [1, 0, 5] ∧ dense 3 exB = dense 3 exA ∧ dense 3 exC = dense 3 exA := by
  decide +kernel
/-- both sides of `key_eq_iff_dense_eq` can be false. -/
example : key exA ≠ key exD ∧ dense 3 exA ≠ dense 3 exD := by decide +kernel
/-- `canon_perm_invariant` on a genuine permutation. -/
example : exB.Perm [(0, 1), (2, 3), (2, 2), (1, 0)] := by decide +kernel
example : canon exB = canon [(0, 1), (2, 3), (2, 2), (1, 0)] :=
  canon_perm_invariant (by decide +kernel)
/-- the column bound in `key_eq_iff_dense_eq` cannot be dropped: a column beyond the width is
    invisible in `dense`. -/
example : dense 2 exA = dense 2 [(0, 1)] ∧ key exA ≠ key [((0 : Nat), (1 : ℚ))] := by
  decide +kernel
/-- the partition of a four-row matrix: rows 0, 1, 3 are the same sample, row 2 is not. -/
example : (List.range 4).map (inverse [exA, exB, exD, exC]) = [0, 0, 2, 0] := by decide +kernel
example : ∀ r ∈ [exA, exB, exD, exC], ∀ p ∈ r, p.1 < 3 := by decide +kernel

end C05
end Umap
