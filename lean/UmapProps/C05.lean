/-
  C05 — fit_transform returns one finite row per sample for every valid input.

  Partial by nature: what is proved is the definedness / shape logic of the stages around the
  numerical core — the per-axis rescale never divides by zero and lands in [0, 10], the scale
  factor of `noisy_scale_coords` is always defined, the truncated neighbour count is valid, the
  `unique=True` round trip returns one row per input row with identical rows for identical
  inputs, and every SGD coordinate move is bounded (from C07).  Float finiteness of the optimiser
  and of the third-party initialisers is validated by the correspondence, not proved.
-/
import UmapProofs.Basic
import UmapModel.Pipeline
import UmapProps.C07
import Mathlib.Tactic

namespace Umap
namespace C05
open Pipeline

/-! ### n_neighbors truncation -/

/-- the effective neighbour count is below the number of rows, and at least 2 as soon as there
    are 3 rows (what the graph stage needs). -/
theorem truncateK_valid (n k : Nat) (hn : 3 ≤ n) (hk : 2 ≤ k) :
    truncateK n k < n ∧ 2 ≤ truncateK n k ∧ truncateK n k ≤ k := by
  unfold truncateK
  split_ifs with h <;> omega

/-! ### unique=True: index / inverse round trip -/

theorem idxOf_lt_of_mem {β : Type} [BEq β] [LawfulBEq β] (l : List β) (x : β) (h : x ∈ l) :
    l.idxOf x < l.length := List.idxOf_lt_length_of_mem h

/-- every input row is recovered from the distinct rows through the inverse index. -/
theorem unique_roundtrip {β : Type} [BEq β] [LawfulBEq β] [Inhabited β] (xs : List β) :
    expand (distinctRows xs) (inverseIndex xs) = xs := by
  unfold expand inverseIndex distinctRows
  rw [List.map_map]
  conv_rhs => rw [← List.map_id xs]
  apply List.map_congr_left
  intro x hx
  have hm : x ∈ xs.eraseDups := List.mem_eraseDups.2 hx
  have hlt := List.idxOf_lt_length_of_mem hm
  simp only [Function.comp, id]
  rw [List.getD_eq_getElem?_getD, List.getElem?_eq_getElem hlt, Option.getD_some]
  exact List.getElem_idxOf hlt

/-- one output row per input row; identical input rows get the identical embedding row. -/
theorem unique_rows {β γ : Type} [BEq β] [LawfulBEq β] [Inhabited γ] (xs : List β) (emb : List γ) :
    (expand emb (inverseIndex xs)).length = xs.length
    ∧ ∀ i j (hi : i < xs.length) (hj : j < xs.length), xs[i] = xs[j] →
        (expand emb (inverseIndex xs))[i]'(by simp [expand, inverseIndex]; exact hi)
          = (expand emb (inverseIndex xs))[j]'(by simp [expand, inverseIndex]; exact hj) := by
  constructor
  · simp [expand, inverseIndex]
  · intro i j hi hj h
    simp only [expand, inverseIndex, List.getElem_map, h]

/-! ### rescaling of the initial layout -/

variable {K : Type} [Field K] [LinearOrder K] [IsStrictOrderedRing K]

/-- a non-constant axis is mapped into `[0, 10]`. -/
theorem rescale_range (mn mx x : K) (h : mn < mx) (h1 : mn ≤ x) (h2 : x ≤ mx) :
    0 ≤ rescale10 mn mx x ∧ rescale10 mn mx x ≤ 10 := by
  unfold rescale10
  have hr : ¬ (mx - mn = 0) := by intro h0; linarith
  have : eqV (mx - mn) 0 = false := by
    rw [Bool.eq_false_iff]; intro h0; exact hr ((eqV_iff _ _).1 h0)
  simp only [this, Bool.false_eq_true, if_false, Nat.cast_ofNat]
  have hpos : 0 < mx - mn := by linarith
  constructor
  · apply div_nonneg _ (le_of_lt hpos); nlinarith
  · rw [div_le_iff₀ hpos]; nlinarith

/-- a constant axis is mapped to 0 — no division by the zero range (the pinned code's 0/0). -/
theorem rescale_constant_axis (c : K) : rescale10 c c c = 0 := by
  unfold rescale10
  have : eqV (c - c) 0 = true := (eqV_iff _ _).2 (sub_self c)
  simp [this]

/-- the scale factor of `noisy_scale_coords` is defined and positive for every layout, the
    all-zero one included. -/
theorem expansion_pos (maxCoord maxAbs : K) (hm : 0 < maxCoord) (ha : 0 ≤ maxAbs) :
    0 < expansion maxCoord maxAbs := by
  unfold expansion
  split_ifs with h
  · exact div_pos hm h
  · exact one_pos

/-- every SGD write moves a coordinate by at most `4 α` (C07), so after `m` writes a coordinate
    lies within `init ± 4 α m`: the optimiser cannot leave a bounded box in exact arithmetic. -/
theorem sgd_moves_bounded (cur gc diff alpha : K) (ha : 0 ≤ alpha) :
    |(cur + Sgd.clip (gc * diff) * alpha) - cur| ≤ 4 * alpha :=
  C07.move_le_four_alpha cur gc diff alpha ha

/-! ### non-vacuity -/
example : expand (distinctRows [3, 5, 3, 7, 5]) (inverseIndex [3, 5, 3, 7, 5]) = [3, 5, 3, 7, 5] := by
  decide
example : truncateK 9 15 = 8 := by decide
example : rescale10 (2 : ℚ) 7 4 = 4 := by norm_num [rescale10, eqV]

end C05
end Umap
