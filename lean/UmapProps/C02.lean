/-
  C02 — the fitted graph is a well-formed fuzzy union of the directed neighbourhoods.

  Model: `Umap.Graph.symmetrize r A` (umap_.py `fuzzy_simplicial_set`, the block
  `result = r * (result + transpose - prod) + (1 - r) * prod; eliminate_zeros`).
  Everything here holds over every linear ordered field (so over ℚ and ℝ at once).
-/
import UmapProofs.Basic

namespace Umap
namespace C02
open Graph

variable {K : Type} [Field K] [LinearOrder K] [IsStrictOrderedRing K]

/-! ### the entry formula -/

/-- every stored entry of the symmetrised graph is the blend `r(a+b-ab) + (1-r)ab` of the two
    directed strengths, and is non-zero (no explicitly stored zeros). -/
theorem entry_formula (r : K) (A : Coo K) (i j : Nat) (v : K)
    (h : (i, j, v) ∈ symmetrize r A) :
    v = mix r (lookup A i j) (lookup A j i) ∧ v ≠ 0 := by
  unfold symmetrize elimZeros at h
  simp only [List.mem_filter, List.mem_map, Prod.exists, Bool.not_eq_true',
    Bool.not_eq_eq_eq_not, Bool.not_true] at h
  obtain ⟨⟨a, b, _, hab⟩, hz⟩ := h
  simp only [Prod.mk.injEq] at hab
  obtain ⟨rfl, rfl, rfl⟩ := hab
  refine ⟨rfl, ?_⟩
  intro h0
  have : isZero (mix r (lookup A a b) (lookup A b a)) = true := (isZero_iff _).2 h0
  rw [this] at hz
  exact Bool.noConfusion hz

/-- symmetric: the blend does not depend on the order of the two strengths. -/
theorem mix_comm (r a b : K) : mix r a b = mix r b a := by unfold mix; ring

private theorem mem_positions_sym (A : Coo K) (i j : Nat) :
    (i, j) ∈ positions (A ++ transposeC A) → (j, i) ∈ positions (A ++ transposeC A) := by
  unfold positions transposeC
  simp only [List.mem_eraseDups, List.map_append, List.map_map, List.mem_append, List.mem_map,
    Function.comp, Prod.mk.injEq, Prod.exists]
  rintro (⟨a, b, c, h, rfl, rfl⟩ | ⟨a, b, c, h, rfl, rfl⟩)
  · exact Or.inr ⟨_, _, _, h, rfl, rfl⟩
  · exact Or.inl ⟨_, _, _, h, rfl, rfl⟩

/-- the graph is symmetric: `(i, j, v)` stored ⇒ `(j, i, v)` stored. -/
theorem symmetric (r : K) (A : Coo K) (i j : Nat) (v : K)
    (h : (i, j, v) ∈ symmetrize r A) : (j, i, v) ∈ symmetrize r A := by
  have hv := entry_formula r A i j v h
  unfold symmetrize elimZeros at h ⊢
  simp only [List.mem_filter, List.mem_map, Prod.exists, Bool.not_eq_true',
    Bool.not_eq_eq_eq_not, Bool.not_true] at h ⊢
  obtain ⟨⟨a, b, hpos, hab⟩, hz⟩ := h
  simp only [Prod.mk.injEq] at hab
  obtain ⟨rfl, rfl, rfl⟩ := hab
  refine ⟨⟨b, a, mem_positions_sym A a b hpos, ?_⟩, ?_⟩
  · simp only [Prod.mk.injEq, true_and]; exact mix_comm _ _ _
  · exact hz

/-! ### range, support and monotonicity of the blend -/

theorem mix_nonneg {r a b : K} (hr0 : 0 ≤ r) (hr1 : r ≤ 1) (ha0 : 0 ≤ a) (ha1 : a ≤ 1)
    (hb0 : 0 ≤ b) (hb1 : b ≤ 1) : 0 ≤ mix r a b := by
  unfold mix
  have h1 : 0 ≤ a * b := mul_nonneg ha0 hb0
  have h2 : 0 ≤ a + b - a * b := by nlinarith
  have h3 : 0 ≤ 1 - r := by linarith
  positivity

theorem mix_le_one {r a b : K} (hr0 : 0 ≤ r) (hr1 : r ≤ 1) (ha0 : 0 ≤ a) (ha1 : a ≤ 1)
    (hb0 : 0 ≤ b) (hb1 : b ≤ 1) : mix r a b ≤ 1 := by
  unfold mix
  have h1 : a * b ≤ 1 := by nlinarith
  have h2 : a + b - a * b ≤ 1 := by nlinarith
  have h3 : 0 ≤ 1 - r := by linarith
  nlinarith

/-- with a pure union (`r = 1`) the entry is at least the larger directed strength. -/
theorem mix_one_ge_max {a b : K} (ha0 : 0 ≤ a) (ha1 : a ≤ 1) (hb0 : 0 ≤ b) (hb1 : b ≤ 1) :
    max a b ≤ mix 1 a b := by
  unfold mix
  apply max_le <;> nlinarith

/-- with a pure intersection (`r = 0`) it is at most the smaller one. -/
theorem mix_zero_le_min {a b : K} (ha0 : 0 ≤ a) (ha1 : a ≤ 1) (hb0 : 0 ≤ b) (hb1 : b ≤ 1) :
    mix 0 a b ≤ min a b := by
  unfold mix
  apply le_min <;> nlinarith

/-- and it is non-decreasing in `r`. -/
theorem mix_mono_r {r r' a b : K} (hrr : r ≤ r') (ha0 : 0 ≤ a) (ha1 : a ≤ 1) (hb0 : 0 ≤ b)
    (hb1 : b ≤ 1) : mix r a b ≤ mix r' a b := by
  unfold mix
  have h : 0 ≤ a + b - a * b - a * b := by nlinarith
  nlinarith

/-- an edge exists only where at least one directed strength is non-zero. -/
theorem mix_support {r a b : K} (h : mix r a b ≠ 0) : a ≠ 0 ∨ b ≠ 0 := by
  by_contra hc
  push Not at hc
  obtain ⟨rfl, rfl⟩ := hc
  apply h; unfold mix; ring

/-! ### the property, for every stored entry of every graph -/

/-- directed strengths are memberships: every position of `A` carries a value in `[0, 1]`. -/
def UnitValued (A : Coo K) : Prop := ∀ i j, 0 ≤ lookup A i j ∧ lookup A i j ≤ 1

/--
  **C02 (graph clauses).** For every directed membership matrix `A` with strengths in `[0,1]`,
  every mix ratio `r ∈ [0,1]` and every stored entry `(i, j, v)` of the fitted graph:
  `v` is the blend of the two directed strengths, lies in `(0, 1]`, the mirrored entry is stored
  with the same value, and at least one of the two directed strengths is non-zero (so the edge
  joins a sample to one of its neighbours, in one direction or the other).
-/
theorem C02_graph_wellformed (r : K) (hr0 : 0 ≤ r) (hr1 : r ≤ 1) (A : Coo K) (hA : UnitValued A)
    (i j : Nat) (v : K) (h : (i, j, v) ∈ symmetrize r A) :
    v = mix r (lookup A i j) (lookup A j i)
    ∧ 0 < v ∧ v ≤ 1
    ∧ (j, i, v) ∈ symmetrize r A
    ∧ (lookup A i j ≠ 0 ∨ lookup A j i ≠ 0) := by
  obtain ⟨hv, hne⟩ := entry_formula r A i j v h
  obtain ⟨ha0, ha1⟩ := hA i j
  obtain ⟨hb0, hb1⟩ := hA j i
  have h0 : 0 ≤ v := hv ▸ mix_nonneg hr0 hr1 ha0 ha1 hb0 hb1
  have h1 : v ≤ 1 := hv ▸ mix_le_one hr0 hr1 ha0 ha1 hb0 hb1
  refine ⟨hv, lt_of_le_of_ne h0 (Ne.symm hne), h1, symmetric r A i j v h, ?_⟩
  exact mix_support (hv ▸ hne)

/-- the diagonal is empty when no sample is its own (non-zero) neighbour. -/
theorem C02_empty_diagonal (r : K) (A : Coo K) (hd : ∀ i, lookup A i i = 0) (i : Nat) (v : K) :
    (i, i, v) ∉ symmetrize r A := by
  intro h
  obtain ⟨hv, hne⟩ := entry_formula r A i i v h
  apply hne
  rw [hv, hd i]; unfold mix; ring

/-- **C02 (r-clauses).** `r = 1` ⇒ at least `max a b`; `r = 0` ⇒ at most `min a b`;
    non-decreasing in `r`. -/
theorem C02_mix_ratio_clauses {a b : K} (ha0 : 0 ≤ a) (ha1 : a ≤ 1) (hb0 : 0 ≤ b) (hb1 : b ≤ 1) :
    max a b ≤ mix 1 a b ∧ mix 0 a b ≤ min a b ∧ ∀ r r' : K, r ≤ r' → mix r a b ≤ mix r' a b :=
  ⟨mix_one_ge_max ha0 ha1 hb0 hb1, mix_zero_le_min ha0 ha1 hb0 hb1,
   fun _ _ h => mix_mono_r h ha0 ha1 hb0 hb1⟩

/-! ### non-vacuity: a concrete asymmetric graph over ℚ -/

def exA : Coo ℚ := [(0, 1, 1), (0, 2, 1/2), (1, 0, 1/4), (2, 1, 1)]

example : (0, 1, (1:ℚ)) ∈ symmetrize (1:ℚ) exA := by decide +kernel
example : (1, 0, (1:ℚ)) ∈ symmetrize (1:ℚ) exA := by decide +kernel
example : (2, 0, (1/2:ℚ)) ∈ symmetrize (1:ℚ) exA := by decide +kernel
example : (0, 1, (1/4:ℚ)) ∈ symmetrize (0:ℚ) exA := by decide +kernel

end C02
end Umap
