/-
  UmapProps.C13SrcA — the translated real-valued sparse metrics of umap/sparse.py
  (`Generated/SparseSrc.lean`, namespace `Umap.SrcSparse`) equal the hand-written model
  (`UmapModel/Sparse.lean`) on canonical CSR rows, RELATIVE to `SparseSrcSpec.CoreSpec α`
  (the translated merge helpers compute the model's merges; proved in `UmapProps/C13SrcCore.lean`).

  Every theorem here is pure list / loop manipulation: it holds for ANY scalar type carrying the
  unbundled operations (no algebraic laws), hence also for the executed `Float` instance.
-/
import UmapModel.Sparse
import Generated.SparseSrc
import UmapProofs.SparseSrcSpec
import UmapProofs.SrcLemmas
import Mathlib.Tactic

set_option linter.unusedSectionVars false
set_option linter.unusedVariables false

namespace Umap
namespace C13SrcA
open SrcLemmas SparseSrcSpec Sparse

/-! ### helpers: `pack` / `unpack` / `Canon` bookkeeping -/
section helpers
variable {α : Type}

theorem vals_pack (ind : List Nat) (data : List α) (h : ind.length = data.length) :
    vals (pack ind data) = data := by
  unfold vals pack
  exact List.map_snd_zip (Nat.le_of_eq h.symm)

theorem inds_pack (ind : List Nat) (data : List α) (h : ind.length = data.length) :
    (pack ind data).map (·.1) = ind := by
  unfold pack
  exact List.map_fst_zip (Nat.le_of_eq h)

theorem pack_map_right (ind : List Nat) (data : List α) (f : α → α) :
    pack ind (data.map f) = (pack ind data).map (fun p => (p.1, f p.2)) := by
  unfold pack
  rw [List.zip_map_right]
  rfl

theorem pack_unpack (v : SVec α) : pack (unpack v).1 (unpack v).2 = v := by
  unfold pack unpack
  induction v with
  | nil => rfl
  | cons p v ih => simp_all

theorem pack_unpack_map (v : SVec α) (f : α → α) :
    pack (unpack v).1 ((unpack v).2.map f) = v.map (fun p => (p.1, f p.2)) := by
  rw [pack_map_right, pack_unpack]

theorem pack_maps_map (v : SVec α) (f : α → α) :
    pack (v.map (fun p => p.1)) ((v.map (fun p => p.2)).map f) = v.map (fun p => (p.1, f p.2)) :=
  pack_unpack_map v f

theorem canon_map {ind : List Nat} {data : List α} (f : α → α) (h : Canon ind data) :
    Canon ind (data.map f) := by
  refine ⟨?_, h.2⟩
  rw [List.length_map]
  exact h.1

theorem unpack_snd (v : SVec α) : (unpack v).2 = vals v := rfl

theorem unpack_fst_length (v : SVec α) : (unpack v).1.length = v.length := by
  simp [unpack]

end helpers

section norm
variable {α : Type} [Add α] [Mul α] [OfNat α 0]

/-- `norm` is the Euclidean norm the model's `sCosine` uses (no hypothesis at all). -/
theorem norm_src (T : Transc α) (v : List α) :
    SrcSparse.norm T v = T.sqrt (sumL (v.map (fun v => v * v))) := by
  unfold SrcSparse.norm
  simp only []
  rw [foldl_range_getD' v 0 (fun st a => st + SrcSparse.sq a)]
  simp [sumL, List.foldl_map, SrcSparse.sq]

end norm

section generic
variable {α : Type} [Add α] [Sub α] [Mul α] [Div α] [Neg α] [LT α] [LE α]
  [DecidableLT α] [DecidableLE α] [OfNat α 0] [OfNat α 1] [NatCast α] [IntCast α]

variable (H : CoreSpec α)
include H

theorem sparseEuclidean_src (T : Transc α) (ind1 : List Nat) (data1 : List α) (ind2 : List Nat)
    (data2 : List α) (hc1 : Canon ind1 data1) (hc2 : Canon ind2 data2) :
    SrcSparse.sparseEuclidean T ind1 data1 ind2 data2
      = sEuclidean T (pack ind1 data1) (pack ind2 data2) := by
  unfold SrcSparse.sparseEuclidean sEuclidean
  rw [H.diff ind1 data1 ind2 data2 hc1 hc2]
  simp only [unpack]
  rw [foldl_range_getD' _ 0 (fun st a => st + SrcSparse.sq a)]
  simp [sumL, List.foldl_map, SrcSparse.sq, vals]

theorem sparseManhattan_src (ind1 : List Nat) (data1 : List α) (ind2 : List Nat)
    (data2 : List α) (hc1 : Canon ind1 data1) (hc2 : Canon ind2 data2) :
    SrcSparse.sparseManhattan ind1 data1 ind2 data2
      = sManhattan (pack ind1 data1) (pack ind2 data2) := by
  unfold SrcSparse.sparseManhattan sManhattan
  rw [H.diff ind1 data1 ind2 data2 hc1 hc2]
  simp only [unpack]
  rw [foldl_range_getD' _ 0 (fun st a => st + absV a)]
  simp [sumL, List.foldl_map, vals]

theorem sparseChebyshev_src (ind1 : List Nat) (data1 : List α) (ind2 : List Nat)
    (data2 : List α) (hc1 : Canon ind1 data1) (hc2 : Canon ind2 data2) :
    SrcSparse.sparseChebyshev ind1 data1 ind2 data2
      = sChebyshev (pack ind1 data1) (pack ind2 data2) := by
  unfold SrcSparse.sparseChebyshev sChebyshev
  rw [H.diff ind1 data1 ind2 data2 hc1 hc2]
  simp only [unpack]
  rw [foldl_range_getD' _ 0 (fun st a => maxV st (absV a))]
  simp [maxL, maxV, List.foldl_map, vals]

/-- argument order differs: the model takes `p` first -/
theorem sparseMinkowski_src (T : Transc α) (ind1 : List Nat) (data1 : List α) (ind2 : List Nat)
    (data2 : List α) (p : α) (hc1 : Canon ind1 data1) (hc2 : Canon ind2 data2) :
    SrcSparse.sparseMinkowski T ind1 data1 ind2 data2 p
      = sMinkowski T p (pack ind1 data1) (pack ind2 data2) := by
  unfold SrcSparse.sparseMinkowski sMinkowski
  rw [H.diff ind1 data1 ind2 data2 hc1 hc2]
  simp only [unpack]
  rw [foldl_range_getD' _ 0 (fun st a => st + T.pow (absV a) p)]
  simp [sumL, List.foldl_map, vals]

theorem sparseHamming_src (ind1 : List Nat) (data1 : List α) (ind2 : List Nat)
    (data2 : List α) (n_features : Nat) (hc1 : Canon ind1 data1) (hc2 : Canon ind2 data2) :
    SrcSparse.sparseHamming ind1 data1 ind2 data2 n_features
      = sHamming n_features (pack ind1 data1) (pack ind2 data2) := by
  unfold SrcSparse.sparseHamming sHamming Metrics.rat
  rw [H.diff ind1 data1 ind2 data2 hc1 hc2]
  simp [unpack]

theorem sparseCanberra_src (ind1 : List Nat) (data1 : List α) (ind2 : List Nat)
    (data2 : List α) (hc1 : Canon ind1 data1) (hc2 : Canon ind2 data2) :
    SrcSparse.sparseCanberra ind1 data1 ind2 data2
      = sCanberra (pack ind1 data1) (pack ind2 data2) := by
  unfold SrcSparse.sparseCanberra sCanberra
  have ha1 : Canon ind1 (data1.map absV) := canon_map absV hc1
  have ha2 : Canon ind2 (data2.map absV) := canon_map absV hc2
  have hnum := canon_map (absV : α → α) (H.diffCanon ind1 data1 ind2 data2 hc1 hc2)
  have hden := canon_map (fun b : α => 1 / b)
    (H.sumCanon ind1 (data1.map absV) ind2 (data2.map absV) ha1 ha2)
  have hmul := H.mul _ _ _ _ hnum hden
  dsimp only []
  rw [H.sum ind1 _ ind2 _ ha1 ha2, H.diff ind1 data1 ind2 data2 hc1 hc2]
  simp only [unpack] at hmul ⊢
  rw [hmul, pack_maps_map, pack_maps_map, pack_map_right, pack_map_right]
  rfl

theorem sparseBrayCurtis_src (ind1 : List Nat) (data1 : List α) (ind2 : List Nat)
    (data2 : List α) (hc1 : Canon ind1 data1) (hc2 : Canon ind2 data2) :
    SrcSparse.sparseBrayCurtis ind1 data1 ind2 data2
      = sBrayCurtis (pack ind1 data1) (pack ind2 data2) := by
  unfold SrcSparse.sparseBrayCurtis sBrayCurtis
  rw [H.sum ind1 data1 ind2 data2 hc1 hc2, H.diff ind1 data1 ind2 data2 hc1 hc2]
  simp only [unpack, isZ, vals]
  by_cases h0 : (List.map absV (List.map (fun x => x.2)
      (Sparse.sparseSum (pack ind1 data1) (pack ind2 data2)))).length = 0
  · simp
  · simp

theorem sparseCosine_src (T : Transc α) (ind1 : List Nat) (data1 : List α) (ind2 : List Nat)
    (data2 : List α) (hc1 : Canon ind1 data1) (hc2 : Canon ind2 data2) :
    SrcSparse.sparseCosine T ind1 data1 ind2 data2
      = sCosine T (pack ind1 data1) (pack ind2 data2) := by
  unfold SrcSparse.sparseCosine sCosine
  rw [H.mul ind1 data1 ind2 data2 hc1 hc2, norm_src, norm_src,
    vals_pack ind1 data1 hc1.1, vals_pack ind2 data2 hc2.1]
  simp only [unpack]
  rw [foldl_range_getD' _ 0 (fun st (a : α) => st + a)]
  simp only [isZ, vals, sumL]
  rfl

theorem sparseHellinger_src (T : Transc α) (ind1 : List Nat) (data1 : List α) (ind2 : List Nat)
    (data2 : List α) (hc1 : Canon ind1 data1) (hc2 : Canon ind2 data2) :
    SrcSparse.sparseHellinger T ind1 data1 ind2 data2
      = sHellinger T (pack ind1 data1) (pack ind2 data2) := by
  unfold SrcSparse.sparseHellinger sHellinger
  rw [H.mul ind1 data1 ind2 data2 hc1 hc2,
    vals_pack ind1 data1 hc1.1, vals_pack ind2 data2 hc2.1]
  simp only [unpack]
  have hr := fun (l : List α) => foldl_range_getD' l 0 (fun st (a : α) => st + T.sqrt a) 0
  simp only [hr, isZ, vals, sumL, List.foldl_map]

end generic

end C13SrcA
end Umap
