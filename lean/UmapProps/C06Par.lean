/-
  C06 (continued) — when is an edge-parallel SGD epoch independent of the schedule?

  `numba.prange` over EDGES (umap/layouts.py `_optimize_layout_euclidean_single_epoch`): iteration
  `i` reads and writes the cell of vertex `head i` (embedding row + RNG state), and with
  `move_other = True` also the cell of `tail i`.  Model: `UmapModel/ParSgd.lean`.

  Proved here:
  * (1, 2) the `move_other = False` epoch is the same for every order of its iterations as soon
    as the updates of edges that share a head commute — in particular when no two edges share a
    head; and the commutation condition is also necessary (`epoch_swap_iff`);
  * (3) two edges with the SAME head and non-commuting updates give different results in the two
    orders.  This is the situation of `transform` under the parallel kernel: every new point is
    the head of `n_neighbors` edges;
  * (4) the sequential kernel — the one every seeded model selects — ignores the schedule;
    the parallel one does not;
  * (5) with `move_other = True` distinct heads are not enough: two edges that share only a TAIL
    vertex already make the result order dependent; vertex-disjoint edges are enough.

  Note on (2): over ℤ, ℚ or ℝ pure accumulations `v ↦ v + δᵢ` commute; IEEE addition is not
  associative, so for `float32` rows even those do not commute bit for bit — the hypothesis of
  (2) is about the actual cell type `β`, whatever it is.
-/
import UmapModel.Par
import UmapModel.ParSgd
import UmapProps.C06
import Mathlib.Tactic

namespace Umap
namespace C06
open Par ParSgd

/-! ### `move_other = False`: one cell per iteration -/

/-- two consecutive iterations may be swapped if they touch different cells or their updates
    commute. -/
theorem edgeStep_comm {β : Type} (f : Nat → β → β) (head : Nat → Nat) (cells : Nat → β)
    (x y : Nat) (h : head x = head y → f x ∘ f y = f y ∘ f x) :
    edgeStep f head (edgeStep f head cells x) y = edgeStep f head (edgeStep f head cells y) x := by
  funext c
  unfold edgeStep
  by_cases hxy : head x = head y
  · have hc := congrFun (h hxy) (cells (head y))
    simp only [Function.comp_apply] at hc
    by_cases h1 : c = head y
    · simp [hxy, h1, hc]
    · simp [hxy, h1]
  · have hyx : ¬ head y = head x := fun e => hxy e.symm
    by_cases h1 : c = head x <;> by_cases h2 : c = head y <;> simp [h1, h2, hxy, hyx]

/-- **(2) schedule independence under commuting updates**: if the updates of any two edges of the
    epoch that share a head commute, every permutation of the iterations gives the same state.
    (The hypothesis is only needed for the edges in `order`; no `Nodup` is needed.) -/
theorem epoch_perm_of_commuting {β : Type} (f : Nat → β → β) (head : Nat → Nat)
    (order order' : List Nat) (hp : order.Perm order')
    (hcomm : ∀ i ∈ order, ∀ j ∈ order, head i = head j → f i ∘ f j = f j ∘ f i)
    (cells : Nat → β) :
    epoch f head order' cells = epoch f head order cells := by
  unfold epoch
  symm
  apply List.Perm.foldl_eq' hp
  intro x hx y hy z
  exact edgeStep_comm f head z x y (hcomm x hx y hy)

/-- the form of the task statement: commutation assumed for all pairs of edges. -/
theorem epoch_perm_of_commuting' {β : Type} (f : Nat → β → β) (head : Nat → Nat)
    (order order' : List Nat) (hp : order.Perm order')
    (hcomm : ∀ i j, head i = head j → f i ∘ f j = f j ∘ f i) (cells : Nat → β) :
    epoch f head order' cells = epoch f head order cells :=
  epoch_perm_of_commuting f head order order' hp (fun i _ j _ => hcomm i j) cells

/-- **(1) schedule independence under distinct heads**: if every vertex is the head of at most
    one edge of the epoch, every permutation of the iterations gives the same state.
    (`order.Nodup` is part of the natural statement — `order` is a permutation of `range m` — but
    is not used by the proof: an edge commutes with itself.) -/
theorem epoch_perm_of_distinct_heads {β : Type} (f : Nat → β → β) (head : Nat → Nat)
    (order order' : List Nat) (hp : order.Perm order') (_hnd : order.Nodup)
    (hinj : ∀ i ∈ order, ∀ j ∈ order, head i = head j → i = j) (cells : Nat → β) :
    epoch f head order' cells = epoch f head order cells := by
  apply epoch_perm_of_commuting f head order order' hp _ cells
  intro i hi j hj hij
  rw [hinj i hi j hj hij]

/-- what the schedule-independent result is: the cell of `head i` holds `f i` of its old content,
    cells that are the head of no edge are untouched. -/
theorem epoch_spec_of_distinct_heads {β : Type} (f : Nat → β → β) (head : Nat → Nat)
    (order : List Nat) (hnd : order.Nodup)
    (hinj : ∀ i ∈ order, ∀ j ∈ order, head i = head j → i = j) (cells : Nat → β) :
    (∀ i ∈ order, epoch f head order cells (head i) = f i (cells (head i)))
    ∧ (∀ c, (∀ i ∈ order, head i ≠ c) → epoch f head order cells c = cells c) := by
  unfold epoch
  induction order generalizing cells with
  | nil => simp
  | cons a l ih =>
    have hnd' : l.Nodup := (List.nodup_cons.mp hnd).2
    have ha : a ∉ l := (List.nodup_cons.mp hnd).1
    have hinj' : ∀ i ∈ l, ∀ j ∈ l, head i = head j → i = j := fun i hi j hj =>
      hinj i (List.mem_cons_of_mem _ hi) j (List.mem_cons_of_mem _ hj)
    have hne : ∀ i ∈ l, head i ≠ head a := fun i hi e =>
      ha (hinj i (List.mem_cons_of_mem _ hi) a List.mem_cons_self e ▸ hi)
    obtain ⟨ih1, ih2⟩ := ih hnd' hinj' (edgeStep f head cells a)
    refine ⟨?_, ?_⟩
    · intro i hi
      simp only [List.foldl_cons]
      rcases List.mem_cons.mp hi with rfl | hi
      · rw [ih2 (head i) hne]; simp [edgeStep]
      · rw [ih1 i hi]; simp [edgeStep, hne i hi]
    · intro c hc
      simp only [List.foldl_cons]
      rw [ih2 c (fun i hi => hc i (List.mem_cons_of_mem _ hi))]
      have : c ≠ head a := fun e => hc a List.mem_cons_self e.symm
      simp [edgeStep, this]

/-- the commutation condition is exactly what is needed: two edges with the same head may be
    swapped on every state iff their updates commute. -/
theorem epoch_swap_iff {β : Type} (f : Nat → β → β) (head : Nat → Nat) (i j : Nat)
    (hij : head i = head j) :
    (∀ cells : Nat → β, epoch f head [i, j] cells = epoch f head [j, i] cells)
      ↔ f j ∘ f i = f i ∘ f j := by
  constructor
  · intro h
    funext v
    have := congrFun (h (fun _ => v)) (head j)
    simpa [epoch, edgeStep, hij] using this
  · intro h cells
    exact epoch_perm_of_commuting f head [j, i] [i, j] (List.Perm.swap i j [])
      (by
        intro a ha b hb _
        simp only [List.mem_cons, List.not_mem_nil, or_false] at ha hb
        rcases ha with rfl | rfl <;> rcases hb with rfl | rfl <;>
          first | rfl | exact h | exact h.symm) cells

/-- non-vacuity of (1): three edges with three different heads, updates that do not commute
    with one another (`+1`, `*2`, `-3` on ℤ) — hypotheses hold, and the conclusion is a
    non-trivial equality of two differently ordered runs. -/
example :
    let f : Nat → Int → Int := fun i v => if i = 0 then v + 1 else if i = 1 then v * 2 else v - 3
    let head : Nat → Nat := fun i => i + 4
    ([0, 1, 2] : List Nat).Perm [2, 0, 1] ∧ ([0, 1, 2] : List Nat).Nodup
    ∧ (∀ i ∈ [0, 1, 2], ∀ j ∈ [0, 1, 2], head i = head j → i = j)
    ∧ epoch f head [2, 0, 1] (fun c => (c : Int)) = epoch f head [0, 1, 2] (fun c => (c : Int))
    ∧ epoch f head [0, 1, 2] (fun c => (c : Int)) 5 = 10 := by
  intro f head
  have hp : ([0, 1, 2] : List Nat).Perm [2, 0, 1] := by decide
  have hnd : ([0, 1, 2] : List Nat).Nodup := by decide
  have hinj : ∀ i ∈ [0, 1, 2], ∀ j ∈ [0, 1, 2], head i = head j → i = j := by
    intro i _ j _ h; simpa [head] using h
  exact ⟨hp, hnd, hinj, epoch_perm_of_distinct_heads f head _ _ hp hnd hinj _, by decide⟩

/-- non-vacuity of (2): three edges that ALL share the head vertex 0, each adding its own
    increment (exact arithmetic): the updates commute, so the order is irrelevant although
    the heads are not distinct. -/
example :
    let f : Nat → Int → Int := fun i v => v + (i + 1)
    let head : Nat → Nat := fun _ => 0
    (∀ i j, head i = head j → f i ∘ f j = f j ∘ f i)
    ∧ ¬ (∀ i ∈ [0, 1, 2], ∀ j ∈ [0, 1, 2], head i = head j → i = j)
    ∧ epoch f head [2, 0, 1] (fun _ => 0) = epoch f head [0, 1, 2] (fun _ => 0)
    ∧ epoch f head [0, 1, 2] (fun _ => 0) 0 = 6 := by
  intro f head
  have hcomm : ∀ i j, head i = head j → f i ∘ f j = f j ∘ f i := by
    intro i j _; funext v; simp only [f, Function.comp_apply]; ring
  refine ⟨hcomm, ?_, ?_, by decide⟩
  · intro h
    exact absurd (h 0 (by simp) 1 (by simp) rfl) (by decide)
  · exact epoch_perm_of_commuting' f head [0, 1, 2] [2, 0, 1] (by decide) hcomm _

/-- **(3) schedule dependence**: two edges with the SAME head (a new point of `transform` with two
    neighbours), updates `+1` and `*2`: the two orders leave different values in the head cell. -/
theorem epoch_schedule_dependent :
    epoch (fun i (v : Int) => if i = 0 then v + 1 else v * 2) (fun _ => 0) [0, 1] (fun _ => 1) 0
      ≠ epoch (fun i (v : Int) => if i = 0 then v + 1 else v * 2) (fun _ => 0) [1, 0] (fun _ => 1) 0 := by
  decide

/-- the same, as an inequality of whole states, for two schedules that are permutations of
    `range 2`. -/
theorem epoch_schedule_dependent_states :
    ∃ (f : Nat → Int → Int) (head : Nat → Nat) (cells : Nat → Int) (s s' : List Nat),
      s.Perm (List.range 2) ∧ s'.Perm (List.range 2)
      ∧ epoch f head s cells ≠ epoch f head s' cells := by
  refine ⟨fun i v => if i = 0 then v + 1 else v * 2, fun _ => 0, fun _ => 1, [0, 1], [1, 0],
    by decide, by decide, ?_⟩
  intro h
  exact epoch_schedule_dependent (congrFun h 0)

/-! ### the kernel actually run -/

/-- **(4) the sequential kernel is deterministic**: whatever schedule the runtime would have
    picked, the kernel selected for a seeded model (`kernelChoice true = .sequential`,
    cf. `seeded_selects_sequential`) returns `epoch f head (range m) cells` — a function of the
    inputs alone. -/
theorem sequential_deterministic {β : Type} (sched sched' : List Nat) (m : Nat)
    (f : Nat → β → β) (head : Nat → Nat) (cells : Nat → β) :
    kernelChoice true = .sequential
    ∧ runEpoch (kernelChoice true) sched m f head cells
        = runEpoch (kernelChoice true) sched' m f head cells
    ∧ runEpoch (kernelChoice true) sched m f head cells = epoch f head (List.range m) cells := by
  refine ⟨rfl, rfl, rfl⟩

/-- the same for the `move_other = True` kernel (the one `fit` runs). -/
theorem sequential_deterministic2 {β : Type} (sched sched' : List Nat) (m : Nat)
    (g : Nat → β → β → β × β) (head tail : Nat → Nat) (cells : Nat → β) :
    runEpoch2 (kernelChoice true) sched m g head tail cells
        = runEpoch2 (kernelChoice true) sched' m g head tail cells
    ∧ runEpoch2 (kernelChoice true) sched m g head tail cells
        = epoch2 g head tail (List.range m) cells := by
  refine ⟨rfl, rfl⟩

/-- the parallel kernel (selected when `random_state is None`) is not: two admissible schedules
    of the same two-edge epoch give different states. -/
theorem parallel_not_deterministic :
    ∃ (f : Nat → Int → Int) (head : Nat → Nat) (cells : Nat → Int) (s s' : List Nat),
      s.Perm (List.range 2) ∧ s'.Perm (List.range 2)
      ∧ runEpoch (kernelChoice false) s 2 f head cells
          ≠ runEpoch (kernelChoice false) s' 2 f head cells := by
  obtain ⟨f, head, cells, s, s', hs, hs', hne⟩ := epoch_schedule_dependent_states
  exact ⟨f, head, cells, s, s', hs, hs', hne⟩

/-- under the parallel kernel the epoch is nevertheless reproducible when no two edges share a
    head (or their updates commute): every admissible schedule agrees with the sequential run. -/
theorem parallel_eq_sequential_of_commuting {β : Type} (sched : List Nat) (m : Nat)
    (hs : sched.Perm (List.range m)) (f : Nat → β → β) (head : Nat → Nat)
    (hcomm : ∀ i < m, ∀ j < m, head i = head j → f i ∘ f j = f j ∘ f i) (cells : Nat → β) :
    runEpoch .parallel sched m f head cells = runEpoch .sequential sched m f head cells := by
  unfold runEpoch
  exact epoch_perm_of_commuting f head (List.range m) sched hs.symm
    (fun i hi j hj => hcomm i (List.mem_range.mp hi) j (List.mem_range.mp hj)) cells

/-! ### `move_other = True`: two cells per iteration -/

/-- **(5) distinct heads are not enough when the reference moves**: edges `0 : 0 → 2` and
    `1 : 1 → 2` have different heads and share only the TAIL vertex 2; each moves its head a
    quarter of the way towards the tail and the tail a quarter of the way towards the head
    (integer coordinates).  The two orders give different positions for vertex 0. -/
theorem epoch2_schedule_dependent :
    let g : Nat → Int → Int → Int × Int := fun _ h t => (h + (t - h) / 4, t - (t - h) / 4)
    let head : Nat → Nat := fun i => i
    let tail : Nat → Nat := fun _ => 2
    let cells : Nat → Int := fun c => if c = 0 then 0 else if c = 1 then 64 else 16
    head 0 ≠ head 1 ∧ head 0 ≠ tail 1 ∧ head 1 ≠ tail 0 ∧ tail 0 = tail 1
    ∧ epoch2 g head tail [0, 1] cells 0 ≠ epoch2 g head tail [1, 0] cells 0 := by
  decide

/-- vertex-disjoint edges commute: if no vertex of edge `x` is a vertex of edge `y` the two
    iterations may be swapped. -/
theorem edgeStep2_comm {β : Type} (g : Nat → β → β → β × β) (head tail : Nat → Nat)
    (cells : Nat → β) (x y : Nat)
    (h1 : head x ≠ head y) (h2 : head x ≠ tail y) (h3 : tail x ≠ head y) (h4 : tail x ≠ tail y) :
    edgeStep2 g head tail (edgeStep2 g head tail cells x) y
      = edgeStep2 g head tail (edgeStep2 g head tail cells y) x := by
  funext c
  simp only [edgeStep2, h1, h2, h3, h4, h1.symm, h2.symm, h3.symm, h4.symm, if_false]
  grind

/-- the `move_other = True` epoch is schedule independent when the edges of the epoch are
    pairwise vertex-disjoint (a matching). -/
theorem epoch2_perm_of_disjoint_edges {β : Type} (g : Nat → β → β → β × β)
    (head tail : Nat → Nat) (order order' : List Nat) (hp : order.Perm order')
    (hdisj : ∀ i ∈ order, ∀ j ∈ order, i ≠ j →
      head i ≠ head j ∧ head i ≠ tail j ∧ tail i ≠ head j ∧ tail i ≠ tail j)
    (cells : Nat → β) :
    epoch2 g head tail order' cells = epoch2 g head tail order cells := by
  unfold epoch2
  symm
  apply List.Perm.foldl_eq' hp
  intro x hx y hy z
  by_cases hxy : x = y
  · subst hxy; rfl
  · obtain ⟨a, b, c, d⟩ := hdisj x hx y hy hxy
    exact edgeStep2_comm g head tail z x y a b c d

/-- non-vacuity: two vertex-disjoint edges `0 : 0 → 1`, `1 : 2 → 3` with the update of (5). -/
example :
    let g : Nat → Int → Int → Int × Int := fun _ h t => (h + (t - h) / 4, t - (t - h) / 4)
    let head : Nat → Nat := fun i => 2 * i
    let tail : Nat → Nat := fun i => 2 * i + 1
    (∀ i ∈ [0, 1], ∀ j ∈ [0, 1], i ≠ j →
      head i ≠ head j ∧ head i ≠ tail j ∧ tail i ≠ head j ∧ tail i ≠ tail j)
    ∧ epoch2 g head tail [1, 0] (fun c => 16 * (c : Int) * c)
        = epoch2 g head tail [0, 1] (fun c => 16 * (c : Int) * c)
    ∧ epoch2 g head tail [0, 1] (fun c => 16 * (c : Int) * c) 3 = 124 := by
  intro g head tail
  have hd : ∀ i ∈ [0, 1], ∀ j ∈ [0, 1], i ≠ j →
      head i ≠ head j ∧ head i ≠ tail j ∧ tail i ≠ head j ∧ tail i ≠ tail j := by decide
  exact ⟨hd, epoch2_perm_of_disjoint_edges g head tail [0, 1] [1, 0] (by decide) hd _, by decide⟩

end C06
end Umap
