/-
  C20 — precomputed_knn is used exactly as if UMAP had computed (and pruned) it.

  Model: `Umap.Api.validatePrecomputedKnn` mirroring the `if/elif` chain.  The observed truth
  table of the live `_validate_parameters` is regenerated into `Generated.KnnDecision` on every
  run and proved equal to the model on the whole abstraction grid.
-/
import Mathlib.Tactic
import UmapModel.Api
import Generated.KnnDecision

namespace Umap
namespace C20
open Api

/-- **pruning is unconditional**: whenever the table is used, exactly `n_neighbors` columns are
    used — for every dataset size and either setting of `force_approximation_algorithm`. -/
theorem prune_always (cols k rows n : Nat) (force : Bool) (c : Nat) (f : Bool)
    (h : validatePrecomputedKnn false cols k rows n force = .use c f) : c = k := by
  unfold validatePrecomputedKnn at h
  by_cases h1 : cols < k
  · simp [h1] at h
  · by_cases h2 : rows ≠ n
    · simp [h1, h2] at h
    · simp only [h1, h2, if_false, Bool.false_eq_true] at h
      by_cases h3 : k < cols
      · simp only [h3, if_true, KnnDecision.use.injEq] at h; omega
      · simp only [h3, if_false, KnnDecision.use.injEq] at h; omega

/-- the table is ignored exactly when it has too few columns or the wrong number of rows. -/
theorem ignore_iff (cols k rows n : Nat) (force : Bool) :
    validatePrecomputedKnn false cols k rows n force = .ignore ↔ (cols < k ∨ rows ≠ n) := by
  unfold validatePrecomputedKnn
  by_cases h1 : cols < k
  · simp [h1]
  · by_cases h2 : rows ≠ n
    · simp [h1, h2]
    · simp only [h1, h2, if_false, Bool.false_eq_true, or_self, iff_false]
      by_cases h3 : k < cols <;> simp [h3]

/-- used tables take the approximate-path code on small data (what keeps downstream paths working). -/
theorem small_forces_approx (cols k rows n : Nat) (force : Bool) (c : Nat) (f : Bool)
    (hs : rows < 4096) (h : validatePrecomputedKnn false cols k rows n force = .use c f) :
    f = true := by
  unfold validatePrecomputedKnn at h
  by_cases h1 : cols < k
  · simp [h1] at h
  · by_cases h2 : rows ≠ n
    · simp [h1, h2] at h
    · simp only [h1, h2, if_false, Bool.false_eq_true] at h
      cases force <;> by_cases h3 : k < cols <;>
        simp only [h3, hs, if_true, if_false, true_and, and_true, and_false,
          KnnDecision.use.injEq, Bool.true_eq_false] at h <;> exact h.2.symm

/-- the graph depends only on the first `n_neighbors` columns: supplying a wider table and
    supplying its first `k` columns lead to the same decision and the same columns used. -/
theorem same_as_prefix (cols k rows n : Nat) (force : Bool) (hc : k ≤ cols) :
    validatePrecomputedKnn false cols k rows n force = validatePrecomputedKnn false k k rows n force := by
  unfold validatePrecomputedKnn
  have h1 : ¬ cols < k := by omega
  simp only [h1, if_false, lt_irrefl, Bool.false_eq_true]
  by_cases h2 : rows ≠ n
  · simp [h2]
  · simp only [h2, if_false]
    by_cases h3 : k < cols
    · simp [h3]
    · have : cols = k := by omega
      subst this; simp

/-- the pinned chain did not prune small data without the force flag. -/
theorem pinned_not_pruned :
    validatePrecomputedKnn true 10 5 80 80 false = .use 10 true := by decide

/-! ### the live decision table (regenerated from /repo on every run) -/

/-- evaluate the model on an abstract grid point `(cols, k, rows, n, force)` and report
    `(ignored, columns used, force flag afterwards)`. -/
def modelRow (cols k rows n : Nat) (force : Bool) : Bool × Nat × Bool :=
  match validatePrecomputedKnn false cols k rows n force with
  | .ignore => (true, 0, force)
  | .use c f => (false, c, f)

/-- the live code takes the same decision as the model at every grid point. -/
theorem live_table_agrees :
    ∀ e ∈ Generated.knnDecisionTable,
      modelRow e.1 e.2.1 e.2.2.1 e.2.2.2.1 e.2.2.2.2.1 = e.2.2.2.2.2 := by
  decide +kernel

/-- non-vacuity: the table is not empty and contains a pruned small-data case. -/
example : Generated.knnDecisionTable.length ≥ 12 := by decide +kernel

end C20
end Umap
