/-
  C20 — precomputed_knn is used exactly as if UMAP had computed (and pruned) it.

  Model: `Umap.Api.validatePrecomputedKnn` mirroring the `if/elif` chain.  The observed truth
  table of the live `_validate_parameters` is regenerated into `Generated.KnnDecision` on every
  run and proved equal to the model on the whole abstraction grid.
-/
import Mathlib.Tactic
import UmapModel.Api
import UmapModel.Graph
import Generated.KnnDecision

namespace Umap
namespace C20
open Api

/-- **pruning is unconditional**: whenever the table is used, exactly `n_neighbors` columns are
    used — for every dataset size and either setting of `force_approximation_algorithm`. -/
theorem prune_always (cols k rows n : Nat) (force : Bool) (c : Nat) (f : Bool)
    (h : validatePrecomputedKnn false cols k rows n force = .use c f) : c = k := by
  unfold validatePrecomputedKnn at h
  by_cases h1 : cols < k
  · simp [h1] at h
  · by_cases h2 : rows ≠ n
    · simp [h1, h2] at h
    · simp only [h1, h2, if_false, Bool.false_eq_true] at h
      by_cases h3 : k < cols
      · simp only [h3, if_true, KnnDecision.use.injEq] at h; omega
      · simp only [h3, if_false, KnnDecision.use.injEq] at h; omega

/-- the table is ignored exactly when it has too few columns or the wrong number of rows. -/
theorem ignore_iff (cols k rows n : Nat) (force : Bool) :
    validatePrecomputedKnn false cols k rows n force = .ignore ↔ (cols < k ∨ rows ≠ n) := by
  unfold validatePrecomputedKnn
  by_cases h1 : cols < k
  · simp [h1]
  · by_cases h2 : rows ≠ n
    · simp [h1, h2]
    · simp only [h1, h2, if_false, Bool.false_eq_true, or_self, iff_false]
      by_cases h3 : k < cols <;> simp [h3]

/-- used tables take the approximate-path code on small data (what keeps downstream paths working). -/
theorem small_forces_approx (cols k rows n : Nat) (force : Bool) (c : Nat) (f : Bool)
    (hs : rows < 4096) (h : validatePrecomputedKnn false cols k rows n force = .use c f) :
    f = true := by
  unfold validatePrecomputedKnn at h
  by_cases h1 : cols < k
  · simp [h1] at h
  · by_cases h2 : rows ≠ n
    · simp [h1, h2] at h
    · simp only [h1, h2, if_false, Bool.false_eq_true] at h
      cases force <;> by_cases h3 : k < cols <;>
        simp only [h3, hs, if_true, if_false, true_and, and_true, and_false,
          KnnDecision.use.injEq, Bool.true_eq_false] at h <;> exact h.2.symm

/-- the graph depends only on the first `n_neighbors` columns: supplying a wider table and
    supplying its first `k` columns lead to the same decision and the same columns used. -/
theorem same_as_prefix (cols k rows n : Nat) (force : Bool) (hc : k ≤ cols) :
    validatePrecomputedKnn false cols k rows n force = validatePrecomputedKnn false k k rows n force := by
  unfold validatePrecomputedKnn
  have h1 : ¬ cols < k := by omega
  simp only [h1, if_false, lt_irrefl, Bool.false_eq_true]
  by_cases h2 : rows ≠ n
  · simp [h2]
  · simp only [h2, if_false]
    by_cases h3 : k < cols
    · simp [h3]
    · have : cols = k := by omega
      subst this; simp

/-- the pinned chain did not prune small data without the force flag. -/
theorem pinned_not_pruned :
    validatePrecomputedKnn true 10 5 80 80 false = .use 10 true := by decide

/-! ### the live decision table (regenerated from /repo on every run) -/

/-- evaluate the model on an abstract grid point `(cols, k, rows, n, force)` and report
    `(ignored, columns used, force flag afterwards)`. -/
def modelRow (cols k rows n : Nat) (force : Bool) : Bool × Nat × Bool :=
  match validatePrecomputedKnn false cols k rows n force with
  | .ignore => (true, 0, force)
  | .use c f => (false, c, f)

/-- the live code takes the same decision as the model at every grid point. -/
theorem live_table_agrees :
    ∀ e ∈ Generated.knnDecisionTable,
      modelRow e.1 e.2.1 e.2.2.1 e.2.2.2.1 e.2.2.2.2.1 = e.2.2.2.2.2 := by
  decide +kernel

/-- non-vacuity: the table is not empty and contains a pruned small-data case. -/
example : Generated.knnDecisionTable.length ≥ 12 := by decide +kernel

/-! ### the table that is actually used, and the graph computed from it -/

open Graph in
/-- the part of a supplied kNN table (`knn_indices` or `knn_dists`) that the graph stage reads:
    its first `c` columns when the decision is `.use c _`.  (For `.ignore` the table is not
    consulted at all — the kNN is recomputed — and `usedTable` returns it unchanged; only the
    `.use` case is used below.) -/
def usedTable {β : Type} (d : KnnDecision) (tbl : List (List β)) : List (List β) :=
  match d with
  | .use c _ => takeCols c tbl
  | .ignore => tbl

/-- a table with at least `n_neighbors` columns and the right number of rows is used, with
    exactly `n_neighbors` columns. -/
theorem decision_use (cols k rows n : Nat) (force : Bool) (hk : k ≤ cols) (hr : rows = n) :
    ∃ f, validatePrecomputedKnn false cols k rows n force = .use k f := by
  cases hd : validatePrecomputedKnn false cols k rows n force with
  | ignore =>
    rcases (ignore_iff cols k rows n force).1 hd with h | h
    · omega
    · exact absurd hr h
  | use c f =>
    have := prune_always cols k rows n force c f hd
    subst this
    exact ⟨f, rfl⟩

open Graph in
/-- **used_table**: the table read by the graph stage is the first `k` columns of the supplied
    one. -/
theorem used_table {β : Type} (cols k rows n : Nat) (force : Bool) (hk : k ≤ cols) (hr : rows = n)
    (tbl : List (List β)) :
    usedTable (validatePrecomputedKnn false cols k rows n force) tbl = takeCols k tbl := by
  obtain ⟨f, hf⟩ := decision_use cols k rows n force hk hr
  rw [hf]; rfl

open Graph in
theorem takeCols_takeCols {β : Type} (k c : Nat) (hk : k ≤ c) (t : List (List β)) :
    takeCols k (takeCols c t) = takeCols k t := by
  unfold takeCols
  rw [List.map_map]
  apply List.map_congr_left
  intro row _
  simp only [Function.comp, List.take_take, Nat.min_eq_left hk]

open Graph in
/-- pruning is idempotent. -/
theorem takeCols_idem {β : Type} (k : Nat) (t : List (List β)) :
    takeCols k (takeCols k t) = takeCols k t := takeCols_takeCols k k (le_refl k) t

open Graph in
/-- pruning a table that has at most `k` columns does nothing. -/
theorem takeCols_of_le {β : Type} (k : Nat) (t : List (List β)) (h : ∀ row ∈ t, row.length ≤ k) :
    takeCols k t = t := by
  unfold takeCols
  conv_rhs => rw [← List.map_id t]
  apply List.map_congr_left
  intro row hrow
  exact List.take_of_length_le (h row hrow)

section
open Graph
variable {α : Type} [Add α] [Sub α] [Mul α] [Div α] [Neg α] [LT α] [LE α]
  [DecidableLT α] [DecidableLE α] [OfNat α 0] [OfNat α 1] [NatCast α]

/--
  **graph_depends_on_prefix.**  For `k = n_neighbors ≤ cols` (and the right number of rows) the
  graph computed from the table selected by `_validate_parameters` out of a supplied
  `cols`-column `precomputed_knn` is the graph computed from its first `k` columns — for every
  scalar type (so at `Float` and at `ℝ` alike), every parameter setting, every table.
-/
theorem graph_depends_on_prefix (T : Transc α) (tol minScale target : α) (lcIdx : Nat) (lcFrac : α)
    (nIter : Nat) (r : α) (cols k rows n : Nat) (force : Bool) (hk : k ≤ cols) (hr : rows = n)
    (idx : List (List (Option Nat))) (ds : List (List (Option α))) :
    graphOfKnn T tol minScale target lcIdx lcFrac nIter r
        (usedTable (validatePrecomputedKnn false cols k rows n force) idx)
        (usedTable (validatePrecomputedKnn false cols k rows n force) ds)
      = graphOfKnn T tol minScale target lcIdx lcFrac nIter r (takeCols k idx) (takeCols k ds) := by
  rw [used_table cols k rows n force hk hr, used_table cols k rows n force hk hr]

/-- hence two supplied tables (possibly of different widths `cols`, `cols'`) that agree on their
    first `k` columns give the same graph: the columns beyond `n_neighbors` are never read. -/
theorem graph_eq_of_prefix_eq (T : Transc α) (tol minScale target : α) (lcIdx : Nat) (lcFrac : α)
    (nIter : Nat) (r : α) (cols cols' k rows n : Nat) (force force' : Bool)
    (hk : k ≤ cols) (hk' : k ≤ cols') (hr : rows = n)
    (idx idx' : List (List (Option Nat))) (ds ds' : List (List (Option α)))
    (hi : takeCols k idx = takeCols k idx') (hd : takeCols k ds = takeCols k ds') :
    graphOfKnn T tol minScale target lcIdx lcFrac nIter r
        (usedTable (validatePrecomputedKnn false cols k rows n force) idx)
        (usedTable (validatePrecomputedKnn false cols k rows n force) ds)
      = graphOfKnn T tol minScale target lcIdx lcFrac nIter r
        (usedTable (validatePrecomputedKnn false cols' k rows n force') idx')
        (usedTable (validatePrecomputedKnn false cols' k rows n force') ds') := by
  rw [graph_depends_on_prefix T tol minScale target lcIdx lcFrac nIter r cols k rows n force hk hr,
    graph_depends_on_prefix T tol minScale target lcIdx lcFrac nIter r cols' k rows n force' hk' hr,
    hi, hd]

/-- supplying the already-pruned table (`k` columns) is the same as supplying the wide one. -/
theorem graph_pruned_same (T : Transc α) (tol minScale target : α) (lcIdx : Nat) (lcFrac : α)
    (nIter : Nat) (r : α) (cols k rows n : Nat) (force : Bool) (hk : k ≤ cols) (hr : rows = n)
    (idx : List (List (Option Nat))) (ds : List (List (Option α))) :
    graphOfKnn T tol minScale target lcIdx lcFrac nIter r
        (usedTable (validatePrecomputedKnn false cols k rows n force) idx)
        (usedTable (validatePrecomputedKnn false cols k rows n force) ds)
      = graphOfKnn T tol minScale target lcIdx lcFrac nIter r
        (usedTable (validatePrecomputedKnn false k k rows n force) (takeCols k idx))
        (usedTable (validatePrecomputedKnn false k k rows n force) (takeCols k ds)) := by
  rw [graph_depends_on_prefix T tol minScale target lcIdx lcFrac nIter r cols k rows n force hk hr,
    graph_depends_on_prefix T tol minScale target lcIdx lcFrac nIter r k k rows n force (le_refl k) hr,
    takeCols_idem, takeCols_idem]

end

/-- non-vacuity: a 3-column table, `n_neighbors = 2`, 3 rows: the decision is `.use 2 true` and
    the used table is the 2-column prefix. -/
example : validatePrecomputedKnn false 3 2 3 3 false = .use 2 true := by decide
example : usedTable (validatePrecomputedKnn false 3 2 3 3 false)
    [[some 0, some 1, some 2], [some 1, some 0, none], [some 2, some 0, some 1]]
    = [[some 0, some 1], [some 1, some 0], [some 2, some 0]] := by decide

end C20
end Umap
