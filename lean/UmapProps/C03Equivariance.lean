/-
  C03 (sample reordering) — "Reordering the samples reorders the graph's rows and columns
  identically", on the end-to-end graph-stage model `Graph.graphOfKnn` (C02Pipeline).

  A renaming of the samples by a permutation `σ` of the indices acts on a kNN table by moving row
  `i` to row `σ i` and renaming every listed neighbour `j` to `σ j`; the distances travel with
  their row.  (That the kNN table of permuted *data* is the renamed table is the statement that
  the k smallest distances of a row depend only on the multiset of the row, `C03.knn_row_perm_invariant`,
  and on the metric being evaluated pairwise; ties are outside the property's scope.)

  `graph_perm_equivariant`: for a valid table and its renaming, `(i, j, v)` is a stored entry of
  the fitted graph iff `(σ i, σ j, v)` is a stored entry of the graph of the renamed table.
  The only global quantity of the graph stage, the mean of all finite distances used by the
  bandwidth floor, is a function of the multiset of the table's entries (`finiteMean_perm`).
-/
import UmapProps.C02Pipeline
import Mathlib.Tactic

namespace Umap
namespace C03
open Graph Knn C02

/-! ### the global mean depends only on the multiset of distances -/

theorem finiteMean_perm {xs ys : List (Option ℝ)} (h : xs.Perm ys) :
    finiteMean xs = finiteMean ys := by
  unfold finiteMean finites
  have hp : (xs.filterMap id).Perm (ys.filterMap id) := h.filterMap id
  simp only [hp.length_eq, sumL_eq_sum, hp.sum_eq]

/-! ### renamed tables -/

/-- `(idx', ds')` is `(idx, ds)` with the samples renamed by `σ`: row `i` becomes row `σ i`, its
    listed neighbours are renamed, its distances are unchanged. -/
structure Renamed (σ : Equiv.Perm Nat) (idx idx' : List (List (Option Nat)))
    (ds ds' : List (List (Option ℝ))) : Prop where
  rows_idx : ∀ i, idx'[σ i]? = (idx[i]?).map (List.map (Option.map σ))
  rows_ds : ∀ i, ds'[σ i]? = ds[i]?
  flat : ds'.flatten.Perm ds.flatten

section
variable (tol minScale target : ℝ) (lcIdx : Nat) (lcFrac : ℝ) (nIter : Nat)

theorem find_renamed (σ : Equiv.Perm Nat) (j : Nat) (ix : List (Option Nat)) (d : List (Option ℝ)) :
    ((ix.map (Option.map σ)).zip d).find? (fun p => p.1 == some (σ j))
      = ((ix.zip d).find? (fun p => p.1 == some j)).map (fun p => (p.1.map σ, p.2)) := by
  induction ix generalizing d with
  | nil => simp
  | cons a ix ih =>
    cases d with
    | nil => simp
    | cons x d =>
      simp only [List.map_cons, List.zip_cons_cons, List.find?_cons]
      have hk : (Option.map (⇑σ) a == some (σ j)) = (a == some j) := by
        cases a with
        | none => simp
        | some c => simp [σ.injective.eq_iff]
      rw [hk]
      cases a == some j with
      | true => simp
      | false => simpa using ih d

theorem sigmaRho_renamed {ds ds' : List (List (Option ℝ))} (h : ds'.flatten.Perm ds.flatten)
    (d : List (Option ℝ)) :
    sigmaRho tol minScale target lcIdx lcFrac nIter ds' d
      = sigmaRho tol minScale target lcIdx lcFrac nIter ds d := by
  unfold sigmaRho
  rw [finiteMean_perm h]

/-- the directed strengths of the renamed table are the renamed directed strengths. -/
theorem dirStrength_renamed (σ : Equiv.Perm Nat) (idx idx' : List (List (Option Nat)))
    (ds ds' : List (List (Option ℝ))) (h : Renamed σ idx idx' ds ds') (i j : Nat) :
    dirStrength tol minScale target lcIdx lcFrac nIter idx' ds' (σ i) (σ j)
      = dirStrength tol minScale target lcIdx lcFrac nIter idx ds i j := by
  unfold dirStrength
  by_cases hij : i = j
  · rw [if_pos hij, if_pos (by rw [hij])]
  · rw [if_neg hij, if_neg (fun e => hij (σ.injective e))]
    rw [h.rows_idx i, h.rows_ds i]
    cases hix : idx[i]? with
    | none => simp
    | some ix =>
      cases hd : ds[i]? with
      | none => simp
      | some d =>
        simp only [Option.map_some]
        rw [find_renamed σ j ix d]
        cases hf : (ix.zip d).find? (fun p => p.1 == some j) with
        | none => simp
        | some p =>
          obtain ⟨c, x⟩ := p
          cases x with
          | none => simp
          | some x =>
            simp only [Option.map_some]
            rw [sigmaRho_renamed tol minScale target lcIdx lcFrac nIter h.flat d]

/-- rows of the renamed distance table are rows of the original. -/
theorem mem_ds_of_renamed (σ : Equiv.Perm Nat) (idx idx' : List (List (Option Nat)))
    (ds ds' : List (List (Option ℝ))) (h : Renamed σ idx idx' ds ds') (d : List (Option ℝ))
    (hd : d ∈ ds') : d ∈ ds := by
  obtain ⟨k, hk⟩ := List.getElem?_of_mem hd
  have := h.rows_ds (σ.symm k)
  rw [Equiv.apply_symm_apply, hk] at this
  exact List.mem_of_getElem? this.symm

theorem noNanRho_renamed (σ : Equiv.Perm Nat) (idx idx' : List (List (Option Nat)))
    (ds ds' : List (List (Option ℝ))) (h : Renamed σ idx idx' ds ds')
    (hn : NoNanRho tol lcIdx lcFrac ds) : NoNanRho tol lcIdx lcFrac ds' :=
  fun d hd => hn d (mem_ds_of_renamed σ idx idx' ds ds' h d hd)

/-- a list's length is determined by where `getElem?` is defined. -/
theorem length_eq_of_isSome_iff {β γ : Type} (l : List β) (m : List γ)
    (h : ∀ k : Nat, (l[k]?).isSome ↔ (m[k]?).isSome) : l.length = m.length := by
  rcases Nat.lt_trichotomy l.length m.length with hlt | heq | hgt
  · have := (h l.length).2 (by simp [hlt])
    simp at this
  · exact heq
  · have := (h m.length).1 (by simp [hgt])
    simp at this

theorem filterMap_renamed (σ : Equiv.Perm Nat) (ix : List (Option Nat)) :
    (ix.map (Option.map σ)).filterMap id = (ix.filterMap id).map σ := by
  induction ix with
  | nil => rfl
  | cons a t ih =>
    cases a with
    | none => simpa using ih
    | some c => simpa using ih

/-- the renaming of a valid table is valid. -/
theorem validTable_renamed (σ : Equiv.Perm Nat) (idx idx' : List (List (Option Nat)))
    (ds ds' : List (List (Option ℝ))) (h : Renamed σ idx idx' ds ds') (hv : ValidTable idx ds) :
    ValidTable idx' ds' := by
  have hrow : ∀ k ix', idx'[k]? = some ix' →
      ∃ ix, idx[σ.symm k]? = some ix ∧ ix' = ix.map (Option.map σ) := by
    intro k ix' hk
    have := h.rows_idx (σ.symm k)
    rw [Equiv.apply_symm_apply, hk] at this
    cases hix : idx[σ.symm k]? with
    | none => rw [hix] at this; simp at this
    | some ix =>
      rw [hix] at this
      simp only [Option.map_some, Option.some.injEq] at this
      exact ⟨ix, rfl, this⟩
  have hdrow : ∀ k d, ds'[k]? = some d → ds[σ.symm k]? = some d := by
    intro k d hk
    have := h.rows_ds (σ.symm k)
    rw [Equiv.apply_symm_apply, hk] at this
    exact this.symm
  refine ⟨?_, ?_, ?_, ?_⟩
  · apply length_eq_of_isSome_iff
    intro k
    have h1 := h.rows_idx (σ.symm k)
    have h2 := h.rows_ds (σ.symm k)
    rw [Equiv.apply_symm_apply] at h1 h2
    rw [h1, h2]
    simp only [Option.isSome_map, List.getElem?_eq_some_iff, Option.isSome_iff_exists]
    constructor
    · rintro ⟨_, hlt, _⟩; exact ⟨_, hv.rows_eq ▸ hlt, rfl⟩
    · rintro ⟨_, hlt, _⟩; exact ⟨_, hv.rows_eq.symm ▸ hlt, rfl⟩
  · obtain ⟨k, hk1, hk2⟩ := hv.cols_eq
    refine ⟨k, ?_, ?_⟩
    · intro ix' hix'
      obtain ⟨q, hq⟩ := List.getElem?_of_mem hix'
      obtain ⟨ix, hix, rfl⟩ := hrow q ix' hq
      rw [List.length_map]
      exact hk1 ix (List.mem_of_getElem? hix)
    · intro d hd
      exact hk2 d (mem_ds_of_renamed σ idx idx' ds ds' h d hd)
  · intro ix' hix'
    obtain ⟨q, hq⟩ := List.getElem?_of_mem hix'
    obtain ⟨ix, hix, rfl⟩ := hrow q ix' hq
    rw [filterMap_renamed σ ix]
    exact (hv.distinct ix (List.mem_of_getElem? hix)).map σ.injective
  · intro k ix' d hk hd p hp
    obtain ⟨ix, hix, rfl⟩ := hrow k ix' hk
    have hd' := hdrow k d hd
    have hmem : ∃ q ∈ ix.zip d, p = (q.1.map σ, q.2) := by
      clear hk hd hd' hix
      induction ix generalizing d with
      | nil => simp at hp
      | cons a t ih =>
        cases d with
        | nil => simp at hp
        | cons x d =>
          simp only [List.map_cons, List.zip_cons_cons, List.mem_cons] at hp
          rcases hp with rfl | hp
          · exact ⟨(a, x), by simp, rfl⟩
          · obtain ⟨q, hq, rfl⟩ := ih d hp
            exact ⟨q, by simp [hq], rfl⟩
    obtain ⟨q, hq, rfl⟩ := hmem
    have := hv.skip_iff (σ.symm k) ix d hix hd' q hq
    simp only [Option.map_eq_none_iff]
    exact this

/-- an entry is stored in the blend iff it is the non-zero blend of the two directed values
    (a non-zero blend forces one directed value to be non-zero, hence a stored position). -/
theorem mem_symmetrize_iff' (r : ℝ) (A : Coo ℝ) (i j : Nat) (v : ℝ) :
    (i, j, v) ∈ symmetrize r A ↔ v = mix r (lookup A i j) (lookup A j i) ∧ v ≠ 0 := by
  rw [mem_symmetrize_iff]
  constructor
  · rintro ⟨_, h1, h2⟩; exact ⟨h1, h2⟩
  · rintro ⟨h1, h2⟩
    refine ⟨?_, h1, h2⟩
    rw [mem_positions_symm]
    rcases mix_support (h1 ▸ h2) with ha | hb
    · exact Or.inl (lookup_ne_zero_mem A i j ha)
    · exact Or.inr (lookup_ne_zero_mem A j i hb)

/--
  **graph_perm_equivariant.**  Renaming the samples of a valid kNN table by a permutation `σ`
  renames the rows and columns of the fitted graph by `σ` and changes nothing else: both graph
  stages succeed, and `(i, j, v)` is stored in the graph of the original table iff
  `(σ i, σ j, v)` is stored in the graph of the renamed table — for every mix ratio, every
  tolerance / floor / target / iteration count and every `local_connectivity` without NaN rho.
-/
theorem graph_perm_equivariant (r : ℝ) (σ : Equiv.Perm Nat)
    (idx idx' : List (List (Option Nat))) (ds ds' : List (List (Option ℝ)))
    (h : Renamed σ idx idx' ds ds') (hv : ValidTable idx ds)
    (hn : NoNanRho tol lcIdx lcFrac ds) :
    ∃ G G', graphOfKnn realT tol minScale target lcIdx lcFrac nIter r idx ds = some G
      ∧ graphOfKnn realT tol minScale target lcIdx lcFrac nIter r idx' ds' = some G'
      ∧ ∀ i j v, (i, j, v) ∈ G ↔ (σ i, σ j, v) ∈ G' := by
  have hv' := validTable_renamed σ idx idx' ds ds' h hv
  have hn' := noNanRho_renamed tol lcIdx lcFrac σ idx idx' ds ds' h hn
  refine ⟨_, _, graphOfKnn_eq_some tol minScale target lcIdx lcFrac nIter r idx ds hv hn,
    graphOfKnn_eq_some tol minScale target lcIdx lcFrac nIter r idx' ds' hv' hn', ?_⟩
  intro i j v
  rw [mem_symmetrize_iff', mem_symmetrize_iff']
  rw [lookup_assembled_memberRows tol minScale target lcIdx lcFrac nIter idx ds hv hn,
    lookup_assembled_memberRows tol minScale target lcIdx lcFrac nIter idx ds hv hn,
    lookup_assembled_memberRows tol minScale target lcIdx lcFrac nIter idx' ds' hv' hn',
    lookup_assembled_memberRows tol minScale target lcIdx lcFrac nIter idx' ds' hv' hn',
    dirStrength_renamed tol minScale target lcIdx lcFrac nIter σ idx idx' ds ds' h,
    dirStrength_renamed tol minScale target lcIdx lcFrac nIter σ idx idx' ds ds' h]

/-- the matrix values agree as well (stored or not): `G'[σ i, σ j] = G[i, j]`. -/
theorem graph_perm_lookup (r : ℝ) (σ : Equiv.Perm Nat)
    (idx idx' : List (List (Option Nat))) (ds ds' : List (List (Option ℝ)))
    (h : Renamed σ idx idx' ds ds') (i j : Nat) :
    mix r (dirStrength tol minScale target lcIdx lcFrac nIter idx' ds' (σ i) (σ j))
          (dirStrength tol minScale target lcIdx lcFrac nIter idx' ds' (σ j) (σ i))
      = mix r (dirStrength tol minScale target lcIdx lcFrac nIter idx ds i j)
          (dirStrength tol minScale target lcIdx lcFrac nIter idx ds j i) := by
  rw [dirStrength_renamed tol minScale target lcIdx lcFrac nIter σ idx idx' ds ds' h,
    dirStrength_renamed tol minScale target lcIdx lcFrac nIter σ idx idx' ds ds' h]

end

/-! ### non-vacuity: the 3-point table of C02Pipeline with samples 0 and 2 swapped -/

def exIdx' : List (List (Option Nat)) :=
  [[some 0, some 1, none], [some 1, some 2, some 0], [some 2, some 1, none]]

noncomputable def exDs' : List (List (Option ℝ)) :=
  [[some 0, some 2, none], [some 0, some 1, some 2], [some 0, some 1, none]]

theorem exRenamed : Renamed (Equiv.swap 0 2) exIdx exIdx' exDs exDs' where
  rows_idx := by
    intro i
    rcases i with _ | _ | _ | i
    · simp [exIdx, exIdx', Equiv.swap_apply_def]
    · simp [exIdx, exIdx', Equiv.swap_apply_def]
    · simp [exIdx, exIdx', Equiv.swap_apply_def]
    · have : (Equiv.swap 0 2) (i + 3) = i + 3 := by
        rw [Equiv.swap_apply_of_ne_of_ne] <;> omega
      rw [this]; simp [exIdx, exIdx']
  rows_ds := by
    intro i
    rcases i with _ | _ | _ | i
    · simp [exDs, exDs']
    · simp [exDs, exDs', Equiv.swap_apply_def]
    · simp [exDs, exDs']
    · have : (Equiv.swap 0 2) (i + 3) = i + 3 := by
        rw [Equiv.swap_apply_of_ne_of_ne] <;> omega
      rw [this]; simp [exDs, exDs']
  flat := by
    have : exDs' = exDs.reverse := by simp [exDs, exDs']
    rw [this]
    exact (List.reverse_perm _).flatten

example (tol minScale target : ℝ) (htol : 0 ≤ tol) (nIter : Nat) (r : ℝ) :
    ∃ G G', graphOfKnn realT tol minScale target 1 0 nIter r exIdx exDs = some G
      ∧ graphOfKnn realT tol minScale target 1 0 nIter r exIdx' exDs' = some G'
      ∧ ∀ i j v, (i, j, v) ∈ G ↔ (Equiv.swap 0 2 i, Equiv.swap 0 2 j, v) ∈ G' :=
  graph_perm_equivariant tol minScale target 1 0 nIter r _ _ _ _ _ exRenamed exValid
    (noNanRho_integral tol htol 1 Nat.one_pos exDs)

end C03
end Umap
