/-
  C01 [B] — calibration of the bandwidth search (`smooth_knn_dist`), continued from `C01.lean`.

    1. `rho_scale`, `finiteMean_scale`   : rho and the finite mean are homogeneous of degree 1;
    2. `psum_continuous_lipschitz`       : the calibration sum is Lipschitz in the bandwidth;
    3. `bisect_width`                    : doubling phase / halving phase of the search;
    4. `calibration_within_tol`          : 64 iterations calibrate the sum within 1e-3;
    5. `solution_scales`                 : the calibration equation is scale invariant.
-/
import UmapProps.C01
import Mathlib.Analysis.Complex.ExponentialBounds

namespace Umap
namespace C01
open Knn

/-! ### 1. homogeneity of rho and of the finite mean -/

/-- a kNN-distance row with every finite entry multiplied by `c` (`inf` entries stay `inf`);
    this is the shape used by `psum_scale`. -/
def scaleRow (c : ℝ) (row : List (Option ℝ)) : List (Option ℝ) :=
  row.map (fun d => d.map (c * ·))

theorem scaleRow_map_some (c : ℝ) (ds : List ℝ) :
    scaleRow c (ds.map some) = (ds.map (c * ·)).map some := by
  unfold scaleRow
  simp only [List.map_map]
  rfl

theorem scaleRow_length (c : ℝ) (row : List (Option ℝ)) : (scaleRow c row).length = row.length := by
  simp [scaleRow]

theorem scaleRow_getElem? (c : ℝ) (row : List (Option ℝ)) (i : Nat) :
    (scaleRow c row)[i]? = (row[i]?).map (fun d => d.map (c * ·)) := by
  simp [scaleRow]

theorem scaleRow_tail (c : ℝ) (row : List (Option ℝ)) :
    (scaleRow c row).tail = scaleRow c row.tail := by
  cases row <;> simp [scaleRow]

theorem nzDists_scale {c : ℝ} (hc : 0 < c) (row : List (Option ℝ)) :
    nzDists (scaleRow c row) = scaleRow c (nzDists row) := by
  unfold nzDists scaleRow
  rw [List.filter_map]
  congr 1
  apply List.filter_congr
  intro d _
  cases d with
  | none => rfl
  | some x => simp [mul_pos_iff_of_pos_left hc]

theorem finites_scale (c : ℝ) (row : List (Option ℝ)) :
    finites (scaleRow c row) = (finites row).map (c * ·) := by
  unfold finites scaleRow
  induction row with
  | nil => rfl
  | cons d t ih =>
    cases d with
    | none => simpa using ih
    | some x => simpa using ih

theorem maxL_scale {c : ℝ} (hc : 0 < c) (xs : List ℝ) (init : ℝ) :
    maxL (c * init) (xs.map (c * ·)) = c * maxL init xs := by
  unfold maxL
  induction xs generalizing init with
  | nil => rfl
  | cons x t ih =>
    simp only [List.map_cons, List.foldl_cons]
    by_cases h : init < x
    · rw [if_pos h, if_pos (mul_lt_mul_of_pos_left h hc)]; exact ih x
    · rw [if_neg h, if_neg (fun h' => h (lt_of_mul_lt_mul_left h' (le_of_lt hc)))]; exact ih init

theorem any_isNone_scale (c : ℝ) (row : List (Option ℝ)) :
    (scaleRow c row).any (·.isNone) = row.any (·.isNone) := by
  unfold scaleRow
  induction row with
  | nil => rfl
  | cons d t ih => cases d <;> simp [ih]

theorem maxExt_scale {c : ℝ} (hc : 0 < c) (nz : List (Option ℝ)) :
    maxExt (scaleRow c nz) = scaleExt c (maxExt nz) := by
  unfold maxExt
  rw [any_isNone_scale, finites_scale]
  split_ifs with h
  · rfl
  · have := maxL_scale hc (finites nz) 0
    rw [mul_zero] at this
    rw [this]; rfl

theorem ofOpt_scale (c : ℝ) (a : Option ℝ) :
    ofOpt (a.map (c * ·)) = scaleExt c (ofOpt a) := by
  cases a <;> rfl

theorem interp_scale (c t : ℝ) (a b : Option ℝ) :
    interp (a.map (c * ·)) (b.map (c * ·)) t = scaleExt c (interp a b t) := by
  cases a <;> cases b <;> simp only [Option.map_some, Option.map_none, interp, scaleExt]
  congr 1; ring

/-- **rho is homogeneous of degree 1** (rows that may contain `inf` entries).  `tol` is compared
    with `lcFrac`, never with a distance, so it is *not* scaled. -/
theorem rho_scale_row {c : ℝ} (hc : 0 < c) (tol lcFrac : ℝ) (lcIdx : Nat) (row : List (Option ℝ)) :
    rho tol lcIdx lcFrac (scaleRow c row) = scaleExt c (rho tol lcIdx lcFrac row) := by
  unfold rho
  simp only [nzDists_scale hc, scaleRow_length, scaleRow_getElem?]
  generalize nzDists row = nz
  by_cases h1 : (lcIdx : ℝ) + lcFrac ≤ (nz.length : ℝ)
  · simp only [if_pos h1]
    by_cases h2 : 0 < lcIdx
    · simp only [if_pos h2]
      cases ha : nz[lcIdx - 1]? with
      | none => simp [scaleExt]
      | some a =>
        simp only [Option.map_some]
        by_cases h3 : tol < lcFrac
        · simp only [if_pos h3]
          cases hb : nz[lcIdx]? with
          | none => simp only [Option.map_none]; exact ofOpt_scale c a
          | some b => simp only [Option.map_some]; exact interp_scale c lcFrac a b
        · simp only [if_neg h3]; exact ofOpt_scale c a
    · simp only [if_neg h2]
      cases ha : nz[0]? with
      | none => simp [scaleExt]
      | some a =>
        cases a with
        | none =>
          simp only [Option.map_some, Option.map_none]
          split_ifs <;> rfl
        | some a =>
          simp only [Option.map_some, scaleExt]
          congr 1; ring
  · simp only [if_neg h1]
    by_cases h2 : 0 < nz.length
    · simp only [if_pos h2]; exact maxExt_scale hc nz
    · simp only [if_neg h2, scaleExt, mul_zero]

/-- **rho_scale**, for a row of finite entries. -/
theorem rho_scale {c : ℝ} (hc : 0 < c) (tol lcFrac : ℝ) (lcIdx : Nat) (ds : List ℝ) :
    rho tol lcIdx lcFrac ((ds.map (c * ·)).map some)
      = scaleExt c (rho tol lcIdx lcFrac (ds.map some)) := by
  rw [← scaleRow_map_some]; exact rho_scale_row hc tol lcFrac lcIdx _

theorem sumL_map_mul_left (c : ℝ) (xs : List ℝ) : sumL (xs.map (c * ·)) = c * sumL xs := by
  induction xs with
  | nil => simp
  | cons x t ih => simp only [List.map_cons, sumL_cons, ih]; ring

/-- the finite mean (used by the bandwidth floor) is homogeneous of degree 1. -/
theorem finiteMean_scale_row (c : ℝ) (row : List (Option ℝ)) :
    finiteMean (scaleRow c row) = c * finiteMean row := by
  unfold finiteMean
  simp only [finites_scale, List.length_map, sumL_map_mul_left]
  split_ifs with h
  · simp
  · rw [mul_div_assoc]

theorem finiteMean_scale (c : ℝ) (ds : List ℝ) :
    finiteMean ((ds.map (c * ·)).map some) = c * finiteMean (ds.map some) := by
  rw [← scaleRow_map_some]; exact finiteMean_scale_row c _

/-! ### 2. the calibration sum is Lipschitz in the bandwidth -/

/-- the elementary inequality behind the Lipschitz bound:
    `exp(-u/t) - exp(-u/s) ≤ (t - s)/s` for `0 < s ≤ t` (any `u`)
    (from `1 - e^{-x} ≤ x` and `a e^{-a} ≤ 1`, both consequences of `x + 1 ≤ e^x`). -/
theorem exp_neg_div_sub_le {u s t : ℝ} (hs : 0 < s) (hst : s ≤ t) :
    Real.exp (-(u / t)) - Real.exp (-(u / s)) ≤ (t - s) / s := by
  have ht : 0 < t := lt_of_lt_of_le hs hst
  have hab : u / s - u / t = (u / t) * ((t - s) / s) := by field_simp
  generalize u / t = a at hab
  generalize u / s = b at hab
  have h1 : 1 - (b - a) ≤ Real.exp (-(b - a)) := by
    have := Real.add_one_le_exp (-(b - a)); linarith
  have h2 : Real.exp (-b) = Real.exp (-a) * Real.exp (-(b - a)) := by
    rw [← Real.exp_add]; congr 1; ring
  have h3 : a * Real.exp (-a) ≤ 1 := by
    have h := Real.add_one_le_exp a
    have hpos := Real.exp_pos a
    rw [Real.exp_neg, mul_inv_le_iff₀ hpos]
    linarith
  have hq : 0 ≤ (t - s) / s := div_nonneg (by linarith) hs.le
  have hea : 0 < Real.exp (-a) := Real.exp_pos _
  rw [h2]
  calc Real.exp (-a) - Real.exp (-a) * Real.exp (-(b - a))
      = Real.exp (-a) * (1 - Real.exp (-(b - a))) := by ring
    _ ≤ Real.exp (-a) * (b - a) := by
        apply mul_le_mul_of_nonneg_left _ hea.le; linarith
    _ = (a * Real.exp (-a)) * ((t - s) / s) := by rw [hab]; ring
    _ ≤ 1 * ((t - s) / s) := mul_le_mul_of_nonneg_right h3 hq
    _ = (t - s) / s := one_mul _

theorem psumTerm_lipschitz {s t : ℝ} (hs : 0 < s) (hst : s ≤ t) (r : Ext ℝ) (d : Option ℝ) :
    psumTerm realT r t d - psumTerm realT r s d ≤ (t - s) / s := by
  have hq : 0 ≤ (t - s) / s := div_nonneg (by linarith) hs.le
  cases r with
  | inf => simpa only [psumTerm_inf, sub_self] using hq
  | nan => simpa only [psumTerm_nan, sub_self] using hq
  | fin r =>
    cases d with
    | none => simpa only [psumTerm_fin_none, sub_self] using hq
    | some d =>
      simp only [psumTerm_fin_some]
      by_cases h : 0 < d - r
      · rw [if_pos h, if_pos h]
        simp only [realT]
        exact exp_neg_div_sub_le hs hst
      · rw [if_neg h, if_neg h]; simpa using hq

/-- **Lipschitz bound**: for `0 < s ≤ t` the calibration sum grows by at most
    `length · (t - s)/s` between `s` and `t` (any rho — finite, `inf` or `nan`). -/
theorem psum_lipschitz {s t : ℝ} (hs : 0 < s) (hst : s ≤ t) (r : Ext ℝ) (ds : List (Option ℝ)) :
    psum realT r t ds - psum realT r s ds ≤ (ds.length : ℝ) * (t - s) / s := by
  unfold psum
  induction ds with
  | nil => simp
  | cons d ds ih =>
    simp only [List.map_cons, sumL_cons, List.length_cons, Nat.cast_add, Nat.cast_one]
    have h1 := psumTerm_lipschitz hs hst r d
    have e : ((ds.length : ℝ) + 1) * (t - s) / s = (ds.length : ℝ) * (t - s) / s + (t - s) / s := by
      ring
    rw [e]; linarith

/-- the form asked for: finite rho `r`. -/
theorem psum_continuous_lipschitz {s t : ℝ} (hs : 0 < s) (hst : s ≤ t) (r : ℝ)
    (ds : List (Option ℝ)) :
    psum realT (.fin r) t ds - psum realT (.fin r) s ds ≤ (ds.length : ℝ) * (t - s) / s :=
  psum_lipschitz hs hst (.fin r) ds

/-! ### 3. the search: a doubling phase, then a halving phase -/

section search
variable (tol target : ℝ) (r : Ext ℝ) (ds : List (Option ℝ))

theorem bisect_zero : bisect realT tol target r ds 0 = bisectInit := rfl

theorem bisect_succ (n : Nat) :
    bisect realT tol target r ds (n + 1)
      = bisectStep realT tol target r ds (bisect realT tol target r ds n) := by
  unfold bisect
  rw [List.range_succ, List.foldl_append]
  rfl

/-- the five outcomes of one loop iteration. -/
theorem bisectStep_cases (s : BState ℝ) :
    (s.done = true ∧ bisectStep realT tol target r ds s = s)
    ∨ (s.done = false ∧ |psum realT r s.mid ds - target| < tol
        ∧ bisectStep realT tol target r ds s = { s with done := true })
    ∨ (s.done = false ∧ tol ≤ |psum realT r s.mid ds - target| ∧ target < psum realT r s.mid ds
        ∧ bisectStep realT tol target r ds s
            = { s with hi := some s.mid, mid := (s.lo + s.mid) / 2 })
    ∨ (s.done = false ∧ tol ≤ |psum realT r s.mid ds - target| ∧ psum realT r s.mid ds ≤ target
        ∧ s.hi = none
        ∧ bisectStep realT tol target r ds s = { s with lo := s.mid, mid := s.mid * 2 })
    ∨ (s.done = false ∧ tol ≤ |psum realT r s.mid ds - target| ∧ psum realT r s.mid ds ≤ target
        ∧ ∃ h, s.hi = some h
        ∧ bisectStep realT tol target r ds s = { s with lo := s.mid, mid := (s.mid + h) / 2 }) := by
  unfold bisectStep
  dsimp only
  rw [absV_eq_abs, one_add_one_eq_two]
  by_cases hd : s.done = true
  · left; exact ⟨hd, by rw [if_pos hd]⟩
  · right
    have hd' : s.done = false := by simpa using hd
    rw [if_neg hd]
    by_cases hc : |psum realT r s.mid ds - target| < tol
    · left; exact ⟨hd', hc, by rw [if_pos hc]⟩
    · right
      rw [if_neg hc]
      by_cases hg : target < psum realT r s.mid ds
      · left; exact ⟨hd', not_lt.1 hc, hg, by rw [if_pos hg]⟩
      · right
        rw [if_neg hg]
        cases hhi : s.hi with
        | none => left; exact ⟨hd', not_lt.1 hc, not_lt.1 hg, rfl, rfl⟩
        | some h => right; exact ⟨hd', not_lt.1 hc, not_lt.1 hg, h, rfl, rfl⟩

/-- once the bracket is closed, `mid` is its midpoint. -/
def MidInv (s : BState ℝ) : Prop := ∀ h, s.hi = some h → s.mid = (s.lo + h) / 2

theorem midInv_step (s : BState ℝ) (hm : MidInv s) :
    MidInv (bisectStep realT tol target r ds s) := by
  rcases bisectStep_cases tol target r ds s with
    ⟨_, e⟩ | ⟨_, _, e⟩ | ⟨_, _, _, e⟩ | ⟨_, _, _, _, e⟩ | ⟨_, _, _, h, hh, e⟩ <;> rw [e]
  · exact hm
  · exact hm
  · intro h hh; simp only [Option.some.injEq] at hh; subst hh; rfl
  · intro h hh; rename_i hn; simp only at hh; rw [hn] at hh; simp at hh
  · intro h' hh'; simp only at hh'; rw [hh] at hh'; simp only [Option.some.injEq] at hh'
    subst hh'; rfl

theorem bisect_midInv (n : Nat) : MidInv (bisect realT tol target r ds n) := by
  unfold bisect
  apply foldl_inv MidInv
  · intro s _ hs; exact midInv_step tol target r ds s hs
  · intro h hh; simp [bisectInit] at hh

/-- an upper end set during the first `n` iterations is at most `2 ^ (n - 1)`. -/
def HiInv (n : Nat) (s : BState ℝ) : Prop := ∀ h, s.hi = some h → h * 2 ≤ 2 ^ n

/--
  **one step of the search, relative to the previous state**: `lo` never decreases, `break` is
  permanent, a closed bracket stays closed, and — unless the loop breaks — *its width halves*.
-/
theorem bisectStep_rel (n : Nat) (s : BState ℝ) (hb : BInv n s) (hm : MidInv s) :
    let s' := bisectStep realT tol target r ds s
    s.lo ≤ s'.lo ∧ (s.done = true → s'.done = true)
    ∧ (∀ h, s.hi = some h →
        ∃ h', s'.hi = some h' ∧ (s'.done = false → h' - s'.lo = (h - s.lo) / 2)) := by
  obtain ⟨h0, h1, _, _⟩ := hb
  intro s'
  rcases bisectStep_cases tol target r ds s with
    ⟨hd, e⟩ | ⟨_, _, e⟩ | ⟨hd, _, _, e⟩ | ⟨hd, _, _, hn, e⟩ | ⟨hd, _, _, h, hh, e⟩ <;>
    simp only [s', e]
  · exact ⟨le_refl _, fun _ => hd, fun h hh => ⟨h, hh, fun hf => by rw [hd] at hf; simp at hf⟩⟩
  · exact ⟨le_refl _, fun _ => trivial, fun h hh => ⟨h, hh, fun hf => by simp at hf⟩⟩
  · refine ⟨le_refl _, fun hf => by rw [hd] at hf; simp at hf, fun h hh => ⟨s.mid, rfl, fun _ => ?_⟩⟩
    rw [hm h hh]; ring
  · refine ⟨h1.le, fun hf => by rw [hd] at hf; simp at hf, fun h hh => ?_⟩
    rw [hn] at hh; simp at hh
  · refine ⟨h1.le, fun hf => by rw [hd] at hf; simp at hf, fun h' hh' => ⟨h', hh', fun _ => ?_⟩⟩
    rw [hm h' hh']; ring

theorem hiInv_step (n : Nat) (s : BState ℝ) (hb : BInv n s) (hh : HiInv n s) :
    HiInv (n + 1) (bisectStep realT tol target r ds s) := by
  obtain ⟨_, _, h3, _⟩ := hb
  have hpow : (2:ℝ) ^ n ≤ 2 ^ (n + 1) := by
    rw [pow_succ]; have : (0:ℝ) < 2 ^ n := by positivity
    linarith
  have keep : HiInv (n + 1) s := fun h e => le_trans (hh h e) hpow
  rcases bisectStep_cases tol target r ds s with
    ⟨_, e⟩ | ⟨_, _, e⟩ | ⟨_, _, _, e⟩ | ⟨_, _, _, _, e⟩ | ⟨_, _, _, h, _, e⟩ <;> rw [e]
  · exact keep
  · exact keep
  · intro h e; simp only [Option.some.injEq] at e; subst e; rw [pow_succ]; linarith
  · exact keep
  · exact keep

theorem bisect_hiInv (n : Nat) : HiInv n (bisect realT tol target r ds n) := by
  induction n with
  | zero => intro h hh; simp [bisect_zero, bisectInit] at hh
  | succ n ih =>
    rw [bisect_succ]
    exact hiInv_step tol target r ds n _ (bisect_inv tol target r ds n) ih

theorem bisect_rel (n : Nat) :
    let s := bisect realT tol target r ds n
    let s' := bisect realT tol target r ds (n + 1)
    s.lo ≤ s'.lo ∧ (s.done = true → s'.done = true)
    ∧ (∀ h, s.hi = some h →
        ∃ h', s'.hi = some h' ∧ (s'.done = false → h' - s'.lo = (h - s.lo) / 2)) := by
  intro s s'
  have := bisectStep_rel tol target r ds n s (bisect_inv tol target r ds n)
    (bisect_midInv tol target r ds n)
  simp only [s', bisect_succ]
  exact this

/-- `break` is permanent. -/
theorem bisect_done_mono {m n : Nat} (hmn : m ≤ n)
    (h : (bisect realT tol target r ds m).done = true) :
    (bisect realT tol target r ds n).done = true := by
  induction n, hmn using Nat.le_induction with
  | base => exact h
  | succ n _ ih => exact (bisect_rel tol target r ds n).2.1 ih

theorem bisect_not_done_of_le {m n : Nat} (hmn : m ≤ n)
    (h : (bisect realT tol target r ds n).done = false) :
    (bisect realT tol target r ds m).done = false := by
  cases hd : (bisect realT tol target r ds m).done with
  | false => rfl
  | true => rw [bisect_done_mono tol target r ds hmn hd] at h; simp at h

/-- `lo` never decreases. -/
theorem bisect_lo_mono {m n : Nat} (hmn : m ≤ n) :
    (bisect realT tol target r ds m).lo ≤ (bisect realT tol target r ds n).lo := by
  induction n, hmn using Nat.le_induction with
  | base => exact le_refl _
  | succ n _ ih => exact le_trans ih (bisect_rel tol target r ds n).1

/-- a closed bracket stays closed. -/
theorem bisect_hi_persist {m n : Nat} (hmn : m ≤ n) {h0 : ℝ}
    (h : (bisect realT tol target r ds m).hi = some h0) :
    ∃ h, (bisect realT tol target r ds n).hi = some h := by
  induction n, hmn using Nat.le_induction with
  | base => exact ⟨h0, h⟩
  | succ n _ ih =>
    obtain ⟨h1, e1⟩ := ih
    obtain ⟨h2, e2, _⟩ := (bisect_rel tol target r ds n).2.2 h1 e1
    exact ⟨h2, e2⟩

/--
  **doubling phase.** As long as the bracket is open (`hi = inf`) and the loop has not hit
  `break`, after `n` iterations `mid = 2 ^ n` and (for `n ≥ 1`) `lo = 2 ^ (n - 1)`.
-/
theorem bisect_doubling (n : Nat)
    (hhi : (bisect realT tol target r ds n).hi = none)
    (hd : (bisect realT tol target r ds n).done = false) :
    (bisect realT tol target r ds n).mid = 2 ^ n
    ∧ (n = 0 ∨ (bisect realT tol target r ds n).lo * 2 = 2 ^ n) := by
  induction n with
  | zero => simp [bisect_zero, bisectInit]
  | succ n ih =>
    have hd0 := bisect_not_done_of_le tol target r ds (Nat.le_succ n) hd
    have hhi0 : (bisect realT tol target r ds n).hi = none := by
      cases e : (bisect realT tol target r ds n).hi with
      | none => rfl
      | some h0 =>
        obtain ⟨h1, e1⟩ := bisect_hi_persist tol target r ds (Nat.le_succ n) e
        rw [e1] at hhi; simp at hhi
    obtain ⟨hmid, _⟩ := ih hhi0 hd0
    rw [bisect_succ] at hhi hd ⊢
    rcases bisectStep_cases tol target r ds (bisect realT tol target r ds n) with
      ⟨hd1, _⟩ | ⟨_, _, e⟩ | ⟨_, _, _, e⟩ | ⟨_, _, _, _, e⟩ | ⟨_, _, _, h, hh, _⟩
    · rw [hd0] at hd1; simp at hd1
    · rw [e] at hd; simp at hd
    · rw [e] at hhi; simp at hhi
    · rw [e]; simp only; rw [hmid]
      exact ⟨by rw [pow_succ], Or.inr (by rw [pow_succ])⟩
    · rw [hhi0] at hh; simp at hh

/-- **halving phase, exact form.** If the bracket is closed after `m` iterations with ends
    `lo₀ , h₀`, then after `k` further iterations without `break` its width is
    `(h₀ - lo₀) / 2 ^ k`. -/
theorem bisect_width_exact (m k : Nat) {h0 : ℝ}
    (hhi : (bisect realT tol target r ds m).hi = some h0)
    (hd : (bisect realT tol target r ds (m + k)).done = false) :
    ∃ h, (bisect realT tol target r ds (m + k)).hi = some h
      ∧ h - (bisect realT tol target r ds (m + k)).lo
          = (h0 - (bisect realT tol target r ds m).lo) / 2 ^ k := by
  induction k with
  | zero => exact ⟨h0, hhi, by simp⟩
  | succ k ih =>
    have hd0 := bisect_not_done_of_le tol target r ds (Nat.le_succ (m + k)) hd
    obtain ⟨h1, e1, w1⟩ := ih hd0
    obtain ⟨h2, e2, w2⟩ := (bisect_rel tol target r ds (m + k)).2.2 h1 e1
    refine ⟨h2, e2, ?_⟩
    have := w2 hd
    rw [show m + (k + 1) = m + k + 1 from rfl, this, w1, pow_succ]
    field_simp

/--
  **bisect_width.** If the bracket has been closed (`hi` set) by iteration `m`, then after
  `n ≥ m` iterations without `break` it is still closed and its width is at most
  `2 ^ (m - 1) / 2 ^ (n - m)`, written `2 ^ m / 2 ^ (n - m) / 2`: the upper end was at most
  `2 ^ (m - 1)` (the doubling phase), and every further iteration halved the width.
-/
theorem bisect_width_sharp {m n : Nat} (hmn : m ≤ n) {h0 : ℝ}
    (hhi : (bisect realT tol target r ds m).hi = some h0)
    (hd : (bisect realT tol target r ds n).done = false) :
    ∃ h, (bisect realT tol target r ds n).hi = some h
      ∧ h - (bisect realT tol target r ds n).lo ≤ 2 ^ m / 2 ^ (n - m) / 2 := by
  obtain ⟨k, rfl⟩ := Nat.exists_eq_add_of_le hmn
  obtain ⟨h, e, w⟩ := bisect_width_exact tol target r ds m k hhi hd
  refine ⟨h, e, ?_⟩
  rw [w, Nat.add_sub_cancel_left]
  have h1 := bisect_hiInv tol target r ds m h0 hhi
  obtain ⟨h2, _⟩ := bisect_inv tol target r ds m
  have hk : (0:ℝ) < 2 ^ k := by positivity
  rw [div_div, div_le_div_iff₀ hk (by positivity)]
  nlinarith

/-- the form asked for: width `≤ 2 ^ m / 2 ^ (n - m)`. -/
theorem bisect_width {m n : Nat} (hmn : m ≤ n) {h0 : ℝ}
    (hhi : (bisect realT tol target r ds m).hi = some h0)
    (hd : (bisect realT tol target r ds n).done = false) :
    ∃ h, (bisect realT tol target r ds n).hi = some h
      ∧ h - (bisect realT tol target r ds n).lo ≤ 2 ^ m / 2 ^ (n - m) := by
  obtain ⟨h, e, w⟩ := bisect_width_sharp tol target r ds hmn hhi hd
  refine ⟨h, e, le_trans w ?_⟩
  have : (0:ℝ) ≤ 2 ^ m / 2 ^ (n - m) := by positivity
  linarith

/-- the halving phase as an invariant of `bisectStep`: "not broken ⇒ the bracket is closed with
    width `≤ 2 ^ (m - 1) / 2 ^ (n - m)`" (`m` = an iteration by which the bracket was closed). -/
def WInv (m n : Nat) (s : BState ℝ) : Prop :=
  s.done = false → ∃ h, s.hi = some h ∧ h - s.lo ≤ 2 ^ m / 2 ^ (n - m) / 2

theorem winv_step {m n : Nat} (hmn : m ≤ n) (s : BState ℝ) (hb : BInv n s) (hm : MidInv s)
    (hw : WInv m n s) : WInv m (n + 1) (bisectStep realT tol target r ds s) := by
  intro hd
  obtain ⟨_, hdone, hrel⟩ := bisectStep_rel tol target r ds n s hb hm
  have hd0 : s.done = false := by
    cases e : s.done with
    | false => rfl
    | true => rw [hdone e] at hd; simp at hd
  obtain ⟨h, eh, w⟩ := hw hd0
  obtain ⟨h', eh', w'⟩ := hrel h eh
  refine ⟨h', eh', ?_⟩
  rw [w' hd, Nat.succ_sub hmn, pow_succ, ← div_div (2 ^ m)]
  linarith

/-- the invariant holds from the iteration that closes the bracket on. -/
theorem bisect_winv {m n : Nat} (hmn : m ≤ n) {h0 : ℝ}
    (hhi : (bisect realT tol target r ds m).hi = some h0) :
    WInv m n (bisect realT tol target r ds n) :=
  fun hd => bisect_width_sharp tol target r ds hmn hhi hd

/-- with a non-positive tolerance the loop never breaks (used for non-vacuity below). -/
theorem bisect_not_done_of_tol_nonpos (htol : tol ≤ 0) (n : Nat) :
    (bisect realT tol target r ds n).done = false := by
  induction n with
  | zero => rfl
  | succ n ih =>
    rw [bisect_succ]
    rcases bisectStep_cases tol target r ds (bisect realT tol target r ds n) with
      ⟨hd, _⟩ | ⟨_, ha, _⟩ | ⟨_, _, _, e⟩ | ⟨_, _, _, _, e⟩ | ⟨_, _, _, h, _, e⟩
    · rw [ih] at hd; simp at hd
    · have := abs_nonneg (psum realT r (bisect realT tol target r ds n).mid ds - target)
      linarith
    · rw [e]; exact ih
    · rw [e]; exact ih
    · rw [e]; exact ih

end search

/-! ### 4. sixty-four iterations calibrate the sum -/

section calib
variable (tol target : ℝ) (r : Ext ℝ) (ds : List (Option ℝ))

/-- with a positive tolerance the bracket is strict at both ends: `lo` only moves to a point where
    the sum is below `target - tol`. -/
def SBracketInv (target : ℝ) (r : Ext ℝ) (ds : List (Option ℝ)) (s : BState ℝ) : Prop :=
  (0 < s.lo → psum realT r s.lo ds < target) ∧ (∀ h, s.hi = some h → target < psum realT r h ds)

theorem sbracket_step (htol : 0 < tol) (s : BState ℝ) (h : SBracketInv target r ds s) :
    SBracketInv target r ds (bisectStep realT tol target r ds s) := by
  obtain ⟨h1, h2⟩ := h
  have strict : ∀ p : ℝ, tol ≤ |p - target| → p ≤ target → p < target := by
    intro p a b
    rcases lt_or_eq_of_le b with c | c
    · exact c
    · rw [c] at a; simp at a; linarith
  rcases bisectStep_cases tol target r ds s with
    ⟨_, e⟩ | ⟨_, _, e⟩ | ⟨_, _, hg, e⟩ | ⟨_, ha, hp, hn, e⟩ | ⟨_, ha, hp, h, hh, e⟩ <;> rw [e]
  · exact ⟨h1, h2⟩
  · exact ⟨h1, h2⟩
  · exact ⟨h1, fun h hh => by simp only [Option.some.injEq] at hh; subst hh; exact hg⟩
  · exact ⟨fun _ => strict _ ha hp, fun h hh => by simp only at hh; rw [hn] at hh; simp at hh⟩
  · exact ⟨fun _ => strict _ ha hp, fun h' hh' => h2 h' hh'⟩

theorem bisect_sbracket (htol : 0 < tol) (n : Nat) :
    SBracketInv target r ds (bisect realT tol target r ds n) := by
  unfold bisect
  apply foldl_inv (SBracketInv target r ds)
  · intro s _ hs; exact sbracket_step tol target r ds htol s hs
  · exact ⟨fun h => by simp [bisectInit] at h, fun h hh => by simp [bisectInit] at hh⟩

/-- **the bracket contains every solution** of the calibration equation: `lo < σ* < hi`. -/
theorem bisect_bracket_contains (htol : 0 < tol) {σs : ℝ} (hσ : 0 < σs)
    (hsol : psum realT r σs ds = target) (n : Nat) :
    (bisect realT tol target r ds n).lo < σs
    ∧ ∀ h, (bisect realT tol target r ds n).hi = some h → σs < h := by
  obtain ⟨sb1, sb2⟩ := bisect_sbracket tol target r ds htol n
  obtain ⟨hb0, hb1, _, hb3⟩ := bisect_inv tol target r ds n
  constructor
  · by_contra hc
    push Not at hc
    have hpos : 0 < (bisect realT tol target r ds n).lo := lt_of_lt_of_le hσ hc
    have := psum_mono_sigma hσ hc r ds
    have := sb1 hpos
    linarith
  · intro h hh
    by_contra hc
    push Not at hc
    have hpos : 0 < h := by have := (hb3 h hh).1; linarith
    have := psum_mono_sigma hpos hc r ds
    have := sb2 h hh
    linarith

/-- the doubling phase ends as soon as `2 ^ k` reaches a point where the sum is `≥ target`:
    iteration `k + 1` either breaks or closes the bracket. -/
theorem bisect_closes (htol : 0 < tol) (k : Nat) (hhigh : target ≤ psum realT r (2 ^ k) ds)
    (hd : (bisect realT tol target r ds (k + 1)).done = false) :
    ∃ h, (bisect realT tol target r ds (k + 1)).hi = some h := by
  have hd0 := bisect_not_done_of_le tol target r ds (Nat.le_succ k) hd
  cases e : (bisect realT tol target r ds k).hi with
  | some h0 => exact bisect_hi_persist tol target r ds (Nat.le_succ k) e
  | none =>
    obtain ⟨hmid, _⟩ := bisect_doubling tol target r ds k e hd0
    rw [bisect_succ] at hd ⊢
    rcases bisectStep_cases tol target r ds (bisect realT tol target r ds k) with
      ⟨hd1, _⟩ | ⟨_, _, e'⟩ | ⟨_, _, _, e'⟩ | ⟨_, ha, hp, _, _⟩ | ⟨_, _, _, h, hh, _⟩
    · rw [hd0] at hd1; simp at hd1
    · rw [e'] at hd; simp at hd
    · rw [e']; exact ⟨_, rfl⟩
    · rw [hmid] at ha hp
      have : psum realT r (2 ^ k) ds = target := le_antisymm hp hhigh
      rw [this] at ha; simp at ha; linarith
    · rw [e] at hh; simp at hh

local notation "⟪S⟫" => bisect realT tol target r ds 64

/--
  **the gap after 64 iterations.**  Hypotheses through `psum` values only (no solution needed):
  the sum is `≤ target` at `2⁻²⁰` and `≥ target` at `2²⁰`.  If the loop has not hit `break`,
  then the bracket is closed, `0 < lo < mid < hi`, `psum lo < target < psum hi`, the width is at
  most `2²⁰ / 2⁴³ = 2⁻²³`, the *relative* width at most `2⁻²³`, and so (monotonicity + Lipschitz)
  the sum at `mid` is within `length / 2²³` of the target.
-/
theorem calibration_gap (htol : 0 < tol)
    (hlow : psum realT r (1 / 2 ^ 20) ds ≤ target) (hhigh : target ≤ psum realT r (2 ^ 20) ds)
    (hd : ⟪S⟫.done = false) :
    ∃ h, ⟪S⟫.hi = some h ∧ 0 < ⟪S⟫.lo ∧ ⟪S⟫.lo < ⟪S⟫.mid ∧ ⟪S⟫.mid < h
      ∧ h - ⟪S⟫.lo ≤ 2 ^ 20 / 2 ^ (64 - 21)
      ∧ (h - ⟪S⟫.lo) / ⟪S⟫.lo ≤ 1 / 2 ^ 23
      ∧ psum realT r ⟪S⟫.lo ds < target ∧ target < psum realT r h ds
      ∧ |psum realT r ⟪S⟫.mid ds - target| ≤ (ds.length : ℝ) / 2 ^ 23 := by
  have hd21 := bisect_not_done_of_le tol target r ds (show 21 ≤ 64 by norm_num) hd
  have hd1 := bisect_not_done_of_le tol target r ds (show 1 ≤ 64 by norm_num) hd
  obtain ⟨h21, e21⟩ := bisect_closes tol target r ds htol 20 hhigh hd21
  obtain ⟨h, eh, hw⟩ := bisect_width_sharp tol target r ds (show 21 ≤ 64 by norm_num) e21 hd
  obtain ⟨hb0, hb1, hb2, hb3⟩ := bisect_inv tol target r ds 64
  obtain ⟨hmh, _⟩ := hb3 h eh
  obtain ⟨sb1, sb2⟩ := bisect_sbracket tol target r ds htol 64
  have hth := sb2 h eh
  have hhpos : 0 < h := by linarith
  have hw' : h - ⟪S⟫.lo ≤ 2 ^ 20 / 2 ^ (64 - 21) := by
    norm_num at hw ⊢; linarith
  have key : 0 < ⟪S⟫.lo ∧ h - ⟪S⟫.lo ≤ ⟪S⟫.lo / 2 ^ 23 := by
    cases e1 : (bisect realT tol target r ds 1).hi with
    | some h1 =>
      obtain ⟨h', eh', hw1⟩ :=
        bisect_width_sharp tol target r ds (show 1 ≤ 64 by norm_num) e1 hd
      rw [eh] at eh'; simp only [Option.some.injEq] at eh'; subst eh'
      have hgt : 1 / 2 ^ 20 < h := by
        by_contra hc
        push Not at hc
        have := psum_mono_sigma hhpos hc r ds
        linarith
      norm_num at hw1 hgt ⊢
      constructor <;> linarith
    | none =>
      obtain ⟨_, hlo⟩ := bisect_doubling tol target r ds 1 e1 hd1
      have hlo1 : (bisect realT tol target r ds 1).lo = 1 := by
        rcases hlo with h | h
        · omega
        · linarith
      have := bisect_lo_mono tol target r ds (show 1 ≤ 64 by norm_num)
      rw [hlo1] at this
      norm_num at hw' ⊢
      constructor <;> linarith
  obtain ⟨hlo_pos, hratio⟩ := key
  have hlo_lt := sb1 hlo_pos
  have m1 := psum_mono_sigma hlo_pos hb1.le r ds
  have m2 := psum_mono_sigma (lt_trans hlo_pos hb1) hmh.le r ds
  have lip := psum_lipschitz hlo_pos (by linarith : ⟪S⟫.lo ≤ h) r ds
  have hr : (h - ⟪S⟫.lo) / ⟪S⟫.lo ≤ 1 / 2 ^ 23 := by
    rw [div_le_iff₀ hlo_pos]; linarith
  have hl : (ds.length : ℝ) * (h - ⟪S⟫.lo) / ⟪S⟫.lo ≤ (ds.length : ℝ) / 2 ^ 23 := by
    rw [mul_div_assoc]
    calc (ds.length : ℝ) * ((h - ⟪S⟫.lo) / ⟪S⟫.lo)
        ≤ (ds.length : ℝ) * (1 / 2 ^ 23) := mul_le_mul_of_nonneg_left hr (Nat.cast_nonneg _)
      _ = (ds.length : ℝ) / 2 ^ 23 := by ring
  refine ⟨h, eh, hlo_pos, hb1, hmh, hw', hr, hlo_lt, hth, ?_⟩
  exact abs_le.2 ⟨by linarith, by linarith⟩

end calib

/--
  **calibration_within_tol (psum-value form).**  `tol = 1e-5` (the live `SMOOTH_K_TOLERANCE`),
  at most `2¹⁰` neighbours, and the target lies between the values of the calibration sum at
  `2⁻²⁰` and at `2²⁰`.  After the 64 iterations of `smooth_knn_dist` EITHER the loop has hit its
  `break` and the sum at the returned `mid` is within `tol` of the target, OR the bracket is
  closed with `psum lo < target < psum hi`, width `≤ 2²⁰ / 2^(64-21)`, and the sum at `mid` is
  within `1e-3` of the target.
-/
theorem calibration_within_tol_of_bracket (target : ℝ) (r : Ext ℝ) (ds : List (Option ℝ))
    (hlow : psum realT r (1 / 2 ^ 20) ds ≤ target) (hhigh : target ≤ psum realT r (2 ^ 20) ds)
    (hlen : ds.length ≤ 2 ^ 10) :
    let s := bisect realT 1e-5 target r ds 64
    (s.done = true ∧ |psum realT r s.mid ds - target| < 1e-5)
    ∨ (s.done = false ∧ ∃ h, s.hi = some h ∧ 0 < s.lo ∧ s.lo < s.mid ∧ s.mid < h
        ∧ psum realT r s.lo ds < target ∧ target < psum realT r h ds
        ∧ h - s.lo ≤ 2 ^ 20 / 2 ^ (64 - 21)
        ∧ |psum realT r s.mid ds - target| ≤ 1e-3) := by
  intro s
  cases hd : s.done with
  | true => left; exact ⟨rfl, bisect_done 1e-5 target r ds 64 hd⟩
  | false =>
    right
    obtain ⟨h, eh, h1, h2, h3, h4, _, h6, h7, h8⟩ :=
      calibration_gap 1e-5 target r ds (by norm_num) hlow hhigh hd
    refine ⟨rfl, h, eh, h1, h2, h3, h6, h7, h4, le_trans h8 ?_⟩
    have hl : (ds.length : ℝ) ≤ 2 ^ 10 := by exact_mod_cast hlen
    have e : (2:ℝ) ^ 10 = 1024 := by norm_num
    rw [e] at hl
    norm_num
    linarith

/--
  **calibration_within_tol.**  If some bandwidth `σ*` with `2⁻²⁰ ≤ σ* ≤ 2²⁰` solves the
  calibration equation `psum σ* = target` for a row with at most `2¹⁰` neighbours, then after the
  64 iterations (with `tol = 1e-5`) EITHER the loop has hit its `break` (sum within `tol`) OR the
  bracket `(lo, hi)` contains `σ*`, has width `≤ 2²⁰ / 2^(64-21)`, and the sum at the returned
  `mid` is within `1e-3` of the target.  (Any rho: finite, `inf` or `nan`.)
-/
theorem calibration_within_tol (target σs : ℝ) (r : Ext ℝ) (ds : List (Option ℝ))
    (h1 : 1 / 2 ^ 20 ≤ σs) (h2 : σs ≤ 2 ^ 20) (hsol : psum realT r σs ds = target)
    (hlen : ds.length ≤ 2 ^ 10) :
    let s := bisect realT 1e-5 target r ds 64
    (s.done = true ∧ |psum realT r s.mid ds - target| < 1e-5)
    ∨ (s.done = false ∧ ∃ h, s.hi = some h ∧ s.lo < σs ∧ σs < h
        ∧ h - s.lo ≤ 2 ^ 20 / 2 ^ (64 - 21)
        ∧ |psum realT r s.mid ds - target| ≤ 1e-3) := by
  intro s
  have hσ : 0 < σs := lt_of_lt_of_le (by positivity) h1
  have hlow : psum realT r (1 / 2 ^ 20) ds ≤ target := by
    rw [← hsol]; exact psum_mono_sigma (by positivity) h1 r ds
  have hhigh : target ≤ psum realT r (2 ^ 20) ds := by
    rw [← hsol]; exact psum_mono_sigma hσ h2 r ds
  rcases calibration_within_tol_of_bracket target r ds hlow hhigh hlen with h | ⟨hd, h, eh, _, _, _, _, _, hw, hc⟩
  · left; exact h
  · right
    obtain ⟨c1, c2⟩ := bisect_bracket_contains 1e-5 target r ds (by norm_num) hσ hsol 64
    exact ⟨hd, h, eh, c1, c2 h eh, hw, hc⟩

/-- in either case the calibration sum at the search result is within `1e-3` of the target. -/
theorem calibration_within_1e3 (target σs : ℝ) (r : Ext ℝ) (ds : List (Option ℝ))
    (h1 : 1 / 2 ^ 20 ≤ σs) (h2 : σs ≤ 2 ^ 20) (hsol : psum realT r σs ds = target)
    (hlen : ds.length ≤ 2 ^ 10) :
    |psum realT r (bisect realT 1e-5 target r ds 64).mid ds - target| ≤ 1e-3 := by
  rcases calibration_within_tol target σs r ds h1 h2 hsol hlen with ⟨_, h⟩ | ⟨_, _, _, _, _, _, h⟩
  · refine le_trans h.le ?_; norm_num
  · exact h

/--
  **C01 (c), full for the un-floored bandwidth.**  For a row of finite distances with finite rho,
  if the calibration equation has a solution in `[2⁻²⁰, 2²⁰]`, the membership strengths computed
  with the bandwidth found by the 64-step search total `target = log2 k` within `1e-3`.
-/
theorem C01_calibration (target σs r : ℝ) (ds : List ℝ)
    (h1 : 1 / 2 ^ 20 ≤ σs) (h2 : σs ≤ 2 ^ 20)
    (hsol : psum realT (.fin r) σs (ds.map some) = target) (hlen : ds.length ≤ 2 ^ 10) :
    let σ := (bisect realT 1e-5 target (.fin r) (ds.map some) 64).mid
    |sumL (ds.map (fun d => member realT d r σ)) - target| ≤ 1e-3 := by
  intro σ
  have hσ : 0 < σ := by
    obtain ⟨h0, h1, _, _⟩ := bisect_inv 1e-5 target (.fin r) (ds.map some) 64
    exact lt_of_le_of_lt h0 h1
  rw [members_sum_eq_psum hσ]
  exact calibration_within_1e3 target σs (.fin r) (ds.map some) h1 h2 hsol (by simpa using hlen)

/-! ### 5. the calibration equation is scale invariant -/

/-- `σ` solves the calibration equation of a row iff `c σ` solves that of the row scaled by `c`
    (with rho scaled accordingly). -/
theorem solution_scales {c σ : ℝ} (hc : 0 < c) (hσ : σ ≠ 0) (r target : ℝ)
    (ds : List (Option ℝ)) :
    psum realT (.fin r) σ ds = target
      ↔ psum realT (.fin (c * r)) (c * σ) (scaleRow c ds) = target := by
  have := psum_scale hc hσ (.fin r) ds
  simp only [scaleExt] at this
  unfold scaleRow
  rw [this]

/-- the same for an arbitrary (extended) rho. -/
theorem solution_scales_ext {c σ : ℝ} (hc : 0 < c) (hσ : σ ≠ 0) (r : Ext ℝ) (target : ℝ)
    (ds : List (Option ℝ)) :
    psum realT r σ ds = target
      ↔ psum realT (scaleExt c r) (c * σ) (scaleRow c ds) = target := by
  unfold scaleRow
  rw [psum_scale hc hσ r ds]

/--
  **whole-row form**: with rho *computed* from the row (`rho_scale_row`), `σ` calibrates a row iff
  `c σ` calibrates the scaled row — so the calibrated bandwidth of the scaled table is the scaled
  bandwidth, and by `member_scale` every membership strength is unchanged.
-/
theorem solution_scales_row {c σ : ℝ} (hc : 0 < c) (hσ : σ ≠ 0) (tol lcFrac target : ℝ)
    (lcIdx : Nat) (row : List (Option ℝ)) :
    psum realT (rho tol lcIdx lcFrac row) σ row.tail = target
      ↔ psum realT (rho tol lcIdx lcFrac (scaleRow c row)) (c * σ) (scaleRow c row).tail
          = target := by
  rw [rho_scale_row hc, scaleRow_tail]
  exact solution_scales_ext hc hσ _ target _

/-! ### non-vacuity -/

private theorem exp_neg_le_half {x : ℝ} (hx : 1 ≤ x) : Real.exp (-x) ≤ 1 / 2 := by
  have h1 : Real.exp (-x) ≤ Real.exp (-1) := Real.exp_le_exp.2 (by linarith)
  have h2 : (2:ℝ) ≤ Real.exp 1 := by have := Real.add_one_le_exp (1:ℝ); linarith
  have h3 : Real.exp (-1) ≤ 1 / 2 := by
    rw [Real.exp_neg, one_div]; exact inv_anti₀ (by norm_num) h2
  linarith

private theorem half_le_exp_neg {x : ℝ} (hx : x ≤ 1 / 2) : 1 / 2 ≤ Real.exp (-x) := by
  have := Real.add_one_le_exp (-x); linarith

private theorem ex_psum (σ : ℝ) :
    psum realT (.fin 1) σ [some 1, some 2, some 3]
      = 1 + (Real.exp (-(1 / σ)) + Real.exp (-(2 / σ))) := by
  norm_num [psum, psumTerm, realT]

/-- `calibration_within_tol_of_bracket` is not vacuous: the row `[self, 1, 2, 3]` with `rho = 1`
    and `target = 2 = log2 4` satisfies its hypotheses. -/
example : psum realT (.fin 1) (1 / 2 ^ 20) [some 1, some 2, some 3] ≤ 2
    ∧ (2:ℝ) ≤ psum realT (.fin 1) (2 ^ 20) [some 1, some 2, some 3]
    ∧ [some (1:ℝ), some 2, some 3].length ≤ 2 ^ 10 := by
  refine ⟨?_, ?_, by norm_num⟩
  · rw [ex_psum]
    have a := exp_neg_le_half (x := 1 / (1 / 2 ^ 20)) (by norm_num)
    have b := exp_neg_le_half (x := 2 / (1 / 2 ^ 20)) (by norm_num)
    linarith
  · rw [ex_psum]
    have a := half_le_exp_neg (x := 1 / 2 ^ 20) (by norm_num)
    have b := half_le_exp_neg (x := 2 / 2 ^ 20) (by norm_num)
    linarith

/-- `calibration_within_tol` is not vacuous: `σ* = 1` solves the equation of the row above for
    the target `1 + e⁻¹ + e⁻²`. -/
example : (1:ℝ) / 2 ^ 20 ≤ 1 ∧ (1:ℝ) ≤ 2 ^ 20
    ∧ psum realT (.fin 1) 1 [some 1, some 2, some 3] = 1 + (Real.exp (-1) + Real.exp (-2))
    ∧ [some (1:ℝ), some 2, some 3].length ≤ 2 ^ 10 := by
  refine ⟨by norm_num, by norm_num, ?_, by norm_num⟩
  rw [ex_psum]; norm_num

/-- `bisect_width` / `bisect_width_sharp` are not vacuous: for the one-neighbour row `[1]`,
    `rho = 0`, `target = 1/4`, the live tolerance, the first iteration closes the bracket
    (`e⁻¹ > 1/4`) without breaking. -/
example : (bisect realT 1e-5 (1 / 4) (.fin 0) [some 1] 1).hi = some 1
    ∧ (bisect realT 1e-5 (1 / 4) (.fin 0) [some 1] 1).done = false := by
  have hp : psum realT (.fin 0) 1 [some 1] = Real.exp (-1) := by
    norm_num [psum, psumTerm, realT]
  have hgt : (1 / 4 : ℝ) + 1e-5 < Real.exp (-1) := by
    have h3 : Real.exp 1 < 3 := Real.exp_one_lt_three
    have : (1 / 3 : ℝ) < Real.exp (-1) := by
      rw [Real.exp_neg, one_div]
      exact inv_strictAnti₀ (Real.exp_pos 1) h3
    norm_num at this ⊢; linarith
  rw [bisect_succ, bisect_zero]
  rcases bisectStep_cases 1e-5 (1 / 4) (.fin 0) [some 1] bisectInit with
    ⟨hd, _⟩ | ⟨_, ha, _⟩ | ⟨_, _, _, e⟩ | ⟨_, _, hp', _⟩ | ⟨_, _, hp', _⟩
  · simp [bisectInit] at hd
  · simp only [bisectInit] at ha; rw [hp, abs_lt] at ha; linarith [ha.2]
  · rw [e]; exact ⟨rfl, rfl⟩
  · simp only [bisectInit] at hp'; rw [hp] at hp'; norm_num at hgt; linarith
  · simp only [bisectInit] at hp'; rw [hp] at hp'; norm_num at hgt; linarith

/-- … and with tolerance `0` the "no `break`" hypothesis holds at *every* iteration count. -/
example (n : Nat) : (bisect realT 0 (1 / 4) (.fin 0) [some 1] n).done = false :=
  bisect_not_done_of_tol_nonpos 0 (1 / 4) (.fin 0) [some 1] (le_refl _) n

/-- `solution_scales`, `rho_scale`: `c = 2`, `σ = 1` satisfy the side conditions. -/
example : (0:ℝ) < 2 ∧ (1:ℝ) ≠ 0 := by norm_num

end C01
end Umap
