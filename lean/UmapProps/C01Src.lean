/-
  C01Src — `compute_membership_strengths` as generated from the source text of umap/umap_.py
  (`Generated/UmapSrc.lean`, `SrcUmap.computeMembershipStrengths`) pinned down cell by cell, and
  related to the hand-written model `Knn.member` / `Knn.memberRow` (finite distances, finite rho).

  Generality: any scalar type `α` (the unbundled instance list of `Generated/UmapSrc.lean`), no
  algebraic facts are used; no shape hypotheses are needed for the cell theorem (the translation
  reads with `getD`, so `n := knn_indices.length`, `k := (knn_indices.getD 0 []).length`).
-/
import UmapModel.Knn
import Generated.UmapSrc
import UmapProofs.C01SrcLemmas
import UmapProofs.SrcLemmasD
import Mathlib.Tactic

set_option linter.unusedSectionVars false

namespace Umap
namespace C01Src
open C01SrcLemmas

section generic
variable {α : Type} [Add α] [Sub α] [Mul α] [Div α] [Neg α] [LT α] [LE α]
  [DecidableLT α] [DecidableLE α] [OfNat α 0] [OfNat α 1] [NatCast α]

/-- the neighbour index read by the source at cell `(i, j)`. -/
def idxAt (knn_indices : List (List Int)) (i j : Nat) : Int := (knn_indices.getD i []).getD j 0

/-- the distance read by the source at cell `(i, j)`. -/
def distAt (knn_dists : List (List α)) (i j : Nat) : α := (knn_dists.getD i []).getD j 0

/-- the value the source stores in `vals` at a non-skipped cell. -/
def valAt (T : Transc α) (knn_indices : List (List Int)) (knn_dists : List (List α))
    (sigmas rhos : List α) (bip : Bool) (i j : Nat) : α :=
  if (!bip && idxAt knn_indices i j == ((i : Nat) : Int)) then 0
  else Knn.member T (distAt knn_dists i j) (rhos.getD i 0) (sigmas.getD i 0)

/-- the source's `d - rho <= 0 or sigma == 0` branch is the model's `Knn.member`. -/
theorem member_src (T : Transc α) (d r s : α) :
    (if (decide (d - r ≤ 0) || eqV s 0) then (1 : α) else T.exp (-((d - r) / s)))
      = Knn.member T d r s := by
  unfold Knn.member eqV
  by_cases h1 : d - r ≤ 0 <;> by_cases h2 : s ≤ 0 <;> by_cases h3 : (0 : α) ≤ s <;>
    simp [h1, h2, h3]

/-- the generated kernel is four independent grid-store loops. -/
theorem computeMembershipStrengths_grid (T : Transc α) (knn_indices : List (List Int))
    (knn_dists : List (List α)) (sigmas rhos : List α) (rd bip : Bool) :
    SrcUmap.computeMembershipStrengths T knn_indices knn_dists sigmas rhos rd bip
      = (let n := knn_indices.length
         let k := (knn_indices.getD 0 []).length
         let skip : Nat → Nat → Bool := fun i j => idxAt knn_indices i j == (-1 : Int)
         (gridStore skip (fun i _ => ((i : Nat) : Int)) k (List.replicate (n * k) (0 : Int)) n,
          gridStore skip (fun i j => idxAt knn_indices i j) k (List.replicate (n * k) (0 : Int)) n,
          gridStore skip (valAt T knn_indices knn_dists sigmas rhos bip) k
            (List.replicate (n * k) (0 : α)) n,
          gridStore (fun i j => skip i j || !rd) (distAt knn_dists) k
            (if rd then List.replicate (n * k) (0 : α) else []) n)) := by
  have h := grid4 (fun i j => idxAt knn_indices i j == (-1 : Int))
    (fun i _ => ((i : Nat) : Int)) (fun i j => idxAt knn_indices i j)
    (valAt T knn_indices knn_dists sigmas rhos bip) (distAt knn_dists) rd
    knn_indices.length (knn_indices.getD 0 []).length
    (List.replicate (knn_indices.length * (knn_indices.getD 0 []).length) (0 : Int),
     List.replicate (knn_indices.length * (knn_indices.getD 0 []).length) (0 : Int),
     List.replicate (knn_indices.length * (knn_indices.getD 0 []).length) (0 : α),
     if rd then List.replicate (knn_indices.length * (knn_indices.getD 0 []).length) (0 : α)
       else [])
  simp only [] at h ⊢
  rw [← h]
  unfold SrcUmap.computeMembershipStrengths valAt idxAt distAt
  simp only [member_src]

theorem flat_lt {n k i j : Nat} (hi : i < n) (hj : j < k) : i * k + j < n * k := by
  have hmul : (i + 1) * k ≤ n * k := Nat.mul_le_mul_right k hi
  rw [Nat.succ_mul] at hmul
  omega

theorem cells_aux (T : Transc α) (knn_indices : List (List Int))
    (knn_dists : List (List α)) (sigmas rhos : List α) (rd bip : Bool) (n k : Nat)
    (hn : n = knn_indices.length) (hk : k = (knn_indices.getD 0 []).length)
    (out : List Int × List Int × List α × List α)
    (ho : out = SrcUmap.computeMembershipStrengths T knn_indices knn_dists sigmas rhos rd bip) :
    out.1.length = n * k ∧ out.2.1.length = n * k ∧ out.2.2.1.length = n * k ∧
    out.2.2.2.length = (if rd then n * k else 0) ∧
    ∀ i < n, ∀ j < k,
      let c := (knn_indices.getD i []).getD j 0
      if c = -1 then
        out.1.getD (i * k + j) 0 = 0 ∧ out.2.1.getD (i * k + j) 0 = 0 ∧
        out.2.2.1.getD (i * k + j) 0 = 0 ∧ out.2.2.2.getD (i * k + j) 0 = 0
      else
        out.1.getD (i * k + j) 0 = (i : Int) ∧ out.2.1.getD (i * k + j) 0 = c ∧
        out.2.2.1.getD (i * k + j) 0 =
          (if (!bip && c == (i : Int)) then 0
           else Knn.member T ((knn_dists.getD i []).getD j 0) (rhos.getD i 0) (sigmas.getD i 0)) ∧
        out.2.2.2.getD (i * k + j) 0 = (if rd then (knn_dists.getD i []).getD j 0 else 0) := by
  rw [computeMembershipStrengths_grid] at ho
  simp only [] at ho
  rw [← hn, ← hk] at ho
  subst ho
  refine ⟨?_, ?_, ?_, ?_, ?_⟩
  · simp [gridStore_length]
  · simp [gridStore_length]
  · simp [gridStore_length]
  · cases rd <;> simp [gridStore_length]
  · intro i hi j hj c
    have hp : i * k + j < n * k := flat_lt hi hj
    simp only [gridStore_getD _ _ _ _ _ _ _ hj]
    by_cases hc : c = -1
    · have hc' : idxAt knn_indices i j = -1 := hc
      rw [if_pos hc]
      cases rd <;> simp [hc', hp]
    · have hc' : ¬ idxAt knn_indices i j = -1 := hc
      rw [if_neg hc]
      have hc2 : ¬ ((knn_indices[i]?.getD [])[j]?.getD 0 = -1) := by
        simpa [c, List.getD_eq_getElem?_getD] using hc
      cases rd <;> simp [hc2, hi, hp, valAt, idxAt, distAt, c]

/-- **`compute_membership_strengths`, every cell.**  No shape hypotheses: with
    `n := knn_indices.length`, `k := (knn_indices.getD 0 []).length` (what the source reads),
    all four outputs have length `n * k` (`dists` is `[]` when `return_dists = false`), and cell
    `i * k + j` holds `0` if the neighbour index is `-1`, else `(i, c, strength, dist)` with the
    strength given by the model's `Knn.member` (or `0` for the sample itself unless bipartite). -/
theorem computeMembershipStrengths_src (T : Transc α) (knn_indices : List (List Int))
    (knn_dists : List (List α)) (sigmas rhos : List α) (rd bip : Bool) :
    let n := knn_indices.length
    let k := (knn_indices.getD 0 []).length
    let out := SrcUmap.computeMembershipStrengths T knn_indices knn_dists sigmas rhos rd bip
    out.1.length = n * k ∧ out.2.1.length = n * k ∧ out.2.2.1.length = n * k ∧
    out.2.2.2.length = (if rd then n * k else 0) ∧
    ∀ i < n, ∀ j < k,
      let c := (knn_indices.getD i []).getD j 0
      if c = -1 then
        out.1.getD (i * k + j) 0 = 0 ∧ out.2.1.getD (i * k + j) 0 = 0 ∧
        out.2.2.1.getD (i * k + j) 0 = 0 ∧ out.2.2.2.getD (i * k + j) 0 = 0
      else
        out.1.getD (i * k + j) 0 = (i : Int) ∧ out.2.1.getD (i * k + j) 0 = c ∧
        out.2.2.1.getD (i * k + j) 0 =
          (if (!bip && c == (i : Int)) then 0
           else Knn.member T ((knn_dists.getD i []).getD j 0) (rhos.getD i 0) (sigmas.getD i 0)) ∧
        out.2.2.2.getD (i * k + j) 0 = (if rd then (knn_dists.getD i []).getD j 0 else 0) :=
  cells_aux T knn_indices knn_dists sigmas rhos rd bip _ _ rfl rfl _ rfl

/-- **Rectangular inputs** (the shape the Python code is called with): `knn_indices` has `n` rows of
    length `k`.  Nothing is needed about `knn_dists`, `sigmas`, `rhos` (read with `getD`), nor `0 < k`. -/
theorem computeMembershipStrengths_src_rect (T : Transc α) (knn_indices : List (List Int))
    (knn_dists : List (List α)) (sigmas rhos : List α) (rd bip : Bool) (n k : Nat)
    (hn : knn_indices.length = n) (hrow : ∀ r ∈ knn_indices, r.length = k) :
    let out := SrcUmap.computeMembershipStrengths T knn_indices knn_dists sigmas rhos rd bip
    out.1.length = n * k ∧ out.2.1.length = n * k ∧ out.2.2.1.length = n * k ∧
    out.2.2.2.length = (if rd then n * k else 0) ∧
    ∀ i < n, ∀ j < k,
      let c := (knn_indices.getD i []).getD j 0
      if c = -1 then
        out.1.getD (i * k + j) 0 = 0 ∧ out.2.1.getD (i * k + j) 0 = 0 ∧
        out.2.2.1.getD (i * k + j) 0 = 0 ∧ out.2.2.2.getD (i * k + j) 0 = 0
      else
        out.1.getD (i * k + j) 0 = (i : Int) ∧ out.2.1.getD (i * k + j) 0 = c ∧
        out.2.2.1.getD (i * k + j) 0 =
          (if (!bip && c == (i : Int)) then 0
           else Knn.member T ((knn_dists.getD i []).getD j 0) (rhos.getD i 0) (sigmas.getD i 0)) ∧
        out.2.2.2.getD (i * k + j) 0 = (if rd then (knn_dists.getD i []).getD j 0 else 0) := by
  intro out
  rcases knn_indices with _ | ⟨r, rs⟩
  · have hn0 : n = 0 := by simpa using hn.symm
    subst hn0
    obtain ⟨h1, h2, h3, h4, -⟩ :=
      cells_aux T [] knn_dists sigmas rhos rd bip 0 0 rfl rfl out rfl
    refine ⟨by simpa using h1, by simpa using h2, by simpa using h3, by simpa using h4, ?_⟩
    intro i hi
    exact absurd hi (Nat.not_lt_zero _)
  · exact cells_aux T (r :: rs) knn_dists sigmas rhos rd bip n k hn.symm
      (by simp [hrow r List.mem_cons_self]) out rfl

/-- the model's encoding of a neighbour index: `-1` is "skipped". -/
def encIdx (c : Int) : Option Nat := if c = -1 then none else some c.toNat

/-- the model row, read by position (finite distances, finite rho). -/
theorem memberRow_fin (T : Transc α) (bip : Bool) (i : Nat) (s r : α) (idx : List Int)
    (ds : List α) (h : idx.length = ds.length) :
    Knn.memberRow T bip i s (.fin r) (idx.map encIdx) (ds.map some)
      = (List.range idx.length).map (fun j =>
          if idx.getD j 0 = -1 then none
          else some ((idx.getD j 0).toNat,
            some (if (!bip && (idx.getD j 0).toNat == i) then 0
                  else Knn.member T (ds.getD j 0) r s))) := by
  rw [SrcLemmasD.map_range_getD₂ idx ds 0 0 h (fun c d =>
      if c = -1 then none
      else some (c.toNat, some (if (!bip && c.toNat == i) then 0 else Knn.member T d r s)))]
  unfold Knn.memberRow
  rw [List.zip_map, List.map_map]
  apply List.map_congr_left
  rintro ⟨c, d⟩ -
  by_cases hc : c = -1
  · simp [encIdx, hc]
  · simp only [encIdx, if_neg hc, Prod.map, Function.comp]
    by_cases hb : (!bip && c.toNat == i) = true
    · rw [if_pos hb, if_pos hb]
    · rw [if_neg hb, if_neg hb]
      rfl

/-- **Row corollary.**  For rectangular inputs whose indices are `-1` or non-negative, row `i` of the
    model's directed membership table (`Knn.memberRow`, finite distances, finite rho) is exactly what
    the source wrote into `cols` / `vals` at flat positions `i * k + j`. -/
theorem memberRow_src (T : Transc α) (knn_indices : List (List Int))
    (knn_dists : List (List α)) (sigmas rhos : List α) (rd bip : Bool) (n k : Nat)
    (hn : knn_indices.length = n) (hrow : ∀ r ∈ knn_indices, r.length = k)
    (i : Nat) (hi : i < n) (hd : (knn_dists.getD i []).length = k)
    (hnonneg : ∀ j < k, (knn_indices.getD i []).getD j 0 = -1 ∨ 0 ≤ (knn_indices.getD i []).getD j 0) :
    let out := SrcUmap.computeMembershipStrengths T knn_indices knn_dists sigmas rhos rd bip
    Knn.memberRow T bip i (sigmas.getD i 0) (.fin (rhos.getD i 0))
        ((knn_indices.getD i []).map encIdx) ((knn_dists.getD i []).map some)
      = (List.range k).map (fun j =>
          if (knn_indices.getD i []).getD j 0 = -1 then none
          else some ((out.2.1.getD (i * k + j) 0).toNat, some (out.2.2.1.getD (i * k + j) 0))) := by
  intro out
  have hlen : (knn_indices.getD i []).length = k := by
    have hi' : i < knn_indices.length := hn ▸ hi
    rw [List.getD_eq_getElem?_getD, List.getElem?_eq_getElem hi', Option.getD_some]
    exact hrow _ (List.getElem_mem hi')
  rw [memberRow_fin T bip i _ _ _ _ (hlen.trans hd.symm), hlen]
  apply List.map_congr_left
  intro j hj
  have hj' : j < k := by simpa using hj
  obtain ⟨-, -, -, -, hcell⟩ :=
    computeMembershipStrengths_src_rect T knn_indices knn_dists sigmas rhos rd bip n k hn hrow
  have hc := hcell i hi j hj'
  simp only [] at hc
  by_cases hneg : (knn_indices.getD i []).getD j 0 = -1
  · rw [if_pos hneg, if_pos hneg]
  · rw [if_neg hneg] at hc
    obtain ⟨-, hcol, hval, -⟩ := hc
    rw [if_neg hneg, if_neg hneg]
    have h0 : 0 ≤ (knn_indices.getD i []).getD j 0 := (hnonneg j hj').resolve_left hneg
    have hb : (((knn_indices.getD i []).getD j 0).toNat == i)
        = ((knn_indices.getD i []).getD j 0 == (i : Int)) := by
      rw [Bool.eq_iff_iff]
      simp only [beq_iff_eq]
      omega
    change out.2.1.getD (i * k + j) 0 = _ at hcol
    change out.2.2.1.getD (i * k + j) 0 = _ at hval
    rw [hcol, hval, hb]

end generic
end C01Src
end Umap
