/-
  C07Schedule — the scheduling stage in front of the layout optimiser and the `-1` sentinel.

  Python (umap/umap_.py, `simplicial_set_embedding` and `UMAP.transform`):

      graph.data[graph.data < (graph.data.max() / float(n_epochs))] = 0.0
      graph.eliminate_zeros()
      epochs_per_sample = make_epochs_per_sample(graph.data, n_epochs)

  Model: `Umap.Schedule` (`wmax`, `prune`, `eliminate`, `schedule`, `scheduleNoElim`),
  `Umap.Sgd.makeEpochsPerSample`, `Umap.Sgd.edgeClock` / `runClock`.
  The clock theorems `clock_inv`, `visits_proportional`, `pruned_never_due`, `eps_eq` (C07) and
  `run_clock`, `run_clock_gen` (C07More) are used, not re-proved.

  Standing hypotheses: `1 ≤ n`, `0 < wmax ws`.  (Non-negativity of the weights turns out not to be
  needed: an entry below the positive threshold is zeroed whatever its sign.)
-/
import UmapProofs.Basic
import UmapProofs.GraphLemmas
import UmapProofs.RealT
import UmapModel.Sgd
import UmapModel.Schedule
import UmapProps.C07
import UmapProps.C07More
import Mathlib.Tactic
import Mathlib.Algebra.Order.Floor.Semiring

namespace Umap
namespace C07
open Sgd Schedule

section Sched
variable {K : Type} [Field K] [LinearOrder K] [IsStrictOrderedRing K]

/-! ### the maximum -/

theorem wmax_nil : wmax ([] : List K) = 0 := rfl

theorem le_wmax (ws : List K) (w : K) (hw : w ∈ ws) : w ≤ wmax ws := le_maxL _ _ _ hw

theorem wmax_mem (ws : List K) (h : ws ≠ []) : wmax ws ∈ ws := by
  unfold wmax
  rcases maxL_mem (ws.headD 0) ws with h' | h'
  · rw [h']
    cases ws with
    | nil => exact absurd rfl h
    | cons a l => simp
  · exact h'

/-- the maximum is characterised by: a member that bounds all members. -/
theorem wmax_unique (l : List K) (m : K) (hm : m ∈ l) (hle : ∀ w ∈ l, w ≤ m) : wmax l = m :=
  le_antisymm (hle _ (wmax_mem l (List.ne_nil_of_mem hm))) (le_wmax l m hm)

theorem ne_nil_of_wmax_pos (ws : List K) (h : 0 < wmax ws) : ws ≠ [] := by
  rintro rfl
  rw [wmax_nil] at h
  exact lt_irrefl _ h

theorem thr_pos (n : Nat) (ws : List K) (hn : 1 ≤ n) (hpos : 0 < wmax ws) :
    0 < wmax ws / (n : K) :=
  div_pos hpos (by exact_mod_cast hn)

theorem thr_le (n : Nat) (ws : List K) (hn : 1 ≤ n) (hpos : 0 < wmax ws) :
    wmax ws / (n : K) ≤ wmax ws :=
  div_le_self hpos.le (by exact_mod_cast hn)

/-! ### 1. prune + eliminate = keep the entries `≥ wmax / n`; the maximum survives -/

theorem eliminate_map_thr (thr : K) (ht : 0 < thr) (ws : List K) :
    eliminate (ws.map fun w => if w < thr then 0 else w)
      = ws.filter (fun w => decide (thr ≤ w)) := by
  unfold eliminate
  induction ws with
  | nil => rfl
  | cons a l ih =>
    rw [List.map_cons]
    by_cases ha : a < thr
    · have h0 : eqV (0 : K) 0 = true := (eqV_iff _ _).2 rfl
      rw [if_pos ha, List.filter_cons_of_neg (by simp [h0]),
        List.filter_cons_of_neg (by simpa using ha), ih]
    · have hle : thr ≤ a := not_lt.1 ha
      have hne : eqV a 0 = false := by
        rw [← Bool.not_eq_true, eqV_iff]; exact ne_of_gt (lt_of_lt_of_le ht hle)
      rw [if_neg ha, List.filter_cons_of_pos (by simp [hne]),
        List.filter_cons_of_pos (by simpa using hle), ih]

/-- the stored weights after pruning and elimination: exactly those `≥ wmax / n`, in order. -/
theorem elim_prune_eq (n : Nat) (ws : List K) (hn : 1 ≤ n) (hpos : 0 < wmax ws) :
    eliminate (prune n ws) = ws.filter (fun w => decide (wmax ws / (n : K) ≤ w)) :=
  eliminate_map_thr _ (thr_pos n ws hn hpos) ws

theorem mem_elim_prune (n : Nat) (ws : List K) (hn : 1 ≤ n) (hpos : 0 < wmax ws) (w : K) :
    w ∈ eliminate (prune n ws) ↔ w ∈ ws ∧ wmax ws / (n : K) ≤ w := by
  rw [elim_prune_eq n ws hn hpos]; simp

/-- **1.** the maximum survives pruning, and every surviving weight lies in
    `[wmax / n, wmax]`. -/
theorem prune_keeps_max (n : Nat) (ws : List K) (hn : 1 ≤ n) (hpos : 0 < wmax ws) :
    wmax (eliminate (prune n ws)) = wmax ws
      ∧ ∀ w ∈ eliminate (prune n ws), wmax ws / (n : K) ≤ w ∧ w ≤ wmax ws := by
  have hb : ∀ w ∈ eliminate (prune n ws), wmax ws / (n : K) ≤ w ∧ w ≤ wmax ws := by
    intro w hw
    obtain ⟨h1, h2⟩ := (mem_elim_prune n ws hn hpos w).1 hw
    exact ⟨h2, le_wmax ws w h1⟩
  refine ⟨wmax_unique _ _ ?_ (fun w hw => (hb w hw).2), hb⟩
  exact (mem_elim_prune n ws hn hpos _).2
    ⟨wmax_mem ws (ne_nil_of_wmax_pos ws hpos), thr_le n ws hn hpos⟩

/-- surviving weights are positive. -/
theorem surviving_pos (n : Nat) (ws : List K) (hn : 1 ≤ n) (hpos : 0 < wmax ws) (w : K)
    (hw : w ∈ eliminate (prune n ws)) : 0 < w :=
  lt_of_lt_of_le (thr_pos n ws hn hpos) ((prune_keeps_max n ws hn hpos).2 w hw).1

/-! ### 2. the periods -/

theorem makeEps_unfold (l : List K) (n : Nat) :
    makeEpochsPerSample l n
      = l.map (fun w => let ns := (n : K) * (w / wmax l); if 0 < ns then (n : K) / ns else -1) :=
  rfl

/-- **2a.** each period is `wmax / w` for the corresponding surviving weight. -/
theorem schedule_eq (n : Nat) (ws : List K) (hn : 1 ≤ n) (hpos : 0 < wmax ws) :
    schedule n ws = (eliminate (prune n ws)).map (fun w => wmax ws / w) := by
  unfold schedule
  rw [makeEps_unfold, (prune_keeps_max n ws hn hpos).1]
  apply List.map_congr_left
  intro w hw
  exact eps_eq w (wmax ws) n hn (surviving_pos n ws hn hpos w hw) hpos

theorem schedule_length (n : Nat) (ws : List K) :
    (schedule n ws).length = (eliminate (prune n ws)).length := by
  unfold schedule; rw [makeEps_unfold, List.length_map]

/-- index form of `schedule_eq`. -/
theorem schedule_get (n : Nat) (ws : List K) (hn : 1 ≤ n) (hpos : 0 < wmax ws) (i : Nat)
    (hi : i < (eliminate (prune n ws)).length) :
    (schedule n ws)[i]'(by rw [schedule_length]; exact hi)
      = wmax ws / (eliminate (prune n ws))[i] := by
  simp only [schedule_eq n ws hn hpos, List.getElem_map]

/-- **2b.** every period lies in `[1, n]`. -/
theorem schedule_range (n : Nat) (ws : List K) (hn : 1 ≤ n) (hpos : 0 < wmax ws) :
    ∀ p ∈ schedule n ws, 1 ≤ p ∧ p ≤ (n : K) := by
  intro p hp
  rw [schedule_eq n ws hn hpos, List.mem_map] at hp
  obtain ⟨w, hw, rfl⟩ := hp
  have hw0 := surviving_pos n ws hn hpos w hw
  obtain ⟨h1, h2⟩ := (prune_keeps_max n ws hn hpos).2 w hw
  have hn' : (0 : K) < n := by exact_mod_cast hn
  refine ⟨(one_le_div hw0).2 h2, ?_⟩
  rw [div_le_iff₀ hn'] at h1
  rw [div_le_iff₀ hw0]
  linarith

/-! ### 3. how often a scheduled edge is used

  The clock starts at `eps` (not at `0`) and epochs are numbered `0 .. n-1`, so by `clock_inv` the
  number of uses `c` satisfies `c·eps ≤ n-1 < (c+1)·eps`, i.e. `c = ⌊(n-1)/eps⌋` — *not*
  `⌊(n-1)/eps⌋ + 1`; in particular an edge is used at least once iff `eps ≤ n-1`, and a kept edge
  with period in `(n-1, n]` (weight in `[wmax/n, wmax/(n-1))`) is never used (cf.
  `pruned_never_due`; example below).
-/

/-- **3.** an edge with period `eps ∈ [1, n]` in an `n`-epoch run: `c·eps ≤ n-1 < (c+1)·eps`
    for its number of uses `c`; it is used at least once iff `eps ≤ n-1`; never more than
    `n-1` times. -/
theorem schedule_used (eps : K) (n : Nat) (hn : 1 ≤ n) (h1 : 1 ≤ eps) :
    let c := (runClock eps n).2
    ((c : K) * eps ≤ (n : K) - 1 ∧ (n : K) - 1 < ((c : K) + 1) * eps)
      ∧ (1 ≤ c ↔ eps ≤ (n : K) - 1) ∧ c ≤ n - 1 := by
  obtain ⟨m, rfl⟩ : ∃ m, n = m + 1 := ⟨n - 1, by omega⟩
  intro c
  obtain ⟨-, h2, h3⟩ := clock_inv eps h1 m
  change (c : K) * eps ≤ m at h2
  change (m : K) < ((c : K) + 1) * eps at h3
  have hpos : 0 < eps := lt_of_lt_of_le one_pos h1
  have hc0 : (0 : K) ≤ c := Nat.cast_nonneg c
  have e : ((m + 1 : Nat) : K) - 1 = m := by push_cast; ring
  rw [e]
  refine ⟨⟨h2, h3⟩, ⟨fun hc => ?_, fun hle => ?_⟩, ?_⟩
  · have : (1 : K) ≤ c := by exact_mod_cast hc
    nlinarith
  · by_contra hc
    have : c = 0 := by omega
    rw [this] at h3
    simp at h3
    linarith
  · have : (c : K) ≤ m := by nlinarith
    have : c ≤ m := by exact_mod_cast this
    omega

/-- the same with the floor spelled out: `c = ⌊(n-1)/eps⌋`. -/
theorem schedule_used_floor [FloorRing K] (eps : K) (n : Nat) (hn : 1 ≤ n) (h1 : 1 ≤ eps) :
    (runClock eps n).2 = ⌊((n : K) - 1) / eps⌋₊ := by
  obtain ⟨⟨h2, h3⟩, -, -⟩ := schedule_used eps n hn h1
  have hpos : 0 < eps := lt_of_lt_of_le one_pos h1
  have hn' : (1 : K) ≤ n := by exact_mod_cast hn
  symm
  rw [Nat.floor_eq_iff (div_nonneg (by linarith) hpos.le), le_div_iff₀ hpos, div_lt_iff₀ hpos]
  exact ⟨h2, h3⟩

/-- every edge that `schedule` emits has this clock behaviour (its period is in `[1, n]`). -/
theorem schedule_used_all (n : Nat) (ws : List K) (hn : 1 ≤ n) (hpos : 0 < wmax ws) :
    ∀ p ∈ schedule n ws,
      let c := (runClock p n).2
      (1 ≤ p ∧ p ≤ (n : K))
        ∧ ((c : K) * p ≤ (n : K) - 1 ∧ (n : K) - 1 < ((c : K) + 1) * p)
        ∧ (1 ≤ c ↔ p ≤ (n : K) - 1) ∧ c ≤ n - 1 := by
  intro p hp
  have hr := schedule_range n ws hn hpos p hp
  exact ⟨hr, schedule_used p n hn hr.1⟩

/-! ### 4. pruned edges are absent -/

/-- the schedule in closed form: one period `wmax / w` per weight `w ≥ wmax / n`, in order. -/
theorem schedule_filter (n : Nat) (ws : List K) (hn : 1 ≤ n) (hpos : 0 < wmax ws) :
    schedule n ws
      = (ws.filter (fun w => decide (wmax ws / (n : K) ≤ w))).map (fun w => wmax ws / w) := by
  rw [schedule_eq n ws hn hpos, elim_prune_eq n ws hn hpos]

/-- **4.** only the weights `≥ wmax / n` contribute a period. -/
theorem pruned_edges_absent (n : Nat) (ws : List K) (hn : 1 ≤ n) (hpos : 0 < wmax ws) :
    (schedule n ws).length = (ws.filter (fun w => decide (wmax ws / (n : K) ≤ w))).length := by
  rw [schedule_filter n ws hn hpos, List.length_map]

/-- **4'.** a weight `w < wmax / n` contributes nothing at all: deleting it from the weight list
    leaves the schedule unchanged. -/
theorem pruned_edge_removable (n : Nat) (l₁ l₂ : List K) (w : K) (hn : 1 ≤ n)
    (hpos : 0 < wmax (l₁ ++ w :: l₂)) (hw : w < wmax (l₁ ++ w :: l₂) / (n : K)) :
    schedule n (l₁ ++ w :: l₂) = schedule n (l₁ ++ l₂) := by
  set M := wmax (l₁ ++ w :: l₂) with hM
  have hne : M ≠ w := ne_of_gt (lt_of_lt_of_le hw (thr_le n _ hn hpos))
  have hmem : M ∈ l₁ ++ w :: l₂ := wmax_mem _ (ne_nil_of_wmax_pos _ hpos)
  have hM' : wmax (l₁ ++ l₂) = M := by
    apply wmax_unique
    · simp only [List.mem_append, List.mem_cons] at hmem ⊢
      rcases hmem with h | h | h
      · exact Or.inl h
      · exact absurd h hne
      · exact Or.inr h
    · intro v hv
      apply le_wmax
      simp only [List.mem_append, List.mem_cons] at hv ⊢
      rcases hv with h | h
      · exact Or.inl h
      · exact Or.inr (Or.inr h)
  rw [schedule_filter n _ hn hpos, schedule_filter n _ hn (by rw [hM']; exact hpos), hM', ← hM,
    List.filter_append, List.filter_append,
    List.filter_cons_of_neg (by simpa using hw)]

/-! ### 5. without the elimination: the `-1` sentinel -/

theorem mem_prune (n : Nat) (ws : List K) (v : K) (hv : v ∈ prune n ws) :
    v = 0 ∨ (v ∈ ws ∧ wmax ws / (n : K) ≤ v) := by
  unfold prune at hv
  simp only [List.mem_map] at hv
  obtain ⟨w, hw, rfl⟩ := hv
  split_ifs with h
  · exact Or.inl rfl
  · exact Or.inr ⟨hw, not_lt.1 h⟩

/-- zeroing (without eliminating) keeps the maximum too. -/
theorem wmax_prune (n : Nat) (ws : List K) (hn : 1 ≤ n) (hpos : 0 < wmax ws) :
    wmax (prune n ws) = wmax ws := by
  apply wmax_unique
  · unfold prune
    simp only [List.mem_map]
    refine ⟨wmax ws, wmax_mem ws (ne_nil_of_wmax_pos ws hpos), ?_⟩
    rw [if_neg (not_lt.2 (thr_le n ws hn hpos))]
  · intro v hv
    rcases mem_prune n ws v hv with rfl | ⟨h, -⟩
    · exact hpos.le
    · exact le_wmax ws v h

/-- `scheduleNoElim` in closed form: `-1` at every pruned position, `wmax / w` elsewhere. -/
theorem scheduleNoElim_eq (n : Nat) (ws : List K) (hn : 1 ≤ n) (hpos : 0 < wmax ws) :
    scheduleNoElim n ws
      = ws.map (fun w => if w < wmax ws / (n : K) then -1 else wmax ws / w) := by
  unfold scheduleNoElim
  rw [makeEps_unfold, wmax_prune n ws hn hpos]
  unfold prune
  rw [List.map_map]
  apply List.map_congr_left
  intro w _
  simp only [Function.comp]
  by_cases h : w < wmax ws / (n : K)
  · simp only [h, if_true]
    simp
  · have hw : 0 < w := lt_of_lt_of_le (thr_pos n ws hn hpos) (not_lt.1 h)
    simp only [h, if_false]
    exact eps_eq w (wmax ws) n hn hw hpos

theorem scheduleNoElim_length (n : Nat) (ws : List K) :
    (scheduleNoElim n ws).length = ws.length := by
  unfold scheduleNoElim prune
  rw [makeEps_unfold, List.length_map, List.length_map]

/-- **5.** if the elimination is skipped, a pruned weight yields the period `-1`
    (and a kept one its proper period). -/
theorem sentinel_of_zero (n : Nat) (ws : List K) (hn : 1 ≤ n) (hpos : 0 < wmax ws) (i : Nat)
    (hi : i < ws.length) :
    (ws[i] < wmax ws / (n : K) →
        (scheduleNoElim n ws)[i]'(by rw [scheduleNoElim_length]; exact hi) = -1)
      ∧ (¬ ws[i] < wmax ws / (n : K) →
        (scheduleNoElim n ws)[i]'(by rw [scheduleNoElim_length]; exact hi) = wmax ws / ws[i]) := by
  simp only [scheduleNoElim_eq n ws hn hpos, List.getElem_map]
  exact ⟨fun h => if_pos h, fun h => if_neg h⟩

/-! ### 6. the sentinel is always due -/

/-- a non-positive period makes the edge due in every epoch: after `N` epochs the clock reads
    `(N+1)·eps` and the edge has been used `N` times. -/
theorem nonpos_period_always_due (eps : K) (h : eps ≤ 0) (N : Nat) :
    runClock eps N = (((N : K) + 1) * eps, N) := by
  unfold runClock
  induction N with
  | zero => simp
  | succ N ih =>
    rw [List.range_succ, List.foldl_append, ih]
    simp only [List.foldl_cons, List.foldl_nil, edgeClock]
    have hN : (0 : K) ≤ N := Nat.cast_nonneg N
    rw [if_pos (by nlinarith)]
    ext
    · push_cast; ring
    · rfl

/-- **6.** `runClock (-1) N` uses the edge in every one of the `N` epochs. -/
theorem sentinel_always_due (N : Nat) :
    runClock (-1 : K) N = (-((N : K) + 1), N) := by
  rw [nonpos_period_always_due (-1 : K) (by linarith [one_pos (α := K)]) N]
  ext
  · simp
  · rfl

theorem sentinel_visits (N : Nat) : (runClock (-1 : K) N).2 = N := by
  rw [sentinel_always_due]

/-- the sentinel's clock is `≤` the epoch number at every epoch (the test of `edgeStep`). -/
theorem sentinel_due_each_epoch (N : Nat) : (runClock (-1 : K) N).1 ≤ (N : K) := by
  rw [sentinel_always_due]
  have hN : (0 : K) ≤ N := Nat.cast_nonneg N
  simp only
  linarith

/-- so skipping the elimination makes exactly the edges that must never be used the most used:
    any legitimate period (`≥ 1`) is used strictly less often than the sentinel. -/
theorem sentinel_most_used (eps : K) (h1 : 1 ≤ eps) (N : Nat) (hN : 1 ≤ N) :
    (runClock eps N).2 < (runClock (-1 : K) N).2 := by
  rw [sentinel_visits]
  have : (runClock eps N).2 ≤ N - 1 := (schedule_used eps N hN h1).2.2
  omega

/-- put together: in `scheduleNoElim`, the position of a weight below `wmax / n` carries a period
    whose clock fires in all `N` epochs, for every `N`. -/
theorem noelim_pruned_always_due (n : Nat) (ws : List K) (hn : 1 ≤ n) (hpos : 0 < wmax ws)
    (i : Nat) (hi : i < ws.length) (hlt : ws[i] < wmax ws / (n : K)) (N : Nat) :
    (runClock ((scheduleNoElim n ws)[i]'(by rw [scheduleNoElim_length]; exact hi)) N).2 = N := by
  rw [(sentinel_of_zero n ws hn hpos i hi).1 hlt, sentinel_visits]

/-! ### the same two facts as statements about the optimiser's own state (`run_clock_gen`) -/

/-- the positive clock inside `runClocks` is `runClock` (any scalar field, any `Transc`). -/
theorem runClocks_pos' (T : Transc K) (eps epns : K) (N : Nat) :
    ((runClocks T eps epns N).eons, (runClocks T eps epns N).visits) = runClock eps N := by
  unfold runClocks runClock
  induction N with
  | zero => rfl
  | succ N ih =>
    rw [List.range_succ, List.foldl_append, List.foldl_append]
    simp only [List.foldl_cons, List.foldl_nil]
    rw [← ih]
    unfold clocksStep edgeClock
    dsimp only
    split_ifs <;> rfl

/-- an edge whose stored period is the sentinel `-1` is processed in every epoch of
    `runEpochs`: its `epoch_of_next_sample` entry ends at `-(N+1)`. -/
theorem sentinel_run [Inhabited K] (T : Transc K) (rnd : K → K) (P : Params K) (hd tl : Array Nat)
    (eps epns : Array K) (alpha0 : K) (N : Nat) (s : State K)
    (i : Nat) (hi : i < eps.size) (h1 : i < s.eons.size) (h2 : i < s.eonns.size)
    (he : s.eons[i]! = eps[i]!) (hn : s.eonns[i]! = epns[i]!) (hs : eps[i]! = -1) :
    (runEpochs T rnd P hd tl eps epns alpha0 N s).eons[i]! = -((N : K) + 1) := by
  obtain ⟨r1, -⟩ := run_clock T rnd P hd tl eps epns alpha0 N s i hi h1 h2 he hn
  have h := runClocks_pos' T eps[i]! epns[i]! N
  rw [hs, sentinel_always_due] at h
  rw [r1, hs]
  exact (Prod.mk.inj h).1

/-- an edge with a legitimate period `eps[i] ≥ 1` is processed `c` times in the `N ≥ 1` epochs of
    `runEpochs`, where `c·eps ≤ N-1 < (c+1)·eps` (so `c ≤ N-1`): its `epoch_of_next_sample`
    entry ends at `(c+1)·eps`. -/
theorem scheduled_run [Inhabited K] (T : Transc K) (rnd : K → K) (P : Params K) (hd tl : Array Nat)
    (eps epns : Array K) (alpha0 : K) (N : Nat) (hN : 1 ≤ N) (s : State K)
    (i : Nat) (hi : i < eps.size) (h1 : i < s.eons.size) (h2 : i < s.eonns.size)
    (he : s.eons[i]! = eps[i]!) (hn : s.eonns[i]! = epns[i]!) (hp : 1 ≤ eps[i]!) :
    ∃ c : Nat, (runEpochs T rnd P hd tl eps epns alpha0 N s).eons[i]! = ((c : K) + 1) * eps[i]!
      ∧ (c : K) * eps[i]! ≤ (N : K) - 1 ∧ (N : K) - 1 < ((c : K) + 1) * eps[i]! ∧ c ≤ N - 1 := by
  obtain ⟨r1, -⟩ := run_clock T rnd P hd tl eps epns alpha0 N s i hi h1 h2 he hn
  have h := runClocks_pos' T eps[i]! epns[i]! N
  obtain ⟨⟨a1, a2⟩, -, a3⟩ := schedule_used eps[i]! N hN hp
  obtain ⟨m, rfl⟩ : ∃ m, N = m + 1 := ⟨N - 1, by omega⟩
  obtain ⟨b1, -, -⟩ := clock_inv eps[i]! hp m
  refine ⟨(runClock eps[i]! (m + 1)).2, ?_, a1, a2, a3⟩
  rw [r1, ← b1, ← h]

/-- both facts for the arrays the pipeline would actually pass on if the elimination were
    skipped: with `eps = scheduleNoElim n ws`, the edge of a weight below `wmax / n` is processed
    in every epoch of `runEpochs`. -/
theorem noelim_run [Inhabited K] (T : Transc K) (rnd : K → K) (P : Params K) (hd tl : Array Nat)
    (n : Nat) (ws : List K) (hn : 1 ≤ n) (hpos : 0 < wmax ws)
    (epns : Array K) (alpha0 : K) (N : Nat) (s : State K)
    (i : Nat) (hi : i < ws.length) (h1 : i < s.eons.size) (h2 : i < s.eonns.size)
    (he : s.eons[i]! = (scheduleNoElim n ws).toArray[i]!) (hn' : s.eonns[i]! = epns[i]!)
    (hlt : ws[i] < wmax ws / (n : K)) :
    (runEpochs T rnd P hd tl (scheduleNoElim n ws).toArray epns alpha0 N s).eons[i]!
      = -((N : K) + 1) := by
  have hlen : i < (scheduleNoElim n ws).length := by rw [scheduleNoElim_length]; exact hi
  apply sentinel_run T rnd P hd tl _ epns alpha0 N s i (by simpa using hlen) h1 h2 he hn'
  have : (scheduleNoElim n ws).toArray[i]! = (scheduleNoElim n ws)[i] := by
    simp [hlen]
  rw [this]
  exact (sentinel_of_zero n ws hn hpos i hi).1 hlt

end Sched

/-! ### the literal reading of item 3 ("used at least once", "⌊(n-1)/eps⌋ + 1 times") is false -/

/-- "an edge with period `eps ∈ [1, n]` is used at least once in an `n`-epoch run". -/
def ScheduleUsedAtLeastOnce (K : Type) [Field K] [LinearOrder K] [IsStrictOrderedRing K] : Prop :=
  ∀ (eps : K) (n : Nat), 1 ≤ n → 1 ≤ eps → eps ≤ (n : K) → 1 ≤ (runClock eps n).2

/-- it fails: the clock starts at `eps` and the last epoch is `n-1`, so a period in `(n-1, n]`
    (a kept weight in `[wmax/n, wmax/(n-1))`) is never due.  The true count is
    `schedule_used` / `schedule_used_floor`: `⌊(n-1)/eps⌋`. -/
theorem not_scheduleUsedAtLeastOnce : ¬ ScheduleUsedAtLeastOnce ℚ := fun h =>
  absurd (h 10 10 (by decide) (by decide +kernel) (by decide +kernel)) (by decide +kernel)

/-! ### 7. non-vacuity -/

section Examples

/-- the hypotheses `1 ≤ n`, `0 < wmax ws` hold for the example weights. -/
example : (1 ≤ 10) ∧ 0 < wmax ([1, 1 / 2, 1 / 100] : List ℚ) := by decide +kernel

example : wmax ([1, 1 / 2, 1 / 100] : List ℚ) = 1 := by decide +kernel
example : prune 10 ([1, 1 / 2, 1 / 100] : List ℚ) = [1, 1 / 2, 0] := by decide +kernel
example : eliminate (prune 10 ([1, 1 / 2, 1 / 100] : List ℚ)) = [1, 1 / 2] := by decide +kernel

example : schedule 10 ([1, 1 / 2, 1 / 100] : List ℚ) = [1, 2] := by decide +kernel
example : scheduleNoElim 10 ([1, 1 / 2, 1 / 100] : List ℚ) = [1, 2, -1] := by decide +kernel

/-- the three clocks over 10 epochs: the maximal edge 9 times, the half-weight edge 4 times, and
    the pruned edge — if it is left in with the sentinel — 10 times. -/
example : (runClock (1 : ℚ) 10).2 = 9 ∧ (runClock (2 : ℚ) 10).2 = 4
    ∧ (runClock (-1 : ℚ) 10).2 = 10 := by decide +kernel

/-- a kept edge with weight exactly `wmax / n` has period `n` and is never used
    (`schedule_used`: used at least once iff `eps ≤ n - 1`). -/
example : schedule 10 ([1, 1 / 10] : List ℚ) = [1, 10] ∧ runClock (10 : ℚ) 10 = (10, 0) := by
  decide +kernel

/-- `pruned_edge_removable` on the example. -/
example : schedule 10 ([1, 1 / 100, 1 / 2] : List ℚ) = schedule 10 ([1, 1 / 2] : List ℚ) := by
  decide +kernel

/-- hypotheses of `schedule_used` / `sentinel_most_used`. -/
example : (1 : ℚ) ≤ 2 ∧ 1 ≤ 10 := by decide +kernel

/-- `schedule_used_floor` instantiated: `⌊(10-1)/2⌋ = 4`. -/
example : (runClock (2 : ℚ) 10).2 = ⌊(((10 : Nat) : ℚ) - 1) / 2⌋₊ :=
  schedule_used_floor 2 10 (by decide) (by norm_num)

/-- `sentinel_run` / `scheduled_run` instantiated on a concrete three-edge state (any `Transc`,
    any parameters): edge 2 carries the sentinel and ends at `-(N+1)`; edge 1 has period 2. -/
example (T : Transc ℚ) (P : Params ℚ) (N : Nat) :
    (runEpochs T id P #[0, 0, 1] #[1, 2, 2] #[1, 2, -1] #[1, 2, -1] 1 N
      ⟨#[#[0], #[1], #[2]], #[], #[1, 2, -1], #[1, 2, -1], #[]⟩).eons[2]! = -((N : ℚ) + 1) :=
  sentinel_run T id P _ _ _ _ 1 N _ 2 (by decide) (by decide) (by decide) (by decide +kernel)
    (by decide +kernel) (by decide +kernel)

example (T : Transc ℚ) (P : Params ℚ) :
    ∃ c : Nat, (runEpochs T id P #[0, 0, 1] #[1, 2, 2] #[1, 2, -1] #[1, 2, -1] 1 10
      ⟨#[#[0], #[1], #[2]], #[], #[1, 2, -1], #[1, 2, -1], #[]⟩).eons[1]!
        = ((c : ℚ) + 1) * (#[1, 2, -1] : Array ℚ)[1]!
      ∧ (c : ℚ) * (#[1, 2, -1] : Array ℚ)[1]! ≤ ((10 : Nat) : ℚ) - 1
      ∧ ((10 : Nat) : ℚ) - 1 < ((c : ℚ) + 1) * (#[1, 2, -1] : Array ℚ)[1]! ∧ c ≤ 10 - 1 :=
  scheduled_run T id P _ _ _ _ 1 10 (by decide) _ 1 (by decide) (by decide) (by decide)
    (by decide +kernel) (by decide +kernel) (by decide +kernel)

/-- hypotheses of `noelim_run` / `sentinel_of_zero` / `noelim_pruned_always_due` on the example:
    position 2 is below the threshold. -/
example : ([1, 1 / 2, 1 / 100] : List ℚ)[2] < wmax ([1, 1 / 2, 1 / 100] : List ℚ) / ((10 : Nat) : ℚ) := by
  decide +kernel

/-- hypotheses of `pruned_edge_removable` on the example. -/
example : 0 < wmax (([1] : List ℚ) ++ (1 / 100) :: [1 / 2])
    ∧ (1 / 100 : ℚ) < wmax (([1] : List ℚ) ++ (1 / 100) :: [1 / 2]) / ((10 : Nat) : ℚ) := by
  decide +kernel

end Examples

end C07
end Umap
