/-
  C18 — the model-combination operators keep their operands' graphs well formed.

  Model: `Umap.Graph.ssetUnion`, `ssetIntersection` (umap/sparse.py `general_sset_union`,
  `general_sset_intersection`), `reprocessRow`, `resetLocalConnectivity`
  (umap_.py `reprocess_row`, `reset_local_connectivity`).

  The algebraic facts hold over every linear ordered field; `reprocessRow` needs the real power
  function and is treated over ℝ with `realT`.
-/
import UmapProofs.GraphLemmas
import UmapProofs.RealT
import UmapProps.C02
import UmapProps.C16
import Mathlib.Tactic
import Mathlib.Analysis.SpecialFunctions.Pow.Real

namespace Umap
namespace C18
open Graph

variable {K : Type} [Field K] [LinearOrder K] [IsStrictOrderedRing K]

/-! ### 7. the union is commutative -/

/-- the value written by `general_sset_union` at position `(i, j)`. -/
def unionEntry (A B : Coo K) (lmin rmin : K) (i j : Nat) : K :=
  storedOr A i j lmin + storedOr B i j rmin - storedOr A i j lmin * storedOr B i j rmin

/-- `ssetUnion` in closed form. -/
theorem ssetUnion_eq (eps : K) (A B : Coo K) :
    ssetUnion eps A B =
      (halfMin eps A id).bind fun lmin => (halfMin eps B id).map fun rmin =>
        (positions (A ++ B)).map fun p => (p.1, p.2, unionEntry A B lmin rmin p.1 p.2) := by
  unfold ssetUnion
  cases halfMin eps A id <;> cases halfMin eps B id <;> rfl

/-- the entry formula `l + r - l*r` is symmetric under swapping `(A, lmin)` with `(B, rmin)`. -/
theorem unionEntry_comm (A B : Coo K) (lmin rmin : K) (i j : Nat) :
    unionEntry A B lmin rmin i j = unionEntry B A rmin lmin i j := by
  unfold unionEntry; ring

/-- the set of positions is symmetric. -/
theorem mem_positions_append_comm (A B : Coo K) (p : Nat × Nat) :
    p ∈ positions (A ++ B) ↔ p ∈ positions (B ++ A) := by
  obtain ⟨i, j⟩ := p
  rw [mem_positions, mem_positions]
  simp only [List.mem_append]
  constructor <;> rintro ⟨v, h | h⟩ <;> first | exact ⟨v, Or.inr h⟩ | exact ⟨v, Or.inl h⟩

theorem positions_append_perm (A B : Coo K) :
    (positions (A ++ B)).Perm (positions (B ++ A)) :=
  (List.perm_ext_iff_of_nodup (nodup_positions _) (nodup_positions _)).2
    (mem_positions_append_comm A B)

/-- **union_comm**: `ssetUnion eps B A` fails iff `ssetUnion eps A B` does, and otherwise stores
    exactly the same triples, up to the order in which the positions are enumerated. -/
theorem union_comm (eps : K) (A B : Coo K) :
    (ssetUnion eps A B = none ∧ ssetUnion eps B A = none)
    ∨ ∃ U V, ssetUnion eps A B = some U ∧ ssetUnion eps B A = some V ∧ U.Perm V := by
  rw [ssetUnion_eq, ssetUnion_eq]
  rcases halfMin eps A id with _ | lmin <;> rcases halfMin eps B id with _ | rmin
  · exact Or.inl ⟨rfl, rfl⟩
  · exact Or.inl ⟨rfl, rfl⟩
  · exact Or.inl ⟨rfl, rfl⟩
  · right
    refine ⟨_, _, rfl, rfl, ?_⟩
    have hf : (fun p : Nat × Nat => (p.1, p.2, unionEntry A B lmin rmin p.1 p.2))
        = (fun p : Nat × Nat => (p.1, p.2, unionEntry B A rmin lmin p.1 p.2)) := by
      funext p; rw [unionEntry_comm]
    beta_reduce
    rw [hf]
    exact (positions_append_perm A B).map _

/-- in particular the two results have the same value at every position. -/
theorem union_comm_mem (eps : K) (A B : Coo K) (U V : Coo K) (hU : ssetUnion eps A B = some U)
    (hV : ssetUnion eps B A = some V) (t : Nat × Nat × K) : t ∈ U ↔ t ∈ V := by
  rcases union_comm eps A B with ⟨h, _⟩ | ⟨U', V', h1, h2, hp⟩
  · rw [h] at hU; simp at hU
  · rw [hU] at h1; rw [hV] at h2
    cases h1; cases h2
    exact hp.mem_iff

/-! ### 8. range and support of the union -/

/-- all stored values are memberships in `(0, 1]`. -/
def PosUnit (A : Coo K) : Prop := ∀ t ∈ A, 0 < t.2.2 ∧ t.2.2 ≤ 1

theorem dataMin_id_range (A : Coo K) (hA : PosUnit A) (m : K) (h : dataMin A id = some m) :
    0 < m ∧ m ≤ 1 := by
  cases A with
  | nil => simp [dataMin] at h
  | cons t ts =>
    unfold dataMin at h
    simp only [Option.some.injEq, id] at h
    subst h
    apply minL_pred (fun x => 0 < x ∧ x ≤ 1)
    · exact hA t List.mem_cons_self
    · intro x hx
      rw [List.mem_map] at hx
      obtain ⟨u, hu, rfl⟩ := hx
      exact hA u (List.mem_cons_of_mem _ hu)

theorem halfMin_id_range (eps : K) (he0 : 0 < eps) (he1 : eps ≤ 1) (A : Coo K) (hA : PosUnit A)
    (lmin : K) (h : halfMin eps A id = some lmin) : 0 < lmin ∧ lmin ≤ 1 := by
  unfold halfMin at h
  rcases hm : dataMin A id with _ | m
  · rw [hm] at h; simp at h
  · rw [hm] at h
    simp only [Option.map_some, Option.some.injEq] at h
    subst h
    obtain ⟨h0, h1⟩ := dataMin_id_range A hA m hm
    unfold maxV
    split_ifs
    · exact ⟨he0, he1⟩
    · constructor
      · have : (0:K) < 1 + 1 := by norm_num
        positivity
      · rw [div_le_one (by norm_num)]; linarith

theorem storedOr_cases (A : Coo K) (i j : Nat) (d : K) :
    storedOr A i j d = d ∨ ∃ v, (i, j, v) ∈ A ∧ storedOr A i j d = v := by
  unfold storedOr
  split
  · rename_i t h
    right
    have hm := List.mem_of_getLast? h
    rw [List.mem_filter] at hm
    obtain ⟨a, b, c⟩ := t
    have : a = i ∧ b = j := by simpa using hm.2
    obtain ⟨rfl, rfl⟩ := this
    exact ⟨c, hm.1, rfl⟩
  · exact Or.inl rfl

theorem storedOr_range (A : Coo K) (hA : PosUnit A) (i j : Nat) (d : K) (hd : 0 < d ∧ d ≤ 1) :
    0 < storedOr A i j d ∧ storedOr A i j d ≤ 1 := by
  rcases storedOr_cases A i j d with h | ⟨v, hv, h⟩
  · rw [h]; exact hd
  · rw [h]; exact hA _ hv

/-- the fuzzy union of two memberships in `(0, 1]` is in `(0, 1]`, and is at least either one. -/
theorem union_value_range {l r : K} (hl : 0 < l ∧ l ≤ 1) (hr : 0 < r ∧ r ≤ 1) :
    0 < l + r - l * r ∧ l + r - l * r ≤ 1 ∧ l ≤ l + r - l * r ∧ r ≤ l + r - l * r := by
  obtain ⟨hl0, hl1⟩ := hl
  obtain ⟨hr0, hr1⟩ := hr
  refine ⟨by nlinarith, by nlinarith, by nlinarith, by nlinarith⟩

/-- **union_range**: for operands with stored values in `(0, 1]` and `eps ∈ (0, 1]`, every entry
    of the union lies in `(0, 1]`. -/
theorem union_range (eps : K) (he0 : 0 < eps) (he1 : eps ≤ 1) (A B : Coo K) (hA : PosUnit A)
    (hB : PosUnit B) (U : Coo K) (hU : ssetUnion eps A B = some U) : PosUnit U := by
  rw [ssetUnion_eq] at hU
  rcases hl : halfMin eps A id with _ | lmin
  · rw [hl] at hU; simp at hU
  rcases hr : halfMin eps B id with _ | rmin
  · rw [hl, hr] at hU; simp at hU
  rw [hl, hr] at hU
  simp only [Option.bind_some, Option.map_some, Option.some.injEq] at hU
  subst hU
  intro t ht
  rw [List.mem_map] at ht
  obtain ⟨p, _, rfl⟩ := ht
  have h1 := storedOr_range A hA p.1 p.2 lmin (halfMin_id_range eps he0 he1 A hA lmin hl)
  have h2 := storedOr_range B hB p.1 p.2 rmin (halfMin_id_range eps he0 he1 B hB rmin hr)
  have := union_value_range h1 h2
  exact ⟨this.1, this.2.1⟩

/-- **union_support**: the stored positions of the union are exactly the positions of `A + B`,
    each once (as a list). -/
theorem union_support (eps : K) (A B : Coo K) (U : Coo K) (hU : ssetUnion eps A B = some U) :
    U.map (fun t => (t.1, t.2.1)) = positions (A ++ B) ∧ positions U = positions (A ++ B)
      ∧ NoDup U := by
  rw [ssetUnion_eq] at hU
  rcases hl : halfMin eps A id with _ | lmin
  · rw [hl] at hU; simp at hU
  rcases hr : halfMin eps B id with _ | rmin
  · rw [hl, hr] at hU; simp at hU
  rw [hl, hr] at hU
  simp only [Option.bind_some, Option.map_some, Option.some.injEq] at hU
  subst hU
  have h1 : ((positions (A ++ B)).map fun p => (p.1, p.2, unionEntry A B lmin rmin p.1 p.2)).map
      (fun t => (t.1, t.2.1)) = positions (A ++ B) := by
    rw [List.map_map]
    conv_rhs => rw [← List.map_id (positions (A ++ B))]
    rfl
  refine ⟨h1, ?_, ?_⟩
  · unfold positions at h1 ⊢
    rw [h1]
    exact eraseDups_of_nodup _ (nodup_eraseDups _)
  · unfold NoDup; rw [h1]; exact nodup_positions _

/-- membership form: `(i, j)` is stored in the union iff it is stored in `A` or in `B`. -/
theorem union_support_mem (eps : K) (A B : Coo K) (U : Coo K) (hU : ssetUnion eps A B = some U)
    (i j : Nat) : (∃ v, (i, j, v) ∈ U) ↔ (∃ v, (i, j, v) ∈ A) ∨ (∃ v, (i, j, v) ∈ B) := by
  rw [← mem_positions, (union_support eps A B U hU).2.1, mem_positions]
  simp only [List.mem_append]
  constructor
  · rintro ⟨v, h | h⟩
    · exact Or.inl ⟨v, h⟩
    · exact Or.inr ⟨v, h⟩
  · rintro (⟨v, h⟩ | ⟨v, h⟩)
    · exact ⟨v, Or.inl h⟩
    · exact ⟨v, Or.inr h⟩

/-- the union fails exactly when an operand has no stored entry (`data.min()` of an empty array). -/
theorem union_none_iff (eps : K) (A B : Coo K) : ssetUnion eps A B = none ↔ A = [] ∨ B = [] := by
  rw [ssetUnion_eq]
  cases A <;> cases B <;> simp [halfMin, dataMin]

/-! ### 9. support of the intersection -/

/-- **intersection_support**: the stored positions of `general_sset_intersection` are those of
    `A + B`, and with `right_complement = True` those of the left operand `A` alone. -/
theorem intersection_support (T : Transc K) (eps cap w : K) (rc : Bool) (A B U : Coo K)
    (hU : ssetIntersection T eps cap rc w A B = some U) :
    U.map (fun t => (t.1, t.2.1)) = if rc then positions A else positions (A ++ B) := by
  unfold ssetIntersection at hU
  simp only at hU
  split at hU
  · simp only [Option.some.injEq] at hU
    subst hU
    rw [List.map_map]
    conv_rhs => rw [← List.map_id (if rc = true then positions A else positions (A ++ B))]
    apply List.map_congr_left
    rintro ⟨i, j⟩ _
    simp only [Function.comp, id]
    split_ifs <;> rfl
  · simp at hU

/-- plain intersection: every stored position is stored in `A` or in `B`. -/
theorem intersection_support_subset (T : Transc K) (eps cap w : K) (A B U : Coo K)
    (hU : ssetIntersection T eps cap false w A B = some U) (i j : Nat) (v : K)
    (h : (i, j, v) ∈ U) : (i, j) ∈ positions (A ++ B) := by
  have := intersection_support T eps cap w false A B U hU
  simp only [Bool.false_eq_true, if_false] at this
  rw [← this]
  exact List.mem_map.2 ⟨_, h, rfl⟩

/-- contrast (`right_complement`): every stored position is stored in the left operand. -/
theorem contrast_support_subset (T : Transc K) (eps cap w : K) (A B U : Coo K)
    (hU : ssetIntersection T eps cap true w A B = some U) (i j : Nat) (v : K)
    (h : (i, j, v) ∈ U) : ∃ v', (i, j, v') ∈ A := by
  have := intersection_support T eps cap w true A B U hU
  simp only [if_true] at this
  rw [← mem_positions, ← this]
  exact List.mem_map.2 ⟨_, h, rfl⟩

/-! ### 10. `reprocess_row` keeps memberships in `(0, 1]` and the unit row maximum -/

/-- the bracket invariant of the bisection (as in `C01.BInv`). -/
def RInv (s : Knn.BState ℝ) : Prop :=
  0 ≤ s.lo ∧ s.lo < s.mid ∧ ∀ h, s.hi = some h → s.mid < h

theorem rinv_init : RInv (Knn.bisectInit : Knn.BState ℝ) := by
  unfold RInv Knn.bisectInit; simp

theorem mid_pos_of_foldl (f : Knn.BState ℝ → Nat → Knn.BState ℝ)
    (hf : ∀ s b, RInv s → RInv (f s b)) (l : List Nat) :
    0 < (l.foldl f Knn.bisectInit).mid := by
  have := foldl_inv RInv f hf l Knn.bisectInit rinv_init
  exact lt_of_le_of_lt this.1 this.2.1

/-- **`reprocess_row` raises every entry of the row to one common, strictly positive power**
    (the exponent found by the bisection; positivity is the loop invariant `lo < mid`, `0 ≤ lo`),
    for every input, tolerance, target and iteration count. -/
theorem reprocess_is_power (tol target : ℝ) (n : Nat) (ps : List ℝ) :
    ∃ t : ℝ, 0 < t ∧ reprocessRow realT tol target n ps = ps.map (fun x => x ^ t) := by
  unfold reprocessRow
  dsimp only
  refine ⟨_, ?_, rfl⟩
  apply mid_pos_of_foldl
  intro s k h
  obtain ⟨h0, h1, h2⟩ := h
  have keep : RInv s := ⟨h0, h1, h2⟩
  split_ifs with hd hc hg
  · exact keep
  · exact keep
  · refine ⟨h0, ?_, ?_⟩
    · show s.lo < (s.lo + s.mid) / (1 + 1); linarith
    · intro h hh; simp only [Option.some.injEq] at hh; subst hh
      show (s.lo + s.mid) / (1 + 1) < s.mid; linarith
  · cases hhi : s.hi with
    | none =>
      simp only
      refine ⟨by linarith, ?_, ?_⟩
      · show s.mid < s.mid * (1 + 1); linarith
      · intro h hh; simp at hh
    | some hv =>
      simp only
      have hm := h2 hv hhi
      refine ⟨by linarith, ?_, ?_⟩
      · show s.mid < (s.mid + hv) / (1 + 1); linarith
      · intro h hh; simp only [Option.some.injEq] at hh; subst hh
        show (s.mid + hv) / (1 + 1) < hv; linarith

/-- **reprocess_range**: memberships in `(0, 1]` stay in `(0, 1]`. -/
theorem reprocess_range (tol target : ℝ) (n : Nat) (ps : List ℝ)
    (hps : ∀ p ∈ ps, 0 < p ∧ p ≤ 1) :
    ∀ q ∈ reprocessRow realT tol target n ps, 0 < q ∧ q ≤ 1 := by
  obtain ⟨t, ht, he⟩ := reprocess_is_power tol target n ps
  intro q hq
  rw [he, List.mem_map] at hq
  obtain ⟨p, hp, rfl⟩ := hq
  obtain ⟨h0, h1⟩ := hps p hp
  exact ⟨Real.rpow_pos_of_pos h0 _, Real.rpow_le_one (le_of_lt h0) h1 (le_of_lt ht)⟩

/-- the row keeps its length. -/
theorem reprocess_length (tol target : ℝ) (n : Nat) (ps : List ℝ) :
    (reprocessRow realT tol target n ps).length = ps.length := by
  obtain ⟨t, _, he⟩ := reprocess_is_power tol target n ps
  rw [he, List.length_map]

/-- an entry equal to `1` stays `1`, at the same index (`1 ^ t = 1`) … -/
theorem reprocess_one (tol target : ℝ) (n : Nat) (ps : List ℝ) (k : Nat) (h : ps[k]? = some 1) :
    (reprocessRow realT tol target n ps)[k]? = some 1 := by
  obtain ⟨t, _, he⟩ := reprocess_is_power tol target n ps
  rw [he, List.getElem?_map, h]; simp

/-- … so the unit row maximum survives: **`reprocess_row` keeps `max = 1`**. -/
theorem reprocess_unit_max (tol target : ℝ) (n : Nat) (ps : List ℝ)
    (hps : ∀ p ∈ ps, 0 < p ∧ p ≤ 1) (h1 : (1:ℝ) ∈ ps) :
    (1:ℝ) ∈ reprocessRow realT tol target n ps
      ∧ ∀ q ∈ reprocessRow realT tol target n ps, q ≤ 1 := by
  refine ⟨?_, fun q hq => (reprocess_range tol target n ps hps q hq).2⟩
  obtain ⟨t, _, he⟩ := reprocess_is_power tol target n ps
  rw [he, List.mem_map]
  exact ⟨1, h1, Real.one_rpow _⟩

/-- the transformation is monotone, hence preserves the ranking of the neighbours:
    if entry `k` is at most entry `k'` before, it is so after. -/
theorem reprocess_mono (tol target : ℝ) (n : Nat) (ps : List ℝ) (k k' : Nat) (p q : ℝ)
    (hk : ps[k]? = some p) (hk' : ps[k']? = some q) (hp : 0 ≤ p) (hpq : p ≤ q) :
    ∃ p' q', (reprocessRow realT tol target n ps)[k]? = some p'
      ∧ (reprocessRow realT tol target n ps)[k']? = some q' ∧ p' ≤ q' := by
  obtain ⟨t, ht, he⟩ := reprocess_is_power tol target n ps
  refine ⟨p ^ t, q ^ t, ?_, ?_, Real.rpow_le_rpow hp hpq (le_of_lt ht)⟩
  · rw [he, List.getElem?_map, hk]; rfl
  · rw [he, List.getElem?_map, hk']; rfl

/-! ### 11. after `reset_local_connectivity` the combined graph is well formed -/

/-- **combined_symm**: the result of `reset_local_connectivity` is symmetric (any input). -/
theorem combined_symm (A : Coo K) (i j : Nat) (v : K) (h : (i, j, v) ∈ resetLocalConnectivity A) :
    (j, i, v) ∈ resetLocalConnectivity A := by
  unfold resetLocalConnectivity unionTranspose at h ⊢
  exact C02.symmetric _ _ i j v h

/-- range, given that the normalised matrix has its values in `[0, 1]`. -/
theorem combined_range_of_unitValued (A : Coo K) (hN : C02.UnitValued (rowMaxNormalize A))
    (i j : Nat) (v : K) (h : (i, j, v) ∈ resetLocalConnectivity A) : 0 < v ∧ v ≤ 1 := by
  unfold resetLocalConnectivity unionTranspose at h
  have := C02.C02_graph_wellformed 1 zero_le_one (le_refl _) _ hN i j v h
  exact ⟨this.2.1, this.2.2.1⟩

/-- **combined_unit_rowmax**: for a combined graph with non-negative stored values and no
    duplicate positions (the output of `ssetUnion` / `ssetIntersection` has none:
    `union_support`), after `reset_local_connectivity`
    * every stored entry is in `(0, 1]`,
    * the graph is symmetric,
    * every row that had a positive entry has a stored entry equal to `1`
      (so its maximum is exactly `1`). -/
theorem combined_unit_rowmax (A : Coo K) (hA : C16.NonNeg A) (hd : NoDup A) :
    (∀ i j v, (i, j, v) ∈ resetLocalConnectivity A → 0 < v ∧ v ≤ 1)
    ∧ (∀ i j v, (i, j, v) ∈ resetLocalConnectivity A → (j, i, v) ∈ resetLocalConnectivity A)
    ∧ (∀ i j0 v0, (i, j0, v0) ∈ A → 0 < v0 → ∃ j, (i, j, 1) ∈ resetLocalConnectivity A) :=
  ⟨fun i j v h => C16.reset_range A hA hd i j v h,
   fun i j v h => combined_symm A i j v h,
   fun i j0 v0 h0 hp => C16.reset_has_unit_edge A hA hd i j0 v0 h0 hp⟩

/-- the whole pipeline `reset_local_connectivity (A ∪ B)`: for operands in `(0, 1]` every
    sample that has an edge in either operand ends with a unit edge, and all weights are in
    `(0, 1]`, symmetric. -/
theorem union_then_reset (eps : K) (he0 : 0 < eps) (he1 : eps ≤ 1) (A B U : Coo K)
    (hA : PosUnit A) (hB : PosUnit B) (hU : ssetUnion eps A B = some U) :
    (∀ i j v, (i, j, v) ∈ resetLocalConnectivity U → 0 < v ∧ v ≤ 1)
    ∧ (∀ i j v, (i, j, v) ∈ resetLocalConnectivity U → (j, i, v) ∈ resetLocalConnectivity U)
    ∧ (∀ i j0 v0, ((i, j0, v0) ∈ A ∨ (i, j0, v0) ∈ B) →
        ∃ j, (i, j, 1) ∈ resetLocalConnectivity U) := by
  have hPU := union_range eps he0 he1 A B hA hB U hU
  have hNN : C16.NonNeg U := fun t ht => le_of_lt (hPU t ht).1
  have hND := (union_support eps A B U hU).2.2
  obtain ⟨h1, h2, h3⟩ := combined_unit_rowmax U hNN hND
  refine ⟨h1, h2, ?_⟩
  intro i j0 v0 hmem
  have : ∃ v, (i, j0, v) ∈ U := by
    rw [union_support_mem eps A B U hU]
    rcases hmem with h | h
    · exact Or.inl ⟨v0, h⟩
    · exact Or.inr ⟨v0, h⟩
  obtain ⟨v, hv⟩ := this
  exact h3 i j0 v hv (hPU _ hv).1

/-! ### non-vacuity over ℚ -/

def exA : Coo ℚ := [(0, 1, 1), (0, 2, 1/2), (1, 0, 1/4)]
def exB : Coo ℚ := [(0, 1, 1/2), (2, 1, 1), (1, 0, 1/2)]

example : PosUnit exA := by unfold PosUnit; decide +kernel
example : PosUnit exB := by unfold PosUnit; decide +kernel

example : ssetUnion (1/100000000) exA exB
    = some [(0, 1, 1), (0, 2, 5/8), (1, 0, 5/8), (2, 1, 1)] := by decide +kernel
example : ssetUnion (1/100000000) exB exA
    = some [(0, 1, 1), (2, 1, 1), (1, 0, 5/8), (0, 2, 5/8)] := by decide +kernel

example : (2, 1, (1:ℚ)) ∈ resetLocalConnectivity [(0, 1, 1), (0, 2, 5/8), (1, 0, 5/8), (2, 1, 1)] := by
  decide +kernel
example : (1, 0, (1:ℚ)) ∈ resetLocalConnectivity [(0, 1, 1), (0, 2, 5/8), (1, 0, 5/8), (2, 1, 1)] := by
  decide +kernel

-- `intersection_support`: both flavours succeed on the example (so the hypothesis
-- `ssetIntersection … = some U` is satisfiable), and the contrast only has positions of `exA`
example : (ssetIntersection C16.ratT (1/100000000) (1/2) false (1/2) exA exB).isSome = true := by
  decide +kernel
example : (ssetIntersection C16.ratT (1/100000000) (1/2) true (1/2) exA exB).map
    (fun U => U.map (fun t => (t.1, t.2.1))) = some [(0, 1), (0, 2), (1, 0)] := by
  decide +kernel

-- `reprocess_range` / `reprocess_unit_max`: hypotheses are satisfiable
example : ∀ p ∈ ([1, 1/2, 1/4] : List ℝ), 0 < p ∧ p ≤ 1 := by
  intro p hp
  simp only [List.mem_cons, List.not_mem_nil, or_false] at hp
  rcases hp with rfl | rfl | rfl <;> norm_num

end C18
end Umap
