/-
  C12 (remaining dense metrics) — metric laws of `poincare`, `symmetric_kl`, `haversine` and
  `ll_dirichlet`.

  Model: `Umap.Metrics` instantiated at ℝ with `Umap.realT`.
-/
import UmapProps.C12Real
import Mathlib.Analysis.SpecialFunctions.Arcosh
import Mathlib.Analysis.SpecialFunctions.Log.Basic
import Mathlib.Analysis.SpecialFunctions.Trigonometric.Basic
import Mathlib.Analysis.Complex.ExponentialBounds
import Mathlib.Analysis.Real.Pi.Bounds

namespace Umap
namespace C12
open Metrics

/-! ### 1. poincare -/

/-- squared euclidean distance, the numerator of the Poincaré ratio. -/
noncomputable def sqDist (u v : List ℝ) : ℝ := sumL ((diffs u v).map (fun d => d * d))

/-- the model returns the textbook value `arcosh (1 + 2 ‖u-v‖² / ((1-‖u‖²)(1-‖v‖²)))`. -/
theorem poincare_eq (u v : List ℝ) :
    poincare realT u v
      = Real.arcosh (1 + 2 * (sqDist u v / ((1 - dot u u) * (1 - dot v v)))) := by
  simp only [poincare, sqDist, two, realT, Nat.cast_ofNat]

theorem sqDist_symm (u v : List ℝ) : sqDist v u = sqDist u v := by
  unfold sqDist
  rw [diffs_swap_map u v _ (fun d => by ring)]

theorem sqDist_nonneg (u v : List ℝ) : 0 ≤ sqDist u v :=
  sumL_nonneg _ (sq_diffs_nonneg u v)

theorem sqDist_self (u : List ℝ) : sqDist u u = 0 := by
  unfold sqDist
  apply sumL_eq_zero_of_forall
  intro w hw
  obtain ⟨d, hd, rfl⟩ := List.mem_map.mp hw
  rw [diffs_self u d hd]; ring

theorem sqDist_eq_zero (u v : List ℝ) (h : u.length = v.length) (h0 : sqDist u v = 0) :
    u = v := by
  apply euclidean_eq_zero u v h
  unfold euclidean
  change Real.sqrt (sqDist u v) = 0
  rw [h0, Real.sqrt_zero]

/-- poincare is symmetric (for all vectors, inside the ball or not). -/
theorem poincare_symm (u v : List ℝ) : poincare realT v u = poincare realT u v := by
  rw [poincare_eq, poincare_eq, sqDist_symm u v, mul_comm (1 - dot v v)]

/-- the argument handed to `arccosh` is at least 1 inside the open unit ball. -/
theorem poincare_arg_ge_one (u v : List ℝ) (hu : dot u u < 1) (hv : dot v v < 1) :
    1 ≤ 1 + 2 * (sqDist u v / ((1 - dot u u) * (1 - dot v v))) := by
  have hden : 0 < (1 - dot u u) * (1 - dot v v) := mul_pos (by linarith) (by linarith)
  have := div_nonneg (sqDist_nonneg u v) hden.le
  linarith

/-- non-negative for two points of the open unit ball. -/
theorem poincare_nonneg (u v : List ℝ) (hu : dot u u < 1) (hv : dot v v < 1) :
    0 ≤ poincare realT u v := by
  rw [poincare_eq]
  exact Real.arcosh_nonneg (poincare_arg_ge_one u v hu hv)

/-- `cosh` of the distance is the textbook ratio (so the `arccosh` is taken on its domain). -/
theorem cosh_poincare (u v : List ℝ) (hu : dot u u < 1) (hv : dot v v < 1) :
    Real.cosh (poincare realT u v)
      = 1 + 2 * (sqDist u v / ((1 - dot u u) * (1 - dot v v))) := by
  rw [poincare_eq]
  exact Real.cosh_arcosh (poincare_arg_ge_one u v hu hv)

/-- zero on identical arguments.  Over ℝ this holds for every `u` (the numerator is `0` and
    `0 / 0 = 0`); in floating point `‖u‖² = 1` gives `0/0 = NaN`, hence the hypothesis in
    `poincare_self`. -/
theorem poincare_self_total (u : List ℝ) : poincare realT u u = 0 := by
  rw [poincare_eq, sqDist_self, zero_div, mul_zero, add_zero]
  exact Real.arcosh_zero

theorem poincare_self (u : List ℝ) (_hu : dot u u < 1) : poincare realT u u = 0 :=
  poincare_self_total u

/-- identity of indiscernibles inside the ball. -/
theorem poincare_eq_zero (u v : List ℝ) (h : u.length = v.length)
    (hu : dot u u < 1) (hv : dot v v < 1) (h0 : poincare realT u v = 0) : u = v := by
  rw [poincare_eq] at h0
  have h1 := (Real.arcosh_eq_zero_iff (poincare_arg_ge_one u v hu hv)).mp h0
  have hden : 0 < (1 - dot u u) * (1 - dot v v) := mul_pos (by linarith) (by linarith)
  have h2 : sqDist u v / ((1 - dot u u) * (1 - dot v v)) = 0 := by linarith
  rcases div_eq_zero_iff.mp h2 with h3 | h3
  · exact sqDist_eq_zero u v h h3
  · exact absurd h3 hden.ne'

theorem poincare_eq_zero_iff (u v : List ℝ) (h : u.length = v.length)
    (hu : dot u u < 1) (hv : dot v v < 1) : poincare realT u v = 0 ↔ u = v :=
  ⟨poincare_eq_zero u v h hu hv, fun e => e ▸ poincare_self_total u⟩

/-- non-vacuity: two distinct points of the open unit disc, and the value of the ratio. -/
example : dot ([1/2, 0] : List ℝ) [1/2, 0] < 1 ∧ dot ([0, 1/2] : List ℝ) [0, 1/2] < 1
    ∧ ([1/2, 0] : List ℝ).length = ([0, 1/2] : List ℝ).length
    ∧ Real.cosh (poincare realT [1/2, 0] [0, 1/2]) = 25 / 9 := by
  have h1 : dot ([1/2, 0] : List ℝ) [1/2, 0] < 1 := by
    simp only [dot, List.zip_cons_cons, List.zip_nil_right, List.map_cons, List.map_nil,
      sumL_cons, sumL_nil]
    norm_num
  have h2 : dot ([0, 1/2] : List ℝ) [0, 1/2] < 1 := by
    simp only [dot, List.zip_cons_cons, List.zip_nil_right, List.map_cons, List.map_nil,
      sumL_cons, sumL_nil]
    norm_num
  refine ⟨h1, h2, rfl, ?_⟩
  rw [cosh_poincare _ _ h1 h2]
  simp only [sqDist, diffs, dot, List.zip_cons_cons, List.zip_nil_right, List.map_cons,
    List.map_nil, sumL_cons, sumL_nil]
  norm_num

/-! ### 2. symmetric_kl -/

/-- the two summands of one coordinate: `p log(p/q)` and `q log(q/p)` for the smoothed,
    normalised coordinates `p = (a+z)/xs`, `q = (b+z)/ys`. -/
noncomputable def klTerm (z xs ys : ℝ) (p : ℝ × ℝ) : ℝ × ℝ :=
  ((p.1 + z) / xs * Real.log ((p.1 + z) / xs / ((p.2 + z) / ys)),
   (p.2 + z) / ys * Real.log ((p.2 + z) / ys / ((p.1 + z) / xs)))

/-- the smoothed mass `∑ (x_i + z)`. -/
noncomputable def smoothSum (z : ℝ) (x : List ℝ) : ℝ := sumL (x.map (· + z))

/-- the model is the textbook symmetrised KL divergence `(KL(p‖q) + KL(q‖p)) / 2` of the
    smoothed, normalised vectors. -/
theorem symmetricKl_eq (z : ℝ) (x y : List ℝ) :
    symmetricKl realT z x y
      = (sumL ((x.zip y).map (fun p => (klTerm z (smoothSum z x) (smoothSum z y) p).1))
          + sumL ((x.zip y).map (fun p => (klTerm z (smoothSum z x) (smoothSum z y) p).2))) / 2 := by
  simp only [symmetricKl, klTerm, smoothSum, two, realT, Nat.cast_ofNat, List.map_map]
  rfl

theorem symmetricKl_symm (z : ℝ) (x y : List ℝ) :
    symmetricKl realT z y x = symmetricKl realT z x y := by
  rw [symmetricKl_eq, symmetricKl_eq]
  rw [map_zip_swap_congr x y
        (fun p => (klTerm z (smoothSum z y) (smoothSum z x) p).1)
        (fun p => (klTerm z (smoothSum z x) (smoothSum z y) p).2) (fun a b => rfl),
      map_zip_swap_congr x y
        (fun p => (klTerm z (smoothSum z y) (smoothSum z x) p).2)
        (fun p => (klTerm z (smoothSum z x) (smoothSum z y) p).1) (fun a b => rfl),
      add_comm]

/-- `p log(p/p) = 0` for every real `p` (for `p = 0` the factor vanishes). -/
theorem mul_log_div_self (p : ℝ) : p * Real.log (p / p) = 0 := by
  by_cases h : p = 0
  · rw [h, zero_mul]
  · rw [div_self h, Real.log_one, mul_zero]

/-- zero on identical arguments; over ℝ for every `z` and `x`.  (In floating point the terms
    are `0 * log(0/0) = NaN` when a smoothed coordinate vanishes, whence the hypotheses of
    `symmetricKl_self`.) -/
theorem symmetricKl_self_total (z : ℝ) (x : List ℝ) : symmetricKl realT z x x = 0 := by
  rw [symmetricKl_eq, sumL_eq_zero_of_forall, sumL_eq_zero_of_forall]
  · norm_num
  · intro w hw
    obtain ⟨p, hp, rfl⟩ := List.mem_map.mp hw
    obtain ⟨a, b⟩ := p
    have := mem_zip_self hp
    subst this
    exact mul_log_div_self _
  · intro w hw
    obtain ⟨p, hp, rfl⟩ := List.mem_map.mp hw
    obtain ⟨a, b⟩ := p
    have := mem_zip_self hp
    subst this
    exact mul_log_div_self _

theorem symmetricKl_self (z : ℝ) (_hz : 0 < z) (x : List ℝ) (_hx : ∀ v ∈ x, 0 ≤ v) :
    symmetricKl realT z x x = 0 :=
  symmetricKl_self_total z x

/-- `(p - q)(log p - log q) ≥ 0`: the pair of terms of one coordinate. -/
theorem kl_pair_nonneg {p q : ℝ} (hp : 0 < p) (hq : 0 < q) :
    0 ≤ p * Real.log (p / q) + q * Real.log (q / p) := by
  rw [Real.log_div hp.ne' hq.ne', Real.log_div hq.ne' hp.ne']
  have e : p * (Real.log p - Real.log q) + q * (Real.log q - Real.log p)
      = (p - q) * (Real.log p - Real.log q) := by ring
  rw [e]
  rcases le_total p q with h | h
  · have := Real.log_le_log hp h
    exact mul_nonneg_of_nonpos_of_nonpos (by linarith) (by linarith)
  · have := Real.log_le_log hq h
    exact mul_nonneg (by linarith) (by linarith)

theorem smoothSum_pos (z : ℝ) (hz : 0 < z) (x : List ℝ) (hx : ∀ v ∈ x, 0 ≤ v) (hne : x ≠ []) :
    0 < smoothSum z x := by
  unfold smoothSum
  cases x with
  | nil => exact absurd rfl hne
  | cons a x =>
    rw [List.map_cons, sumL_cons]
    have ha := hx a (by simp)
    have : 0 ≤ sumL (x.map (· + z)) := by
      apply sumL_nonneg
      intro w hw
      obtain ⟨b, hb, rfl⟩ := List.mem_map.mp hw
      have := hx b (by simp [hb])
      linarith
    linarith

theorem sumL_map_add {β : Type} (l : List β) (f g : β → ℝ) :
    sumL (l.map f) + sumL (l.map g) = sumL (l.map (fun p => f p + g p)) := by
  rw [sumL_eq_sum, sumL_eq_sum, sumL_eq_sum, List.sum_map_add]

/-- non-negative for a positive smoothing constant and non-negative entries (vectors of any
    lengths). -/
theorem symmetricKl_nonneg (z : ℝ) (hz : 0 < z) (x y : List ℝ)
    (hx : ∀ v ∈ x, 0 ≤ v) (hy : ∀ v ∈ y, 0 ≤ v) : 0 ≤ symmetricKl realT z x y := by
  rw [symmetricKl_eq, sumL_map_add]
  apply div_nonneg _ (by norm_num)
  apply sumL_nonneg
  intro w hw
  obtain ⟨p, hp, rfl⟩ := List.mem_map.mp hw
  obtain ⟨a, b⟩ := p
  have hab := List.of_mem_zip hp
  have hxs : 0 < smoothSum z x := smoothSum_pos z hz x hx (List.ne_nil_of_mem hab.1)
  have hys : 0 < smoothSum z y := smoothSum_pos z hz y hy (List.ne_nil_of_mem hab.2)
  have ha := hx a hab.1
  have hb := hy b hab.2
  exact kl_pair_nonneg (div_pos (by linarith) hxs) (div_pos (by linarith) hys)

/-- non-vacuity of `symmetricKl_nonneg` / `symmetricKl_self`. -/
example : (0 : ℝ) < 1 / 100 ∧ (∀ v ∈ ([1, 0, 2] : List ℝ), 0 ≤ v) ∧ (∀ v ∈ ([0, 3, 1] : List ℝ), 0 ≤ v)
    ∧ 0 ≤ symmetricKl realT (1 / 100) [1, 0, 2] [0, 3, 1] := by
  have h1 : ∀ v ∈ ([1, 0, 2] : List ℝ), 0 ≤ v := by
    intro v hv; simp at hv; rcases hv with rfl | rfl | rfl <;> norm_num
  have h2 : ∀ v ∈ ([0, 3, 1] : List ℝ), 0 ≤ v := by
    intro v hv; simp at hv; rcases hv with rfl | rfl | rfl <;> norm_num
  exact ⟨by norm_num, h1, h2, symmetricKl_nonneg _ (by norm_num) _ _ h1 h2⟩

/-! #### `symmetric_kl` vanishes only when the normalised vectors agree -/

theorem kl_pair_eq_zero {p q : ℝ} (hp : 0 < p) (hq : 0 < q)
    (h : p * Real.log (p / q) + q * Real.log (q / p) = 0) : p = q := by
  rw [Real.log_div hp.ne' hq.ne', Real.log_div hq.ne' hp.ne'] at h
  have e : (p - q) * (Real.log p - Real.log q) = 0 := by linarith
  rcases mul_eq_zero.mp e with h1 | h1
  · linarith
  · exact Real.log_injOn_pos (Set.mem_Ioi.mpr hp) (Set.mem_Ioi.mpr hq) (by linarith)

/-- for a positive smoothing constant and non-negative entries, a zero divergence forces the
    smoothed, normalised coordinates to coincide. -/
theorem symmetricKl_eq_zero (z : ℝ) (hz : 0 < z) (x y : List ℝ)
    (hx : ∀ v ∈ x, 0 ≤ v) (hy : ∀ v ∈ y, 0 ≤ v) (h0 : symmetricKl realT z x y = 0) :
    ∀ p ∈ x.zip y, (p.1 + z) / smoothSum z x = (p.2 + z) / smoothSum z y := by
  rw [symmetricKl_eq, sumL_map_add] at h0
  have hs : sumL ((x.zip y).map (fun p => (klTerm z (smoothSum z x) (smoothSum z y) p).1
      + (klTerm z (smoothSum z x) (smoothSum z y) p).2)) = 0 := by
    have := div_eq_zero_iff.mp h0
    rcases this with h | h
    · exact h
    · norm_num at h
  have hpos : ∀ p ∈ x.zip y, 0 < (p.1 + z) / smoothSum z x ∧ 0 < (p.2 + z) / smoothSum z y := by
    intro p hp
    obtain ⟨a, b⟩ := p
    have hab := List.of_mem_zip hp
    have hxs : 0 < smoothSum z x := smoothSum_pos z hz x hx (List.ne_nil_of_mem hab.1)
    have hys : 0 < smoothSum z y := smoothSum_pos z hz y hy (List.ne_nil_of_mem hab.2)
    have ha := hx a hab.1
    have hb := hy b hab.2
    exact ⟨div_pos (by linarith) hxs, div_pos (by linarith) hys⟩
  have hz' := forall_eq_zero_of_sumL_eq_zero _ (by
    intro w hw
    obtain ⟨p, hp, rfl⟩ := List.mem_map.mp hw
    exact kl_pair_nonneg (hpos p hp).1 (hpos p hp).2) hs
  intro p hp
  exact kl_pair_eq_zero (hpos p hp).1 (hpos p hp).2 (hz' _ (List.mem_map.mpr ⟨p, hp, rfl⟩))

/-- non-vacuity of `symmetricKl_eq_zero`. -/
example : (0 : ℝ) < 1 / 100 ∧ (∀ v ∈ ([1, 2] : List ℝ), 0 ≤ v)
    ∧ symmetricKl realT (1 / 100) [1, 2] [1, 2] = 0 := by
  refine ⟨by norm_num, ?_, symmetricKl_self_total _ _⟩
  intro v hv; simp at hv; rcases hv with rfl | rfl <;> norm_num

/-! ### 3. haversine: the radicand lies in `[0, 1]` for *all* inputs

`haversine_symm`, `haversine_self` and `haversine_range` (value in `[0, π]`) are proved in
`UmapProps.C12Real`.  `Real.arcsin` is clamped outside `[-1, 1]`, so that range statement alone
does not show that the code stays inside the domain of `arcsin`.  It does, for every input and not
only for latitudes in `[-π/2, π/2]`: the radicand is a convex combination of `sin² ((x₀-y₀)/2)`
and `cos² ((x₀+y₀)/2)`. -/

/-- the argument of the square root in `haversine`. -/
noncomputable def havRad (x0 x1 y0 y1 : ℝ) : ℝ :=
  Real.sin (1 / 2 * (x0 - y0)) * Real.sin (1 / 2 * (x0 - y0))
    + Real.cos x0 * Real.cos y0
      * (Real.sin (1 / 2 * (x1 - y1)) * Real.sin (1 / 2 * (x1 - y1)))

theorem haversine_eq_havRad (x0 x1 y0 y1 : ℝ) :
    haversine realT [x0, x1] [y0, y1] = some (2 * Real.arcsin (Real.sqrt (havRad x0 x1 y0 y1))) :=
  haversine_cons x0 x1 y0 y1

theorem cos_add_mul_cos_sub (a b : ℝ) :
    Real.cos (b + a) * Real.cos (b - a) = Real.cos b ^ 2 - Real.sin a ^ 2 := by
  rw [Real.cos_add, Real.cos_sub]
  have h1 := Real.sin_sq_add_cos_sq a
  have h2 := Real.sin_sq_add_cos_sq b
  linear_combination (Real.cos b) ^ 2 * h1 - (Real.sin a) ^ 2 * h2

theorem cos_mul_cos_eq (x0 y0 : ℝ) :
    Real.cos x0 * Real.cos y0
      = Real.cos (1 / 2 * (x0 + y0)) ^ 2 - Real.sin (1 / 2 * (x0 - y0)) ^ 2 := by
  rw [← cos_add_mul_cos_sub]
  congr 2 <;> ring

/-- the radicand as a convex combination. -/
theorem havRad_eq (x0 x1 y0 y1 : ℝ) :
    havRad x0 x1 y0 y1
      = Real.sin (1 / 2 * (x0 - y0)) ^ 2 * (1 - Real.sin (1 / 2 * (x1 - y1)) ^ 2)
        + Real.cos (1 / 2 * (x0 + y0)) ^ 2 * Real.sin (1 / 2 * (x1 - y1)) ^ 2 := by
  unfold havRad
  rw [cos_mul_cos_eq]
  ring

/-- for every input the radicand of `haversine` lies in `[0, 1]`: the square root and the
    `arcsin` are taken inside their domains. -/
theorem haversine_radicand_range (x0 x1 y0 y1 : ℝ) :
    0 ≤ havRad x0 x1 y0 y1 ∧ havRad x0 x1 y0 y1 ≤ 1 := by
  rw [havRad_eq]
  have a0 := sq_nonneg (Real.sin (1 / 2 * (x0 - y0)))
  have a1 := Real.sin_sq_le_one (1 / 2 * (x0 - y0))
  have s0 := sq_nonneg (Real.sin (1 / 2 * (x1 - y1)))
  have s1 := Real.sin_sq_le_one (1 / 2 * (x1 - y1))
  have c0 := sq_nonneg (Real.cos (1 / 2 * (x0 + y0)))
  have c1 := Real.cos_sq_le_one (1 / 2 * (x0 + y0))
  constructor
  · have := mul_nonneg a0 (by linarith : 0 ≤ 1 - Real.sin (1 / 2 * (x1 - y1)) ^ 2)
    have := mul_nonneg c0 s0
    linarith
  · have h1 := mul_le_mul_of_nonneg_right a1
      (by linarith : 0 ≤ 1 - Real.sin (1 / 2 * (x1 - y1)) ^ 2)
    have h2 := mul_le_mul_of_nonneg_right c1 s0
    linarith

/-- hence the returned `d` is the textbook great-circle distance: `sin² (d/2)` *is* the
    haversine expression (no clamping by `arcsin` takes place). -/
theorem haversine_sin_sq_half (x0 x1 y0 y1 d : ℝ)
    (h : haversine realT [x0, x1] [y0, y1] = some d) :
    Real.sin (d / 2) ^ 2 = havRad x0 x1 y0 y1 := by
  rw [haversine_eq_havRad] at h
  have hd := Option.some.inj h
  obtain ⟨h0, h1⟩ := haversine_radicand_range x0 x1 y0 y1
  have hs1 : Real.sqrt (havRad x0 x1 y0 y1) ≤ 1 := by
    rw [← Real.sqrt_one]; exact Real.sqrt_le_sqrt h1
  have hs0 : -1 ≤ Real.sqrt (havRad x0 x1 y0 y1) := by
    have := Real.sqrt_nonneg (havRad x0 x1 y0 y1); linarith
  rw [← hd, mul_div_cancel_left₀ _ (two_ne_zero), Real.sin_arcsin hs0 hs1, Real.sq_sqrt h0]

/-- antipodal points are at distance `π`: the upper bound of `haversine_range` is attained. -/
example : haversine realT [0, 0] [0, Real.pi] = some Real.pi := by
  rw [haversine_cons]
  have e : (1 / 2 * (0 - Real.pi)) = -(Real.pi / 2) := by ring
  simp only [sub_self, mul_zero, Real.sin_zero, Real.cos_zero, e, Real.sin_neg, Real.sin_pi_div_two]
  norm_num
  ring

/-! ### 4. ll_dirichlet -/

theorem minV_eq_min (a b : ℝ) : minV a b = min a b := by
  unfold minV
  split_ifs with h
  · exact (min_eq_right h.le).symm
  · exact (min_eq_left (not_lt.mp h)).symm

theorem maxV_eq_max (a b : ℝ) : maxV a b = max a b := by
  unfold maxV
  split_ifs with h
  · exact (max_eq_right h.le).symm
  · exact (max_eq_left (not_lt.mp h)).symm

/-- `log_beta` is symmetric: it only looks at `min`, `max` and the symmetric Stirling sum. -/
theorem logBeta_symm (pi x y : ℝ) : logBeta realT pi y x = logBeta realT pi x y := by
  unfold logBeta
  simp only [minV_eq_min, maxV_eq_max, min_comm y x, max_comm y x, add_comm y x,
    add_comm (approxLogGamma realT pi y) (approxLogGamma realT pi x)]

/-- one iteration of the loop of `ll_dirichlet` on the triple
    `(log_b, self_denom1, self_denom2)`. -/
noncomputable def lldStep (pi : ℝ) (acc : ℝ × ℝ × ℝ) (p : ℝ × ℝ) : ℝ × ℝ × ℝ :=
  if (((9 : Nat) : ℝ) / ((10 : Nat) : ℝ)) < p.1 * p.2 then
    (acc.1 + logBeta realT pi p.1 p.2, acc.2.1 + logSingleBeta realT pi p.1,
      acc.2.2 + logSingleBeta realT pi p.2)
  else
    (acc.1,
      (if (((9 : Nat) : ℝ) / ((10 : Nat) : ℝ)) < p.1 then acc.2.1 + logSingleBeta realT pi p.1
        else acc.2.1),
      (if (((9 : Nat) : ℝ) / ((10 : Nat) : ℝ)) < p.2 then acc.2.2 + logSingleBeta realT pi p.2
        else acc.2.2))

/-- the final expression of `ll_dirichlet` from the two totals and the accumulated triple. -/
noncomputable def lldValue (pi n1 n2 : ℝ) (acc : ℝ × ℝ × ℝ) : ℝ :=
  1 / n2 * (acc.1 - logBeta realT pi n1 n2 - (acc.2.2 - logSingleBeta realT pi n2))
    + 1 / n1 * (acc.1 - logBeta realT pi n2 n1 - (acc.2.1 - logSingleBeta realT pi n1))

/-- the branches of `ll_dirichlet`, with the float equality tests read as equalities. -/
theorem llDirichlet_eq (pi big : ℝ) (d1 d2 : List ℝ) :
    llDirichlet realT pi big d1 d2 =
      if sumL d1 = 0 ∧ sumL d2 = 0 then 0
      else if sumL d1 = 0 ∨ sumL d2 = 0 then big
      else Real.sqrt (max 0 (lldValue pi (sumL d1) (sumL d2)
        ((d1.zip d2).foldl (lldStep pi) (0, 0, 0)))) := by
  simp only [llDirichlet, Bool.and_eq_true, Bool.or_eq_true, eqV_iff, maxV_eq_max]
  rfl

/-- exchange of the two `self_denom` accumulators. -/
def sw3 (a : ℝ × ℝ × ℝ) : ℝ × ℝ × ℝ := (a.1, a.2.2, a.2.1)

theorem lldStep_swap (pi : ℝ) (acc : ℝ × ℝ × ℝ) (p : ℝ × ℝ) :
    lldStep pi (sw3 acc) p.swap = sw3 (lldStep pi acc p) := by
  unfold lldStep sw3
  simp only [Prod.fst_swap, Prod.snd_swap, mul_comm p.2 p.1, logBeta_symm pi p.1 p.2]
  split_ifs <;> rfl

theorem lldFold_swap (pi : ℝ) (l : List (ℝ × ℝ)) (acc : ℝ × ℝ × ℝ) :
    (l.map Prod.swap).foldl (lldStep pi) (sw3 acc) = sw3 (l.foldl (lldStep pi) acc) := by
  induction l generalizing acc with
  | nil => rfl
  | cons p l ih =>
    simp only [List.map_cons, List.foldl_cons]
    rw [lldStep_swap, ih]

/-- the loop over the exchanged arguments yields the same `log_b` and exchanged denominators. -/
theorem lldFold_zip_swap (pi : ℝ) (d1 d2 : List ℝ) :
    (d2.zip d1).foldl (lldStep pi) (0, 0, 0) = sw3 ((d1.zip d2).foldl (lldStep pi) (0, 0, 0)) := by
  rw [← List.zip_swap d1 d2]
  exact lldFold_swap pi (d1.zip d2) (0, 0, 0)

theorem lldValue_swap (pi n1 n2 : ℝ) (acc : ℝ × ℝ × ℝ) :
    lldValue pi n2 n1 (sw3 acc) = lldValue pi n1 n2 acc := by
  unfold lldValue sw3
  exact add_comm _ _

/-- `ll_dirichlet` is symmetric (vectors of any lengths, any value of the constants). -/
theorem llDirichlet_symm (pi big : ℝ) (d1 d2 : List ℝ) :
    llDirichlet realT pi big d2 d1 = llDirichlet realT pi big d1 d2 := by
  rw [llDirichlet_eq, llDirichlet_eq, lldFold_zip_swap, lldValue_swap]
  have e1 : (sumL d2 = 0 ∧ sumL d1 = 0) ↔ (sumL d1 = 0 ∧ sumL d2 = 0) := and_comm
  have e2 : (sumL d2 = 0 ∨ sumL d1 = 0) ↔ (sumL d1 = 0 ∨ sumL d2 = 0) := or_comm
  simp only [e1, e2]

/-- non-negative as soon as the constant returned for an empty count vector is (`1e8` in the
    code). -/
theorem llDirichlet_nonneg (pi big : ℝ) (hbig : 0 ≤ big) (d1 d2 : List ℝ) :
    0 ≤ llDirichlet realT pi big d1 d2 := by
  rw [llDirichlet_eq]
  split_ifs
  · exact le_refl _
  · exact hbig
  · exact Real.sqrt_nonneg _

/-- conventions for empty count vectors. -/
theorem llDirichlet_zero_zero (pi big : ℝ) (d1 d2 : List ℝ) (h1 : sumL d1 = 0) (h2 : sumL d2 = 0) :
    llDirichlet realT pi big d1 d2 = 0 := by
  rw [llDirichlet_eq, if_pos ⟨h1, h2⟩]

theorem llDirichlet_zero_left (pi big : ℝ) (d1 d2 : List ℝ) (h1 : sumL d1 = 0) (h2 : sumL d2 ≠ 0) :
    llDirichlet realT pi big d1 d2 = big := by
  rw [llDirichlet_eq, if_neg (fun h => h2 h.2), if_pos (Or.inl h1)]

theorem llDirichlet_zero_right (pi big : ℝ) (d1 d2 : List ℝ) (h1 : sumL d1 ≠ 0) (h2 : sumL d2 = 0) :
    llDirichlet realT pi big d1 d2 = big := by
  rw [llDirichlet_eq, if_neg (fun h => h1 h.1), if_pos (Or.inr h2)]

/-! ### 4b. ll_dirichlet on identical arguments -/

/-- the gap between the approximation `log_single_beta x` and the `log_beta x x` it stands for. -/
noncomputable def betaGap (pi x : ℝ) : ℝ := logSingleBeta realT pi x - logBeta realT pi x x

/-- the contribution of one coordinate `a` of `d` to the loop of `ll_dirichlet d d`. -/
noncomputable def selfLb (pi a : ℝ) : ℝ := if (9 : ℝ) / 10 < a then logBeta realT pi a a else 0
noncomputable def selfSd (pi a : ℝ) : ℝ := if (9 : ℝ) / 10 < a then logSingleBeta realT pi a else 0

/-- the two thresholds of the loop agree on the coordinate `a` (true for `a = 0` and `a ≥ 1`, in
    particular for counts; false only for `a < -0.948…` and `0.9 < a ≤ 0.948…`). -/
def ThrAgree (a : ℝ) : Prop := ((9 : ℝ) / 10 < a * a ↔ (9 : ℝ) / 10 < a)

theorem lldStep_self (pi : ℝ) (acc : ℝ × ℝ × ℝ) (a : ℝ) (ha : ThrAgree a) :
    lldStep pi acc (a, a) = (acc.1 + selfLb pi a, acc.2.1 + selfSd pi a, acc.2.2 + selfSd pi a) := by
  unfold lldStep selfLb selfSd
  unfold ThrAgree at ha
  simp only [Nat.cast_ofNat]
  by_cases h : (9 : ℝ) / 10 < a
  · rw [if_pos (ha.mpr h), if_pos h, if_pos h]
  · rw [if_neg (fun h' => h (ha.mp h')), if_neg h, if_neg h, if_neg h, if_neg h]
    simp

theorem lldFold_self (pi : ℝ) (d : List ℝ) (hd : ∀ a ∈ d, ThrAgree a) (acc : ℝ × ℝ × ℝ) :
    (d.zip d).foldl (lldStep pi) acc
      = (acc.1 + sumL (d.map (selfLb pi)), acc.2.1 + sumL (d.map (selfSd pi)),
          acc.2.2 + sumL (d.map (selfSd pi))) := by
  induction d generalizing acc with
  | nil => simp
  | cons a d ih =>
    simp only [List.zip_cons_cons, List.foldl_cons, List.map_cons, sumL_cons]
    rw [lldStep_self pi acc a (hd a (by simp)), ih (fun b hb => hd b (by simp [hb]))]
    simp only [add_assoc]

theorem sumL_map_sub {β : Type} (l : List β) (f g : β → ℝ) :
    sumL (l.map f) - sumL (l.map g) = sumL (l.map (fun p => f p - g p)) := by
  induction l with
  | nil => simp
  | cons a l ih => simp only [List.map_cons, sumL_cons, ← ih]; ring

/-- the gap contributed by one coordinate. -/
noncomputable def selfGap (pi a : ℝ) : ℝ := if (9 : ℝ) / 10 < a then betaGap pi a else 0

/-- **value on identical arguments**: with `n = ∑ d`, `ll_dirichlet d d` is the clamped root of
    `(2/n) (gap n − ∑_{d_i > 0.9} gap d_i)`, where `gap x = log_single_beta x − log_beta x x`. -/
theorem llDirichlet_self_eq (pi big : ℝ) (d : List ℝ) (hd : ∀ a ∈ d, ThrAgree a)
    (hn : sumL d ≠ 0) :
    llDirichlet realT pi big d d
      = Real.sqrt (max 0 (2 / sumL d * (betaGap pi (sumL d) - sumL (d.map (selfGap pi))))) := by
  rw [llDirichlet_eq, if_neg (fun h => hn h.1), if_neg (fun h => hn (h.elim id id)),
    lldFold_self pi d hd]
  congr 2
  have e : sumL (d.map (selfGap pi)) = sumL (d.map (selfSd pi)) - sumL (d.map (selfLb pi)) := by
    rw [sumL_map_sub]
    congr 1
    apply List.map_congr_left
    intro a _
    unfold selfGap selfSd selfLb betaGap
    split_ifs <;> ring
  rw [e]
  unfold lldValue betaGap
  simp only [zero_add]
  field_simp
  ring

/-! #### `log_beta` at the small arguments where it is the exact finite sum -/

theorem floor_three_halves : ⌊(3 / 2 : ℝ)⌋ = 1 := by
  rw [Int.floor_eq_iff]; norm_num

theorem logBeta_three_halves (pi : ℝ) : logBeta realT pi (3 / 2) (3 / 2) = - Real.log (3 / 2) := by
  unfold logBeta
  simp only [minV_eq_min, maxV_eq_max, min_self, max_self, realT]
  rw [if_pos (by norm_num), if_pos (by norm_num), floor_three_halves]
  simp

theorem log_four : Real.log 4 = 2 * Real.log 2 := by
  rw [show (4 : ℝ) = 2 ^ 2 by norm_num, Real.log_pow]; norm_num

theorem log_six : Real.log 6 = Real.log 2 + Real.log 3 := by
  rw [show (6 : ℝ) = 2 * 3 by norm_num, Real.log_mul (by norm_num) (by norm_num)]

theorem logBeta_one (pi : ℝ) : logBeta realT pi 1 1 = 0 := by
  unfold logBeta
  simp only [minV_eq_min, maxV_eq_max, min_self, max_self, realT]
  rw [if_pos (by norm_num), if_pos (by norm_num)]
  simp

theorem logBeta_two (pi : ℝ) : logBeta realT pi 2 2 = -(Real.log 2 + Real.log 3) := by
  unfold logBeta
  simp only [minV_eq_min, maxV_eq_max, min_self, max_self, realT]
  rw [if_pos (by norm_num), if_pos (by norm_num)]
  simp [List.range_succ]
  norm_num
  ring

theorem logBeta_three (pi : ℝ) :
    logBeta realT pi 3 3 = -(Real.log 2 + Real.log 3 + Real.log 5) := by
  unfold logBeta
  simp only [minV_eq_min, maxV_eq_max, min_self, max_self, realT]
  rw [if_pos (by norm_num), if_pos (by norm_num)]
  simp [List.range_succ]
  norm_num
  rw [log_four]
  ring

theorem logBeta_four (pi : ℝ) :
    logBeta realT pi 4 4 = -(2 * Real.log 2 + Real.log 5 + Real.log 7) := by
  unfold logBeta
  simp only [minV_eq_min, maxV_eq_max, min_self, max_self, realT]
  rw [if_pos (by norm_num), if_pos (by norm_num)]
  simp [List.range_succ]
  norm_num
  rw [log_four, log_six]
  ring

/-! #### the gap `log_single_beta x − log_beta x x` -/

theorem logSingleBeta_eq (pi x : ℝ) :
    logSingleBeta realT pi x
      = Real.log 2 * (-2 * x + 1 / 2) + 1 / 2 * Real.log (2 * pi / x) + 1 / 8 / x := by
  simp only [logSingleBeta, two, realT, Nat.cast_ofNat]

theorem log_two_pi_div (pi x : ℝ) (hpi : 0 < pi) (hx : x ≠ 0) :
    Real.log (2 * pi / x) = Real.log 2 + Real.log pi - Real.log x := by
  rw [Real.log_div (by positivity) hx, Real.log_mul (by norm_num) hpi.ne']

theorem betaGap_one (pi : ℝ) (hpi : 0 < pi) :
    betaGap pi 1 = -Real.log 2 + 1 / 2 * Real.log pi + 1 / 8 := by
  unfold betaGap
  rw [logBeta_one, logSingleBeta_eq, log_two_pi_div pi 1 hpi (by norm_num), Real.log_one]
  ring

theorem betaGap_two (pi : ℝ) (hpi : 0 < pi) :
    betaGap pi 2 = -(5 / 2) * Real.log 2 + Real.log 3 + 1 / 2 * Real.log pi + 1 / 16 := by
  unfold betaGap
  rw [logBeta_two, logSingleBeta_eq, log_two_pi_div pi 2 hpi (by norm_num)]
  ring

theorem betaGap_three (pi : ℝ) (hpi : 0 < pi) :
    betaGap pi 3
      = -4 * Real.log 2 + 1 / 2 * Real.log 3 + Real.log 5 + 1 / 2 * Real.log pi + 1 / 24 := by
  unfold betaGap
  rw [logBeta_three, logSingleBeta_eq, log_two_pi_div pi 3 hpi (by norm_num)]
  ring

theorem betaGap_four (pi : ℝ) (hpi : 0 < pi) :
    betaGap pi 4
      = -6 * Real.log 2 + Real.log 5 + Real.log 7 + 1 / 2 * Real.log pi + 1 / 32 := by
  unfold betaGap
  rw [logBeta_four, logSingleBeta_eq, log_two_pi_div pi 4 hpi (by norm_num), log_four]
  ring

theorem betaGap_three_halves (pi : ℝ) (hpi : 0 < pi) :
    betaGap pi (3 / 2)
      = -(5 / 2) * Real.log 2 + 1 / 2 * Real.log 3 + 1 / 2 * Real.log pi + 1 / 12 := by
  unfold betaGap
  rw [logBeta_three_halves, logSingleBeta_eq, log_two_pi_div pi (3 / 2) hpi (by norm_num),
    Real.log_div (by norm_num) (by norm_num)]
  ring

/-- for `x ≥ 5`, where `log_beta` switches to the Stirling sum, `log_single_beta x` is *exactly*
    `log_beta x x`. -/
theorem betaGap_of_five_le (pi x : ℝ) (hpi : 0 < pi) (hx : 5 ≤ x) : betaGap pi x = 0 := by
  have hx0 : x ≠ 0 := by linarith
  have hxp : 0 < x := by linarith
  unfold betaGap logBeta
  simp only [minV_eq_min, maxV_eq_max, min_self, max_self]
  rw [if_neg (by push_cast; linarith)]
  unfold approxLogGamma
  rw [if_neg (by rw [eqV_iff]; linarith), if_neg (by rw [eqV_iff]; linarith)]
  rw [logSingleBeta_eq]
  simp only [two, realT, Nat.cast_ofNat]
  rw [log_two_pi_div pi x hpi hx0, log_two_pi_div pi (x + x) hpi (by linarith),
    show x + x = 2 * x by ring, Real.log_mul (by norm_num) hx0]
  field_simp
  ring

/-! #### "zero on identical arguments" FAILS for non-integer entries -/

theorem thrAgree_three_halves : ThrAgree (3 / 2) := by
  unfold ThrAgree; constructor <;> intro _ <;> norm_num

/-- **Counterexample.**  `ll_dirichlet` of the vector `(1.5, 1.5)` with itself is not `0`: it
    exceeds `1/2` (numerically `0.839…`), for every value `0 < pi < 4` of the constant.  Reason:
    for a non-integer `x < 5`, `log_beta x x` runs its loop `int(x) - 1` times and is far from
    `log B(x, x)`, whereas `log_single_beta x` approximates the true `log B(x, x)`. -/
theorem llDirichlet_self_counterexample (pi big : ℝ) (h0 : 0 < pi) (h4 : pi < 4) :
    1 / 2 < llDirichlet realT pi big [3 / 2, 3 / 2] [3 / 2, 3 / 2] := by
  have hs : sumL ([3 / 2, 3 / 2] : List ℝ) = 3 := by
    simp only [sumL_cons, sumL_nil]; norm_num
  rw [llDirichlet_self_eq pi big _ (by
      intro a ha; simp at ha; rw [ha]; exact thrAgree_three_halves) (by rw [hs]; norm_num), hs]
  have hg : selfGap pi (3 / 2) = betaGap pi (3 / 2) := by
    unfold selfGap; rw [if_pos (by norm_num)]
  simp only [List.map_cons, List.map_nil, sumL_cons, sumL_nil, hg]
  rw [betaGap_three pi h0, betaGap_three_halves pi h0]
  have l2 := Real.log_two_gt_d9
  have l3 : Real.log 3 < Real.log 4 := Real.log_lt_log (by norm_num) (by norm_num)
  have l5 : Real.log 4 < Real.log 5 := Real.log_lt_log (by norm_num) (by norm_num)
  have lp : Real.log pi < Real.log 4 := Real.log_lt_log h0 h4
  rw [log_four] at l3 l5 lp
  apply (Real.lt_sqrt (by norm_num)).mpr
  apply lt_max_of_lt_right
  norm_num at l2 ⊢
  linarith

example : (1 : ℝ) / 2 < llDirichlet realT Real.pi (10 ^ 8) [3 / 2, 3 / 2] [3 / 2, 3 / 2] :=
  llDirichlet_self_counterexample _ _ Real.pi_pos Real.pi_lt_four

/-! #### … and HOLDS for count vectors -/

theorem log_nine_eighths : Real.log (9 / 8) = 2 * Real.log 3 - 3 * Real.log 2 := by
  rw [Real.log_div (by norm_num) (by norm_num), show (9 : ℝ) = 3 ^ 2 by norm_num,
    show (8 : ℝ) = 2 ^ 3 by norm_num, Real.log_pow, Real.log_pow]
  norm_num

theorem log_25_24 : Real.log (25 / 24) = 2 * Real.log 5 - (3 * Real.log 2 + Real.log 3) := by
  rw [Real.log_div (by norm_num) (by norm_num), show (25 : ℝ) = 5 ^ 2 by norm_num,
    show (24 : ℝ) = 2 ^ 3 * 3 by norm_num, Real.log_mul (by norm_num) (by norm_num),
    Real.log_pow, Real.log_pow]
  norm_num

theorem log_49_48 : Real.log (49 / 48) = 2 * Real.log 7 - (4 * Real.log 2 + Real.log 3) := by
  rw [Real.log_div (by norm_num) (by norm_num), show (49 : ℝ) = 7 ^ 2 by norm_num,
    show (48 : ℝ) = 2 ^ 4 * 3 by norm_num, Real.log_mul (by norm_num) (by norm_num),
    Real.log_pow, Real.log_pow]
  norm_num

/-- the gap decreases along `1, 2, 3, 4` (each step is `log (1 + t) ≤ t`) … -/
theorem betaGap_chain (pi : ℝ) (hpi : 0 < pi) :
    betaGap pi 2 ≤ betaGap pi 1 ∧ betaGap pi 3 ≤ betaGap pi 2 ∧ betaGap pi 4 ≤ betaGap pi 3 := by
  rw [betaGap_one pi hpi, betaGap_two pi hpi, betaGap_three pi hpi, betaGap_four pi hpi]
  have h1 := Real.log_le_sub_one_of_pos (show (0 : ℝ) < 9 / 8 by norm_num)
  have h2 := Real.log_le_sub_one_of_pos (show (0 : ℝ) < 25 / 24 by norm_num)
  have h3 := Real.log_le_sub_one_of_pos (show (0 : ℝ) < 49 / 48 by norm_num)
  rw [log_nine_eighths] at h1
  rw [log_25_24] at h2
  rw [log_49_48] at h3
  refine ⟨?_, ?_, ?_⟩ <;> linarith

/-- … and is still non-negative at `4` (this is `exp (-1/16) ≤ 1225 π / 4096`, true with a margin
    of `10⁻⁴`; any `pi > 3.1415` will do). -/
theorem betaGap_four_nonneg (pi : ℝ) (hpi : 3.1415 < pi) : 0 ≤ betaGap pi 4 := by
  have hp0 : 0 < pi := by norm_num at hpi; linarith
  rw [betaGap_four pi hp0]
  have hlog : Real.log (1225 * pi / 4096)
      = 2 * Real.log 5 + 2 * Real.log 7 + Real.log pi - 12 * Real.log 2 := by
    rw [Real.log_div (by positivity) (by norm_num), Real.log_mul (by norm_num) hp0.ne',
      show (1225 : ℝ) = 5 ^ 2 * 7 ^ 2 by norm_num, show (4096 : ℝ) = 2 ^ 12 by norm_num,
      Real.log_mul (by norm_num) (by norm_num), Real.log_pow, Real.log_pow, Real.log_pow]
    norm_num
  have hexp : Real.exp (-(1 / 16)) ≤ 1225 * pi / 4096 := by
    rw [Real.exp_neg]
    have hq := Real.quadratic_le_exp_of_nonneg (show (0 : ℝ) ≤ 1 / 16 by norm_num)
    have hq' : (545 / 512 : ℝ) ≤ Real.exp (1 / 16) := by norm_num at hq ⊢; linarith
    have : (Real.exp (1 / 16))⁻¹ ≤ (545 / 512 : ℝ)⁻¹ :=
      inv_anti₀ (by norm_num) hq'
    refine this.trans ?_
    norm_num at hpi ⊢
    linarith
  have := (Real.le_log_iff_exp_le (by positivity)).mpr hexp
  rw [hlog] at this
  linarith

/-! #### count vectors -/

/-- the values of a coordinate that `ll_dirichlet` is meant for: `0`, one of `1, 2, 3, 4`, or
    any real `≥ 5` (every natural number is of this kind: `countLike_natCast`). -/
def CountLike (a : ℝ) : Prop := a = 0 ∨ a = 1 ∨ a = 2 ∨ a = 3 ∨ a = 4 ∨ 5 ≤ a

theorem countLike_natCast (k : ℕ) : CountLike (k : ℝ) := by
  unfold CountLike
  by_cases h : k < 5
  · interval_cases k <;> simp
  · right; right; right; right; right
    exact_mod_cast not_lt.mp h

theorem CountLike.nonneg {a : ℝ} (h : CountLike a) : 0 ≤ a := by
  rcases h with rfl | rfl | rfl | rfl | rfl | h <;> linarith

theorem CountLike.one_le {a : ℝ} (h : CountLike a) (h0 : a ≠ 0) : 1 ≤ a := by
  rcases h with rfl | rfl | rfl | rfl | rfl | h <;> first | exact absurd rfl h0 | linarith

theorem CountLike.thrAgree {a : ℝ} (h : CountLike a) : ThrAgree a := by
  unfold ThrAgree
  by_cases h0 : a = 0
  · subst h0; norm_num
  · have := h.one_le h0
    constructor <;> intro _ <;> nlinarith

theorem CountLike.add {a b : ℝ} (ha : CountLike a) (hb : CountLike b) : CountLike (a + b) := by
  have ha0 := ha.nonneg
  have hb0 := hb.nonneg
  unfold CountLike at *
  rcases ha with rfl | rfl | rfl | rfl | rfl | ha
  · simpa using hb
  all_goals
    rcases hb with rfl | rfl | rfl | rfl | rfl | hb <;> norm_num <;>
      (right; right; right; right; right; linarith)

theorem betaGap_nonneg_of_countLike (pi : ℝ) (hpi : 3.1415 < pi) {a : ℝ} (ha : CountLike a)
    (h0 : a ≠ 0) : 0 ≤ betaGap pi a := by
  have hp0 : 0 < pi := by norm_num at hpi; linarith
  obtain ⟨c12, c23, c34⟩ := betaGap_chain pi hp0
  have c4 := betaGap_four_nonneg pi hpi
  rcases ha with rfl | rfl | rfl | rfl | rfl | ha
  · exact absurd rfl h0
  · linarith
  · linarith
  · linarith
  · linarith
  · rw [betaGap_of_five_le pi a hp0 ha]

/-- on the admissible non-zero values the gap is antitone. -/
theorem betaGap_antitone (pi : ℝ) (hpi : 3.1415 < pi) {a b : ℝ} (ha : CountLike a)
    (hb : CountLike b) (ha0 : a ≠ 0) (hab : a ≤ b) : betaGap pi b ≤ betaGap pi a := by
  have hp0 : 0 < pi := by norm_num at hpi; linarith
  obtain ⟨c12, c23, c34⟩ := betaGap_chain pi hp0
  have c4 := betaGap_four_nonneg pi hpi
  have hna := betaGap_nonneg_of_countLike pi hpi ha ha0
  rcases hb with rfl | rfl | rfl | rfl | rfl | hb
  · exact absurd (le_antisymm hab ha.nonneg) ha0
  all_goals first
    | (rw [betaGap_of_five_le pi b hp0 hb]; exact hna)
    | (rcases ha with rfl | rfl | rfl | rfl | rfl | ha <;>
        first | exact absurd rfl ha0 | linarith)

theorem selfGap_of_countLike (pi : ℝ) {a : ℝ} (ha : CountLike a) (h0 : a ≠ 0) :
    selfGap pi a = betaGap pi a := by
  unfold selfGap
  rw [if_pos (by have := ha.one_le h0; linarith)]

theorem selfGap_zero (pi : ℝ) : selfGap pi 0 = 0 := by
  unfold selfGap
  rw [if_neg (by norm_num)]

/-- the heart of the matter: the gap at the total is at most the sum of the gaps of the
    coordinates. -/
theorem selfGap_sum (pi : ℝ) (hpi : 3.1415 < pi) (d : List ℝ) (hd : ∀ a ∈ d, CountLike a) :
    CountLike (sumL d) ∧ 0 ≤ sumL (d.map (selfGap pi))
      ∧ (sumL d ≠ 0 → betaGap pi (sumL d) ≤ sumL (d.map (selfGap pi))) := by
  induction d with
  | nil => exact ⟨Or.inl (by simp), by simp, fun h => absurd (by simp) h⟩
  | cons a d ih =>
    obtain ⟨i1, i2, i3⟩ := ih (fun b hb => hd b (by simp [hb]))
    have ha := hd a (by simp)
    simp only [List.map_cons, sumL_cons]
    have hsum : CountLike (a + sumL d) := ha.add i1
    by_cases h0 : a = 0
    · subst h0
      rw [selfGap_zero]
      simp only [zero_add] at hsum ⊢
      exact ⟨hsum, i2, i3⟩
    · have hg := betaGap_nonneg_of_countLike pi hpi ha h0
      rw [selfGap_of_countLike pi ha h0]
      refine ⟨hsum, by linarith, fun _ => ?_⟩
      have := betaGap_antitone pi hpi ha hsum h0 (by have := i1.nonneg; linarith)
      linarith

/-- **zero on identical arguments, for count vectors**: if every coordinate is `0`, `1`, `2`, `3`,
    `4` or a real `≥ 5`, then `ll_dirichlet d d = 0`.  The sum under the root is `≤ 0` — strictly
    negative in general, e.g. for `d = (1, 1)` — and it is the clamp `max(0, ·)` that yields `0`. -/
theorem llDirichlet_self_of_countLike (pi big : ℝ) (hpi : 3.1415 < pi) (d : List ℝ)
    (hd : ∀ a ∈ d, CountLike a) : llDirichlet realT pi big d d = 0 := by
  by_cases hn : sumL d = 0
  · exact llDirichlet_zero_zero pi big d d hn hn
  · obtain ⟨h1, _, h3⟩ := selfGap_sum pi hpi d hd
    rw [llDirichlet_self_eq pi big d (fun a ha => (hd a ha).thrAgree) hn]
    have hpos : 0 < sumL d := lt_of_le_of_ne h1.nonneg (Ne.symm hn)
    have hv : 2 / sumL d * (betaGap pi (sumL d) - sumL (d.map (selfGap pi))) ≤ 0 :=
      mul_nonpos_of_nonneg_of_nonpos (by positivity) (by linarith [h3 hn])
    rw [max_eq_left hv, Real.sqrt_zero]

/-- in particular for every vector of natural numbers, with the true `π`. -/
theorem llDirichlet_self_nat (big : ℝ) (l : List ℕ) :
    llDirichlet realT Real.pi big (l.map (Nat.cast : ℕ → ℝ)) (l.map (Nat.cast : ℕ → ℝ)) = 0 := by
  apply llDirichlet_self_of_countLike _ _ Real.pi_gt_d4
  intro a ha
  obtain ⟨k, _, rfl⟩ := List.mem_map.mp ha
  exact countLike_natCast k

/-- non-vacuity: a concrete count vector (with a zero, small and large counts). -/
example : llDirichlet realT Real.pi (10 ^ 8) [2, 0, 1, 7] [2, 0, 1, 7] = 0 := by
  have := llDirichlet_self_nat (10 ^ 8) [2, 0, 1, 7]
  simpa using this

/-! #### the clamp is needed -/

/-- for `d = (1, 1)` the quantity under the root of `ll_dirichlet d d` is strictly negative before
    the clamp (`≈ -0.0078`): without `max(0, ·)` the code would return `sqrt` of a negative number
    on identical count vectors. -/
theorem llDirichlet_self_radicand_neg (pi : ℝ) (hpi : 3.1415 < pi) :
    2 / sumL ([1, 1] : List ℝ)
      * (betaGap pi (sumL ([1, 1] : List ℝ)) - sumL (([1, 1] : List ℝ).map (selfGap pi))) < 0 := by
  have hp0 : 0 < pi := by norm_num at hpi; linarith
  have hs : sumL ([1, 1] : List ℝ) = 2 := by
    simp only [sumL_cons, sumL_nil]; norm_num
  have hg : selfGap pi 1 = betaGap pi 1 :=
    selfGap_of_countLike pi (Or.inr (Or.inl rfl)) one_ne_zero
  simp only [List.map_cons, List.map_nil, sumL_cons, sumL_nil, hg] at hs ⊢
  rw [hs]
  obtain ⟨_, c23, c34⟩ := betaGap_chain pi hp0
  have c4 := betaGap_four_nonneg pi hpi
  have h1 := Real.log_lt_sub_one_of_pos (show (0 : ℝ) < 9 / 8 by norm_num) (by norm_num)
  rw [log_nine_eighths] at h1
  have c12 : betaGap pi 2 < betaGap pi 1 := by
    rw [betaGap_one pi hp0, betaGap_two pi hp0]; linarith
  linarith

/-- non-vacuity of the remaining implications: the conventions for empty count vectors. -/
example : llDirichlet realT Real.pi (10 ^ 8) [0, 0] [2, 1] = 10 ^ 8
    ∧ llDirichlet realT Real.pi (10 ^ 8) [0, 0] [0, 0] = 0
    ∧ 0 ≤ llDirichlet realT Real.pi (10 ^ 8) [3, 1] [2, 5] := by
  refine ⟨?_, ?_, llDirichlet_nonneg _ _ (by norm_num) _ _⟩
  · apply llDirichlet_zero_left
    · simp only [sumL_cons, sumL_nil]; norm_num
    · simp only [sumL_cons, sumL_nil]; norm_num
  · apply llDirichlet_zero_zero <;> (simp only [sumL_cons, sumL_nil]; norm_num)

/-- non-vacuity of `haversine_sin_sq_half`. -/
example : ∃ d, haversine realT [1, 2] [3, 5] = some d ∧ Real.sin (d / 2) ^ 2 = havRad 1 2 3 5 :=
  ⟨_, haversine_cons 1 2 3 5, haversine_sin_sq_half _ _ _ _ _ (haversine_cons 1 2 3 5)⟩

end C12
end Umap
