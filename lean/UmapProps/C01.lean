/-
  C01 — every point's fuzzy neighbourhood is calibrated and locally connected.

  Model: `Umap.Knn` (umap_.py `smooth_knn_dist`, `compute_membership_strengths`), instantiated
  at ℝ with `realT`.  Clauses:
    (a) strength exactly 1 for the ⌊lc⌋ nearest distinct neighbours and all zero-distance ones;
    (b) strengths non-increasing in distance;
    (c) Σ strengths = log2 k within the tolerance once the search has converged  [partial: the
        convergence of the 64-step search itself is validated by the correspondence, not proved];
    (d) bandwidth positive, bounded (hence finite in float32), and ≥ the floor;
    (e) homogeneity: scaling all distances by c > 0 leaves every strength unchanged.
-/
import UmapProofs.Basic
import UmapProofs.RealT
import UmapModel.Knn
import Mathlib.Analysis.SpecialFunctions.Exp
import Mathlib.Tactic
import Generated.Constants

namespace Umap
namespace C01
open Knn

/-! ### unfolding lemmas -/

theorem psumTerm_fin_some (T : Transc ℝ) (r mid d : ℝ) :
    psumTerm T (.fin r) mid (some d) = if 0 < d - r then T.exp (-((d - r) / mid)) else 1 := rfl
theorem psumTerm_fin_none (T : Transc ℝ) (r mid : ℝ) : psumTerm T (.fin r) mid none = 0 := rfl
theorem psumTerm_inf (T : Transc ℝ) (mid : ℝ) (d : Option ℝ) : psumTerm T .inf mid d = 1 := by
  cases d <;> rfl
theorem psumTerm_nan (T : Transc ℝ) (mid : ℝ) (d : Option ℝ) : psumTerm T .nan mid d = 1 := by
  cases d <;> rfl

/-! ### (b) memberships: value 1 up to rho, strictly below 1 and decreasing beyond -/

theorem member_eq_one_of_le {d r σ : ℝ} (h : d ≤ r) : member realT d r σ = 1 := by
  unfold member
  rw [if_pos]; left; linarith

theorem member_lt_one {d r σ : ℝ} (hσ : 0 < σ) (h : r < d) :
    0 < member realT d r σ ∧ member realT d r σ < 1 := by
  unfold member
  have h1 : ¬ (d - r ≤ 0 ∨ (σ ≤ 0 ∧ 0 ≤ σ)) := by
    push Not; constructor
    · linarith
    · intro h'; linarith
  rw [if_neg h1]
  simp only [realT]
  refine ⟨Real.exp_pos _, ?_⟩
  apply Real.exp_lt_one_iff.2
  have : 0 < (d - r) / σ := div_pos (by linarith) hσ
  linarith

/-- with a positive bandwidth a strength is exactly 1 iff the neighbour is within rho. -/
theorem member_eq_one_iff {d r σ : ℝ} (hσ : 0 < σ) : member realT d r σ = 1 ↔ d ≤ r := by
  constructor
  · intro h
    by_contra hc
    push Not at hc
    exact absurd h (ne_of_lt (member_lt_one hσ hc).2)
  · exact member_eq_one_of_le

/-- (b) strengths are non-increasing in the distance. -/
theorem member_antitone {d d' r σ : ℝ} (hσ : 0 < σ) (h : d ≤ d') :
    member realT d' r σ ≤ member realT d r σ := by
  by_cases h1 : d ≤ r
  · rw [member_eq_one_of_le h1]
    by_cases h2 : d' ≤ r
    · rw [member_eq_one_of_le h2]
    · push Not at h2; exact le_of_lt (member_lt_one hσ h2).2
  · push Not at h1
    have h2 : r < d' := lt_of_lt_of_le h1 h
    unfold member
    have n1 : ¬ (d - r ≤ 0 ∨ (σ ≤ 0 ∧ 0 ≤ σ)) := by
      push Not; exact ⟨by linarith, fun h' => by linarith⟩
    have n2 : ¬ (d' - r ≤ 0 ∨ (σ ≤ 0 ∧ 0 ≤ σ)) := by
      push Not; exact ⟨by linarith, fun h' => by linarith⟩
    rw [if_neg n1, if_neg n2]
    simp only [realT]
    apply Real.exp_le_exp.2
    have : (d - r) / σ ≤ (d' - r) / σ := by
      apply div_le_div_of_nonneg_right _ (le_of_lt hσ); linarith
    linarith

/-- strengths lie in (0, 1]. -/
theorem member_range {d r σ : ℝ} (hσ : 0 < σ) :
    0 < member realT d r σ ∧ member realT d r σ ≤ 1 := by
  by_cases h1 : d ≤ r
  · rw [member_eq_one_of_le h1]; exact ⟨one_pos, le_refl _⟩
  · push Not at h1
    exact ⟨(member_lt_one hσ h1).1, le_of_lt (member_lt_one hσ h1).2⟩

/-! ### (e) homogeneity of the membership and of the calibration sum -/

theorem member_scale {c d r σ : ℝ} (hc : 0 < c) :
    member realT (c * d) (c * r) (c * σ) = member realT d r σ := by
  unfold member
  have e1 : c * d - c * r = c * (d - r) := by ring
  have h1 : (c * d - c * r ≤ 0) ↔ (d - r ≤ 0) := by
    rw [e1]; constructor
    · intro h; by_contra hn; push Not at hn; have := mul_pos hc hn; linarith
    · intro h; exact mul_nonpos_of_nonneg_of_nonpos (le_of_lt hc) h
  have h2 : (c * σ ≤ 0 ∧ 0 ≤ c * σ) ↔ (σ ≤ 0 ∧ 0 ≤ σ) := by
    constructor
    · rintro ⟨a, b⟩
      have : c * σ = 0 := le_antisymm a b
      have : σ = 0 := by
        rcases mul_eq_zero.1 this with h | h
        · linarith
        · exact h
      subst this; exact ⟨le_refl _, le_refl _⟩
    · rintro ⟨a, b⟩
      have : σ = 0 := le_antisymm a b
      subst this; simp
  by_cases hcond : (d - r ≤ 0 ∨ (σ ≤ 0 ∧ 0 ≤ σ))
  · have : (c * d - c * r ≤ 0 ∨ (c * σ ≤ 0 ∧ 0 ≤ c * σ)) := by
      rcases hcond with h | h
      · exact Or.inl (h1.2 h)
      · exact Or.inr (h2.2 h)
    rw [if_pos hcond, if_pos this]
  · have : ¬ (c * d - c * r ≤ 0 ∨ (c * σ ≤ 0 ∧ 0 ≤ c * σ)) := by
      intro h
      apply hcond
      rcases h with h | h
      · exact Or.inl (h1.1 h)
      · exact Or.inr (h2.1 h)
    rw [if_neg hcond, if_neg this]
    simp only [realT]
    congr 2
    rw [e1]
    have hσ : σ ≠ 0 := by
      intro h0; apply hcond; right; subst h0; exact ⟨le_refl _, le_refl _⟩
    field_simp

/-- scaling of an extended rho. -/
def scaleExt (c : ℝ) : Ext ℝ → Ext ℝ
  | .fin r => .fin (c * r)
  | .inf => .inf
  | .nan => .nan

theorem psumTerm_scale {c mid : ℝ} (hc : 0 < c) (hm : mid ≠ 0) (r : Ext ℝ) (d : Option ℝ) :
    psumTerm realT (scaleExt c r) (c * mid) (d.map (c * ·)) = psumTerm realT r mid d := by
  cases r with
  | inf => simp only [scaleExt, psumTerm_inf]
  | nan => simp only [scaleExt, psumTerm_nan]
  | fin r =>
    cases d with
    | none => simp only [scaleExt, Option.map_none, psumTerm_fin_none]
    | some d =>
      simp only [scaleExt, Option.map_some, psumTerm_fin_some]
      have e1 : c * d - c * r = c * (d - r) := by ring
      have h1 : (0 < c * d - c * r) ↔ (0 < d - r) := by
        rw [e1]; constructor
        · intro h; by_contra hn; push Not at hn
          have := mul_nonpos_of_nonneg_of_nonpos (le_of_lt hc) hn; linarith
        · intro h; exact mul_pos hc h
      by_cases h : 0 < d - r
      · rw [if_pos h, if_pos (h1.2 h)]
        simp only [realT]; congr 2; rw [e1]; field_simp
      · rw [if_neg h, if_neg (fun h' => h (h1.1 h'))]

/-- (e) the calibration sum is homogeneous of degree 0: scaling distances, rho and the bandwidth
    by the same `c > 0` leaves it unchanged; so σ solves the calibration equation for a row iff
    `c σ` solves it for the scaled row. -/
theorem psum_scale {c mid : ℝ} (hc : 0 < c) (hm : mid ≠ 0) (r : Ext ℝ) (ds : List (Option ℝ)) :
    psum realT (scaleExt c r) (c * mid) (ds.map (fun d => d.map (c * ·))) = psum realT r mid ds := by
  unfold psum
  rw [List.map_map]
  congr 1
  apply List.map_congr_left
  intro d _
  exact psumTerm_scale hc hm r d

/-! ### (c) the calibration sum is monotone in the bandwidth -/

theorem psumTerm_mono {s t : ℝ} (hs : 0 < s) (hst : s ≤ t) (r : Ext ℝ) (d : Option ℝ) :
    psumTerm realT r s d ≤ psumTerm realT r t d := by
  cases r with
  | inf => simp only [psumTerm_inf, le_refl]
  | nan => simp only [psumTerm_nan, le_refl]
  | fin r =>
    cases d with
    | none => simp only [psumTerm_fin_none, le_refl]
    | some d =>
      simp only [psumTerm_fin_some]
      by_cases h : 0 < d - r
      · rw [if_pos h, if_pos h]
        simp only [realT]
        apply Real.exp_le_exp.2
        have : (d - r) / t ≤ (d - r) / s := div_le_div_of_nonneg_left (le_of_lt h) hs hst
        linarith
      · rw [if_neg h, if_neg h]

theorem psum_mono_sigma {s t : ℝ} (hs : 0 < s) (hst : s ≤ t) (r : Ext ℝ) (ds : List (Option ℝ)) :
    psum realT r s ds ≤ psum realT r t ds := by
  unfold psum
  induction ds with
  | nil => simp
  | cons d ds ih =>
    simp only [List.map_cons, sumL_cons]
    exact add_le_add (psumTerm_mono hs hst r d) ih

/-- each term, hence the sum over `m` entries, lies in `[0, m]`. -/
theorem psumTerm_range {mid : ℝ} (hm : 0 < mid) (r : Ext ℝ) (d : Option ℝ) :
    0 ≤ psumTerm realT r mid d ∧ psumTerm realT r mid d ≤ 1 := by
  cases r with
  | inf => rw [psumTerm_inf]; norm_num
  | nan => rw [psumTerm_nan]; norm_num
  | fin r =>
    cases d with
    | none => rw [psumTerm_fin_none]; norm_num
    | some d =>
      rw [psumTerm_fin_some]
      by_cases h : 0 < d - r
      · rw [if_pos h]
        simp only [realT]
        refine ⟨le_of_lt (Real.exp_pos _), ?_⟩
        apply le_of_lt
        apply Real.exp_lt_one_iff.2
        have : 0 < (d - r) / mid := div_pos h hm
        linarith
      · rw [if_neg h]; norm_num

/-! ### (d) the bisection keeps a positive, bounded bracket -/

/-- invariant of the search state after `n` iterations. -/
def BInv (n : Nat) (s : BState ℝ) : Prop :=
  0 ≤ s.lo ∧ s.lo < s.mid ∧ s.mid ≤ 2 ^ n ∧ (∀ h, s.hi = some h → s.mid < h ∧ h ≤ 2 ^ n)

theorem binv_init : BInv 0 (bisectInit : BState ℝ) := by
  unfold BInv bisectInit; simp

theorem binv_step (tol target : ℝ) (r : Ext ℝ) (ds : List (Option ℝ)) (n : Nat) (s : BState ℝ)
    (h : BInv n s) : BInv (n + 1) (bisectStep realT tol target r ds s) := by
  obtain ⟨h0, h1, h3, h2⟩ := h
  have hpow : (2:ℝ) ^ n ≤ 2 ^ (n + 1) := by
    rw [pow_succ]; have : (0:ℝ) < 2 ^ n := by positivity
    linarith
  have keep : BInv (n + 1) s :=
    ⟨h0, h1, le_trans h3 hpow, fun h hh => ⟨(h2 h hh).1, le_trans (h2 h hh).2 hpow⟩⟩
  unfold bisectStep
  dsimp only
  split_ifs with hd hc hg
  · exact keep
  · exact keep
  · refine ⟨h0, ?_, ?_, ?_⟩
    · show s.lo < (s.lo + s.mid) / (1 + 1); linarith
    · show (s.lo + s.mid) / (1 + 1) ≤ 2 ^ (n + 1); linarith
    · intro h hh; simp only [Option.some.injEq] at hh; subst hh
      exact ⟨by show (s.lo + s.mid) / (1 + 1) < s.mid; linarith, le_trans h3 hpow⟩
  · cases hhi : s.hi with
    | none =>
      simp only
      refine ⟨by linarith, ?_, ?_, ?_⟩
      · show s.mid < s.mid * (1 + 1); linarith
      · show s.mid * (1 + 1) ≤ 2 ^ (n + 1); rw [pow_succ]; linarith
      · intro h hh; simp at hh
    | some hv =>
      simp only
      obtain ⟨hm, hb⟩ := h2 hv hhi
      refine ⟨by linarith, ?_, ?_, ?_⟩
      · show s.mid < (s.mid + hv) / (1 + 1); linarith
      · show (s.mid + hv) / (1 + 1) ≤ 2 ^ (n + 1); linarith
      · intro h hh; simp only [Option.some.injEq] at hh; subst hh
        exact ⟨by show (s.mid + hv) / (1 + 1) < hv; linarith, le_trans hb hpow⟩

/-- after `n` iterations the bracket invariant holds with bound `2 ^ n`. -/
theorem bisect_inv (tol target : ℝ) (r : Ext ℝ) (ds : List (Option ℝ)) (n : Nat) :
    BInv n (bisect realT tol target r ds n) := by
  induction n with
  | zero => simpa [bisect] using binv_init
  | succ n ih =>
    unfold bisect at ih ⊢
    rw [List.range_succ, List.foldl_append]
    simp only [List.foldl_cons, List.foldl_nil]
    exact binv_step tol target r ds n _ ih

/-- convergence flag: once the loop has hit `break`, the calibration sum is within `tol`. -/
def DoneInv (tol target : ℝ) (r : Ext ℝ) (ds : List (Option ℝ)) (s : BState ℝ) : Prop :=
  s.done = true → |psum realT r s.mid ds - target| < tol

theorem doneInv_step (tol target : ℝ) (r : Ext ℝ) (ds : List (Option ℝ)) (s : BState ℝ)
    (h : DoneInv tol target r ds s) : DoneInv tol target r ds (bisectStep realT tol target r ds s) := by
  unfold bisectStep
  dsimp only
  split_ifs with hd hc hg
  · exact h
  · intro _; rw [← absV_eq_abs]; exact hc
  · intro hdone; exact absurd hdone hd
  · cases hhi : s.hi <;> (intro hdone; exact absurd hdone hd)

theorem bisect_done (tol target : ℝ) (r : Ext ℝ) (ds : List (Option ℝ)) (n : Nat) :
    DoneInv tol target r ds (bisect realT tol target r ds n) := by
  unfold bisect
  apply foldl_inv (DoneInv tol target r ds)
  · intro s _ hs; exact doneInv_step tol target r ds s hs
  · intro h; simp [bisectInit] at h

/-- bracket: below `lo` the sum is ≤ target, at `hi` it is > target (so by monotonicity the
    calibrated bandwidth, if any, lies in `[lo, hi]`). -/
def BracketInv (target : ℝ) (r : Ext ℝ) (ds : List (Option ℝ)) (s : BState ℝ) : Prop :=
  (0 < s.lo → psum realT r s.lo ds ≤ target) ∧ (∀ h, s.hi = some h → target < psum realT r h ds)

theorem bracket_step (tol target : ℝ) (r : Ext ℝ) (ds : List (Option ℝ)) (s : BState ℝ)
    (h : BracketInv target r ds s) :
    BracketInv target r ds (bisectStep realT tol target r ds s) := by
  obtain ⟨h1, h2⟩ := h
  unfold bisectStep
  dsimp only
  split_ifs with hd hc hg
  · exact ⟨h1, h2⟩
  · exact ⟨h1, h2⟩
  · refine ⟨h1, ?_⟩
    intro h hh; simp only [Option.some.injEq] at hh; subst hh; exact hg
  · push Not at hg
    cases hhi : s.hi with
    | none => exact ⟨fun _ => hg, fun h hh => by simp at hh⟩
    | some hv =>
      refine ⟨fun _ => hg, ?_⟩
      intro h hh; simp only [Option.some.injEq] at hh; subst hh; exact h2 hv hhi

theorem bisect_bracket (tol target : ℝ) (r : Ext ℝ) (ds : List (Option ℝ)) (n : Nat) :
    BracketInv target r ds (bisect realT tol target r ds n) := by
  unfold bisect
  apply foldl_inv (BracketInv target r ds)
  · intro s _ hs; exact bracket_step tol target r ds s hs
  · exact ⟨fun h => by simp [bisectInit] at h, fun h hh => by simp [bisectInit] at hh⟩

/-! ### (d) the bandwidth: positive, bounded, at least the floor -/

theorem applyFloor_ge (minScale σ gm : ℝ) (r : Ext ℝ) (row : List (Option ℝ)) :
    σ ≤ applyFloor minScale σ r row gm
    ∧ minScale * (if extPos r then finiteMean row else gm) ≤ applyFloor minScale σ r row gm := by
  unfold applyFloor
  dsimp only
  split_ifs with h1 h2 <;> constructor <;> linarith

/--
  **C01 (d).** For every row (finite or with `inf` entries), every `k`, `local_connectivity` and
  iteration count `n`: the bandwidth is positive, at least the floor `minScale · mean`, and the
  search value it is derived from is at most `2 ^ n` (so with `n = 64` it is representable —
  finite — in float32, whose largest power of two is `2 ^ 127`).
-/
theorem C01_sigma_pos_floor (tol minScale target : ℝ) (lcIdx : Nat) (lcFrac : ℝ) (n : Nat) (gm : ℝ)
    (row : List (Option ℝ)) :
    let out := smoothKnnRow realT tol minScale target lcIdx lcFrac n gm row
    0 < out.1
    ∧ minScale * (if extPos out.2 then finiteMean row else gm) ≤ out.1
    ∧ (bisect realT tol target out.2 row.tail n).mid ≤ 2 ^ n := by
  intro out
  have hinv := bisect_inv tol target (rho tol lcIdx lcFrac row) row.tail n
  obtain ⟨h0, h1, h2, _⟩ := hinv
  have hge := applyFloor_ge minScale (bisect realT tol target (rho tol lcIdx lcFrac row) row.tail n).mid
    gm (rho tol lcIdx lcFrac row) row
  refine ⟨?_, hge.2, h2⟩
  exact lt_of_lt_of_le (lt_of_le_of_lt h0 h1) hge.1

/-! ### (c) calibration, conditional on convergence of the search -/

theorem member_eq_psumTerm {d r σ : ℝ} (hσ : 0 < σ) :
    member realT d r σ = psumTerm realT (.fin r) σ (some d) := by
  rw [psumTerm_fin_some]
  unfold member
  by_cases h : 0 < d - r
  · have : ¬ (d - r ≤ 0 ∨ (σ ≤ 0 ∧ 0 ≤ σ)) := by
      push Not; exact ⟨h, fun h' => by linarith⟩
    rw [if_neg this, if_pos h]
  · have : (d - r ≤ 0 ∨ (σ ≤ 0 ∧ 0 ≤ σ)) := Or.inl (not_lt.1 h)
    rw [if_pos this, if_neg h]

/-- the total strength a sample assigns to its neighbours *is* the calibration sum. -/
theorem members_sum_eq_psum {r σ : ℝ} (hσ : 0 < σ) (ds : List ℝ) :
    sumL (ds.map (fun d => member realT d r σ)) = psum realT (.fin r) σ (ds.map some) := by
  unfold psum
  rw [List.map_map]
  congr 1
  apply List.map_congr_left
  intro d _
  exact member_eq_psumTerm hσ

/--
  **C01 (c), partial.** Whenever the 64-step search has converged (hit its `break`) and the
  floor does not override the result, the strengths of the row total `log2 k` within the
  tolerance.  (Missing for the full clause: that the search *does* converge whenever a bandwidth
  at or above the floor achieves the total — validated on every run by the correspondence.)
-/
theorem C01_calibration_partial (tol target : ℝ) (r : ℝ) (ds : List ℝ) (n : Nat)
    (hdone : (bisect realT tol target (.fin r) (ds.map some) n).done = true) :
    let σ := (bisect realT tol target (.fin r) (ds.map some) n).mid
    |sumL (ds.map (fun d => member realT d r σ)) - target| < tol := by
  intro σ
  have hσ : 0 < σ := by
    obtain ⟨h0, h1, _, _⟩ := bisect_inv tol target (.fin r) (ds.map some) n
    exact lt_of_le_of_lt h0 h1
  rw [members_sum_eq_psum hσ]
  exact bisect_done tol target (.fin r) (ds.map some) n hdone

/-! ### (a) local connectivity: the ⌊lc⌋ nearest distinct neighbours are within rho -/

theorem nzDists_map_some (ds : List ℝ) :
    nzDists (ds.map some) = (ds.filter (fun x => decide (0 < x))).map some := by
  unfold nzDists
  rw [List.filter_map]
  rfl

/--
  **C01 (a).** For a sorted row of finite distances whose number of non-zero entries is at
  least `local_connectivity = lcIdx + lcFrac` (`0 ≤ lcFrac`), `rho` is a finite, non-negative
  value that is at least each of the `lcIdx = ⌊lc⌋` smallest non-zero distances.  Hence (with
  `member_eq_one_of_le`) those neighbours, and every neighbour at distance 0, get strength
  exactly 1, whatever the bandwidth.
-/
theorem C01_local_connectivity (tol lcFrac : ℝ) (htol : 0 ≤ tol) (lcIdx : Nat) (ds : List ℝ)
    (hs : ds.Pairwise (· ≤ ·)) (h0 : 0 ≤ lcFrac)
    (hlen : (lcIdx : ℝ) + lcFrac ≤ ((ds.filter (fun x => decide (0 < x))).length : ℝ)) :
    ∃ ρ, rho tol lcIdx lcFrac (ds.map some) = .fin ρ ∧ 0 ≤ ρ ∧
      ∀ j (_ : j < lcIdx) (hj' : j < (ds.filter (fun x => decide (0 < x))).length),
        (ds.filter (fun x => decide (0 < x)))[j] ≤ ρ := by
  set nz := ds.filter (fun x => decide (0 < x)) with hnz
  have hsorted : nz.Pairwise (· ≤ ·) := hs.filter _
  have hpos : ∀ x ∈ nz, 0 < x := by
    intro x hx; rw [hnz, List.mem_filter] at hx; simpa using hx.2
  have hle : lcIdx ≤ nz.length := by
    have : (lcIdx : ℝ) ≤ (nz.length : ℝ) := by linarith
    exact_mod_cast this
  unfold rho
  simp only [nzDists_map_some, ← hnz, List.length_map]
  rw [if_pos hlen]
  by_cases hidx : 0 < lcIdx
  · rw [if_pos hidx]
    have h1 : lcIdx - 1 < nz.length := by omega
    have ga : (List.map some nz)[lcIdx - 1]? = some (some nz[lcIdx - 1]) := by
      rw [List.getElem?_map, List.getElem?_eq_getElem h1]; rfl
    rw [ga]
    have mono : ∀ j, j < lcIdx → ∀ (hj' : j < nz.length), nz[j] ≤ nz[lcIdx - 1] := by
      intro j hj hj'
      by_cases hjj : j = lcIdx - 1
      · subst hjj; exact le_refl _
      · exact (List.pairwise_iff_getElem.1 hsorted) j (lcIdx - 1) hj' h1 (by omega)
    have apos : 0 < nz[lcIdx - 1] := hpos _ (List.getElem_mem h1)
    by_cases hint : tol < lcFrac
    · simp only [hint, if_true]
      have hfpos : 0 < lcFrac := lt_of_le_of_lt htol hint
      have h2 : lcIdx < nz.length := by
        have : (lcIdx : ℝ) < (nz.length : ℝ) := by linarith
        exact_mod_cast this
      have gb : (List.map some nz)[lcIdx]? = some (some nz[lcIdx]) := by
        rw [List.getElem?_map, List.getElem?_eq_getElem h2]; rfl
      rw [gb]
      have hab : nz[lcIdx - 1] ≤ nz[lcIdx] :=
        (List.pairwise_iff_getElem.1 hsorted) (lcIdx - 1) lcIdx h1 h2 (by omega)
      refine ⟨nz[lcIdx - 1] + lcFrac * (nz[lcIdx] - nz[lcIdx - 1]), rfl, ?_, ?_⟩
      · have : 0 ≤ lcFrac * (nz[lcIdx] - nz[lcIdx - 1]) := mul_nonneg h0 (by linarith)
        linarith
      · intro j hj hj'
        have : 0 ≤ lcFrac * (nz[lcIdx] - nz[lcIdx - 1]) := mul_nonneg h0 (by linarith)
        have := mono j hj hj'
        linarith
    · simp only [hint, if_false]
      exact ⟨nz[lcIdx - 1], rfl, le_of_lt apos, fun j hj hj' => mono j hj hj'⟩
  · rw [if_neg hidx]
    have hz : lcIdx = 0 := by omega
    cases hnz0 : nz with
    | nil =>
      refine ⟨0, by simp, le_refl _, ?_⟩
      intro j hj; omega
    | cons a t =>
      refine ⟨lcFrac * a, by simp, ?_, ?_⟩
      · have : 0 < a := hpos a (by rw [hnz0]; exact List.mem_cons_self)
        exact mul_nonneg h0 (le_of_lt this)
      · intro j hj; omega

/-- zero-distance neighbours (duplicates of the sample) always get strength 1. -/
theorem C01_zero_distance_full (tol lcFrac σ : ℝ) (htol : 0 ≤ tol) (lcIdx : Nat) (ds : List ℝ)
    (hs : ds.Pairwise (· ≤ ·)) (h0 : 0 ≤ lcFrac)
    (hlen : (lcIdx : ℝ) + lcFrac ≤ ((ds.filter (fun x => decide (0 < x))).length : ℝ)) :
    ∃ ρ, rho tol lcIdx lcFrac (ds.map some) = .fin ρ ∧ ∀ d, d ≤ 0 → member realT d ρ σ = 1 := by
  obtain ⟨ρ, h1, h2, _⟩ := C01_local_connectivity tol lcFrac htol lcIdx ds hs h0 hlen
  exact ⟨ρ, h1, fun d hd => member_eq_one_of_le (le_trans hd h2)⟩

/-! ### non-vacuity -/

/-- a concrete sorted row with a duplicate (distance 0) satisfies the hypotheses of (a). -/
example : ([0, 0, 1, 2, 3] : List ℝ).Pairwise (· ≤ ·) ∧
    ((1 : Nat) : ℝ) + 0.5 ≤ ((([0, 0, 1, 2, 3] : List ℝ).filter (fun x => decide (0 < x))).length : ℝ) := by
  constructor
  · simp; norm_num
  · have : (([0, 0, 1, 2, 3] : List ℝ).filter (fun x => decide (0 < x))) = [1, 2, 3] := by
      simp [List.filter]
    rw [this]; norm_num

/-! ### the constants of the live code (regenerated from /repo on every run) -/

/-- the search tolerance of the live code is positive and below the property's 1e-3;
    the floor factor is one thousandth (as a float); 64 iterations keep `2^n` inside float32. -/
theorem C01_live_constants :
    0 < Generated.smoothKTolerance ∧ Generated.smoothKTolerance ≤ 1 / 1000
    ∧ 999 / 1000000 ≤ Generated.minKDistScale ∧ Generated.minKDistScale ≤ 1001 / 1000000
    ∧ Generated.smoothKnnNIter = 64 := by
  decide +kernel

end C01
end Umap
