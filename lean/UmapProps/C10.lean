/-
  C10 — transform honours its contract at every point of a model's history.
  C11 — (history part) update keeps the model a faithful model of the stacked data.

  Model: `Umap.Api.St / Op / step` — a fitted estimator abstracted to the identity of its training
  data, the fingerprint `transform` compares against, and its embedding's row count.
-/
import Mathlib.Tactic
import UmapModel.Api
import UmapModel.Pipeline

namespace Umap
namespace C10
open Api

/-- the invariant every operation must preserve: the fingerprint describes the *current*
    training data, and the embedding has one row per training row. -/
def Inv (s : St) : Prop := s.fp = s.raw ∧ s.embRows = rowsOf s.raw

theorem step_transform (b : Bool) (s : St) (y : Data) :
    step b s (.transform y) = if y = s.fp then (s, .embedding s.embRows s.cols true)
      else (s, .embedding (rowsOf y) s.cols false) := rfl
theorem step_inverse (b : Bool) (s : St) (z : Nat) :
    step b s (.inverseTransform z) = (s, .inverse z s.feats) := rfl
theorem step_update (b : Bool) (s : St) (u : Nat × Nat) :
    step b s (.update u) =
      (⟨s.raw ++ [u], (if b then s.fp else s.raw ++ [u]), rowsOf (s.raw ++ [u]), s.cols, s.feats⟩,
       .updated) := rfl

theorem inv_fit (x : Data) (c f : Nat) : Inv (fit x c f) := ⟨rfl, rfl⟩

theorem inv_step (s : St) (o : Op) (h : Inv s) : Inv (step false s o).1 := by
  cases o with
  | transform y => rw [step_transform]; split_ifs <;> exact h
  | inverseTransform z => exact h
  | update b => exact ⟨rfl, rfl⟩

theorem cols_step (b : Bool) (s : St) (o : Op) :
    (step b s o).1.cols = s.cols ∧ (step b s o).1.feats = s.feats := by
  cases o with
  | transform y => rw [step_transform]; split_ifs <;> exact ⟨rfl, rfl⟩
  | inverseTransform z => exact ⟨rfl, rfl⟩
  | update b => exact ⟨rfl, rfl⟩

/-- the invariant holds after **every history** of transform / inverse_transform / update calls. -/
theorem inv_run (x : Data) (c f : Nat) (ops : List Op) :
    Inv (run false (fit x c f) ops) ∧ (run false (fit x c f) ops).cols = c
      ∧ (run false (fit x c f) ops).feats = f := by
  unfold run
  apply foldl_induction (P := fun s => Inv s ∧ s.cols = c ∧ s.feats = f)
  · exact ⟨inv_fit x c f, rfl, rfl⟩
  · intro s o ⟨h1, h2, h3⟩
    exact ⟨inv_step s o h1, (cols_step false s o).1.trans h2, (cols_step false s o).2.trans h3⟩
where
  foldl_induction {σ β : Type} {P : σ → Prop} {f : σ → β → σ} {s : σ} {l : List β}
      (h0 : P s) (hs : ∀ s b, P s → P (f s b)) : P (l.foldl f s) := by
    induction l generalizing s with
    | nil => exact h0
    | cons b l ih => exact ih (hs s b h0)

/-- in a state satisfying the invariant, `transform(Y)` returns exactly one row per row of `Y`
    with `n_components` columns, and it is the training embedding iff `Y` is the current data. -/
theorem transform_contract (s : St) (h : Inv s) (y : Data) :
    (step false s (.transform y)).2 = .embedding (rowsOf y) s.cols (decide (y = s.raw)) := by
  obtain ⟨h1, h2⟩ := h
  rw [step_transform]
  by_cases hy : y = s.fp
  · rw [if_pos hy]
    have : y = s.raw := hy.trans h1
    simp only [h2, this, decide_true]
  · rw [if_neg hy]
    have : ¬ y = s.raw := fun e => hy (e.trans h1.symm)
    simp only [this, decide_false]

/--
  **C10.** After `fit` and any sequence of calls, `transform(Y)` yields `rows(Y) × n_components`,
  flagged as the training embedding exactly when `Y` is the current (stacked) training data; and
  `inverse_transform(Z)` yields `rows(Z) × n_features`.
-/
theorem C10_history (x : Data) (c f : Nat) (ops : List Op) (y : Data) (z : Nat) :
    let s := run false (fit x c f) ops
    (step false s (.transform y)).2 = .embedding (rowsOf y) c (decide (y = s.raw))
    ∧ (step false s (.inverseTransform z)).2 = .inverse z f := by
  intro s
  obtain ⟨hinv, hc, hf⟩ := inv_run x c f ops
  refine ⟨?_, ?_⟩
  · rw [transform_contract s hinv y, hc]
  · show Out.inverse z s.feats = Out.inverse z f
    rw [hf]

/-- `transform` and `inverse_transform` do not change the model, so a repeated call sees the
    same state (with the seeded kernels of C06 it is then bit-identical). -/
theorem transform_pure (b : Bool) (s : St) (y : Data) (z : Nat) :
    (step b s (.transform y)).1 = s ∧ (step b s (.inverseTransform z)).1 = s := by
  constructor
  · rw [step_transform]; split_ifs <;> rfl
  · rfl

/-- the training data after a history is the original data followed by the update batches. -/
theorem raw_after (b : Bool) (s : St) (ops : List Op) :
    (run b s ops).raw = s.raw ++ ops.filterMap (fun o => match o with | .update b => some b | _ => none) := by
  unfold run
  induction ops generalizing s with
  | nil => simp
  | cons o ops ih =>
    simp only [List.foldl_cons]
    rw [ih]
    cases o with
    | transform y => rw [step_transform]; split_ifs <;> simp
    | inverseTransform z => simp [step_inverse]
    | update b => simp [step_update]

/-- the pinned `update` (stale fingerprint) breaks the contract: after `fit(X); update(B)`,
    `transform(X)` returns `rows(X) + rows(B)` rows. -/
theorem stale_fingerprint_breaks :
    (step true (run true (fit [(0, 50)] 2 4) [.update (1, 10)]) (.transform [(0, 50)])).2
      = .embedding 60 2 true := by decide

/-- non-vacuity: a history with two updates and transforms in between. -/
example : (run false (fit [(0, 50)] 2 4)
    [.transform [(7, 5)], .update (1, 10), .inverseTransform 3, .update (2, 10)]).raw
      = [(0, 50), (1, 10), (2, 10)] := by decide

end C10

namespace C11
open Api

/-- **C11 (graph).** `update` runs the graph stage on the stacked data with the model's own
    configuration, so its graph is the graph of a fresh fit on the stacked data. -/
theorem update_graph_eq_fresh {C G : Type} (stage : GraphCfg C → Data → G) (cfg : GraphCfg C)
    (old : Data) (b : Nat × Nat) :
    updateGraph stage false cfg old b = stage cfg (old ++ [b]) := rfl

/-- for any number of update batches. -/
theorem updates_eq_fresh {C G : Type} (stage : GraphCfg C → Data → G) (cfg : GraphCfg C)
    (x : Data) (bs : List (Nat × Nat)) (b : Nat × Nat) :
    updateGraph stage false cfg (x ++ bs) b = stage cfg (x ++ (bs ++ [b])) := by
  unfold updateGraph; simp

/-- the pinned `update` skipped the disconnection threshold: for a stage that depends on it the
    graphs differ. -/
theorem pinned_update_differs :
    updateGraph (fun (c : GraphCfg Unit) _ => c.threshold) true ⟨(), some 1⟩ [(0, 5)] (1, 2)
      ≠ (fun (c : GraphCfg Unit) _ => c.threshold) ⟨(), some 1⟩ ([(0, 5)] ++ [(1, 2)]) := by
  decide

/-- after an update the model satisfies the fitted-model invariant of the stacked data, so
    further updates and transforms behave as on a fresh model of that data. -/
theorem update_preserves_inv (s : St) (b : Nat × Nat) (h : C10.Inv s) :
    C10.Inv (step false s (.update b)).1 ∧ (step false s (.update b)).1.raw = s.raw ++ [b] :=
  ⟨C10.inv_step s (.update b) h, rfl⟩

end C11
end Umap

namespace Umap
namespace C11

/-- `init_update` is defined for every neighbour table: a new sample without any original
    neighbour keeps its initial row (the pinned code divided by the zero count). -/
theorem init_update_no_original {K : Type} [Field K] [LinearOrder K] [IsStrictOrderedRing K]
    (nOrig dim : Nat) (orig : Nat → List K) (row0 : List K) (nbrs : List Nat)
    (h : ∀ j ∈ nbrs, nOrig ≤ j) (hd : row0.length = dim) :
    Pipeline.initUpdateRow nOrig dim orig row0 nbrs = row0 := by
  unfold Pipeline.initUpdateRow
  have hf : nbrs.filter (· < nOrig) = [] := by
    rw [List.filter_eq_nil_iff]
    intro j hj; simp only [decide_eq_true_eq, not_lt]; exact h j hj
  simp only [hf, List.length_nil, Nat.zero_mul, if_true, List.foldl_nil]
  apply List.ext_getElem
  · simp [hd]
  · intro i h1 h2
    simp only [List.getElem_map, List.getElem_range]
    rw [List.getD_eq_getElem?_getD, List.getElem?_eq_getElem h2, Option.getD_some]

/-- the result always has one value per embedding dimension. -/
theorem init_update_length {K : Type} [Field K] [LinearOrder K] [IsStrictOrderedRing K]
    (nOrig dim : Nat) (orig : Nat → List K) (row0 : List K) (nbrs : List Nat) :
    (Pipeline.initUpdateRow nOrig dim orig row0 nbrs).length = dim := by
  unfold Pipeline.initUpdateRow
  simp only
  split_ifs <;> simp

end C11
end Umap
