/-
  C13SrcCore — the merge helpers generated from the source text of umap/sparse.py
  (`Generated/SparseSrc.lean`, namespace `Umap.SrcSparse`) are EQUAL to the hand-written model
  `Umap.Sparse` on canonical CSR rows: `coreSpec : SparseSrcSpec.CoreSpec α`.

  Generality: every theorem here holds for ANY scalar type `α` (the unbundled instance list of
  `SparseSrcSpec.lean`, no algebraic law used) — hence also for the executed `Float` instance.
  The only hypotheses are the canonical-row facts `Canon ind data`
  (`ind.length = data.length ∧ ind.Pairwise (· < ·)`).

  * `sparseSum_src`, `sparseDiff_src`, `sparseMul_src` : the fuel-bounded two-pointer while loops with
    pre-allocated buffers compute `unpack (model merge)`.  Loop invariant (`SparseSrcLemmasS1.main_loop`,
    `tail_loop`): the cells stored so far are a prefix `out` of the model's merge and the rest is the merge
    of the unconsumed suffixes; the buffers are long enough because the model's merge never emits more
    cells than `unionSize` (resp. `interSize`) = the length of `arr_union` (resp. `arr_intersect`);
    fuel suffices because `(len1 - i1) + (len2 - i2)` strictly decreases.
    (The loops themselves never use sortedness — only the buffer-size facts do.)
  * `arrUnion_length`, `arrIntersect_length`, `arrIntersect_contains` : the sort + adjacent-comparison
    index-array helpers, on strictly increasing inputs.
  * `sparseSum_canon`, `sparseDiff_canon` : the model's results are canonical again.
-/
import UmapModel.Sparse
import Generated.SparseSrc
import UmapProofs.SparseSrcSpec
import UmapProofs.SparseSrcLemmasS1
import Mathlib.Tactic

set_option linter.unusedSectionVars false
set_option linter.unusedVariables false

namespace Umap
namespace C13SrcCore
open Sparse SparseSrcSpec SparseSrcLemmasS1

section generic
variable {α : Type} [Add α] [Sub α] [Mul α] [Div α] [Neg α] [LT α] [LE α]
  [DecidableLT α] [DecidableLE α] [OfNat α 0] [OfNat α 1] [NatCast α] [IntCast α]

theorem pack_map_fst (ind : List Nat) (data : List α) (h : Canon ind data) :
    (pack ind data).map (·.1) = ind := by
  unfold pack
  exact List.map_fst_zip (le_of_eq h.1)

theorem pack_map_snd (ind : List Nat) (data : List α) (h : Canon ind data) :
    (pack ind data).map (·.2) = data := by
  unfold pack
  exact List.map_snd_zip (le_of_eq h.1.symm)

theorem pack_length (ind : List Nat) (data : List α) (h : Canon ind data) :
    (pack ind data).length = ind.length := by
  unfold pack
  simp [List.length_zip, h.1]

theorem canon_nodup (ind : List Nat) (data : List α) (h : Canon ind data) : ind.Nodup :=
  h.2.imp (fun h => Nat.ne_of_lt h)

theorem arrUnion_length (i1 : List Nat) (d1 : List α) (i2 : List Nat) (d2 : List α)
    (h1 : Canon i1 d1) (h2 : Canon i2 d2) :
    (SrcSparse.arrUnion i1 i2).length = unionSize (pack i1 d1) (pack i2 d2) := by
  rw [SparseSrcLemmasS1.arrUnion_length i1 i2 (canon_nodup i1 d1 h1) (canon_nodup i2 d2 h2),
    unionSize_eq_card, pack_map_fst i1 d1 h1, pack_map_fst i2 d2 h2]
  · rw [pack_map_fst i1 d1 h1]; exact h1.2
  · rw [pack_map_fst i2 d2 h2]; exact h2.2

theorem arrIntersect_length (i1 : List Nat) (d1 : List α) (i2 : List Nat) (d2 : List α)
    (h1 : Canon i1 d1) (h2 : Canon i2 d2) :
    (SrcSparse.arrIntersect i1 i2).length = interSize (pack i1 d1) (pack i2 d2) := by
  have hu := arrUnion_length i1 d1 i2 d2 h1 h2
  rw [SparseSrcLemmasS1.arrUnion_length i1 i2 (canon_nodup i1 d1 h1) (canon_nodup i2 d2 h2)] at hu
  have hs := interSize_add_unionSize (pack i1 d1) (pack i2 d2)
  rw [pack_length i1 d1 h1, pack_length i2 d2 h2] at hs
  rw [SparseSrcLemmasS1.arrIntersect_length i1 i2 (canon_nodup i1 d1 h1) (canon_nodup i2 d2 h2), hu]
  omega

theorem arrIntersect_contains (i1 i2 : List Nat) (h1 : i1.Pairwise (· < ·)) (h2 : i2.Pairwise (· < ·))
    (k : Nat) :
    (SrcSparse.arrIntersect i1 i2).contains k = (i1.contains k && i2.contains k) := by
  rw [Bool.eq_iff_iff]
  simp only [List.contains_iff_mem, Bool.and_eq_true]
  exact mem_arrIntersect i1 i2 (h1.imp (fun h => Nat.ne_of_lt h)) (h2.imp (fun h => Nat.ne_of_lt h)) k

theorem merge_canon (f : α → α → Option α) (g1 g2 : α → Option α)
    (i1 : List Nat) (d1 : List α) (i2 : List Nat) (d2 : List α)
    (h1 : Canon i1 d1) (h2 : Canon i2 d2) :
    Canon (unpack (merge f g1 g2 (pack i1 d1) (pack i2 d2))).1
      (unpack (merge f g1 g2 (pack i1 d1) (pack i2 d2))).2 := by
  refine ⟨by simp [unpack], ?_⟩
  apply merge_sorted
  · rw [pack_map_fst i1 d1 h1]; exact h1.2
  · rw [pack_map_fst i2 d2 h2]; exact h2.2

theorem canon_neg (i2 : List Nat) (d2 : List α) (h2 : Canon i2 d2) : Canon i2 (d2.map (fun a => -a)) :=
  ⟨by simpa using h2.1, h2.2⟩

theorem pack_neg (i2 : List Nat) (d2 : List α) :
    pack i2 (d2.map (fun a => -a)) = (pack i2 d2).map (fun p => (p.1, -p.2)) := by
  unfold pack
  rw [List.zip_map_right]
  simp [Prod.map]

theorem sparseSum_canon (i1 : List Nat) (d1 : List α) (i2 : List Nat) (d2 : List α)
    (h1 : Canon i1 d1) (h2 : Canon i2 d2) :
    Canon (sparseSum (pack i1 d1) (pack i2 d2) |> unpack).1 (sparseSum (pack i1 d1) (pack i2 d2) |> unpack).2 :=
  merge_canon _ _ _ i1 d1 i2 d2 h1 h2

theorem sparseDiff_canon (i1 : List Nat) (d1 : List α) (i2 : List Nat) (d2 : List α)
    (h1 : Canon i1 d1) (h2 : Canon i2 d2) :
    Canon (sparseDiff (pack i1 d1) (pack i2 d2) |> unpack).1 (sparseDiff (pack i1 d1) (pack i2 d2) |> unpack).2 := by
  unfold sparseDiff
  rw [← pack_neg]
  exact sparseSum_canon i1 d1 i2 _ h1 (canon_neg i2 d2 h2)

theorem emit_final {β : Type} {ri : List Nat} {rd : List β} {l : SVec β} {s' : Buf β}
    (h : Emit (ri, rd, 0) l s') : (s'.1.take s'.2.2, s'.2.1.take s'.2.2) = unpack l := by
  obtain ⟨-, -, -, h4, h5⟩ := h
  simp only [List.take_zero, List.nil_append] at h4 h5
  rw [h4, h5]; rfl

theorem merge_exhausted {β : Type} (f : β → β → Option β) (g1 g2 : β → Option β) (x y : SVec β)
    (h : x = [] ∨ y = []) : merge f g1 g2 x y = tailL g1 x ++ tailL g2 y := by
  rcases h with rfl | rfl
  · rw [merge_left_nil]; simp [tailL]
  · rw [merge_right_nil]; simp [tailL]

theorem drop_pack_nil {β : Type} (ind : List Nat) (data : List β) (a : Nat) (h : a = ind.length) :
    (ind.zip data).drop a = [] := by
  apply List.drop_eq_nil_of_le
  simp [List.length_zip]; omega

theorem sparseSum_src (i1 : List Nat) (d1 : List α) (i2 : List Nat) (d2 : List α)
    (h1 : Canon i1 d1) (h2 : Canon i2 d2) :
    SrcSparse.sparseSum i1 d1 i2 d2 = unpack (sparseSum (pack i1 d1) (pack i2 d2)) := by
  have hcap : (merge (fun a b => keepNZ (a + b)) keepNZ keepNZ (i1.zip d1) (i2.zip d2)).length
      ≤ (SrcSparse.arrUnion i1 i2).length := by
    rw [arrUnion_length i1 d1 i2 d2 h1 h2]
    exact merge_length_le _ _ _ _ _ _ (fun _ _ _ => rfl) (fun _ _ => rfl) (fun _ _ => rfl) _ _
  unfold SrcSparse.sparseSum
  simp only []
  generalize hs1 : SrcSparse.whileN (i1.length + i2.length + 1) _ _ _ = s1
  obtain ⟨a', b', ri1, rd1, nnz1⟩ := s1
  simp only []
  generalize hs2 : SrcSparse.whileN (i1.length + 1) _ _ _ = s2
  obtain ⟨ri2, rd2, nnz2, a''⟩ := s2
  simp only []
  generalize hs3 : SrcSparse.whileN (i2.length + 1) _ _ _ = s3
  obtain ⟨ri3, rd3, nnz3, b''⟩ := s3
  simp only []
  have H1 := main_loop i1 d1 i2 d2 (0:α) (fun a b => keepNZ (a + b)) keepNZ keepNZ h1.1 h2.1 _ _
    ?hc ?hb _ _ _ _ _ _ _ hs1 (Nat.zero_le _) (Nat.zero_le _) (by omega)
    (by simpa using hcap) (by simpa using hcap)
  case hc => intro a b ri rd nnz; rfl
  case hb =>
    intro a b ri rd nnz
    simp only [gBody]
    generalize i1.getD a 0 = j1; generalize i2.getD b 0 = j2
    generalize d1.getD a 0 = v1; generalize d2.getD b 0 = v2
    by_cases e : j1 = j2
    · by_cases z : eqV (v1 + v2) 0 = true <;> simp [pushOpt, keepNZ, isZ, e, z]
    · by_cases e' : j1 < j2
      · by_cases z : eqV v1 0 = true <;> simp [pushOpt, keepNZ, isZ, e, e', z]
      · by_cases z : eqV v2 0 = true <;> simp [pushOpt, keepNZ, isZ, e, e', z]
  obtain ⟨r1, r2, r3, out, hE1, hm⟩ := H1
  simp only [List.drop_zero] at hm
  have hex : (i1.zip d1).drop a' = [] ∨ (i2.zip d2).drop b' = [] := by
    rcases r3 with r3 | r3
    · exact Or.inl (drop_pack_nil _ _ _ r3)
    · exact Or.inr (drop_pack_nil _ _ _ r3)
  rw [merge_exhausted _ _ _ _ _ hex] at hm
  have hlen := congrArg List.length hm
  simp only [List.length_append] at hlen
  obtain ⟨e1, e2, e3, -, -⟩ := id hE1
  simp only [List.length_replicate, Nat.zero_add] at e1 e2 e3
  have H2 := tail_loop i1 d1 (0:α) keepNZ h1.1 _ _ ?hc ?hb _ _ _ _ _ _ hs2 (by omega)
    (by omega) (by omega)
  case hc => intro ri rd nnz a; rfl
  case hb =>
    intro ri rd nnz a
    simp only [tBody]
    generalize i1.getD a 0 = j1; generalize d1.getD a 0 = v1
    by_cases z : eqV v1 0 = true <;> simp [pushOpt, keepNZ, isZ, z]
  obtain ⟨f1, f2, f3, -, -⟩ := id H2
  simp only [] at f1 f2 f3
  have H3 := tail_loop i2 d2 (0:α) keepNZ h2.1 _ _ ?hc ?hb _ _ _ _ _ _ hs3 (by omega)
    (by omega) (by omega)
  case hc => intro ri rd nnz a; rfl
  case hb =>
    intro ri rd nnz a
    simp only [tBody]
    generalize i2.getD a 0 = j1; generalize d2.getD a 0 = v1
    by_cases z : eqV v1 0 = true <;> simp [pushOpt, keepNZ, isZ, z]
  have hE := (hE1.trans H2).trans H3
  rw [List.append_assoc, ← hm] at hE
  exact emit_final hE

theorem sparseDiff_src (i1 : List Nat) (d1 : List α) (i2 : List Nat) (d2 : List α)
    (h1 : Canon i1 d1) (h2 : Canon i2 d2) :
    SrcSparse.sparseDiff i1 d1 i2 d2 = unpack (sparseDiff (pack i1 d1) (pack i2 d2)) := by
  unfold SrcSparse.sparseDiff sparseDiff
  rw [sparseSum_src i1 d1 i2 _ h1 (canon_neg i2 d2 h2), pack_neg]

theorem sparseMul_src (i1 : List Nat) (d1 : List α) (i2 : List Nat) (d2 : List α)
    (h1 : Canon i1 d1) (h2 : Canon i2 d2) :
    SrcSparse.sparseMul i1 d1 i2 d2 = unpack (sparseMul (pack i1 d1) (pack i2 d2)) := by
  have hcap : (merge (fun a b => keepNZ (a * b)) (fun _ => none) (fun _ => none) (i1.zip d1) (i2.zip d2)).length
      ≤ (SrcSparse.arrIntersect i1 i2).length := by
    rw [arrIntersect_length i1 d1 i2 d2 h1 h2]
    exact merge_length_le _ _ _ _ _ _ (fun _ _ _ => rfl) (fun _ h => h) (fun _ h => h) _ _
  unfold SrcSparse.sparseMul
  simp only []
  generalize hs1 : SrcSparse.whileN (i1.length + i2.length + 1) _ _ _ = s1
  obtain ⟨a', b', ri1, rd1, nnz1⟩ := s1
  simp only []
  have H1 := main_loop i1 d1 i2 d2 (0:α) (fun a b => keepNZ (a * b)) (fun _ => none) (fun _ => none)
    h1.1 h2.1 _ _ ?hc ?hb _ _ _ _ _ _ _ hs1 (Nat.zero_le _) (Nat.zero_le _) (by omega)
    (by simpa using hcap) (by simpa using hcap)
  case hc => intro a b ri rd nnz; rfl
  case hb =>
    intro a b ri rd nnz
    simp only [gBody]
    generalize i1.getD a 0 = j1; generalize i2.getD b 0 = j2
    generalize d1.getD a 0 = v1; generalize d2.getD b 0 = v2
    by_cases e : j1 = j2
    · by_cases z : eqV (v1 * v2) 0 = true <;> simp [pushOpt, keepNZ, isZ, e, z]
    · by_cases e' : j1 < j2 <;> simp [pushOpt, e, e']
  obtain ⟨r1, r2, r3, out, hE1, hm⟩ := H1
  simp only [List.drop_zero] at hm
  have hex : (i1.zip d1).drop a' = [] ∨ (i2.zip d2).drop b' = [] := by
    rcases r3 with r3 | r3
    · exact Or.inl (drop_pack_nil _ _ _ r3)
    · exact Or.inr (drop_pack_nil _ _ _ r3)
  rw [merge_exhausted _ _ _ _ _ hex, tailL_none, tailL_none, List.append_nil, List.append_nil] at hm
  rw [← hm] at hE1
  exact emit_final hE1

/-- the translated merge helpers of umap/sparse.py agree with the model on canonical rows, for every scalar type -/
theorem coreSpec : SparseSrcSpec.CoreSpec α where
  sum := sparseSum_src
  diff := sparseDiff_src
  mul := sparseMul_src
  unionLen := arrUnion_length
  interLen := arrIntersect_length
  interMem := arrIntersect_contains
  sumCanon := sparseSum_canon
  diffCanon := sparseDiff_canon

end generic
end C13SrcCore
end Umap
