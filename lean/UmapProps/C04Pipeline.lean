/-
  C04 (pipeline) — the exact (small-data) neighbour stage end to end:
  distance matrix → disconnection threshold → kNN table → fitted graph.

  Model: `Umap.KnnStage` (`cut` / `threshold` = `dmat[dmat >= disconnection_distance] = np.inf`,
  `argsortExt` = the per-row `argsort` of `fast_knn_indices` with `inf` largest,
  `knnRow` / `exactStage` = `nearest_neighbors(…, metric="precomputed")` including
  `knn_indices[knn_dists == inf] = -1`), followed by `Umap.Graph.graphOfKnn`
  (`fuzzy_simplicial_set` from the table on), instantiated at ℝ with `realT`.

  1. `argsortExt` is a stable sorted permutation of the row's indices
     (`argsortExt_perm`, `_nodup`, `_sorted`, `_stable`), in the extended order `extLe` / `extLt`
     (`none = +inf`), which is the order of Mathlib's `WithTop` (`extLe_iff_up`, `extLt_iff_up`).
  2. `exactStage_valid` (+ `exactStage_shape`): the table of a square matrix with `k ≤ n` is a
     `C02.ValidTable` with `n` rows of `k` columns.
  3. `exactStage_listed_near`: a listed neighbour is a genuine sample strictly below the
     disconnection distance, reported with its matrix distance.
  4. `exactStage_nearest`: listed neighbours are at most as far as unlisted samples.
  5. `exactStage_self_first`: a sample at distance 0 from itself and > 0 from all others is its
     own column 0.
  6. `C04_pipeline_no_far_edge` (+ `_symm`): the graph stage succeeds and no edge of the fitted
     graph joins two samples at or beyond the disconnection distance.
  7. `C04_pipeline_isolated`: a sample whose row and column are beyond the disconnection distance
     is isolated in the fitted graph.
  8. non-vacuity on concrete 3 × 3 matrices.
-/
import UmapModel.KnnStage
import UmapProps.C02Pipeline
import UmapProps.C15
import Mathlib.Order.WithBot
import Mathlib.Tactic

namespace Umap
namespace C04
open KnnStage

/-! ## the extended order (`none = +inf`) -/

section Order
variable {K : Type} [LinearOrder K]

/-- `a ≤ b` on extended values, `none = +inf`. -/
def extLe : Option K → Option K → Prop
  | some a, some b => a ≤ b
  | _, none => True
  | none, some _ => False

/-- `a < b` on extended values, `none = +inf` (`inf < inf` is false). -/
def extLt : Option K → Option K → Prop
  | some a, some b => a < b
  | some _, none => True
  | none, _ => False

/-- the same value read in Mathlib's `WithTop K` (`Option K` with `none` as top element). -/
def up (a : Option K) : WithTop K := a

omit [LinearOrder K] in
@[simp] theorem up_some (a : K) : up (some a) = (a : WithTop K) := rfl
omit [LinearOrder K] in
@[simp] theorem up_none : up (none : Option K) = ⊤ := rfl

omit [LinearOrder K] in
theorem up_inj {a b : Option K} : up a = up b ↔ a = b := Iff.rfl

/-- `extLe` is the order of `WithTop K`. -/
theorem extLe_iff_up (a b : Option K) : extLe a b ↔ up a ≤ up b := by
  cases a <;> cases b <;> simp [extLe]

/-- `extLt` is the strict order of `WithTop K`. -/
theorem extLt_iff_up (a b : Option K) : extLt a b ↔ up a < up b := by
  cases a <;> cases b <;> simp [extLt]

/-- the model's boolean comparison decides `extLt`. -/
theorem ltExt_iff (a b : Option K) : ltExt a b = true ↔ extLt a b := by
  cases a <;> cases b <;> simp [ltExt, extLt]

theorem ltExt_iff_up (a b : Option K) : ltExt a b = true ↔ up a < up b :=
  (ltExt_iff a b).trans (extLt_iff_up a b)

theorem extLe_none (a : Option K) : extLe a none := by cases a <;> trivial

theorem extLt_asymm {a b : Option K} (h : extLt a b) : ¬ extLt b a := by
  rw [extLt_iff_up] at *; exact lt_asymm h

theorem extLt_irrefl (a : Option K) : ¬ extLt a a := by
  rw [extLt_iff_up]; exact lt_irrefl _

theorem extLe_of_not_extLt {a b : Option K} (h : ¬ extLt a b) : extLe b a := by
  rw [extLt_iff_up] at h; rw [extLe_iff_up]; exact not_lt.1 h

end Order

/-! ## 1. `argsortExt` is a stable sorted permutation -/

section Argsort
variable {K : Type} [LinearOrder K]

/-! (the `C15` insertion lemmas carry a spurious `[Zero K]`; `WithTop K` has no zero in general, so
   they are re-proved here for an arbitrary linear order) -/

theorem insertBy_perm {L : Type} [LinearOrder L] (key : Nat → L) (i : Nat) (l : List Nat) :
    (Spectral.insertBy key i l).Perm (i :: l) := by
  induction l with
  | nil => simp [Spectral.insertBy]
  | cons j t ih =>
    unfold Spectral.insertBy
    split_ifs
    · exact List.Perm.refl _
    · exact (List.Perm.cons j ih).trans (List.Perm.swap i j t)

theorem insertBy_sorted {L : Type} [LinearOrder L] (key : Nat → L) (i : Nat) (l : List Nat)
    (h : l.Pairwise (fun a b => key a ≤ key b)) :
    (Spectral.insertBy key i l).Pairwise (fun a b => key a ≤ key b) := by
  induction l with
  | nil => simp [Spectral.insertBy]
  | cons j t ih =>
    rw [List.pairwise_cons] at h
    unfold Spectral.insertBy
    split_ifs with hlt
    · refine List.pairwise_cons.2 ⟨?_, List.pairwise_cons.2 h⟩
      intro b hb
      rcases List.mem_cons.1 hb with rfl | hb
      · exact hlt.le
      · exact hlt.le.trans (h.1 b hb)
    · refine List.pairwise_cons.2 ⟨?_, ih h.2⟩
      intro b hb
      rcases List.mem_cons.1 ((insertBy_perm key i t).mem_iff.1 hb) with rfl | hb
      · exact not_lt.1 hlt
      · exact h.1 b hb

theorem foldl_insertBy_perm {L : Type} [LinearOrder L] (key : Nat → L) (l acc : List Nat) :
    (l.foldl (fun acc i => Spectral.insertBy key i acc) acc).Perm (l ++ acc) := by
  induction l generalizing acc with
  | nil => simp
  | cons x t ih =>
    simp only [List.foldl_cons, List.cons_append]
    refine (ih _).trans ?_
    refine ((insertBy_perm key x acc).append_left t).trans ?_
    exact List.perm_middle

/-- the model's insertion is `Spectral.insertBy` for the `WithTop K`-valued key. -/
theorem insertExt_eq (key : Nat → Option K) (i : Nat) (l : List Nat) :
    insertExt key i l = Spectral.insertBy (fun j => up (key j)) i l := by
  induction l with
  | nil => rfl
  | cons j t ih =>
    simp only [insertExt, Spectral.insertBy]
    rw [ih]
    by_cases h : up (key i) < up (key j)
    · rw [if_pos h, if_pos ((ltExt_iff_up _ _).2 h)]
    · rw [if_neg h, if_neg (fun h' => h ((ltExt_iff_up _ _).1 h'))]

/-- the key of `argsortExt row`. -/
def keyOf (row : List (Option K)) (j : Nat) : Option K := row.getD j none

theorem argsortExt_eq (row : List (Option K)) :
    argsortExt row = (List.range row.length).foldl
      (fun acc i => Spectral.insertBy (fun j => up (keyOf row j)) i acc) [] := by
  unfold argsortExt
  simp only [insertExt_eq]
  rfl

/-- `argsortExt row` is a permutation of the indices `0 .. len-1`. -/
theorem argsortExt_perm (row : List (Option K)) :
    (argsortExt row).Perm (List.range row.length) := by
  rw [argsortExt_eq]
  simpa using foldl_insertBy_perm (fun j => up (keyOf row j)) (List.range row.length) []

theorem argsortExt_length (row : List (Option K)) : (argsortExt row).length = row.length := by
  simpa using (argsortExt_perm row).length_eq

theorem argsortExt_nodup (row : List (Option K)) : (argsortExt row).Nodup :=
  (argsortExt_perm row).nodup_iff.2 List.nodup_range

theorem mem_argsortExt {row : List (Option K)} {c : Nat} :
    c ∈ argsortExt row ↔ c < row.length := by
  rw [(argsortExt_perm row).mem_iff, List.mem_range]

/-- `argsortExt row` lists the indices in non-decreasing order of value, `inf` last. -/
theorem argsortExt_sorted (row : List (Option K)) :
    (argsortExt row).Pairwise (fun a b => extLe (row.getD a none) (row.getD b none)) := by
  rw [argsortExt_eq]
  have := foldl_inv (fun l => l.Pairwise (fun a b => up (keyOf row a) ≤ up (keyOf row b))) _
    (fun s b hs => insertBy_sorted (fun j => up (keyOf row j)) b s hs)
    (List.range row.length) [] List.Pairwise.nil
  exact this.imp (fun {a b} h => (extLe_iff_up _ _).2 h)

/-- stability of the insertion sort, for any key into a linear order. -/
theorem foldl_insertBy_stable {L : Type} [LinearOrder L] (key : Nat → L) (m : Nat) :
    (∀ a ∈ (List.range m).foldl (fun acc i => Spectral.insertBy key i acc) [], a < m) ∧
    ((List.range m).foldl (fun acc i => Spectral.insertBy key i acc) []).Pairwise
      (fun a b => key a < key b ∨ (key a = key b ∧ a < b)) := by
  have ins : ∀ (i : Nat) (l : List Nat), (∀ a ∈ l, a < i) →
      l.Pairwise (fun a b => key a < key b ∨ (key a = key b ∧ a < b)) →
      (Spectral.insertBy key i l).Pairwise
        (fun a b => key a < key b ∨ (key a = key b ∧ a < b)) := by
    intro i l
    induction l with
    | nil => intro _ _; simp [Spectral.insertBy]
    | cons j t ih =>
      intro hb h
      rw [List.pairwise_cons] at h
      unfold Spectral.insertBy
      split_ifs with hlt
      · refine List.pairwise_cons.2 ⟨?_, List.pairwise_cons.2 h⟩
        intro b hb'
        rcases List.mem_cons.1 hb' with rfl | hb'
        · exact Or.inl hlt
        · rcases h.1 b hb' with h1 | h1
          · exact Or.inl (hlt.trans h1)
          · exact Or.inl (h1.1 ▸ hlt)
      · refine List.pairwise_cons.2
          ⟨?_, ih (fun a ha => hb a (List.mem_cons_of_mem _ ha)) h.2⟩
        intro b hb'
        rcases List.mem_cons.1 ((insertBy_perm key i t).mem_iff.1 hb') with rfl | hb'
        · rcases (not_lt.1 hlt).lt_or_eq with h1 | h1
          · exact Or.inl h1
          · exact Or.inr ⟨h1, hb j List.mem_cons_self⟩
        · exact h.1 b hb'
  induction m with
  | zero => simp
  | succ m ih =>
    rw [List.range_succ, List.foldl_append]
    simp only [List.foldl_cons, List.foldl_nil]
    refine ⟨?_, ins m _ ih.1 ih.2⟩
    intro a ha
    rcases List.mem_cons.1 ((insertBy_perm key m _).mem_iff.1 ha) with rfl | ha
    · omega
    · have := ih.1 a ha; omega

/-- `argsortExt` is stable: strictly increasing values, or equal values in index order. -/
theorem argsortExt_stable (row : List (Option K)) :
    (argsortExt row).Pairwise (fun a b =>
      extLt (row.getD a none) (row.getD b none)
        ∨ (row.getD a none = row.getD b none ∧ a < b)) := by
  rw [argsortExt_eq]
  exact (foldl_insertBy_stable (fun j => up (keyOf row j)) row.length).2.imp
    (fun {a b} h => h.imp (extLt_iff_up _ _).2 (fun h' => ⟨up_inj.1 h'.1, h'.2⟩))

end Argsort

/-! ## one row of the table -/

section Row
variable {K : Type} [LinearOrder K]

theorem cut_eq_some {thr : Option K} {y x : K} :
    cut thr y = some x ↔ x = y ∧ ∀ t, thr = some t → y < t := by
  cases thr with
  | none => simp [cut, eq_comm]
  | some t =>
    simp only [cut, Option.some.injEq, forall_eq']
    split_ifs with h
    · simp only [false_iff, not_and, not_lt]; exact fun _ => h
    · simp only [Option.some.injEq]
      exact ⟨fun e => ⟨e.symm, not_le.1 h⟩, fun e => e.1.symm⟩

theorem cut_eq_none {thr : Option K} {y : K} :
    cut thr y = none ↔ ∃ t, thr = some t ∧ t ≤ y := by
  cases thr with
  | none => simp [cut]
  | some t =>
    simp only [cut, Option.some.injEq, exists_eq_left']
    split_ifs with h <;> simp [h]

theorem knnRow_fst (k : Nat) (row : List (Option K)) :
    (knnRow k row).1
      = ((argsortExt row).take k).map (fun j => (row.getD j none).map (fun _ => j)) := rfl

theorem knnRow_snd (k : Nat) (row : List (Option K)) :
    (knnRow k row).2 = ((argsortExt row).take k).map (fun j => row.getD j none) := rfl

theorem knnRow_fst_length (k : Nat) (row : List (Option K)) (hk : k ≤ row.length) :
    (knnRow k row).1.length = k := by
  rw [knnRow_fst, List.length_map, List.length_take, argsortExt_length]; omega

theorem knnRow_snd_length (k : Nat) (row : List (Option K)) (hk : k ≤ row.length) :
    (knnRow k row).2.length = k := by
  rw [knnRow_snd, List.length_map, List.length_take, argsortExt_length]; omega

/-- the listed (non-skipped) indices of a row are pairwise distinct. -/
theorem knnRow_distinct (k : Nat) (row : List (Option K)) :
    ((knnRow k row).1.filterMap id).Nodup := by
  rw [knnRow_fst, List.filterMap_map]
  refine List.Nodup.filterMap ?_ ((argsortExt_nodup row).sublist (List.take_sublist _ _))
  intro a a' b hb hb'
  simp only [Function.comp, id, Option.mem_def, Option.map_eq_some_iff] at hb hb'
  obtain ⟨_, _, rfl⟩ := hb
  obtain ⟨_, _, rfl⟩ := hb'
  rfl

theorem knnRow_zip (k : Nat) (row : List (Option K)) :
    (knnRow k row).1.zip (knnRow k row).2
      = ((argsortExt row).take k).map
          (fun j => ((row.getD j none).map (fun _ => j), row.getD j none)) := by
  rw [knnRow_fst, knnRow_snd, List.zip_map']

/-- position by position: the index is skipped iff the distance is `inf`. -/
theorem knnRow_skip_iff (k : Nat) (row : List (Option K)) :
    ∀ p ∈ (knnRow k row).1.zip (knnRow k row).2, (p.1 = none ↔ p.2 = none) := by
  intro p hp
  rw [knnRow_zip, List.mem_map] at hp
  obtain ⟨j, _, rfl⟩ := hp
  simp

/-- column `c` lists `j` iff `c < k`, `j` is the `c`-th index of the sorted order and its value
    is finite. -/
theorem knnRow_fst_getElem? (k : Nat) (row : List (Option K)) (c j : Nat) :
    (knnRow k row).1[c]? = some (some j)
      ↔ c < k ∧ (argsortExt row)[c]? = some j ∧ ∃ x, row.getD j none = some x := by
  rw [knnRow_fst, List.getElem?_map, List.getElem?_take]
  by_cases hc : c < k
  · simp only [hc, if_true, true_and, Option.map_eq_some_iff]
    constructor
    · rintro ⟨a, ha, x, hx, rfl⟩
      exact ⟨ha, x, hx⟩
    · rintro ⟨ha, x, hx⟩
      exact ⟨j, ha, x, hx, rfl⟩
  · simp [hc]

theorem knnRow_snd_getElem? (k : Nat) (row : List (Option K)) (c : Nat) :
    (knnRow k row).2[c]?
      = (if c < k then (argsortExt row)[c]? else none).map (fun j => row.getD j none) := by
  rw [knnRow_snd, List.getElem?_map, List.getElem?_take]

theorem mem_knnRow_fst {k : Nat} {row : List (Option K)} {j : Nat} :
    some j ∈ (knnRow k row).1
      ↔ j ∈ (argsortExt row).take k ∧ ∃ x, row.getD j none = some x := by
  rw [knnRow_fst, List.mem_map]
  constructor
  · rintro ⟨a, ha, h⟩
    rw [Option.map_eq_some_iff] at h
    obtain ⟨x, hx, rfl⟩ := h
    exact ⟨ha, x, hx⟩
  · rintro ⟨h, x, hx⟩
    exact ⟨j, h, by rw [hx]; rfl⟩

/-- k-nearest property of one row: a listed index is at most as far as every index of the row
    that is not listed. -/
theorem knnRow_nearest (k : Nat) (row : List (Option K)) (j l : Nat)
    (hj : some j ∈ (knnRow k row).1) (hl : l < row.length) (hnl : some l ∉ (knnRow k row).1) :
    extLe (row.getD j none) (row.getD l none) := by
  obtain ⟨hjm, x, hx⟩ := mem_knnRow_fst.1 hj
  have hlm : l ∈ (argsortExt row).take k ++ (argsortExt row).drop k := by
    rw [List.take_append_drop]; exact mem_argsortExt.2 hl
  rcases List.mem_append.1 hlm with h | h
  · cases hv : row.getD l none with
    | none => exact extLe_none _
    | some y => exact absurd (mem_knnRow_fst.2 ⟨h, y, hv⟩) hnl
  · have hs := argsortExt_sorted row
    rw [← List.take_append_drop k (argsortExt row), List.pairwise_append] at hs
    exact hs.2.2 j hjm l h

/-- an index whose value is strictly below every other value of the row comes first. -/
theorem argsortExt_head (row : List (Option K)) (i : Nat) (hi : i < row.length)
    (hothers : ∀ l, l < row.length → l ≠ i → extLt (row.getD i none) (row.getD l none)) :
    (argsortExt row)[0]? = some i := by
  cases hs : argsortExt row with
  | nil =>
    have := argsortExt_length row
    rw [hs] at this; simp at this; omega
  | cons h t =>
    simp only [List.getElem?_cons_zero, Option.some.injEq]
    by_contra hne
    have hh : h < row.length := mem_argsortExt.1 (by rw [hs]; exact List.mem_cons_self)
    have hit : i ∈ t := by
      have : i ∈ argsortExt row := mem_argsortExt.2 hi
      rw [hs] at this
      rcases List.mem_cons.1 this with e | e
      · exact absurd e.symm hne
      · exact e
    have hst := argsortExt_stable row
    rw [hs, List.pairwise_cons] at hst
    have hlt := hothers h hh hne
    rcases hst.1 i hit with h1 | h1
    · exact extLt_asymm hlt h1
    · rw [h1.1] at hlt; exact extLt_irrefl _ hlt

theorem knnRow_self_first (k : Nat) (row : List (Option K)) (i : Nat) (m : K) (hk : 1 ≤ k)
    (hi : i < row.length) (hm : row.getD i none = some m)
    (hothers : ∀ l, l < row.length → l ≠ i → extLt (some m) (row.getD l none)) :
    (knnRow k row).1[0]? = some (some i) ∧ (knnRow k row).2[0]? = some (some m) := by
  have hhead := argsortExt_head row i hi (by rw [hm]; exact hothers)
  refine ⟨(knnRow_fst_getElem? k row 0 i).2 ⟨hk, hhead, m, hm⟩, ?_⟩
  rw [knnRow_snd_getElem?, if_pos (show 0 < k from hk), hhead, Option.map_some, hm]

end Row

/-! ## the kNN table of a square distance matrix -/

section Table

/-- `D[i][j]` (`0` outside the matrix). -/
def entry (D : List (List ℝ)) (i j : Nat) : ℝ := (D.getD i []).getD j 0

/-- an `n × n` matrix. -/
structure Square (n : Nat) (D : List (List ℝ)) : Prop where
  rows : D.length = n
  cols : ∀ row ∈ D, row.length = n

theorem exactStage_fst (thr : Option ℝ) (k : Nat) (D : List (List ℝ)) :
    (exactStage thr k D).1 = D.map (fun row => (knnRow k (row.map (cut thr))).1) := by
  simp [exactStage, threshold, List.map_map, Function.comp_def]

theorem exactStage_snd (thr : Option ℝ) (k : Nat) (D : List (List ℝ)) :
    (exactStage thr k D).2 = D.map (fun row => (knnRow k (row.map (cut thr))).2) := by
  simp [exactStage, threshold, List.map_map, Function.comp_def]

theorem exactStage_fst_getElem? (thr : Option ℝ) (k : Nat) (D : List (List ℝ)) (i : Nat) :
    (exactStage thr k D).1[i]? = (D[i]?).map (fun row => (knnRow k (row.map (cut thr))).1) := by
  rw [exactStage_fst, List.getElem?_map]

theorem exactStage_snd_getElem? (thr : Option ℝ) (k : Nat) (D : List (List ℝ)) (i : Nat) :
    (exactStage thr k D).2[i]? = (D[i]?).map (fun row => (knnRow k (row.map (cut thr))).2) := by
  rw [exactStage_snd, List.getElem?_map]

/-- entry `j` of the thresholded row `i`. -/
theorem trow_getD (thr : Option ℝ) {D : List (List ℝ)} {i j : Nat} {row : List ℝ}
    (hrow : D[i]? = some row) (hj : j < row.length) :
    (row.map (cut thr)).getD j none = cut thr (entry D i j) := by
  unfold entry
  rw [List.getD_eq_getElem?_getD (l := D), hrow]
  simp [List.getD_eq_getElem?_getD, List.getElem?_eq_getElem hj]

/-- the table has `n` rows of `k` columns each. -/
theorem exactStage_shape (thr : Option ℝ) (k n : Nat) (D : List (List ℝ)) (hD : Square n D)
    (hk : k ≤ n) :
    (exactStage thr k D).1.length = n ∧ (exactStage thr k D).2.length = n
    ∧ (∀ ix ∈ (exactStage thr k D).1, ix.length = k)
    ∧ (∀ d ∈ (exactStage thr k D).2, d.length = k) := by
  refine ⟨by rw [exactStage_fst, List.length_map, hD.rows],
    by rw [exactStage_snd, List.length_map, hD.rows], ?_, ?_⟩
  · intro ix hix
    rw [exactStage_fst, List.mem_map] at hix
    obtain ⟨row, hrow, rfl⟩ := hix
    exact knnRow_fst_length k _ (by rw [List.length_map, hD.cols row hrow]; exact hk)
  · intro d hd
    rw [exactStage_snd, List.mem_map] at hd
    obtain ⟨row, hrow, rfl⟩ := hd
    exact knnRow_snd_length k _ (by rw [List.length_map, hD.cols row hrow]; exact hk)

/-- **2. `exactStage_valid`.**  The table built from a square matrix with `k ≤ n` is a valid kNN
    table in the sense of `C02.ValidTable`. -/
theorem exactStage_valid (thr : Option ℝ) (k n : Nat) (D : List (List ℝ)) (hD : Square n D)
    (hk : k ≤ n) : C02.ValidTable (exactStage thr k D).1 (exactStage thr k D).2 where
  rows_eq := by rw [exactStage_fst, exactStage_snd, List.length_map, List.length_map]
  cols_eq := ⟨k, (exactStage_shape thr k n D hD hk).2.2.1, (exactStage_shape thr k n D hD hk).2.2.2⟩
  distinct := by
    intro ix hix
    rw [exactStage_fst, List.mem_map] at hix
    obtain ⟨row, _, rfl⟩ := hix
    exact knnRow_distinct k _
  skip_iff := by
    intro i ix d hix hd p hp
    rw [exactStage_fst_getElem?] at hix
    rw [exactStage_snd_getElem?] at hd
    cases hrow : D[i]? with
    | none => rw [hrow] at hix; simp at hix
    | some row =>
      rw [hrow] at hix hd
      simp only [Option.map_some, Option.some.injEq] at hix hd
      subst hix; subst hd
      exact knnRow_skip_iff k _ p hp

/-- **3. `exactStage_listed_near`.**  If column `c` of row `i` of the index table lists `j`, then
    `i, j < n`, `D[i][j]` is strictly below the disconnection distance, and column `c` of row `i`
    of the distance table is `D[i][j]`. -/
theorem exactStage_listed_near (thr : Option ℝ) (k n : Nat) (D : List (List ℝ)) (hD : Square n D)
    (i c j : Nat) (ix : List (Option Nat)) (hix : (exactStage thr k D).1[i]? = some ix)
    (hc : ix[c]? = some (some j)) :
    i < n ∧ j < n ∧ (∀ t, thr = some t → entry D i j < t) ∧
      ∃ d, (exactStage thr k D).2[i]? = some d ∧ d[c]? = some (some (entry D i j)) := by
  rw [exactStage_fst_getElem?] at hix
  cases hrow : D[i]? with
  | none => rw [hrow] at hix; simp at hix
  | some row =>
    rw [hrow] at hix
    simp only [Option.map_some, Option.some.injEq] at hix
    subst hix
    have hi : i < n := by
      rw [← hD.rows]; exact (List.getElem?_eq_some_iff.1 hrow).1
    have hlen : row.length = n := hD.cols row (List.mem_of_getElem? hrow)
    obtain ⟨hck, hsort, x, hx⟩ := (knnRow_fst_getElem? k _ c j).1 hc
    have hj : j < row.length := by
      have := mem_argsortExt.1 (List.mem_of_getElem? hsort)
      simpa using this
    rw [trow_getD thr hrow hj] at hx
    obtain ⟨rfl, hlt⟩ := cut_eq_some.1 hx
    refine ⟨hi, hlen ▸ hj, hlt, (knnRow k (row.map (cut thr))).2, ?_, ?_⟩
    · rw [exactStage_snd_getElem?, hrow]; rfl
    · rw [knnRow_snd_getElem?, if_pos hck, hsort, Option.map_some, trow_getD thr hrow hj, hx]

/-- membership form of `exactStage_listed_near`. -/
theorem exactStage_listed_near_mem (thr : Option ℝ) (k n : Nat) (D : List (List ℝ))
    (hD : Square n D) (i j : Nat) (h : some j ∈ ((exactStage thr k D).1[i]?).getD []) :
    i < n ∧ j < n ∧ ∀ t, thr = some t → entry D i j < t := by
  cases hix : (exactStage thr k D).1[i]? with
  | none => rw [hix] at h; simp at h
  | some ix =>
    rw [hix] at h
    simp only [Option.getD_some] at h
    obtain ⟨c, hc⟩ := List.getElem?_of_mem h
    obtain ⟨h1, h2, h3, _⟩ := exactStage_listed_near thr k n D hD i c j ix hix hc
    exact ⟨h1, h2, h3⟩

/-- **4. `exactStage_nearest`.**  k-nearest property: every listed neighbour `j` of row `i` is at
    most as far as every index `l` of the row that is not listed — in the extended order on the
    thresholded matrix, and (hence) in the original matrix. -/
theorem exactStage_nearest (thr : Option ℝ) (k n : Nat) (D : List (List ℝ)) (hD : Square n D)
    (i j l : Nat) (ix : List (Option Nat)) (hix : (exactStage thr k D).1[i]? = some ix)
    (hj : some j ∈ ix) (hl : l < n) (hnl : some l ∉ ix) :
    extLe (cut thr (entry D i j)) (cut thr (entry D i l)) ∧ entry D i j ≤ entry D i l := by
  rw [exactStage_fst_getElem?] at hix
  cases hrow : D[i]? with
  | none => rw [hrow] at hix; simp at hix
  | some row =>
    rw [hrow] at hix
    simp only [Option.map_some, Option.some.injEq] at hix
    subst hix
    have hlen : row.length = n := hD.cols row (List.mem_of_getElem? hrow)
    obtain ⟨hjm, x, hx⟩ := mem_knnRow_fst.1 hj
    have hjl : j < row.length := by
      have := mem_argsortExt.1 (List.mem_of_mem_take hjm)
      simpa using this
    have hll : l < row.length := hlen ▸ hl
    have hle := knnRow_nearest k _ j l hj (by simpa using hll) hnl
    rw [trow_getD thr hrow hjl, trow_getD thr hrow hll] at hle
    refine ⟨hle, ?_⟩
    rw [trow_getD thr hrow hjl] at hx
    obtain ⟨rfl, hlt⟩ := cut_eq_some.1 hx
    rw [hx] at hle
    cases hcl : cut thr (entry D i l) with
    | none =>
      obtain ⟨t, ht, hle'⟩ := cut_eq_none.1 hcl
      exact le_of_lt (lt_of_lt_of_le (hlt t ht) hle')
    | some y =>
      rw [hcl] at hle
      obtain ⟨rfl, _⟩ := cut_eq_some.1 hcl
      exact hle

/-- **5. `exactStage_self_first`.**  If `D[i][i] = 0`, every other entry of row `i` is positive,
    `0` is below the disconnection distance and `k ≥ 1`, then column 0 of row `i` is the sample
    itself at distance `0`. -/
theorem exactStage_self_first (thr : Option ℝ) (k n : Nat) (D : List (List ℝ)) (hD : Square n D)
    (i : Nat) (hi : i < n) (hk : 1 ≤ k) (hdiag : entry D i i = 0)
    (hpos : ∀ l, l < n → l ≠ i → 0 < entry D i l) (hthr : ∀ t, thr = some t → 0 < t) :
    ∃ ix d, (exactStage thr k D).1[i]? = some ix ∧ (exactStage thr k D).2[i]? = some d
      ∧ ix[0]? = some (some i) ∧ d[0]? = some (some 0) := by
  have hi' : i < D.length := hD.rows ▸ hi
  have hrow : D[i]? = some D[i] := List.getElem?_eq_getElem hi'
  have hlen : (D[i]).length = n := hD.cols _ (List.getElem_mem hi')
  have hil : i < (D[i]).length := hlen ▸ hi
  have h0 : cut thr (0 : ℝ) = some 0 := cut_eq_some.2 ⟨rfl, hthr⟩
  obtain ⟨h1, h2⟩ := knnRow_self_first k ((D[i]).map (cut thr)) i 0 hk (by simpa using hil)
    (by rw [trow_getD thr hrow hil, hdiag, h0])
    (by
      intro l hl hne
      have hll : l < (D[i]).length := by simpa using hl
      rw [trow_getD thr hrow hll]
      cases hcl : cut thr (entry D i l) with
      | none => trivial
      | some y =>
        obtain ⟨rfl, _⟩ := cut_eq_some.1 hcl
        exact hpos l (hlen ▸ hll) hne)
  refine ⟨(knnRow k ((D[i]).map (cut thr))).1, (knnRow k ((D[i]).map (cut thr))).2, ?_, ?_, h1, h2⟩
  · rw [exactStage_fst_getElem?, hrow]; rfl
  · rw [exactStage_snd_getElem?, hrow]; rfl

end Table

/-! ## the fitted graph of the exact path -/

section Pipeline
open Graph
variable (tol minScale target : ℝ) (lcIdx nIter : Nat)

/--
  **6. `C04_pipeline_no_far_edge`.**  For a square distance matrix, `n_neighbors = k ≤ n`, an
  integral `local_connectivity ≥ 1` (`lcFrac = 0`; the default is 1.0) and any mix ratio
  `r ∈ [0, 1]`: the graph stage on the table of the exact neighbour stage succeeds, and every
  stored entry `(i, j, v)` of the fitted graph is off the diagonal, has `0 < v ≤ 1`, is mirrored,
  joins two genuine samples, and — when a disconnection distance `t` is set — `D[i][j] < t` or
  `D[j][i] < t`: no edge joins two samples that are at or beyond the disconnection distance.
-/
theorem C04_pipeline_no_far_edge (htol : 0 ≤ tol) (hlc : 1 ≤ lcIdx) (r : ℝ) (hr0 : 0 ≤ r)
    (hr1 : r ≤ 1) (thr : Option ℝ) (k n : Nat) (D : List (List ℝ)) (hD : Square n D)
    (hk : k ≤ n) :
    ∃ G, graphOfKnn realT tol minScale target lcIdx 0 nIter r
          (exactStage thr k D).1 (exactStage thr k D).2 = some G ∧
      ∀ i j v, (i, j, v) ∈ G →
        i ≠ j ∧ 0 < v ∧ v ≤ 1 ∧ (j, i, v) ∈ G ∧ i < n ∧ j < n ∧
        ∀ t, thr = some t → entry D i j < t ∨ entry D j i < t := by
  have hv := exactStage_valid thr k n D hD hk
  have hn := C02.noNanRho_integral tol htol lcIdx hlc (exactStage thr k D).2
  have hG := C02.graphOfKnn_eq_some tol minScale target lcIdx 0 nIter r _ _ hv hn
  refine ⟨_, hG, ?_⟩
  intro i j v h
  obtain ⟨hpos, hle, hsym, hij, hlist, _⟩ :=
    C02.C02_pipeline tol minScale target lcIdx 0 nIter r hr0 hr1 _ _ hv hn _ hG i j v h
  refine ⟨hij, hpos, hle, hsym, ?_⟩
  rcases hlist with h1 | h1
  · obtain ⟨hi, hj, hlt⟩ := exactStage_listed_near_mem thr k n D hD i j h1
    exact ⟨hi, hj, fun t ht => Or.inl (hlt t ht)⟩
  · obtain ⟨hj, hi, hlt⟩ := exactStage_listed_near_mem thr k n D hD j i h1
    exact ⟨hi, hj, fun t ht => Or.inr (hlt t ht)⟩

/-- for a symmetric distance matrix the disjunction collapses: every edge of the fitted graph
    joins two samples strictly closer than the disconnection distance. -/
theorem C04_pipeline_no_far_edge_symm (htol : 0 ≤ tol) (hlc : 1 ≤ lcIdx) (r : ℝ) (hr0 : 0 ≤ r)
    (hr1 : r ≤ 1) (t : ℝ) (k n : Nat) (D : List (List ℝ)) (hD : Square n D) (hk : k ≤ n)
    (hsymm : ∀ a b, entry D a b = entry D b a) (G : Coo ℝ)
    (hG : graphOfKnn realT tol minScale target lcIdx 0 nIter r
          (exactStage (some t) k D).1 (exactStage (some t) k D).2 = some G)
    (i j : Nat) (v : ℝ) (h : (i, j, v) ∈ G) : entry D i j < t := by
  obtain ⟨G', hG', hall⟩ := C04_pipeline_no_far_edge tol minScale target lcIdx nIter htol hlc r hr0
    hr1 (some t) k n D hD hk
  rw [hG] at hG'
  simp only [Option.some.injEq] at hG'
  subst hG'
  rcases (hall i j v h).2.2.2.2.2.2 t rfl with h1 | h1
  · exact h1
  · rw [hsymm]; exact h1

/--
  **7. `C04_pipeline_isolated`.**  If every off-diagonal entry of row `i` and of column `i` is at
  or beyond the disconnection distance, sample `i` is isolated: no entry of the fitted graph has
  `i` as row or column.
-/
theorem C04_pipeline_isolated (htol : 0 ≤ tol) (hlc : 1 ≤ lcIdx) (r : ℝ) (hr0 : 0 ≤ r)
    (hr1 : r ≤ 1) (t : ℝ) (k n : Nat) (D : List (List ℝ)) (hD : Square n D) (hk : k ≤ n)
    (i : Nat) (hfar : ∀ l, l < n → l ≠ i → t ≤ entry D i l ∧ t ≤ entry D l i) (G : Coo ℝ)
    (hG : graphOfKnn realT tol minScale target lcIdx 0 nIter r
          (exactStage (some t) k D).1 (exactStage (some t) k D).2 = some G)
    (a b : Nat) (v : ℝ) (h : (a, b, v) ∈ G) : a ≠ i ∧ b ≠ i := by
  obtain ⟨G', hG', hall⟩ := C04_pipeline_no_far_edge tol minScale target lcIdx nIter htol hlc r hr0
    hr1 (some t) k n D hD hk
  rw [hG] at hG'
  simp only [Option.some.injEq] at hG'
  subst hG'
  obtain ⟨hab, _, _, _, ha, hb, hnear⟩ := hall a b v h
  constructor
  · rintro rfl
    have := hfar b hb (Ne.symm hab)
    rcases hnear t rfl with h1 | h1 <;> linarith [this.1, this.2]
  · rintro rfl
    have := hfar a ha hab
    rcases hnear t rfl with h1 | h1 <;> linarith [this.1, this.2]

end Pipeline

/-! ## 8. non-vacuity

  Three points on a line at 0, 1, 3 (`exD` is their distance matrix) with disconnection distance
  2.5: the pair (0, 2) at distance 3 is cut, the pair (1, 2) at distance 2 stays.  With
  `n_neighbors = 3` the exact stage produces exactly the table `C02.exIdx` / `C02.exDs`. -/

noncomputable def exD : List (List ℝ) := [[0, 1, 3], [1, 0, 2], [3, 2, 0]]

theorem exD_square : Square 3 exD := ⟨rfl, by simp [exD]⟩

/-- the table of the example, evaluated over ℝ. -/
theorem exStage : exactStage (some (5/2)) 3 exD = (C02.exIdx, C02.exDs) := by
  simp [exactStage, threshold, knnRow, argsortExt, insertExt, ltExt, cut, exD, C02.exIdx,
    C02.exDs, List.range_succ]
  norm_num [insertExt, ltExt]

/-- the same table with `n_neighbors = 2`. -/
theorem exStage2 : exactStage (some (5/2)) 2 exD
    = ([[some 0, some 1], [some 1, some 0], [some 2, some 1]],
       [[some 0, some 1], [some 0, some 1], [some 0, some 2]]) := by
  simp [exactStage, threshold, knnRow, argsortExt, insertExt, ltExt, cut, exD, List.range_succ]
  norm_num [insertExt, ltExt]

/-- the same evaluation by the kernel over ℚ (the executable model itself, no rewriting). -/
example : exactStage (some (5/2 : ℚ)) 3 [[0, 1, 3], [1, 0, 2], [3, 2, 0]]
    = (C02.exIdx, [[some 0, some 1, none], [some 0, some 1, some 2], [some 0, some 2, none]]) := by
  decide +kernel

/-- ties keep index order and `inf` sorts last. -/
example : argsortExt ([some 1, some 0, some 1, none, some 0] : List (Option ℚ)) = [1, 4, 0, 2, 3] := by
  decide +kernel

/-- `exactStage_valid`, `exactStage_listed_near` on the example: column 2 of row 1 lists sample 2
    at distance `D[1][2] = 2 < 2.5`. -/
example : C02.ValidTable (exactStage (some (5/2)) 3 exD).1 (exactStage (some (5/2)) 3 exD).2
    ∧ entry exD 1 2 < 5/2 := by
  refine ⟨exactStage_valid _ 3 3 exD exD_square le_rfl, ?_⟩
  exact (exactStage_listed_near (some (5/2)) 3 3 exD exD_square 1 2 2 [some 1, some 0, some 2]
    (by rw [exStage]; rfl) rfl).2.2.1 _ rfl

/-- `exactStage_nearest` on the example with `n_neighbors = 2`: in row 0 the listed sample 1 is
    at most as far as the unlisted sample 2. -/
example : entry exD 0 1 ≤ entry exD 0 2 :=
  (exactStage_nearest (some (5/2)) 2 3 exD exD_square 0 1 2 [some 0, some 1]
    (by rw [exStage2]; rfl) (by decide) (by decide) (by decide)).2

/-- the hypotheses of `exactStage_self_first` hold for every row of the example. -/
example : ∃ ix d, (exactStage (some (5/2)) 3 exD).1[2]? = some ix
    ∧ (exactStage (some (5/2)) 3 exD).2[2]? = some d
    ∧ ix[0]? = some (some 2) ∧ d[0]? = some (some 0) := by
  refine exactStage_self_first (some (5/2)) 3 3 exD exD_square 2 (by decide) (by decide)
    (by simp [entry, exD]) ?_ ?_
  · intro l hl hne
    interval_cases l <;> simp_all [entry, exD]
  · intro t ht
    simp only [Option.some.injEq] at ht
    rw [← ht]; norm_num

/-- **the pipeline on the example**: for the default `local_connectivity = 1.0`, any tolerance
    `≥ 0`, any `r ∈ (0, 1]`, the graph stage succeeds on the table of the exact stage, the fitted
    graph joins 0–1 and 1–2, and does not join the pair 0–2 cut by the disconnection distance. -/
example (tol minScale target : ℝ) (htol : 0 ≤ tol) (nIter : Nat) (r : ℝ) (hr0 : 0 < r)
    (hr1 : r ≤ 1) :
    ∃ G, Graph.graphOfKnn realT tol minScale target 1 0 nIter r
          (exactStage (some (5/2)) 3 exD).1 (exactStage (some (5/2)) 3 exD).2 = some G ∧
      (∃ v, (0, 1, v) ∈ G ∧ (1, 0, v) ∈ G) ∧ (∃ v, (1, 2, v) ∈ G ∧ (2, 1, v) ∈ G)
      ∧ ∀ v, (0, 2, v) ∉ G ∧ (2, 0, v) ∉ G := by
  obtain ⟨G, hG, hall⟩ := C04_pipeline_no_far_edge tol minScale target 1 nIter htol le_rfl r
    (le_of_lt hr0) hr1 (some (5/2)) 3 3 exD exD_square le_rfl
  have hv := exactStage_valid (some (5/2)) 3 3 exD exD_square le_rfl
  have hn := C02.noNanRho_integral tol htol 1 Nat.one_pos (exactStage (some (5/2)) 3 exD).2
  refine ⟨G, hG, ?_, ?_, ?_⟩
  · exact C02.edge_of_listed tol minScale target 1 0 nIter r hr0 hr1 _ _ hv hn G hG 0 1
      (by decide) (by rw [exStage]; decide)
  · exact C02.edge_of_listed tol minScale target 1 0 nIter r hr0 hr1 _ _ hv hn G hG 1 2
      (by decide) (by rw [exStage]; decide)
  · intro v
    constructor
    · intro h
      rcases (hall 0 2 v h).2.2.2.2.2.2 _ rfl with h1 | h1 <;>
        · simp [entry, exD] at h1; linarith
    · intro h
      rcases (hall 2 0 v h).2.2.2.2.2.2 _ rfl with h1 | h1 <;>
        · simp [entry, exD] at h1; linarith

/-- a matrix on which the hypotheses of `C04_pipeline_isolated` hold: points at 0, 1 and 4 with
    disconnection distance 2.5 — sample 2 is at distance ≥ 3 from both others. -/
noncomputable def exFar : List (List ℝ) := [[0, 1, 4], [1, 0, 3], [4, 3, 0]]

theorem exFar_square : Square 3 exFar := ⟨rfl, by simp [exFar]⟩

example (tol minScale target : ℝ) (htol : 0 ≤ tol) (nIter : Nat) (r : ℝ) (hr0 : 0 ≤ r)
    (hr1 : r ≤ 1) :
    ∃ G, Graph.graphOfKnn realT tol minScale target 1 0 nIter r
          (exactStage (some (5/2)) 3 exFar).1 (exactStage (some (5/2)) 3 exFar).2 = some G ∧
      ∀ a b v, (a, b, v) ∈ G → a ≠ 2 ∧ b ≠ 2 := by
  obtain ⟨G, hG, _⟩ := C04_pipeline_no_far_edge tol minScale target 1 nIter htol le_rfl r
    hr0 hr1 (some (5/2)) 3 3 exFar exFar_square le_rfl
  refine ⟨G, hG, ?_⟩
  apply C04_pipeline_isolated tol minScale target 1 nIter htol le_rfl r hr0 hr1 (5/2) 3 3 exFar
    exFar_square le_rfl 2 ?_ G hG
  intro l hl hne
  interval_cases l <;> simp_all [entry, exFar] <;> norm_num

end C04
end Umap
