/-
  C14SrcA — the gradient kernels generated from the source text of umap/distances.py
  (`Generated/DistSrc.lean`, namespace `Umap.Src`) are EQUAL to the hand-written model `Umap.Grad`
  the C14 property theorems are about, for all vectors of all lengths (under the shape facts the
  Python code relies on).

  Generality.
  * `euclideanGrad_src`, `standardisedEuclideanGrad_src`, `manhattanGrad_src`, `minkowskiGrad_src`,
    `weightedMinkowskiGrad_src`, `brayCurtisGrad_src`: any scalar type `α` (pure fold manipulation).
  * `chebyshevGrad_src`, `mahalanobisGrad_src`, `canberraGrad_src`: ordered field `K`.
    Their `_generic` forms hold for any `α` under explicitly named hypotheses:
      - `hadd0 : ∀ a, a + 0 = a` (canberra only): the source leaves `result` untouched when the
        denominator is not positive, the model adds a `0` term.
-/
import UmapModel.Metrics
import UmapModel.Grad
import Generated.DistSrc
import UmapProofs.SrcLemmas
import UmapProofs.SrcLemmasD
import Mathlib.Tactic

set_option linter.unusedSectionVars false

namespace Umap
namespace C14SrcA
open SrcLemmas SrcLemmasD

section generic
variable {α : Type} [Add α] [Sub α] [Mul α] [Div α] [Neg α] [LT α] [LE α]
  [DecidableLT α] [DecidableLE α] [OfNat α 0] [OfNat α 1] [NatCast α]

theorem euclideanGrad_src (T : Transc α) (x y : List α) (h : x.length = y.length) :
    Src.euclideanGrad T x y = Grad.euclideanGrad T (1 / ((1000000 : Nat) : α)) x y := by
  unfold Src.euclideanGrad Grad.euclideanGrad Metrics.euclidean Metrics.diffs
  simp only []
  rw [foldl_range_getD₂ x y 0 0 h (fun st a b => st + Src.sq (a - b))]
  simp [sumL, List.foldl_map, Src.sq, zipWith_eq_map_zip]

theorem standardisedEuclideanGrad_src (T : Transc α) (x y sigma : List α)
    (h : x.length = y.length) (hs : x.length = sigma.length) :
    Src.standardisedEuclideanGrad T x y sigma
      = Grad.seuclideanGrad T (1 / ((1000000 : Nat) : α)) sigma x y := by
  unfold Src.standardisedEuclideanGrad Grad.seuclideanGrad Metrics.seuclidean Metrics.diffs
  simp only []
  rw [foldl_range_getD₃ x y sigma 0 0 0 h hs (fun st a b s => st + Src.sq (a - b) / s)]
  simp [sumL, List.foldl_map, Src.sq, zipWith_eq_map_zip, List.zip_map_left, List.zip_map_right]

theorem manhattanGrad_src (x y : List α) (h : x.length = y.length) :
    Src.manhattanGrad x y = Grad.manhattanGrad x y := by
  unfold Src.manhattanGrad Grad.manhattanGrad Metrics.manhattan Metrics.diffs
  simp only []
  rw [foldl_pair (List.range x.length)
    (fun (r : α) (i : Nat) => r + absV (x.getD i 0 - y.getD i 0))
    (fun (g : List α) (i : Nat) => g.set i (signV (x.getD i 0 - y.getD i 0)))]
  rw [foldl_range_getD₂ x y 0 0 h (fun st a b => st + absV (a - b)),
    foldl_set, map_range_getD₂ x y 0 0 h (fun a b => signV (a - b))]
  simp [sumL, List.foldl_map]

theorem minkowskiGrad_src (T : Transc α) (x y : List α) (p : α) (h : x.length = y.length) :
    Src.minkowskiGrad T x y p = Grad.minkowskiGrad T p x y := by
  unfold Src.minkowskiGrad Grad.minkowskiGrad Metrics.diffs
  simp only []
  rw [foldl_range_getD₂ x y 0 0 h (fun st a b => st + T.pow (absV (a - b)) p)]
  rw [foldl_set]
  rw [map_range_getD₂ x y 0 0 h (fun a b => T.pow (absV (a - b)) (p - 1) * signPM (a - b) * _)]
  simp [sumL, List.foldl_map]

theorem weightedMinkowskiGrad_src (T : Transc α) (x y w : List α) (p : α)
    (h : x.length = y.length) (hw : x.length = w.length) :
    Src.weightedMinkowskiGrad T x y w p = Grad.wminkowskiGrad T w p x y := by
  unfold Src.weightedMinkowskiGrad Grad.wminkowskiGrad Metrics.diffs
  simp only []
  rw [foldl_range_getD₃ x y w 0 0 0 h hw (fun st a b c => st + c * T.pow (absV (a - b)) p)]
  rw [foldl_set]
  rw [map_range_getD₃ x y w 0 0 0 h hw
    (fun a b c => c * T.pow (absV (a - b)) (p - 1) * signPM (a - b) * _)]
  simp [sumL, List.foldl_map, List.zip_map_left]

theorem brayCurtisGrad_src (x y : List α) (h : x.length = y.length) :
    Src.brayCurtisGrad x y = Grad.brayCurtisGrad x y := by
  unfold Src.brayCurtisGrad Grad.brayCurtisGrad
  simp only []
  rw [foldl_pair (List.range x.length)
    (fun (r : α) (i : Nat) => r + absV (x.getD i 0 - y.getD i 0))
    (fun (r : α) (i : Nat) => r + absV (x.getD i 0 + y.getD i 0))]
  rw [foldl_range_getD₂ x y 0 0 h (fun st a b => st + absV (a - b)),
    foldl_range_getD₂ x y 0 0 h (fun st a b => st + absV (a + b))]
  simp only [foldl_add_eq_sumL, zipWith_eq_map_zip, List.map_map]
  split
  · simp [List.zip_map', Function.comp_def]
  · simp [List.map_const']

/-- the running (max, argmax) pair of the source and the (counter, argmax, max) triple of the model -/
theorem cheb_fold {β : Type} (d : β → α) (l : List β) (k mi : Nat) (m : α) :
    (l.zipIdx k).foldl (fun (st : α × Nat) p =>
        if st.1 < absV (d p.1) then (absV (d p.1), p.2) else st) (m, mi)
      = (let r := (l.map d).foldl (fun (acc : Nat × Nat × α) v =>
          let a := absV v
          if acc.2.2 < a then (acc.1 + 1, acc.1, a) else (acc.1 + 1, acc.2.1, acc.2.2)) (k, mi, m)
         (r.2.2, r.2.1)) := by
  induction l generalizing k mi m with
  | nil => rfl
  | cons a l ih =>
    simp only [List.zipIdx_cons, List.foldl_cons, List.map_cons]
    by_cases hc : m < absV (d a)
    · simp only [hc, if_true]; exact ih _ _ _
    · simp only [hc, if_false]; exact ih _ _ _

/-- Generic form. -/
theorem chebyshevGrad_src_generic (x y : List α)
    (h : x.length = y.length) :
    Src.chebyshevGrad x y = Grad.chebyshevGrad x y := by
  unfold Src.chebyshevGrad Grad.chebyshevGrad Grad.argmaxAbs Metrics.diffs
  simp only [Prod.mk.eta]
  have hf := foldl_range_getD₂_idx x y 0 0 h
    (fun (st : α × Nat) i a b => if st.1 < absV (a - b) then (absV (a - b), i) else st) ((0 : α), 0)
  rw [hf, cheb_fold (fun p : α × α => p.1 - p.2) (x.zip y) 0 0 0]
  simp only []
  generalize (List.foldl (fun (acc : Nat × Nat × α) v =>
      if acc.2.2 < absV v then (acc.1 + 1, acc.1, absV v) else (acc.1 + 1, acc.2.1, acc.2.2))
      (0, 0, 0) (List.map (fun p => p.1 - p.2) (x.zip y))) = r
  congr 1
  rw [replicate_set]
  have : (List.range x.length).map (fun i => if i = r.2.1 then
        signV (x.getD r.2.1 0 - y.getD r.2.1 0) else (0 : α))
      = (List.range x.length).map (fun i => if i = r.2.1 then
        signV (x.getD i 0 - y.getD i 0) else (0 : α)) := by
    apply List.map_congr_left
    intro i _
    by_cases hi : i = r.2.1
    · rw [if_pos hi, if_pos hi, hi]
    · rw [if_neg hi, if_neg hi]
  rw [this, map_range_getD₂_idx x y 0 0 h (fun i a b => if i = r.2.1 then signV (a - b) else 0)]
  simp [List.zipIdx_map]

theorem mahalanobisGrad_src_generic (T : Transc α) (x y : List α)
    (vinv : List (List α)) (h : x.length = y.length)
    (hv : vinv.length = x.length ∧ ∀ r ∈ vinv, r.length = x.length) :
    Src.mahalanobisGrad T x y vinv
      = Grad.mahalanobisGrad T (1 / ((1000000 : Nat) : α)) vinv x y := by
  unfold Src.mahalanobisGrad Grad.mahalanobisGrad Metrics.diffs
  simp only []
  rw [foldl_set, map_range_getD₂ x y 0 0 h (fun a b => a - b)]
  have hd : (List.map (fun p : α × α => p.1 - p.2) (x.zip y)).length = x.length := by simp [h]
  generalize List.map (fun p : α × α => p.1 - p.2) (x.zip y) = d at hd ⊢
  rw [foldl_nested_set x.length (0 : α) (fun i s j => s + (vinv.getD i []).getD j 0 * d.getD j 0)
    (fun (r : α) i t => r + t * d.getD i 0) (List.range x.length) 0 x.length (Nat.le_refl _)]
  rw [foldl_set]
  -- the inner accumulation is the model's row · d
  have hT : ∀ i ∈ List.range x.length,
      (List.range x.length).foldl (fun s j => s + (vinv.getD i []).getD j 0 * d.getD j 0) (0 : α)
        = sumL (((vinv.getD i []).zip d).map (fun q => q.1 * q.2)) := by
    intro i hi
    have hi' : i < vinv.length := by rw [hv.1]; exact List.mem_range.mp hi
    have hrow : (vinv.getD i []).length = x.length := by
      apply hv.2
      rw [List.getD_eq_getElem?_getD, List.getElem?_eq_getElem hi']
      exact List.getElem_mem hi'
    rw [← hrow, foldl_range_getD₂ (vinv.getD i []) d 0 0 (hrow.trans hd.symm)
      (fun st a b => st + a * b)]
    simp [sumL, List.foldl_map]
  have hmap : (List.range x.length).map (fun i =>
        (List.range x.length).foldl (fun s j => s + (vinv.getD i []).getD j 0 * d.getD j 0) (0 : α))
      = vinv.map (fun row => sumL ((row.zip d).map (fun q => q.1 * q.2))) := by
    rw [List.map_congr_left hT, ← hv.1,
      map_range_getD vinv [] (fun row => sumL ((row.zip d).map (fun q => q.1 * q.2)))]
  have hres : (List.range x.length).foldl (fun r i => r +
        (List.range x.length).foldl (fun s j => s + (vinv.getD i []).getD j 0 * d.getD j 0) (0 : α)
          * d.getD i 0) (0 : α)
      = sumL (((vinv.map (fun row => sumL ((row.zip d).map (fun q => q.1 * q.2)))).zip d).map
          (fun q => q.1 * q.2)) := by
    have : (List.range x.length).foldl (fun r i => r +
          (List.range x.length).foldl (fun s j => s + (vinv.getD i []).getD j 0 * d.getD j 0) (0 : α)
            * d.getD i 0) (0 : α)
        = (List.range x.length).foldl (fun r i => r +
          sumL (((vinv.getD i []).zip d).map (fun q => q.1 * q.2)) * d.getD i 0) (0 : α) := by
      apply List.foldl_ext
      intro r i hi
      rw [hT i hi]
    rw [this, ← hv.1, foldl_range_getD₂ vinv d [] 0 (hv.1.trans hd.symm)
      (fun st row b => st + sumL ((row.zip d).map (fun q => q.1 * q.2)) * b)]
    simp [sumL, List.foldl_map, List.zip_map_left]
  simp only [hmap, hres]

/-- Generic form.  One fact about the scalars is needed (see
    the header) and `hadd0` — the source skips a coordinate with a zero denominator, the model adds `0`. -/
theorem canberraGrad_src_generic (hadd0 : ∀ a : α, a + 0 = a)
    (x y : List α) (h : x.length = y.length) :
    Src.canberraGrad x y = Grad.canberraGrad x y := by
  unfold Src.canberraGrad Grad.canberraGrad Metrics.canberra
  simp only [Prod.mk.eta]
  rw [foldl_pair_cond (List.range x.length)
    (fun i => 0 < absV (x.getD i 0) + absV (y.getD i 0))
    (fun (r : α) (i : Nat) => r + absV (x.getD i 0 - y.getD i 0)
      / (absV (x.getD i 0) + absV (y.getD i 0)))
    (fun (g : List α) (i : Nat) => g.set i
      (signV (x.getD i 0 - y.getD i 0) / (absV (x.getD i 0) + absV (y.getD i 0))
        - absV (x.getD i 0 - y.getD i 0) * signV (x.getD i 0)
          / Src.sq (absV (x.getD i 0) + absV (y.getD i 0))))]
  rw [foldl_set_cond (fun i => 0 < absV (x.getD i 0) + absV (y.getD i 0))]
  rw [map_range_getD₂ x y 0 0 h (fun a b => if 0 < absV a + absV b then
      signV (a - b) / (absV a + absV b) - absV (a - b) * signV a / Src.sq (absV a + absV b) else 0)]
  have h1 : (fun (s : α) (i : Nat) => if 0 < absV (x.getD i 0) + absV (y.getD i 0) then
        s + absV (x.getD i 0 - y.getD i 0) / (absV (x.getD i 0) + absV (y.getD i 0)) else s)
      = (fun (s : α) (i : Nat) => s + (if 0 < absV (x.getD i 0) + absV (y.getD i 0) then
        absV (x.getD i 0 - y.getD i 0) / (absV (x.getD i 0) + absV (y.getD i 0)) else 0)) := by
    funext s i
    split <;> simp [hadd0]
  rw [h1, foldl_range_getD₂ x y 0 0 h (fun st a b => st + (if 0 < absV a + absV b then
      absV (a - b) / (absV a + absV b) else 0))]
  simp [sumL, List.foldl_map, Src.sq]

end generic
/-! ### the three kernels above that need facts about the scalars, over an ordered field -/

section field
variable {K : Type} [Field K] [LinearOrder K] [IsStrictOrderedRing K]

theorem chebyshevGrad_src (x y : List K) (h : x.length = y.length) :
    Src.chebyshevGrad x y = Grad.chebyshevGrad x y :=
  chebyshevGrad_src_generic x y h

theorem mahalanobisGrad_src (T : Transc K) (x y : List K) (vinv : List (List K))
    (h : x.length = y.length)
    (hv : vinv.length = x.length ∧ ∀ r ∈ vinv, r.length = x.length) :
    Src.mahalanobisGrad T x y vinv
      = Grad.mahalanobisGrad T (1 / ((1000000 : Nat) : K)) vinv x y :=
  mahalanobisGrad_src_generic T x y vinv h hv

theorem canberraGrad_src (x y : List K) (h : x.length = y.length) :
    Src.canberraGrad x y = Grad.canberraGrad x y :=
  canberraGrad_src_generic add_zero x y h

end field

end C14SrcA
end Umap
