import UmapModel.Sgd
