/-
  C07 — layout optimisation performs exactly the UMAP stochastic gradient descent.

  Model: `Umap.Sgd` (layouts.py `_optimize_layout_euclidean_single_epoch`,
  `optimize_layout_euclidean`; umap_.py `make_epochs_per_sample`) and `Umap.Rng`
  (utils.py `tau_rand_int`).  Theorems are over ℝ (coefficients, learning rate), over any
  linear ordered field (clocks, clip) and over `Nat`/`Int` (negative-sample index).
-/
import UmapProofs.Basic
import UmapProofs.RealT
import UmapModel.Sgd
import Mathlib.Tactic
import Mathlib.Analysis.SpecialFunctions.Pow.Real

namespace Umap
namespace C07
open Sgd

/-! ### (a) the sampling clock: an edge of weight w is used ⌊(N-1)/eps⌋ ≈ N·w/w_max times -/

section Clock
variable {K : Type} [Field K] [LinearOrder K] [IsStrictOrderedRing K]

/-- after epochs `0..n` the clock reads `(c+1)·eps` where `c` is the number of visits so far,
    and `c·eps ≤ n < (c+1)·eps`. -/
theorem clock_inv (eps : K) (h1 : 1 ≤ eps) (n : Nat) :
    let r := runClock eps (n + 1)
    r.1 = ((r.2 : K) + 1) * eps ∧ (r.2 : K) * eps ≤ n ∧ (n : K) < ((r.2 : K) + 1) * eps := by
  induction n with
  | zero =>
    simp [runClock, List.range_succ, edgeClock]
    split_ifs with h
    · exfalso; linarith
    · simp; linarith
  | succ n ih =>
    simp only [runClock, List.range_succ, List.foldl_append, List.foldl_cons, List.foldl_nil] at ih ⊢
    set st := List.foldl (edgeClock eps) (eps, 0) (List.range n) with hst
    obtain ⟨h1', h2, h3⟩ := ih
    set s1 := edgeClock eps st n with hs1
    unfold edgeClock
    split_ifs with h
    · refine ⟨?_, ?_, ?_⟩
      · simp [h1']; ring
      · push_cast; rw [h1'] at h; push_cast at h; linarith
      · push_cast; nlinarith
    · refine ⟨h1', ?_, ?_⟩
      · push_cast; linarith
      · push_cast; rw [h1'] at h; push_cast at h; linarith

/-- **(a)** hence the number of uses in `N ≥ 1` epochs differs from `N / eps = N·w/w_max`
    by less than 1 + 1/eps ≤ 2. -/
theorem visits_proportional (eps : K) (h1 : 1 ≤ eps) (n : Nat) :
    let c := (runClock eps (n + 1)).2
    ((n + 1 : Nat) : K) / eps - 2 < c ∧ (c : K) ≤ ((n + 1 : Nat) : K) / eps := by
  intro c
  obtain ⟨_, h2, h3⟩ := clock_inv eps h1 n
  have hpos : 0 < eps := lt_of_lt_of_le one_pos h1
  constructor
  · rw [div_sub' (ne_of_gt hpos), div_lt_iff₀ hpos]
    push_cast; nlinarith
  · rw [le_div_iff₀ hpos]; push_cast; linarith

/-- edges weaker than `w_max / N` (`eps > N - 1` suffices) are never used. -/
theorem pruned_never_due (eps : K) (N : Nat) (h : ((N : K) - 1) < eps) :
    runClock eps N = (eps, 0) := by
  unfold runClock
  have : ∀ m, m ≤ N → (List.range m).foldl (edgeClock eps) (eps, 0) = (eps, 0) := by
    intro m hm
    induction m with
    | zero => rfl
    | succ m ih =>
      rw [List.range_succ, List.foldl_append, ih (by omega)]
      simp only [List.foldl_cons, List.foldl_nil, edgeClock]
      rw [if_neg]
      push Not
      have : (m : K) + 1 ≤ N := by exact_mod_cast hm
      linarith
  exact this N (le_refl _)

/-- `make_epochs_per_sample`: for a positive weight the period is `w_max / w`. -/
theorem eps_eq (w wmax : K) (N : Nat) (hN : 0 < N) (hw : 0 < w) (hm : 0 < wmax) :
    (let ns := (N : K) * (w / wmax); if 0 < ns then (N : K) / ns else -1) = wmax / w := by
  have hN' : (0 : K) < N := by exact_mod_cast hN
  have : 0 < (N : K) * (w / wmax) := mul_pos hN' (div_pos hw hm)
  simp only [this, if_true]
  field_simp

/-! ### (d) clip -/

theorem clip_abs (x : K) : |clip x| ≤ 4 := by
  unfold clip
  simp only [Nat.cast_ofNat]
  split_ifs with h1 h2
  · rw [abs_of_pos (by norm_num : (0:K) < 4)]
  · rw [abs_neg, abs_of_pos (by norm_num : (0:K) < 4)]
  · rw [abs_le]; push Not at h1 h2; exact ⟨h2, h1⟩

theorem clip_id {x : K} (h : |x| ≤ 4) : clip x = x := by
  unfold clip
  simp only [Nat.cast_ofNat]
  rw [abs_le] at h
  rw [if_neg (not_lt.2 h.2), if_neg (not_lt.2 h.1)]

/-- **(d)** every elementary coordinate write moves the coordinate by at most `4·α`. -/
theorem move_le_four_alpha (cur gc diff alpha : K) (ha : 0 ≤ alpha) :
    |(cur + clip (gc * diff) * alpha) - cur| ≤ 4 * alpha := by
  have : cur + clip (gc * diff) * alpha - cur = clip (gc * diff) * alpha := by ring
  rw [this, abs_mul, abs_of_nonneg ha]
  exact mul_le_mul_of_nonneg_right (clip_abs _) ha

/-! ### (d) the learning rate decays linearly from α₀ -/

theorem alpha_formula (a0 : K) (N n : Nat) (hn : 0 < n) :
    alphaAt a0 N n = a0 * (1 - ((n - 1 : Nat) : K) / (N : K)) := by
  unfold alphaAt; rw [if_neg (by omega)]

theorem alpha_zero (a0 : K) (N : Nat) : alphaAt a0 N 0 = a0 := by unfold alphaAt; simp

/-- constant decrement `α₀ / N` from epoch 1 on. -/
theorem alpha_linear (a0 : K) (N n : Nat) (hN : 0 < N) :
    alphaAt a0 N (n + 1) - alphaAt a0 N (n + 2) = a0 / N := by
  have hN' : (N : K) ≠ 0 := by exact_mod_cast (Nat.pos_iff_ne_zero.1 hN)
  rw [alpha_formula a0 N (n + 1) (by omega), alpha_formula a0 N (n + 2) (by omega)]
  have e1 : ((n + 1 - 1 : Nat) : K) = n := by simp
  have e2 : ((n + 2 - 1 : Nat) : K) = n + 1 := by
    have : n + 2 - 1 = n + 1 := by omega
    rw [this]; push_cast; ring
  rw [e1, e2]; field_simp; ring

/-- the rate stays positive during all `N` epochs and never increases. -/
theorem alpha_pos (a0 : K) (N n : Nat) (h0 : 0 < a0) (hn : n < N) : 0 < alphaAt a0 N n := by
  unfold alphaAt
  split_ifs with h
  · exact h0
  · have hN : (0 : K) < N := by exact_mod_cast (by omega : 0 < N)
    apply mul_pos h0
    have : ((n - 1 : Nat) : K) < N := by exact_mod_cast (by omega : n - 1 < N)
    have : ((n - 1 : Nat) : K) / N < 1 := by rw [div_lt_one hN]; exact this
    linarith

theorem alpha_antitone (a0 : K) (N n : Nat) (h0 : 0 ≤ a0) (hN : 0 < N) :
    alphaAt a0 N (n + 1) ≤ alphaAt a0 N n := by
  have hN' : (0 : K) < N := by exact_mod_cast hN
  cases n with
  | zero =>
    rw [alpha_zero, alpha_formula a0 N 1 (by omega)]
    simp
  | succ n =>
    have := alpha_linear a0 N n hN
    have : 0 ≤ a0 / N := div_nonneg h0 (le_of_lt hN')
    linarith

end Clock

/-! ### (b), (c) the coefficients are the property's closed forms in the distance d -/

/-- **(b)** with `d > 0` and `d² = dist_squared`, the coded attractive coefficient equals
    `-2ab d^(2b-2) / (1 + a d^(2b))`. -/
theorem attract_coeff_eq (a b d : ℝ) (hd : 0 < d) :
    attractCoeff realT a b (d ^ (2 : ℕ)) = (-2 * a * b * d ^ (2 * b - 2)) / (1 + a * d ^ (2 * b)) := by
  unfold attractCoeff
  have h2 : (0 : ℝ) < d ^ (2 : ℕ) := by positivity
  rw [if_pos h2]
  simp only [realT, Nat.cast_ofNat]
  have e1 : (d ^ (2 : ℕ)) ^ (b - 1) = d ^ (2 * b - 2) := by
    rw [← Real.rpow_natCast, ← Real.rpow_mul (le_of_lt hd)]
    congr 1; push_cast; ring
  have e2 : (d ^ (2 : ℕ)) ^ b = d ^ (2 * b) := by
    rw [← Real.rpow_natCast, ← Real.rpow_mul (le_of_lt hd)]
    congr 1
  rw [e1, e2]
  congr 1
  ring

/-- **(c)** the coded repulsive coefficient equals `2γb / ((0.001 + d²)(1 + a d^(2b)))`. -/
theorem repulse_coeff_eq (a b gamma d : ℝ) (hd : 0 < d) :
    repulseCoeff realT a b gamma (d ^ (2 : ℕ))
      = (2 * gamma * b) / ((0.001 + d ^ (2 : ℕ)) * (1 + a * d ^ (2 * b))) := by
  unfold repulseCoeff
  simp only [realT, Nat.cast_ofNat]
  have e2 : (d ^ (2 : ℕ)) ^ b = d ^ (2 * b) := by
    rw [← Real.rpow_natCast, ← Real.rpow_mul (le_of_lt hd)]
    congr 1
  rw [e2]
  have e3 : (1 : ℝ) / 1000 = 0.001 := by norm_num
  rw [e3]
  congr 1
  ring

/-- no denominator of a step vanishes: `a d²ᵇ + 1 > 0` and `0.001 + d² > 0` for `a ≥ 0`. -/
theorem denominators_pos (a b d2 : ℝ) (ha : 0 ≤ a) (hd : 0 ≤ d2) :
    0 < a * d2 ^ b + 1 ∧ 0 < (1 : ℝ) / 1000 + d2 := by
  constructor
  · have : 0 ≤ d2 ^ b := Real.rpow_nonneg hd b
    nlinarith
  · linarith

/-! ### (c) the negative-sample vertex is a valid index -/

theorem neg_index_in_range (r : Int) (n : Nat) (hn : 0 < n) : Rng.floorMod r n < n := by
  unfold Rng.floorMod
  have hn' : (0 : Int) < n := by exact_mod_cast hn
  have h1 := Int.emod_nonneg r (ne_of_gt hn')
  have h2 := Int.emod_lt_of_pos r hn'
  omega

theorem draw_in_range (st : Rng.RState) (n : Nat) (hn : 0 < n) : (Rng.drawVertex st n).2 < n := by
  unfold Rng.drawVertex
  exact neg_index_in_range _ n hn

/-! ### (e) the reference layout is never moved when embedding new points -/

section Frozen
variable {α : Type} [Add α] [Sub α] [Mul α] [Div α] [Neg α] [LT α] [LE α]
  [DecidableLT α] [DecidableLE α] [OfNat α 0] [OfNat α 1] [NatCast α] [Inhabited α]

theorem setHead_tail (s : State α) (j d : Nat) (v : α) : (setHead s j d v).tail = s.tail := rfl

theorem foldl_tail {β : Type} (f : State α → β → State α) (h : ∀ t x, (f t x).tail = t.tail)
    (l : List β) (s : State α) : (l.foldl f s).tail = s.tail := by
  induction l generalizing s with
  | nil => rfl
  | cons x l ih => simp only [List.foldl_cons]; rw [ih, h]

theorem foldl_setHead_tail (g : State α → Nat → α) (j : Nat) (l : List Nat) (s : State α) :
    (l.foldl (fun t d => setHead t j d (g t d)) s).tail = s.tail :=
  foldl_tail (fun t d => setHead t j d (g t d)) (fun _ _ => rfl) l s

theorem attractMove_tail (rnd : α → α) (P : Params α) (hm : P.moveOther = false) (alpha gc : α)
    (cor : Option α) (j k : Nat) (s : State α) :
    (attractMove rnd P alpha gc cor j k s).tail = s.tail := by
  unfold attractMove
  apply foldl_tail
  intro t d
  simp only [hm, Bool.false_eq_true, if_false]
  rfl

theorem negSample_tail (T : Transc α) (rnd : α → α) (P : Params α) (alpha : α) (j : Nat)
    (s : State α) : (negSample T rnd P alpha j s).tail = s.tail := by
  unfold negSample
  dsimp only
  split_ifs <;> first
    | rfl
    | exact foldl_setHead_tail _ _ _ _

theorem edgeStep_tail (T : Transc α) (rnd : α → α) (P : Params α) (hm : P.moveOther = false)
    (hd tl : Array Nat) (eps epns : Array α) (alpha : α) (n : Nat) (cor : Option (Nat → α → α))
    (s : State α) (i : Nat) :
    (edgeStep T rnd P hd tl eps epns alpha n cor s i).tail = s.tail := by
  unfold edgeStep
  split_ifs with h
  · dsimp only
    rw [foldl_tail _ (fun t _ => negSample_tail T rnd P alpha _ t)]
    exact attractMove_tail rnd P hm alpha _ _ _ _ s
  · rfl

/--
  **(e)** With `move_other = False`, for all graphs, layouts, parameters, seeds and epochs, the
  tail (reference) buffer after an epoch is the tail buffer before it.  When the buffers are
  separate (`aliased = false`, as in `transform`) this is the statement that the reference
  layout is never moved.
-/
theorem frozen_tail_epoch (T : Transc α) (rnd : α → α) (P : Params α) (hm : P.moveOther = false)
    (hd tl : Array Nat) (eps epns : Array α) (alpha : α) (n : Nat) (cor : Option (Nat → α → α))
    (s : State α) : (epoch T rnd P hd tl eps epns alpha n cor s).tail = s.tail := by
  unfold epoch
  exact foldl_tail _ (fun t i => edgeStep_tail T rnd P hm hd tl eps epns alpha n cor t i) _ s

theorem frozen_tail (T : Transc α) (rnd : α → α) (P : Params α) (hm : P.moveOther = false)
    (hd tl : Array Nat) (eps epns : Array α) (alpha0 : α) (N : Nat) (s : State α) :
    (runEpochs T rnd P hd tl eps epns alpha0 N s).tail = s.tail := by
  unfold runEpochs
  exact foldl_tail _ (fun t n => frozen_tail_epoch T rnd P hm hd tl eps epns _ n none t) _ s

end Frozen

/-! ### non-vacuity -/

example : (runClock (2 : ℚ) 7).2 = 3 := by decide +kernel      -- ⌊(7-1)/2⌋
example : runClock (8 : ℚ) 7 = (8, 0) := by decide +kernel      -- weaker than w_max / N: never used

end C07
end Umap
