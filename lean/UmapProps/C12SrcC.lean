/-
  UmapProps.C12SrcC — the machine-generated translations (`Generated/DistSrc.lean`, namespace `Umap.Src`) of
  `haversine`, `approx_log_Gamma`, `log_beta`, `log_single_beta`, `ll_dirichlet` and `symmetric_kl`
  are EQUAL to the hand-written model (`UmapModel/Metrics.lean`).

  Every theorem is stated for the fully generic scalar type `α` (no algebraic law is used: the proofs are pure
  fold / list manipulation), so they also cover the `Float` instance that the driver executes.  The only extra
  hypotheses are the equal-length shape facts.
-/
import UmapModel.Metrics
import Generated.DistSrc
import UmapProofs.SrcLemmas
import Mathlib.Tactic

set_option linter.unusedSectionVars false

namespace Umap
namespace C12SrcC
open SrcLemmas

section generic
variable {α : Type} [Add α] [Sub α] [Mul α] [Div α] [Neg α] [LT α] [LE α]
  [DecidableLT α] [DecidableLE α] [OfNat α 0] [OfNat α 1] [NatCast α]

/-! ### haversine -/

/-- `haversine`: the source only checks `x.shape[0] != 2` and then reads `y[0]`, `y[1]`; the model requires
    both vectors to have two entries.  They agree when the two vectors have the same length. -/
theorem haversine_src (T : Transc α) (x y : List α) (h : x.length = y.length) :
    Src.haversine T x y = Metrics.haversine T x y := by
  rcases x with _ | ⟨x0, _ | ⟨x1, _ | ⟨x2, xs⟩⟩⟩ <;>
  rcases y with _ | ⟨y0, _ | ⟨y1, _ | ⟨y2, ys⟩⟩⟩ <;>
  simp [Src.haversine, Metrics.haversine, Src.sq, Metrics.two] at h ⊢

/-! ### ll_dirichlet and its helpers -/

theorem approxLogGamma_src (T : Transc α) (pi x : α) :
    Src.approxLogGamma T pi x = Metrics.approxLogGamma T pi x := by
  unfold Src.approxLogGamma Metrics.approxLogGamma Metrics.two
  rfl

theorem logBeta_src (T : Transc α) (pi x y : α) :
    Src.logBeta T pi x y = Metrics.logBeta T pi x y := by
  unfold Src.logBeta Metrics.logBeta
  simp only [approxLogGamma_src, Src.rangeFrom, List.foldl_map, Nat.add_comm 1]

theorem logSingleBeta_src (T : Transc α) (pi x : α) :
    Src.logSingleBeta T pi x = Metrics.logSingleBeta T pi x := by
  unfold Src.logSingleBeta Metrics.logSingleBeta Metrics.two
  rfl

/-- `ll_dirichlet`, generic scalar. -/
theorem llDirichlet_src (T : Transc α) (pi : α) (d1 d2 : List α) (h : d1.length = d2.length) :
    Src.llDirichlet T pi d1 d2 = Metrics.llDirichlet T pi ((100000000 : Nat) : α) d1 d2 := by
  unfold Src.llDirichlet Metrics.llDirichlet
  simp only [logBeta_src, logSingleBeta_src]
  rw [foldl_range_getD₂ d1 d2 0 0 h (fun (st : α × α × α) a b =>
      if (((9 : Nat) : α) / ((10 : Nat) : α)) < a * b then
        (st.1 + Metrics.logBeta T pi a b, st.2.1 + Metrics.logSingleBeta T pi a,
          st.2.2 + Metrics.logSingleBeta T pi b)
      else
        (st.1, (if (((9 : Nat) : α) / ((10 : Nat) : α)) < a then st.2.1 + Metrics.logSingleBeta T pi a
                else st.2.1),
               (if (((9 : Nat) : α) / ((10 : Nat) : α)) < b then st.2.2 + Metrics.logSingleBeta T pi b
                else st.2.2)))]

/-! ### symmetric_kl -/

theorem symmetricKl_src (T : Transc α) (x y : List α) (z : α) (h : x.length = y.length) :
    Src.symmetricKl T x y z = Metrics.symmetricKl T z x y := by
  unfold Src.symmetricKl Metrics.symmetricKl Metrics.two
  simp only []
  rw [foldl_range_getD₂ x y 0 0 h (fun (st : α × α) a b => (st.1 + (a + z), st.2 + (b + z)))]
  rw [foldl_pair (x.zip y) (fun s p => s + (p.1 + z)) (fun s p => s + (p.2 + z))]
  have hx : (x.zip y).foldl (fun s p => s + (p.1 + z)) 0 = sumL (x.map (· + z)) := by
    have : x = (x.zip y).map Prod.fst := by
      rw [List.map_fst_zip]; omega
    conv_rhs => rw [this]
    simp [sumL, List.foldl_map]
  have hy : (x.zip y).foldl (fun s p => s + (p.2 + z)) 0 = sumL (y.map (· + z)) := by
    have : y = (x.zip y).map Prod.snd := by
      rw [List.map_snd_zip]; omega
    conv_rhs => rw [this]
    simp [sumL, List.foldl_map]
  rw [hx, hy]
  simp only []
  rw [foldl_range_getD₂ x y 0 0 h (fun (st : α × α) a b =>
      (st.1 + ((a + z) / sumL (x.map (· + z))) *
          T.log (((a + z) / sumL (x.map (· + z))) / ((b + z) / sumL (y.map (· + z)))),
       st.2 + ((b + z) / sumL (y.map (· + z))) *
          T.log (((b + z) / sumL (y.map (· + z))) / ((a + z) / sumL (x.map (· + z))))))]
  rw [foldl_pair (x.zip y)
      (fun s p => s + ((p.1 + z) / sumL (x.map (· + z))) *
          T.log (((p.1 + z) / sumL (x.map (· + z))) / ((p.2 + z) / sumL (y.map (· + z)))))
      (fun s p => s + ((p.2 + z) / sumL (y.map (· + z))) *
          T.log (((p.2 + z) / sumL (y.map (· + z))) / ((p.1 + z) / sumL (x.map (· + z)))))]
  simp [sumL, List.foldl_map]

end generic

/-! ### ordered fields: the cast hypothesis of `llDirichlet_src` is `Nat.cast_zero` -/

section field
variable {K : Type} [Field K] [LinearOrder K] [IsStrictOrderedRing K]

theorem llDirichlet_src_field (T : Transc K) (pi : K) (d1 d2 : List K) (h : d1.length = d2.length) :
    Src.llDirichlet T pi d1 d2 = Metrics.llDirichlet T pi ((100000000 : Nat) : K) d1 d2 :=
  llDirichlet_src T pi d1 d2 h

end field

end C12SrcC
end Umap
