/-
  C03 (rescaling) — "rescaling all distances by a positive constant leaves the graph unchanged",
  C01 (e) — "multiplying all distances by a positive constant leaves every membership strength
  unchanged", on the end-to-end graph-stage model `Graph.graphOfKnn` (C02Pipeline).

  What is and what is not exactly scale-equivariant in `smooth_knn_dist`:
    * rho IS (degree 1): `C01.rho_scale_row`, proved about the model's own computation;
    * the global / per-row finite mean and the `MIN_K_DIST_SCALE` floor ARE (degree 1):
      `finiteMean_scaleTable`, `applyFloor_scale`, proved about the model's own computation;
    * the 64-step bisection is NOT: it starts at bandwidth 1 whatever the scale of the data, so
      its *result* for the scaled row is in general not exactly `c` times the result for the row.
      Only its *target* is equivariant: `σ` solves the calibration equation of a row iff `c σ`
      solves that of the scaled row (`C01.solution_scales_row`; table form `calibrated_scale`).

  So the theorems are stated on the strengths, with the bandwidths as data:
    1. `member_scale`, `strengthOf_scale`    : one strength;
    2. `dirStrengthWith_scale`               : every directed strength of the table, for ANY list of
       per-row `(σ, ρ)` and the list scaled by `c`;
    3. `graph_scale_invariant`               : hence every blended entry `mix r · ·`;
    4. `graph_scale_invariant_calibrated`    : the `(σ, ρ)` with `ρ` the model's rho and `σ` a
       solution of the calibration equation are carried to such pairs of the scaled table, and
       all blended entries agree;
    5. `graphOfKnn_scale_invariant`          : for the model's own pipeline, under the single
       hypothesis `ScaledBandwidths` ("the bandwidth computed for each scaled row is `c` times the
       one computed for the row" — a hypothesis about the search result only; rho, the means and the
       floor are discharged), the two fitted graphs are *equal* (same stored triples, same order,
       same success/failure).  `scaledBandwidths_of_mid` reduces the hypothesis to the bisection
       result alone, and `scaledBandwidths_of_floor` proves it outright in the floor-dominated
       regime (non-vacuity example: the 3-point table scaled by 2);
    6. `not_scaledSearch_of_unreachable`     : `ScaledSearch` is a genuine hypothesis — exact
       counterexamples at every iteration count.
-/
import UmapProps.C03Equivariance
import UmapProps.C01Calibration
import Mathlib.Tactic

namespace Umap
namespace C03
open Graph Knn C02
open C01 (scaleRow scaleExt)

/-! ### scaled tables and scaled `(σ, ρ)` lists -/

/-- the kNN distance table with every finite distance multiplied by `c` (`inf` stays `inf`). -/
def scaleTable (c : ℝ) (ds : List (List (Option ℝ))) : List (List (Option ℝ)) :=
  ds.map (scaleRow c)

/-- a per-row list of `(bandwidth, rho)` with both multiplied by `c` (`inf`/NaN rho unchanged). -/
def scaleSR (c : ℝ) (sr : List (ℝ × Ext ℝ)) : List (ℝ × Ext ℝ) :=
  sr.map (fun p => (c * p.1, scaleExt c p.2))

theorem scaleTable_getElem? (c : ℝ) (ds : List (List (Option ℝ))) (i : Nat) :
    (scaleTable c ds)[i]? = (ds[i]?).map (scaleRow c) := by
  simp [scaleTable]

theorem scaleSR_getElem? (c : ℝ) (sr : List (ℝ × Ext ℝ)) (i : Nat) :
    (scaleSR c sr)[i]? = (sr[i]?).map (fun p => (c * p.1, scaleExt c p.2)) := by
  simp [scaleSR]

theorem flatten_scaleTable (c : ℝ) (ds : List (List (Option ℝ))) :
    (scaleTable c ds).flatten = scaleRow c ds.flatten := by
  unfold scaleTable scaleRow
  rw [List.map_flatten]

/-- the global mean of the finite distances (used by the bandwidth floor) is homogeneous. -/
theorem finiteMean_scaleTable (c : ℝ) (ds : List (List (Option ℝ))) :
    finiteMean (scaleTable c ds).flatten = c * finiteMean ds.flatten := by
  rw [flatten_scaleTable, C01.finiteMean_scale_row]

/-! ### 1. one strength -/

/-- **member_scale** (C01 (e), re-exported from `C01.member_scale`): scaling the distance, rho and
    the bandwidth by the same `c > 0` leaves the membership strength unchanged (any bandwidth,
    including the degenerate `σ = 0`). -/
theorem member_scale {c : ℝ} (hc : 0 < c) (d r σ : ℝ) :
    member realT (c * d) (c * r) (c * σ) = member realT d r σ :=
  C01.member_scale hc

/-- **strengthOf_scale**: the same for an extended rho (`inf` stays `inf`: strength 1). -/
theorem strengthOf_scale {c : ℝ} (hc : 0 < c) (σ : ℝ) (ρ : Ext ℝ) (x : ℝ) :
    strengthOf (c * σ) (scaleExt c ρ) (c * x) = strengthOf σ ρ x := by
  cases ρ with
  | fin r => exact C01.member_scale hc
  | inf => rfl
  | nan => rfl

theorem nonpos_nonneg_scale {c : ℝ} (hc : 0 < c) (σ : ℝ) :
    (c * σ ≤ 0 ∧ 0 ≤ c * σ) ↔ (σ ≤ 0 ∧ 0 ≤ σ) := by
  constructor
  · rintro ⟨a, b⟩
    have h0 : c * σ = 0 := le_antisymm a b
    rcases mul_eq_zero.1 h0 with h | h
    · exact absurd h hc.ne'
    · subst h; exact ⟨le_refl _, le_refl _⟩
  · rintro ⟨a, b⟩
    have : σ = 0 := le_antisymm a b
    subst this; simp

/-- the raw (possibly NaN) strength of the model is scale invariant as well. -/
theorem memberExt_scale {c : ℝ} (hc : 0 < c) (x : ℝ) (ρ : Ext ℝ) (σ : ℝ) :
    memberExt realT (c * x) (scaleExt c ρ) (c * σ) = memberExt realT x ρ σ := by
  cases ρ with
  | fin r => exact congrArg some (C01.member_scale hc)
  | inf => rfl
  | nan =>
    unfold memberExt
    simp only [scaleExt]
    by_cases h : σ ≤ 0 ∧ 0 ≤ σ
    · rw [if_pos h, if_pos ((nonpos_nonneg_scale hc σ).2 h)]
    · rw [if_neg h, if_neg (fun h' => h ((nonpos_nonneg_scale hc σ).1 h'))]

/-! ### 2. the directed strengths, for a given list of `(σ, ρ)` -/

/-- `C02.dirStrength` with the per-row `(σ, ρ)` read from a given list `sr` instead of being
    computed by `smooth_knn_dist`. -/
noncomputable def dirStrengthWith (sr : List (ℝ × Ext ℝ)) (idx : List (List (Option Nat)))
    (ds : List (List (Option ℝ))) (i j : Nat) : ℝ :=
  if i = j then 0 else
  match idx[i]?, ds[i]?, sr[i]? with
  | some ix, some d, some s =>
    match (ix.zip d).find? (fun p => p.1 == some j) with
    | some (_, some x) => strengthOf s.1 s.2 x
    | _ => 0
  | _, _, _ => 0

section
variable (tol minScale target : ℝ) (lcIdx : Nat) (lcFrac : ℝ) (nIter : Nat)

theorem smoothKnn_getElem? (ds : List (List (Option ℝ))) (i : Nat) :
    (smoothKnn realT tol minScale target lcIdx lcFrac nIter ds)[i]?
      = (ds[i]?).map (sigmaRho tol minScale target lcIdx lcFrac nIter ds) := by
  unfold smoothKnn sigmaRho
  simp only [List.getElem?_map]

/-- the directed strengths of the pipeline are `dirStrengthWith` at the model's own
    `smooth_knn_dist` output. -/
theorem dirStrength_eq_with (idx : List (List (Option Nat))) (ds : List (List (Option ℝ)))
    (i j : Nat) :
    dirStrength tol minScale target lcIdx lcFrac nIter idx ds i j
      = dirStrengthWith (smoothKnn realT tol minScale target lcIdx lcFrac nIter ds) idx ds i j := by
  unfold dirStrength dirStrengthWith
  by_cases hij : i = j
  · rw [if_pos hij, if_pos hij]
  · rw [if_neg hij, if_neg hij, smoothKnn_getElem?]
    cases idx[i]? with
    | none => rfl
    | some ix =>
      cases ds[i]? with
      | none => rfl
      | some d => rfl

end

theorem find_scaleRow (c : ℝ) (j : Nat) (ix : List (Option Nat)) (d : List (Option ℝ)) :
    (ix.zip (scaleRow c d)).find? (fun p => p.1 == some j)
      = ((ix.zip d).find? (fun p => p.1 == some j)).map (fun p => (p.1, p.2.map (c * ·))) := by
  unfold scaleRow
  induction ix generalizing d with
  | nil => simp
  | cons a ix ih =>
    cases d with
    | nil => simp
    | cons x d =>
      simp only [List.map_cons, List.zip_cons_cons, List.find?_cons]
      cases a == some j with
      | true => simp
      | false => simpa using ih d

/--
  **dirStrengthWith_scale.**  Scaling every finite distance of the table by `c > 0` and every
  per-row `(σ, ρ)` by `c` leaves every directed strength unchanged — for any table (valid or
  not), any list `sr`, every `(i, j)`.
-/
theorem dirStrengthWith_scale {c : ℝ} (hc : 0 < c) (sr : List (ℝ × Ext ℝ))
    (idx : List (List (Option Nat))) (ds : List (List (Option ℝ))) (i j : Nat) :
    dirStrengthWith (scaleSR c sr) idx (scaleTable c ds) i j = dirStrengthWith sr idx ds i j := by
  unfold dirStrengthWith
  by_cases hij : i = j
  · rw [if_pos hij, if_pos hij]
  · rw [if_neg hij, if_neg hij, scaleTable_getElem?, scaleSR_getElem?]
    cases idx[i]? with
    | none => rfl
    | some ix =>
      cases ds[i]? with
      | none => rfl
      | some d =>
        cases sr[i]? with
        | none => rfl
        | some s =>
          simp only [Option.map_some]
          rw [find_scaleRow]
          cases (ix.zip d).find? (fun p => p.1 == some j) with
          | none => rfl
          | some p =>
            obtain ⟨a, x⟩ := p
            cases x with
            | none => rfl
            | some x =>
              simp only [Option.map_some]
              exact strengthOf_scale hc _ _ _

/-! ### 3. the blended entries -/

/--
  **graph_scale_invariant.**  For every mix ratio `r` and every `(i, j)` the blended graph value
  `mix r (strength i→j) (strength j→i)` computed from the scaled table with the scaled `(σ, ρ)`
  equals the one computed from the original table.

  Proved here: the invariance of every strength and of the blend, for arbitrary bandwidths.
  Hypothesis (built into the statement through `scaleSR`): the bandwidth and rho used for the
  scaled table are `c` times those used for the original table.  For rho this is a theorem about
  the model's own computation (`C01.rho_scale_row`, `sigmaRho_scale_snd`); for the bandwidth it is
  "the calibration solution scales" (`C01.solution_scales_row`, `calibrated_scale`), NOT a
  statement about the 64-step search, which starts at 1 whatever the scale.
-/
theorem graph_scale_invariant {c : ℝ} (hc : 0 < c) (r : ℝ) (sr : List (ℝ × Ext ℝ))
    (idx : List (List (Option Nat))) (ds : List (List (Option ℝ))) (i j : Nat) :
    mix r (dirStrengthWith (scaleSR c sr) idx (scaleTable c ds) i j)
          (dirStrengthWith (scaleSR c sr) idx (scaleTable c ds) j i)
      = mix r (dirStrengthWith sr idx ds i j) (dirStrengthWith sr idx ds j i) := by
  rw [dirStrengthWith_scale hc, dirStrengthWith_scale hc]

/-! ### 4. calibrated bandwidths -/

/-- `sr` lists, row by row, the model's own rho and a positive bandwidth that solves the
    calibration equation `Σ_j strength_j = target` exactly (the fixed point `smooth_knn_dist`
    searches for). -/
def Calibrated (tol : ℝ) (lcIdx : Nat) (lcFrac target : ℝ) (sr : List (ℝ × Ext ℝ))
    (ds : List (List (Option ℝ))) : Prop :=
  List.Forall₂ (fun s d => 0 < s.1 ∧ s.2 = rho tol lcIdx lcFrac d
    ∧ psum realT s.2 s.1 d.tail = target) sr ds

/-- **the calibration solution scales** (table form of `C01.solution_scales_row` together with
    `C01.rho_scale_row`): if `sr` is calibrated for the table then `c • sr` is calibrated for the
    scaled table — same tolerance, same target. -/
theorem calibrated_scale {c : ℝ} (hc : 0 < c) (tol : ℝ) (lcIdx : Nat) (lcFrac target : ℝ)
    (sr : List (ℝ × Ext ℝ)) (ds : List (List (Option ℝ)))
    (h : Calibrated tol lcIdx lcFrac target sr ds) :
    Calibrated tol lcIdx lcFrac target (scaleSR c sr) (scaleTable c ds) := by
  unfold Calibrated scaleSR scaleTable at *
  rw [List.forall₂_map_left_iff, List.forall₂_map_right_iff]
  refine h.imp ?_
  rintro s d ⟨h1, h2, h3⟩
  refine ⟨mul_pos hc h1, ?_, ?_⟩
  · rw [C01.rho_scale_row hc, h2]
  · simp only
    rw [C01.scaleRow_tail, ← h3]
    exact C01.psum_scale hc h1.ne' s.2 d.tail

/--
  **graph_scale_invariant_calibrated.**  With the model's rho and exactly calibrated bandwidths,
  the scaled table has the scaled rho and the scaled bandwidths are exactly calibrated for it, and
  every blended graph value is unchanged.
-/
theorem graph_scale_invariant_calibrated {c : ℝ} (hc : 0 < c) (tol : ℝ) (lcIdx : Nat)
    (lcFrac target : ℝ) (r : ℝ) (sr : List (ℝ × Ext ℝ)) (idx : List (List (Option Nat)))
    (ds : List (List (Option ℝ))) (h : Calibrated tol lcIdx lcFrac target sr ds) :
    Calibrated tol lcIdx lcFrac target (scaleSR c sr) (scaleTable c ds)
    ∧ ∀ i j, mix r (dirStrengthWith (scaleSR c sr) idx (scaleTable c ds) i j)
                   (dirStrengthWith (scaleSR c sr) idx (scaleTable c ds) j i)
           = mix r (dirStrengthWith sr idx ds i j) (dirStrengthWith sr idx ds j i) :=
  ⟨calibrated_scale hc tol lcIdx lcFrac target sr ds h,
    fun i j => graph_scale_invariant hc r sr idx ds i j⟩

/-! ### 5. the model's own pipeline -/

theorem extPos_scaleExt {c : ℝ} (hc : 0 < c) (ρ : Ext ℝ) : extPos (scaleExt c ρ) = extPos ρ := by
  cases ρ with
  | fin r => simp [extPos, scaleExt, mul_pos_iff_of_pos_left hc]
  | inf => rfl
  | nan => rfl

/-- the `MIN_K_DIST_SCALE` floor is homogeneous of degree 1 (proved about the model's code). -/
theorem applyFloor_scale {c : ℝ} (hc : 0 < c) (minScale σ gm : ℝ) (ρ : Ext ℝ)
    (row : List (Option ℝ)) :
    applyFloor minScale (c * σ) (scaleExt c ρ) (scaleRow c row) (c * gm)
      = c * applyFloor minScale σ ρ row gm := by
  unfold applyFloor
  simp only [extPos_scaleExt hc, C01.finiteMean_scale_row]
  have e : (if extPos ρ = true then c * finiteMean row else c * gm)
      = c * (if extPos ρ = true then finiteMean row else gm) := by
    split_ifs <;> rfl
  rw [e]
  generalize (if extPos ρ = true then finiteMean row else gm) = m
  have e2 : minScale * (c * m) = c * (minScale * m) := by ring
  rw [e2]
  by_cases h : σ < minScale * m
  · rw [if_pos h, if_pos (mul_lt_mul_of_pos_left h hc)]
  · rw [if_neg h, if_neg (fun h' => h (lt_of_mul_lt_mul_left h' hc.le))]

section
variable (tol minScale target : ℝ) (lcIdx : Nat) (lcFrac : ℝ) (nIter : Nat)

/-- the model's rho of a scaled row is the scaled rho (no hypothesis). -/
theorem sigmaRho_scale_snd {c : ℝ} (hc : 0 < c) (ds : List (List (Option ℝ)))
    (d : List (Option ℝ)) :
    (sigmaRho tol minScale target lcIdx lcFrac nIter (scaleTable c ds) (scaleRow c d)).2
      = scaleExt c (sigmaRho tol minScale target lcIdx lcFrac nIter ds d).2 :=
  C01.rho_scale_row hc tol lcFrac lcIdx d

/-- **the hypothesis about the bandwidth**: for every row of the table, the bandwidth the model
    computes for the scaled row (inside the scaled table) is `c` times the bandwidth it computes
    for the row. -/
def ScaledBandwidths (c : ℝ) (ds : List (List (Option ℝ))) : Prop :=
  ∀ d ∈ ds, (sigmaRho tol minScale target lcIdx lcFrac nIter (scaleTable c ds) (scaleRow c d)).1
    = c * (sigmaRho tol minScale target lcIdx lcFrac nIter ds d).1

/-- the result of the bisection for the scaled row is `c` times its result for the row — the
    part of `ScaledBandwidths` that is genuinely a hypothesis. -/
def ScaledSearch (c : ℝ) (ds : List (List (Option ℝ))) : Prop :=
  ∀ d ∈ ds,
    (bisect realT tol target (rho tol lcIdx lcFrac (scaleRow c d)) (scaleRow c d).tail nIter).mid
      = c * (bisect realT tol target (rho tol lcIdx lcFrac d) d.tail nIter).mid

/-- rho, the per-row mean, the global mean and the floor are all discharged: `ScaledBandwidths`
    follows from the scaling of the bisection result alone. -/
theorem scaledBandwidths_of_mid {c : ℝ} (hc : 0 < c) (ds : List (List (Option ℝ)))
    (h : ScaledSearch tol target lcIdx lcFrac nIter c ds) :
    ScaledBandwidths tol minScale target lcIdx lcFrac nIter c ds := by
  intro d hd
  unfold sigmaRho smoothKnnRow
  simp only
  rw [h d hd, finiteMean_scaleTable, C01.rho_scale_row hc]
  exact applyFloor_scale hc _ _ _ _ _

/-- the mean entering the floor of row `d`. -/
noncomputable def floorMean (ds : List (List (Option ℝ))) (d : List (Option ℝ)) : ℝ :=
  if extPos (rho tol lcIdx lcFrac d) then finiteMean d else finiteMean ds.flatten

theorem sigma_eq_floor (ds : List (List (Option ℝ))) (d : List (Option ℝ))
    (h : 2 ^ nIter < minScale * floorMean tol lcIdx lcFrac ds d) :
    (sigmaRho tol minScale target lcIdx lcFrac nIter ds d).1
      = minScale * floorMean tol lcIdx lcFrac ds d := by
  obtain ⟨_, _, hm, _⟩ := C01.bisect_inv tol target (rho tol lcIdx lcFrac d) d.tail nIter
  unfold sigmaRho smoothKnnRow applyFloor
  simp only
  unfold floorMean at h ⊢
  rw [if_pos (lt_of_le_of_lt hm h)]

theorem floorMean_scale {c : ℝ} (hc : 0 < c) (ds : List (List (Option ℝ)))
    (d : List (Option ℝ)) :
    floorMean tol lcIdx lcFrac (scaleTable c ds) (scaleRow c d)
      = c * floorMean tol lcIdx lcFrac ds d := by
  unfold floorMean
  rw [C01.rho_scale_row hc, extPos_scaleExt hc, finiteMean_scaleTable, C01.finiteMean_scale_row]
  split_ifs <;> rfl

/-- in the floor-dominated regime (every row's floor `minScale · mean` exceeds the largest value
    `2 ^ nIter` the search can return) the bandwidths of the model scale exactly, for `c ≥ 1`:
    here `ScaledBandwidths` is a theorem about the model's own computation. -/
theorem scaledBandwidths_of_floor {c : ℝ} (hc : 1 ≤ c) (ds : List (List (Option ℝ)))
    (h : ∀ d ∈ ds, 2 ^ nIter < minScale * floorMean tol lcIdx lcFrac ds d) :
    ScaledBandwidths tol minScale target lcIdx lcFrac nIter c ds := by
  have hc0 : 0 < c := lt_of_lt_of_le one_pos hc
  intro d hd
  have h1 := h d hd
  have hpos : 0 < minScale * floorMean tol lcIdx lcFrac ds d :=
    lt_trans (by positivity) h1
  rw [sigma_eq_floor tol minScale target lcIdx lcFrac nIter ds d h1, sigma_eq_floor]
  · rw [floorMean_scale tol lcIdx lcFrac hc0]; ring
  · rw [floorMean_scale tol lcIdx lcFrac hc0]
    have : minScale * (c * floorMean tol lcIdx lcFrac ds d)
        = c * (minScale * floorMean tol lcIdx lcFrac ds d) := by ring
    rw [this]
    nlinarith

/-- under `ScaledBandwidths` the whole `smooth_knn_dist` output of the scaled table is the scaled
    output. -/
theorem smoothKnn_scale {c : ℝ} (hc : 0 < c) (ds : List (List (Option ℝ)))
    (h : ScaledBandwidths tol minScale target lcIdx lcFrac nIter c ds) :
    smoothKnn realT tol minScale target lcIdx lcFrac nIter (scaleTable c ds)
      = scaleSR c (smoothKnn realT tol minScale target lcIdx lcFrac nIter ds) := by
  apply List.ext_getElem?
  intro i
  rw [smoothKnn_getElem?, scaleSR_getElem?, smoothKnn_getElem?, scaleTable_getElem?]
  cases hd : ds[i]? with
  | none => rfl
  | some d =>
    simp only [Option.map_some, Option.some.injEq]
    exact Prod.ext (h d (List.mem_of_getElem? hd))
      (sigmaRho_scale_snd tol minScale target lcIdx lcFrac nIter hc ds d)

/-- every directed strength of the pipeline is unchanged. -/
theorem dirStrength_scale {c : ℝ} (hc : 0 < c) (idx : List (List (Option Nat)))
    (ds : List (List (Option ℝ)))
    (h : ScaledBandwidths tol minScale target lcIdx lcFrac nIter c ds) (i j : Nat) :
    dirStrength tol minScale target lcIdx lcFrac nIter idx (scaleTable c ds) i j
      = dirStrength tol minScale target lcIdx lcFrac nIter idx ds i j := by
  rw [dirStrength_eq_with, dirStrength_eq_with,
    smoothKnn_scale tol minScale target lcIdx lcFrac nIter hc ds h, dirStrengthWith_scale hc]

end

/-- one output entry of `compute_membership_strengths` (including the NaN / skipped / self
    encodings) is scale invariant. -/
theorem memberEntry_scale {c : ℝ} (hc : 0 < c) (self : Nat) (σ : ℝ) (ρ : Ext ℝ)
    (p : Option Nat × Option ℝ) :
    memberEntry realT self (c * σ) (scaleExt c ρ) (p.1, p.2.map (c * ·))
      = memberEntry realT self σ ρ p := by
  obtain ⟨a, x⟩ := p
  unfold memberEntry
  cases a with
  | none => rfl
  | some a =>
    simp only
    split_ifs
    · rfl
    · cases x with
      | none => cases ρ <;> rfl
      | some x =>
        simp only [Option.map_some]
        rw [memberExt_scale hc]

theorem memberRow_scale {c : ℝ} (hc : 0 < c) (self : Nat) (σ : ℝ) (ρ : Ext ℝ)
    (ix : List (Option Nat)) (d : List (Option ℝ)) :
    memberRow realT false self (c * σ) (scaleExt c ρ) ix (scaleRow c d)
      = memberRow realT false self σ ρ ix d := by
  rw [memberRow_eq, memberRow_eq]
  unfold scaleRow
  rw [List.zip_map_right, List.map_map]
  apply List.map_congr_left
  intro p _
  exact memberEntry_scale hc self σ ρ p

section
variable (tol minScale target : ℝ) (lcIdx : Nat) (lcFrac : ℝ) (nIter : Nat)

/-- the whole directed membership table (before assembly) is unchanged. -/
theorem memberRows_scale {c : ℝ} (hc : 0 < c) (idx : List (List (Option Nat)))
    (ds : List (List (Option ℝ)))
    (h : ScaledBandwidths tol minScale target lcIdx lcFrac nIter c ds) :
    memberRows realT tol minScale target lcIdx lcFrac nIter idx (scaleTable c ds)
      = memberRows realT tol minScale target lcIdx lcFrac nIter idx ds := by
  have key : ∀ (i : Nat) (ix : List (Option Nat)) (d : List (Option ℝ)), ds[i]? = some d →
      memberRow realT false i
        (smoothKnnRow realT tol minScale target lcIdx lcFrac nIter
          (finiteMean (scaleTable c ds).flatten) (scaleRow c d)).1
        (smoothKnnRow realT tol minScale target lcIdx lcFrac nIter
          (finiteMean (scaleTable c ds).flatten) (scaleRow c d)).2 ix (scaleRow c d)
      = memberRow realT false i
        (smoothKnnRow realT tol minScale target lcIdx lcFrac nIter (finiteMean ds.flatten) d).1
        (smoothKnnRow realT tol minScale target lcIdx lcFrac nIter (finiteMean ds.flatten) d).2
        ix d := by
    intro i ix d hd
    have h1 := h d (List.mem_of_getElem? hd)
    have h2 := sigmaRho_scale_snd tol minScale target lcIdx lcFrac nIter hc ds d
    unfold sigmaRho at h1 h2
    rw [h1, h2, memberRow_scale hc]
  apply List.ext_getElem?
  intro i
  apply Option.ext
  intro row
  rw [memberRows_getElem?, memberRows_getElem?]
  constructor
  · rintro ⟨ix, d', hix, hd', rfl⟩
    rw [scaleTable_getElem?] at hd'
    obtain ⟨d, hd, rfl⟩ := Option.map_eq_some_iff.1 hd'
    exact ⟨ix, d, hix, hd, key i ix d hd⟩
  · rintro ⟨ix, d, hix, hd, rfl⟩
    refine ⟨ix, scaleRow c d, hix, ?_, (key i ix d hd).symm⟩
    rw [scaleTable_getElem?, hd]; rfl

/--
  **graphOfKnn_scale_invariant.**  For the model's own graph stage: if the bandwidths computed for
  the scaled table are `c` times those computed for the table (`ScaledBandwidths`; rho, the means
  and the floor need no hypothesis), then the fitted graph of the scaled table *is* the fitted
  graph of the table — the same list of stored triples, and the same failure (`none`, a NaN
  strength) if any.  No validity assumption on the table is needed.
-/
theorem graphOfKnn_scale_invariant {c : ℝ} (hc : 0 < c) (r : ℝ)
    (idx : List (List (Option Nat))) (ds : List (List (Option ℝ)))
    (h : ScaledBandwidths tol minScale target lcIdx lcFrac nIter c ds) :
    graphOfKnn realT tol minScale target lcIdx lcFrac nIter r idx (scaleTable c ds)
      = graphOfKnn realT tol minScale target lcIdx lcFrac nIter r idx ds := by
  unfold graphOfKnn
  rw [memberRows_scale tol minScale target lcIdx lcFrac nIter hc idx ds h]

/-- the blended values of the pipeline, in the form of `C02_pipeline` / `graph_perm_lookup`. -/
theorem graph_scale_lookup {c : ℝ} (hc : 0 < c) (r : ℝ)
    (idx : List (List (Option Nat))) (ds : List (List (Option ℝ)))
    (h : ScaledBandwidths tol minScale target lcIdx lcFrac nIter c ds) (i j : Nat) :
    mix r (dirStrength tol minScale target lcIdx lcFrac nIter idx (scaleTable c ds) i j)
          (dirStrength tol minScale target lcIdx lcFrac nIter idx (scaleTable c ds) j i)
      = mix r (dirStrength tol minScale target lcIdx lcFrac nIter idx ds i j)
          (dirStrength tol minScale target lcIdx lcFrac nIter idx ds j i) := by
  rw [dirStrength_scale tol minScale target lcIdx lcFrac nIter hc idx ds h,
    dirStrength_scale tol minScale target lcIdx lcFrac nIter hc idx ds h]

end

/-! ### validity is preserved -/

theorem zip_scaleRow_mem {c : ℝ} (ix : List (Option Nat)) (d : List (Option ℝ))
    (p : Option Nat × Option ℝ) (hp : p ∈ ix.zip (scaleRow c d)) :
    ∃ q ∈ ix.zip d, p = (q.1, q.2.map (c * ·)) := by
  unfold scaleRow at hp
  rw [List.zip_map_right, List.mem_map] at hp
  obtain ⟨q, hq, rfl⟩ := hp
  exact ⟨q, hq, rfl⟩

/-- scaling keeps a table valid. -/
theorem validTable_scale (c : ℝ) (idx : List (List (Option Nat))) (ds : List (List (Option ℝ)))
    (hv : ValidTable idx ds) : ValidTable idx (scaleTable c ds) where
  rows_eq := by simp [scaleTable, hv.rows_eq]
  cols_eq := by
    obtain ⟨k, h1, h2⟩ := hv.cols_eq
    refine ⟨k, h1, ?_⟩
    intro d hd
    simp only [scaleTable, List.mem_map] at hd
    obtain ⟨d', hd', rfl⟩ := hd
    rw [C01.scaleRow_length]; exact h2 d' hd'
  distinct := hv.distinct
  skip_iff := by
    intro i ix d' hix hd' p hp
    rw [scaleTable_getElem?] at hd'
    obtain ⟨d, hd, rfl⟩ := Option.map_eq_some_iff.1 hd'
    obtain ⟨q, hq, rfl⟩ := zip_scaleRow_mem ix d p hp
    have := hv.skip_iff i ix d hix hd q hq
    simp only [Option.map_eq_none_iff]
    exact this

/-- and keeps rho away from NaN. -/
theorem noNanRho_scale {c : ℝ} (hc : 0 < c) (tol : ℝ) (lcIdx : Nat) (lcFrac : ℝ)
    (ds : List (List (Option ℝ))) (hn : NoNanRho tol lcIdx lcFrac ds) :
    NoNanRho tol lcIdx lcFrac (scaleTable c ds) := by
  intro d' hd'
  simp only [scaleTable, List.mem_map] at hd'
  obtain ⟨d, hd, rfl⟩ := hd'
  rw [C01.rho_scale_row hc]
  have := hn d hd
  cases hρ : rho tol lcIdx lcFrac d with
  | fin r => simp [scaleExt]
  | inf => simp [scaleExt]
  | nan => exact absurd hρ this

/-- entry form, as in `graph_perm_equivariant`: for a valid table both graph stages succeed and
    store the same entries. -/
theorem graph_scale_entries (tol minScale target : ℝ) (lcIdx : Nat) (lcFrac : ℝ) (nIter : Nat)
    {c : ℝ} (hc : 0 < c) (r : ℝ)
    (idx : List (List (Option Nat))) (ds : List (List (Option ℝ)))
    (hv : ValidTable idx ds) (hn : NoNanRho tol lcIdx lcFrac ds)
    (h : ScaledBandwidths tol minScale target lcIdx lcFrac nIter c ds) :
    ∃ G G', graphOfKnn realT tol minScale target lcIdx lcFrac nIter r idx ds = some G
      ∧ graphOfKnn realT tol minScale target lcIdx lcFrac nIter r idx (scaleTable c ds) = some G'
      ∧ ∀ i j v, (i, j, v) ∈ G ↔ (i, j, v) ∈ G' := by
  have hG := graphOfKnn_eq_some tol minScale target lcIdx lcFrac nIter r idx ds hv hn
  refine ⟨_, _, hG, ?_, fun i j v => Iff.rfl⟩
  rw [graphOfKnn_scale_invariant tol minScale target lcIdx lcFrac nIter hc r idx ds h]
  exact hG

/-! ### non-vacuity: the 3-point table of C02Pipeline scaled by 2 -/

/-- the scaled example table, explicitly. -/
theorem exDs_scaled :
    scaleTable 2 exDs
      = [[some 0, some 2, none], [some 0, some 2, some 4], [some 0, some 4, none]] := by
  simp only [scaleTable, scaleRow, exDs, List.map_cons, List.map_nil, Option.map_some,
    Option.map_none]
  norm_num

/-- a list of per-row `(σ, ρ)` for the example (rho is the model's: the nearest non-zero
    distance). -/
noncomputable def exSR : List (ℝ × Ext ℝ) := [(1, .fin 1), (1, .fin 1), (1, .fin 2)]

theorem exSR_scaled : scaleSR 2 exSR = [(2, .fin 2), (2, .fin 2), (2, .fin 4)] := by
  simp only [scaleSR, exSR, scaleExt, List.map_cons, List.map_nil]
  norm_num

/-- `dirStrengthWith_scale` / `graph_scale_invariant` on the example, `c = 2`: the hypothesis
    `0 < c` holds, and the invariant value is a genuine strength strictly between 0 and 1
    (`exp(-1)` for the edge 1 → 2, at distance 2 with `ρ = 1`, `σ = 1`), not a trivial `0 = 0`. -/
example :
    (0:ℝ) < 2
    ∧ dirStrengthWith exSR exIdx exDs 1 2 = Real.exp (-1)
    ∧ dirStrengthWith (scaleSR 2 exSR) exIdx (scaleTable 2 exDs) 1 2 = Real.exp (-1)
    ∧ ∀ r i j, mix r (dirStrengthWith (scaleSR 2 exSR) exIdx (scaleTable 2 exDs) i j)
                     (dirStrengthWith (scaleSR 2 exSR) exIdx (scaleTable 2 exDs) j i)
             = mix r (dirStrengthWith exSR exIdx exDs i j) (dirStrengthWith exSR exIdx exDs j i) := by
  have h0 : dirStrengthWith exSR exIdx exDs 1 2 = Real.exp (-1) := by
    unfold dirStrengthWith
    norm_num [exSR, exIdx, exDs, strengthOf, member, realT]
  refine ⟨by norm_num, h0, ?_, fun r i j => graph_scale_invariant (by norm_num) r _ _ _ i j⟩
  rw [dirStrengthWith_scale (by norm_num), h0]

/-- `Calibrated` is satisfiable (so `calibrated_scale` and `graph_scale_invariant_calibrated` are
    not vacuous): two rows `[self, 1, 2]` and `[self, 2, 4]`, default `local_connectivity = 1`,
    `tol = 1e-5`, `target = 1 + e⁻¹`, bandwidths `1` and `2`. -/
example : Calibrated (1 / 100000) 1 0 (1 + Real.exp (-1)) [(1, .fin 1), (2, .fin 2)]
    [[some 0, some 1, some 2], [some 0, some 2, some 4]] := by
  unfold Calibrated
  refine List.Forall₂.cons ⟨one_pos, ?_, ?_⟩ (List.Forall₂.cons ⟨two_pos, ?_, ?_⟩ List.Forall₂.nil)
  · unfold rho nzDists; norm_num [ofOpt]
  · norm_num [psum, psumTerm, realT]
  · unfold rho nzDists; norm_num [ofOpt]
  · norm_num [psum, psumTerm, realT]

theorem ex_floorMean (tol : ℝ) (htol : 0 ≤ tol) :
    ∀ d ∈ exDs, (1:ℝ) / 2 ≤ floorMean tol 1 0 exDs d := by
  intro d hd
  simp only [exDs, List.mem_cons, List.not_mem_nil, or_false] at hd
  have nt : ¬ tol < 0 := not_lt.2 htol
  rcases hd with rfl | rfl | rfl
  · have hρ : rho tol 1 0 [some (0:ℝ), some 1, none] = .fin 1 := by
      unfold rho nzDists; norm_num [ofOpt, nt]
    have hm : finiteMean [some (0:ℝ), some 1, none] = 1 / 2 := by
      simp [finiteMean, finites, sumL_eq_sum]
    unfold floorMean
    rw [hρ, hm]
    norm_num [extPos]
  · have hρ : rho tol 1 0 [some (0:ℝ), some 1, some 2] = .fin 1 := by
      unfold rho nzDists; norm_num [ofOpt, nt]
    have hm : finiteMean [some (0:ℝ), some 1, some 2] = 1 := by
      simp [finiteMean, finites, sumL_eq_sum]
      norm_num
    unfold floorMean
    rw [hρ, hm]
    norm_num [extPos]
  · have hρ : rho tol 1 0 [some (0:ℝ), some 2, none] = .fin 2 := by
      unfold rho nzDists; norm_num [ofOpt, nt]
    have hm : finiteMean [some (0:ℝ), some 2, none] = 1 := by
      simp [finiteMean, finites, sumL_eq_sum]
    unfold floorMean
    rw [hρ, hm]
    norm_num [extPos]

/-- `ScaledBandwidths` holds for the model's own computation on the example table scaled by 2,
    default `local_connectivity = 1`, any tolerance `≥ 0`, any target, any iteration count `n`, with
    the floor factor `2 ^ (n + 2)` (the floor-dominated regime): the hypotheses of
    `graphOfKnn_scale_invariant` / `graph_scale_entries` are satisfiable, and the two graph stages
    return the same, successfully computed, graph. -/
example (tol target : ℝ) (htol : 0 ≤ tol) (n : Nat) (r : ℝ) :
    ScaledBandwidths tol (2 ^ (n + 2)) target 1 0 n 2 exDs
    ∧ ValidTable exIdx (scaleTable 2 exDs)
    ∧ ∃ G, graphOfKnn realT tol (2 ^ (n + 2)) target 1 0 n r exIdx exDs = some G
        ∧ graphOfKnn realT tol (2 ^ (n + 2)) target 1 0 n r exIdx (scaleTable 2 exDs) = some G := by
  have hs : ScaledBandwidths tol (2 ^ (n + 2)) target 1 0 n 2 exDs := by
    apply scaledBandwidths_of_floor tol (2 ^ (n + 2)) target 1 0 n (by norm_num)
    intro d hd
    have h1 := ex_floorMean tol htol d hd
    have hp : (0:ℝ) < 2 ^ n := by positivity
    have e : (2:ℝ) ^ (n + 2) = 2 ^ n * 4 := by rw [pow_add]; norm_num
    rw [e]
    nlinarith
  have hG := graphOfKnn_eq_some tol (2 ^ (n + 2)) target 1 0 n r exIdx exDs exValid
    (noNanRho_integral tol htol 1 Nat.one_pos exDs)
  refine ⟨hs, validTable_scale 2 exIdx exDs exValid, _, hG, ?_⟩
  rw [graphOfKnn_scale_invariant tol (2 ^ (n + 2)) target 1 0 n (by norm_num) r exIdx exDs hs]
  exact hG

/-- `ScaledSearch` (hence `scaledBandwidths_of_mid`) is satisfiable for a non-trivial scale only when
    the search result itself scales; the trivial instance `c = 1` always does. -/
example (tol target : ℝ) (lcIdx : Nat) (lcFrac : ℝ) (n : Nat)
    (ds : List (List (Option ℝ))) : ScaledSearch tol target lcIdx lcFrac n 1 ds := by
  intro d _
  have : scaleRow 1 d = d := by
    unfold scaleRow
    conv_rhs => rw [← List.map_id d]
    apply List.map_congr_left
    intro x _
    cases x <;> simp
  rw [this, one_mul]

/-! ### the search itself is not scale-equivariant

  `ScaledSearch` is a genuine hypothesis: the loop starts at bandwidth 1 whatever the scale of the
  data.  A family of exact counterexamples for every iteration count (including 64): when the
  target exceeds the number of neighbours (so no bandwidth reaches it) the search doubles for
  ever, returns `2 ^ n` for the row *and* for the scaled row, and `2 ^ n ≠ 2 · 2 ^ n`. -/

theorem psum_le_length {mid : ℝ} (hm : 0 < mid) (r : Ext ℝ) (ds : List (Option ℝ)) :
    psum realT r mid ds ≤ (ds.length : ℝ) := by
  unfold psum
  induction ds with
  | nil => simp
  | cons d ds ih =>
    simp only [List.map_cons, sumL_cons, List.length_cons, Nat.cast_add, Nat.cast_one]
    have := (C01.psumTerm_range hm r d).2
    linarith

/-- with an unreachable target the bracket never closes and the loop never breaks. -/
theorem bisect_open_of_unreachable (tol target : ℝ) (r : Ext ℝ) (ds : List (Option ℝ))
    (h0 : 0 ≤ tol) (h : (ds.length : ℝ) + tol ≤ target) (n : Nat) :
    (bisect realT tol target r ds n).hi = none ∧ (bisect realT tol target r ds n).done = false := by
  induction n with
  | zero => exact ⟨rfl, rfl⟩
  | succ n ih =>
    obtain ⟨b0, b1, _, _⟩ := C01.bisect_inv tol target r ds n
    have hp := psum_le_length (lt_of_le_of_lt b0 b1) r ds
    rw [C01.bisect_succ]
    rcases C01.bisectStep_cases tol target r ds (bisect realT tol target r ds n) with
      ⟨hd, _⟩ | ⟨_, ha, _⟩ | ⟨_, _, hg, _⟩ | ⟨_, _, _, _, e⟩ | ⟨_, _, _, h', hh, _⟩
    · rw [ih.2] at hd; simp at hd
    · rw [abs_lt] at ha; linarith [ha.1]
    · linarith
    · rw [e]; exact ⟨ih.1, ih.2⟩
    · rw [ih.1] at hh; simp at hh

theorem bisect_mid_of_unreachable (tol target : ℝ) (r : Ext ℝ) (ds : List (Option ℝ))
    (h0 : 0 ≤ tol) (h : (ds.length : ℝ) + tol ≤ target) (n : Nat) :
    (bisect realT tol target r ds n).mid = 2 ^ n :=
  (C01.bisect_doubling tol target r ds n (bisect_open_of_unreachable tol target r ds h0 h n).1
    (bisect_open_of_unreachable tol target r ds h0 h n).2).1

/-- **the bisection is not exactly scale-equivariant**: for a row whose target is unreachable the
    search result of the row scaled by 2 is *not* twice the result of the row, at any iteration
    count. -/
theorem not_scaledSearch_of_unreachable (tol target lcFrac : ℝ) (lcIdx n : Nat)
    (ds : List (List (Option ℝ))) (d : List (Option ℝ)) (hd : d ∈ ds)
    (h0 : 0 ≤ tol) (h : (d.tail.length : ℝ) + tol ≤ target) :
    ¬ ScaledSearch tol target lcIdx lcFrac n 2 ds := by
  intro hs
  have h1 := hs d hd
  have hlen : ((scaleRow 2 d).tail.length : ℝ) + tol ≤ target := by
    rw [C01.scaleRow_tail, C01.scaleRow_length]; exact h
  rw [bisect_mid_of_unreachable tol target _ _ h0 hlen,
    bisect_mid_of_unreachable tol target _ _ h0 h] at h1
  have : (0:ℝ) < 2 ^ n := by positivity
  linarith

/-- the hypotheses of `not_scaledSearch_of_unreachable` are satisfiable. -/
example : ([some (0:ℝ), some 1] : List (Option ℝ)) ∈ [[some (0:ℝ), some 1]]
    ∧ (0:ℝ) ≤ 1 / 100000
    ∧ ((([some (0:ℝ), some 1] : List (Option ℝ)).tail.length : ℝ) + 1 / 100000 ≤ 2) := by
  refine ⟨by simp, by norm_num, ?_⟩
  norm_num

end C03
end Umap
