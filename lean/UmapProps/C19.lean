/-
  C19 — AlignedUMAP relates consecutive datasets consistently in both directions.

  Model: `Umap.Relations.expandEntry` (aligned_umap.py `expand_relations`), mirroring the two
  loops and their boundary tests index by index.  Theorems: the forward half of the tensor is the
  composition of the relation dicts, the backward half the composition of the inverses, the two
  are adjoint for injective dicts, nothing is dropped at either end of the sequence, the centre
  column is empty; and the pinned revision's boundary test is refuted on a two-dataset witness.
-/
import Mathlib.Tactic
import UmapModel.Relations

namespace Umap
namespace C19
open Relations

/-! ### the index loops are folds over sublists -/

theorem fwdLoop_eq (dicts : List Dict) (i n : Nat) (acc : Option Nat) (h : i + n ≤ dicts.length) :
    fwdLoop dicts i n acc = ((dicts.drop i).take n).foldl (fun a d => a.bind (dget d)) acc := by
  induction n with
  | zero => simp [fwdLoop]
  | succ n ih =>
    have hlt : i + n < dicts.length := by omega
    unfold fwdLoop
    simp only
    rw [ih (by omega), List.getElem?_eq_getElem hlt]
    have : (dicts.drop i).take (n + 1) = (dicts.drop i).take n ++ [dicts[i + n]] := by
      rw [List.take_succ]
      congr 1
      rw [List.getElem?_drop, List.getElem?_eq_getElem hlt]; rfl
    rw [this, List.foldl_append]; rfl

theorem bwdLoop_eq (rev : List Dict) (i n : Nat) (acc : Option Nat) (hn : n ≤ i)
    (hi : i ≤ rev.length) :
    bwdLoop rev i n acc = (((rev.take i).reverse).take n).foldl (fun a d => a.bind (dget d)) acc := by
  induction n with
  | zero => simp [bwdLoop]
  | succ n ih =>
    have hlt : i - n - 1 < rev.length := by omega
    unfold bwdLoop
    simp only
    rw [if_neg (by omega), ih (by omega), List.getElem?_eq_getElem hlt]
    have hlen : n < ((rev.take i).reverse).length := by
      simp only [List.length_reverse, List.length_take]; omega
    have : ((rev.take i).reverse).take (n + 1)
        = ((rev.take i).reverse).take n ++ [rev[i - n - 1]] := by
      rw [List.take_succ]
      congr 1
      rw [List.getElem?_eq_getElem hlen, List.getElem_reverse]
      simp only [List.length_take, List.getElem_take, Option.toList_some]
      congr 2
      omega
    rw [this, List.foldl_append]; rfl

/-! ### forward and backward halves are compositions -/

/-- **forward**: within the window (`j < w`) and as long as the target dataset exists
    (`i + j + 1 ≤ L`, there being `L + 1` datasets), entry `(i, w + j + 1, k)` is the sample
    reached from `k` by following relations `i, i+1, …, i+j`. -/
theorem forward_is_composition (dicts : List Dict) (w i j k : Nat) (hj : j < w)
    (hex : i + j + 1 ≤ dicts.length) :
    expandEntry false dicts w i (w + j + 1) k = chain ((dicts.drop i).take (j + 1)) k := by
  unfold expandEntry chain
  have h1 : w < w + j + 1 := by omega
  have h2 : w + j + 1 - w - 1 = j := by omega
  simp only [h1, if_true, h2, hj]
  have : ¬ (i + j ≥ dicts.length) := by omega
  simp only [this, decide_false, Bool.false_eq_true, if_false]
  exact fwdLoop_eq dicts i (j + 1) (some k) (by omega)

/-- **backward**: entry `(i, w - 1 - m, k)` (`m < w`, `m + 1 ≤ i`) is the sample reached from `k`
    by following the inverses of relations `i-1, i-2, …, i-m-1`. -/
theorem backward_is_composition (b : Bool) (dicts : List Dict) (w i m k : Nat) (hm : m < w)
    (hi : m + 1 ≤ i) (hL : i ≤ dicts.length) :
    expandEntry b dicts w i (w - 1 - m) k
      = chain ((((dicts.map invert).take i).reverse).take (m + 1)) k := by
  unfold expandEntry chain
  have h1 : ¬ (w < w - 1 - m) := by omega
  have h2 : w - 1 - m < w := by omega
  have h3 : w - 1 - (w - 1 - m) = m := by omega
  simp only [h1, if_false, h2, if_true, h3]
  rw [if_neg (by omega)]
  exact bwdLoop_eq (dicts.map invert) i (m + 1) (some k) hi (by simpa using hL)

/-- the centre column is never written. -/
theorem centre_is_none (b : Bool) (dicts : List Dict) (w i k : Nat) :
    expandEntry b dicts w i w k = none := by
  unfold expandEntry; simp

/-- **nothing is dropped at the ends**: a forward entry is empty only if the composition is
    undefined (some link is missing) — never merely because the target is the last dataset. -/
theorem nothing_dropped_forward (dicts : List Dict) (w i j k m : Nat) (hj : j < w)
    (hex : i + j + 1 ≤ dicts.length) (hc : chain ((dicts.drop i).take (j + 1)) k = some m) :
    expandEntry false dicts w i (w + j + 1) k = some m := by
  rw [forward_is_composition dicts w i j k hj hex]; exact hc

theorem nothing_dropped_backward (b : Bool) (dicts : List Dict) (w i m k r : Nat) (hm : m < w)
    (hi : m + 1 ≤ i) (hL : i ≤ dicts.length)
    (hc : chain ((((dicts.map invert).take i).reverse).take (m + 1)) k = some r) :
    expandEntry b dicts w i (w - 1 - m) k = some r := by
  rw [backward_is_composition b dicts w i m k hm hi hL]; exact hc

/-! ### forward and backward are adjoint for injective dicts -/

theorem dget_mem {d : Dict} {a b : Nat} (h : dget d a = some b) : (a, b) ∈ d := by
  induction d with
  | nil => simp [dget] at h
  | cons p t ih =>
    obtain ⟨x, y⟩ := p
    unfold dget at h
    split_ifs at h with hx
    · simp only [Option.some.injEq] at h; subst hx; subst h; exact List.mem_cons_self
    · exact List.mem_cons_of_mem _ (ih h)

theorem dget_of_mem {d : Dict} (hk : (d.map Prod.fst).Nodup) {a b : Nat} (h : (a, b) ∈ d) :
    dget d a = some b := by
  induction d with
  | nil => simp at h
  | cons p t ih =>
    obtain ⟨x, y⟩ := p
    simp only [List.map_cons, List.nodup_cons] at hk
    unfold dget
    rcases List.mem_cons.1 h with h | h
    · simp only [Prod.mk.injEq] at h; obtain ⟨rfl, rfl⟩ := h; simp
    · have : x ≠ a := by
        intro hx; subst hx
        exact hk.1 (List.mem_map.2 ⟨(x, b), h, rfl⟩)
      rw [if_neg this]; exact ih hk.2 h

theorem dget_invert {d : Dict} (hd : Injective d) {a b : Nat} (h : dget d a = some b) :
    dget (invert d) b = some a := by
  apply dget_of_mem
  · unfold invert
    rw [List.map_map]
    have : (Prod.fst ∘ fun p : Nat × Nat => (p.2, p.1)) = Prod.snd := by funext p; rfl
    rw [this]; exact hd.2
  · unfold invert
    exact List.mem_map.2 ⟨(a, b), dget_mem h, rfl⟩

theorem chain_cons (d : Dict) (ds : List Dict) (k : Nat) :
    chain (d :: ds) k = (dget d k).bind (fun x => chain ds x) := by
  unfold chain
  simp only [List.foldl_cons, Option.bind_some]
  cases h : dget d k with
  | none =>
    simp only [Option.bind_none]
    induction ds with
    | nil => rfl
    | cons e es ih => simpa using ih
  | some x => simp

theorem chain_append (ds es : List Dict) (k : Nat) :
    chain (ds ++ es) k = (chain ds k).bind (fun x => chain es x) := by
  induction ds generalizing k with
  | nil => simp [chain]
  | cons d ds ih =>
    rw [List.cons_append, chain_cons, chain_cons]
    cases dget d k with
    | none => simp
    | some x => simp [ih]

/-- following injective dicts forward from `k` to `m` means following their inverses, in reverse
    order, leads from `m` back to `k`. -/
theorem chain_adjoint (ds : List Dict) (hinj : ∀ d ∈ ds, Injective d) (k m : Nat)
    (h : chain ds k = some m) : chain ((ds.reverse).map invert) m = some k := by
  induction ds generalizing k with
  | nil => simp [chain] at h ⊢; exact h.symm
  | cons d ds ih =>
    rw [chain_cons] at h
    cases hd : dget d k with
    | none => simp [hd] at h
    | some x =>
      simp only [hd, Option.bind_some] at h
      have h1 := ih (fun e he => hinj e (List.mem_cons_of_mem _ he)) x h
      rw [List.reverse_cons, List.map_append, chain_append, h1]
      simp only [Option.bind_some, List.map_cons, List.map_nil]
      rw [chain_cons, dget_invert (hinj d List.mem_cons_self) hd]
      simp [chain]

theorem take_reverse_take (l : List Dict) (i j : Nat) (h : i + j + 1 ≤ l.length) :
    ((l.take (i + j + 1)).reverse).take (j + 1) = ((l.drop i).take (j + 1)).reverse := by
  have e : l.take (i + j + 1) = l.take i ++ (l.drop i).take (j + 1) := by
    rw [show i + j + 1 = i + (j + 1) by omega, List.take_add]
  rw [e, List.reverse_append]
  have hl : ((l.drop i).take (j + 1)).reverse.length = j + 1 := by
    simp only [List.length_reverse, List.length_take, List.length_drop]; omega
  rw [List.take_append_of_le_length (by omega), List.take_of_length_le (by omega)]

/--
  **C19 (adjointness).** For injective relation dicts: whenever sample `k` of dataset `i` is
  related forward to sample `m` of dataset `i + j + 1`, sample `m` of dataset `i + j + 1` is
  related backward (same offset) to sample `k` of dataset `i`.
-/
theorem C19_adjoint (dicts : List Dict) (hinj : ∀ d ∈ dicts, Injective d) (w i j k m : Nat)
    (hj : j < w) (hex : i + j + 1 ≤ dicts.length)
    (h : expandEntry false dicts w i (w + j + 1) k = some m) :
    expandEntry false dicts w (i + j + 1) (w - 1 - j) m = some k := by
  rw [forward_is_composition dicts w i j k hj hex] at h
  rw [backward_is_composition false dicts w (i + j + 1) j m hj (by omega) hex]
  rw [← List.map_take, ← List.map_reverse, ← List.map_take,
    take_reverse_take dicts i j hex]
  apply chain_adjoint _ _ _ _ h
  intro d hd
  exact hinj d (List.mem_of_mem_drop (List.mem_of_mem_take hd))

/-! ### the pinned revision's boundary test drops the relation into the last dataset -/

/-- two datasets, one relation `{0 ↦ 1, 1 ↦ 0}`: the pinned test leaves the forward entry empty
    although the composition is defined; the repaired test does not. -/
theorem pinned_drops_last :
    expandEntry true [[(0, 1), (1, 0)]] 1 0 2 0 = none
    ∧ chain (([[(0, 1), (1, 0)]] : List Dict).drop 0 |>.take 1) 0 = some 1
    ∧ expandEntry false [[(0, 1), (1, 0)]] 1 0 2 0 = some 1 := by
  decide

/-! ### non-vacuity: three datasets, window 2 -/

def exDicts : List Dict := [[(0, 1), (1, 2)], [(1, 0), (2, 2)]]

example : ∀ d ∈ exDicts, Injective d := by
  unfold exDicts Injective; decide
example : expandEntry false exDicts 2 0 4 0 = some 0 := by decide
example : expandEntry false exDicts 2 2 0 0 = some 0 := by decide

end C19
end Umap
