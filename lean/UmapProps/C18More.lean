/-
  C18 (continued) — value ranges of `general_sset_intersection` (both `right_complement`
  settings), calibration of `reprocess_row` when its loop stops early, and the end-to-end
  statement for `reset_local_connectivity`.

  Model: `Umap.Graph.ssetIntersection`, `reprocessRow`, `resetLocalConnectivity`.
-/
import UmapProps.C18

namespace Umap
namespace C18
open Graph

set_option linter.unusedSectionVars false

variable {K : Type} [Field K] [LinearOrder K] [IsStrictOrderedRing K]

/-! ### 1. what `general_sset_intersection` writes, entry by entry -/

/-- the transform applied to the right operand's stored values: `1 - x` for the complement. -/
def rfOf (rc : Bool) : K → K := if rc then (fun x => 1 - x) else id

/-- `right_val`: the (transformed) stored value of `B` at `(i, j)` — last match wins — or the
    default `right_min`. -/
def rightVal (rc : Bool) (B : Coo K) (i j : Nat) (rmin : K) : K :=
  match (B.filter (fun t => t.1 == i && t.2.1 == j)).getLast? with
  | some t => rfOf rc t.2.2
  | none => rmin

/-- the value written in the kept branch. -/
def keptValue (T : Transc K) (w l r : K) : K :=
  if w < 1 / (1 + 1) then l * T.pow r (w / (1 - w)) else T.pow l ((1 - w) / w) * r

/-- the value left untouched in the other branch: the entry of `A + B` (of `A` alone for the
    complement), duplicates summed. -/
def priorValue (rc : Bool) (A B : Coo K) (i j : Nat) : K :=
  if rc then lookup A i j else lookup A i j + lookup B i j

/-- the keep-condition `left_val > left_min or right_val > right_min`. -/
def Kept (rc : Bool) (A B : Coo K) (lmin rmin : K) (i j : Nat) : Prop :=
  lmin < storedOr A i j lmin ∨ rmin < rightVal rc B i j rmin

instance (rc : Bool) (A B : Coo K) (lmin rmin : K) (i j : Nat) :
    Decidable (Kept rc A B lmin rmin i j) := by unfold Kept; infer_instance

/-- the value of the result at `(i, j)`. -/
def interEntry (T : Transc K) (rc : Bool) (w : K) (A B : Coo K) (lmin rmin : K) (i j : Nat) : K :=
  if Kept rc A B lmin rmin i j then
    keptValue T w (storedOr A i j lmin) (rightVal rc B i j rmin)
  else priorValue rc A B i j

/-- the positions visited. -/
def interPositions (rc : Bool) (A B : Coo K) : List (Nat × Nat) :=
  if rc then positions A else positions (A ++ B)

/-- **`ssetIntersection` in closed form** (this is precisely what the model does). -/
theorem ssetIntersection_eq (T : Transc K) (eps cap w : K) (rc : Bool) (A B : Coo K) :
    ssetIntersection T eps cap rc w A B =
      (halfMin eps A id).bind fun lmin => (halfMin eps B (rfOf rc)).map fun rmin0 =>
        (interPositions rc A B).map fun p =>
          (p.1, p.2, interEntry T rc w A B lmin (minV rmin0 cap) p.1 p.2) := by
  cases rc
  · unfold ssetIntersection
    simp only [rfOf, interPositions, Bool.false_eq_true, if_false]
    rcases halfMin eps A id with _ | lmin <;> rcases halfMin eps B id with _ | rmin0
    · rfl
    · rfl
    · rfl
    · simp only [Option.bind_some, Option.map_some, Option.some.injEq]
      apply List.map_congr_left
      rintro ⟨i, j⟩ _
      simp only [interEntry, Kept, keptValue, priorValue, rightVal, rfOf, Bool.false_eq_true,
        if_false]
      split_ifs <;> first | rfl | exact absurd ‹_ ∨ _› ‹¬ _›
  · unfold ssetIntersection
    simp only [rfOf, interPositions, if_true]
    rcases halfMin eps A id with _ | lmin <;>
      rcases halfMin eps B (fun x => 1 - x) with _ | rmin0
    · rfl
    · rfl
    · rfl
    · simp only [Option.bind_some, Option.map_some, Option.some.injEq]
      apply List.map_congr_left
      rintro ⟨i, j⟩ _
      simp only [interEntry, Kept, keptValue, priorValue, rightVal, rfOf, if_true]
      split_ifs <;> first | rfl | exact absurd ‹_ ∨ _› ‹¬ _›

/-! ### 2. range of the entries -/

/-- what is used of the power function: positive on positives, non-negative on non-negatives,
    and at most `1` on `[0, 1]` with a non-negative exponent. -/
structure PowUnit (T : Transc K) : Prop where
  pos : ∀ x y : K, 0 < x → 0 < T.pow x y
  nonneg : ∀ x y : K, 0 ≤ x → 0 ≤ T.pow x y
  le_one : ∀ x y : K, 0 ≤ x → x ≤ 1 → 0 ≤ y → T.pow x y ≤ 1

/-- the real power function qualifies. -/
theorem powUnit_realT : PowUnit realT :=
  ⟨fun _ y h => Real.rpow_pos_of_pos h y, fun _ y h => Real.rpow_nonneg h y,
   fun _ _ h0 h1 hy => Real.rpow_le_one h0 h1 hy⟩

/-- so does the toy `ratT` (`pow x _ = x`, exact for `mix_weight = 1/2`). -/
theorem powUnit_ratT : PowUnit C16.ratT :=
  ⟨fun _ _ h => h, fun _ _ h => h, fun _ _ _ h _ => h⟩

theorem exponent_lo_nonneg {w : K} (hw0 : 0 ≤ w) (h : w < 1 / (1 + 1)) : 0 ≤ w / (1 - w) := by
  have h2 : (1:K) / (1 + 1) < 1 := by
    rw [div_lt_one (by norm_num)]; norm_num
  apply div_nonneg hw0; linarith

theorem exponent_hi_nonneg {w : K} (hw1 : w ≤ 1) (h : ¬ w < 1 / (1 + 1)) : 0 ≤ (1 - w) / w := by
  have h2 : (0:K) < 1 / (1 + 1) := by positivity
  apply div_nonneg (by linarith); linarith [not_lt.1 h]

/-- kept branch, both operands in `(0, 1]`: the value is in `(0, 1]`. -/
theorem keptValue_posUnit {T : Transc K} (hT : PowUnit T) {w l r : K} (hw0 : 0 ≤ w) (hw1 : w ≤ 1)
    (hl : 0 < l ∧ l ≤ 1) (hr : 0 < r ∧ r ≤ 1) :
    0 < keptValue T w l r ∧ keptValue T w l r ≤ 1 := by
  unfold keptValue
  split_ifs with h
  · have e := exponent_lo_nonneg hw0 h
    have p0 := hT.pos r (w / (1 - w)) hr.1
    have p1 := hT.le_one r (w / (1 - w)) hr.1.le hr.2 e
    exact ⟨mul_pos hl.1 p0, mul_le_one₀ hl.2 p0.le p1⟩
  · have e := exponent_hi_nonneg hw1 h
    have p0 := hT.pos l ((1 - w) / w) hl.1
    have p1 := hT.le_one l ((1 - w) / w) hl.1.le hl.2 e
    exact ⟨mul_pos p0 hr.1, mul_le_one₀ p1 hr.1.le hr.2⟩

/-- kept branch, operands in `[0, 1]` (the complement `1 - b` can be `0`): value in `[0, 1]`. -/
theorem keptValue_unit {T : Transc K} (hT : PowUnit T) {w l r : K} (hw0 : 0 ≤ w) (hw1 : w ≤ 1)
    (hl : 0 ≤ l ∧ l ≤ 1) (hr : 0 ≤ r ∧ r ≤ 1) :
    0 ≤ keptValue T w l r ∧ keptValue T w l r ≤ 1 := by
  unfold keptValue
  split_ifs with h
  · have e := exponent_lo_nonneg hw0 h
    have p0 := hT.nonneg r (w / (1 - w)) hr.1
    have p1 := hT.le_one r (w / (1 - w)) hr.1 hr.2 e
    exact ⟨mul_nonneg hl.1 p0, mul_le_one₀ hl.2 p0 p1⟩
  · have e := exponent_hi_nonneg hw1 h
    have p0 := hT.nonneg l ((1 - w) / w) hl.1
    have p1 := hT.le_one l ((1 - w) / w) hl.1 hl.2 e
    exact ⟨mul_nonneg p0 hr.1, mul_le_one₀ p1 hr.1 hr.2⟩

/-- without the complement `right_val` is the stored value of `B` or the default. -/
theorem rightVal_false (B : Coo K) (i j : Nat) (d : K) :
    rightVal false B i j d = storedOr B i j d := by
  unfold rightVal storedOr rfOf
  generalize (List.filter (fun t => t.1 == i && t.2.1 == j) B).getLast? = o
  cases o <;> rfl

/-- with the complement it is `1 - b` for a stored `b`, or the default. -/
theorem rightVal_true_cases (B : Coo K) (i j : Nat) (d : K) :
    rightVal true B i j d = d ∨ ∃ b, (i, j, b) ∈ B ∧ rightVal true B i j d = 1 - b := by
  unfold rightVal
  split
  · rename_i t h
    right
    have hm := List.mem_of_getLast? h
    rw [List.mem_filter] at hm
    obtain ⟨a, b, c⟩ := t
    have : a = i ∧ b = j := by simpa using hm.2
    obtain ⟨rfl, rfl⟩ := this
    exact ⟨c, hm.1, by simp [rfOf]⟩
  · exact Or.inl rfl

theorem dataMin_pred (P : K → Prop) (f : K → K) (A : Coo K) (hA : ∀ t ∈ A, P (f t.2.2)) (m : K)
    (h : dataMin A f = some m) : P m := by
  cases A with
  | nil => simp [dataMin] at h
  | cons t ts =>
    unfold dataMin at h
    simp only [Option.some.injEq] at h
    subst h
    apply minL_pred P
    · exact hA t List.mem_cons_self
    · intro x hx
      rw [List.mem_map] at hx
      obtain ⟨u, hu, rfl⟩ := hx
      exact hA u (List.mem_cons_of_mem _ hu)

/-- `max(min(f data) / 2, eps)` is in `(0, 1]` as soon as `eps` is and `f data ≤ 1`. -/
theorem halfMin_range_of_le_one (eps : K) (he0 : 0 < eps) (he1 : eps ≤ 1) (A : Coo K) (f : K → K)
    (hA : ∀ t ∈ A, f t.2.2 ≤ 1) (m : K) (h : halfMin eps A f = some m) : 0 < m ∧ m ≤ 1 := by
  unfold halfMin at h
  rcases hm : dataMin A f with _ | d
  · rw [hm] at h; simp at h
  · rw [hm] at h
    simp only [Option.map_some, Option.some.injEq] at h
    subst h
    have hd : d ≤ 1 := dataMin_pred (fun x => x ≤ 1) f A hA d hm
    unfold maxV
    split_ifs with hlt
    · exact ⟨he0, he1⟩
    · refine ⟨lt_of_lt_of_le he0 (not_lt.1 hlt), ?_⟩
      rw [div_le_one (by norm_num)]; linarith

theorem minV_range {a b : K} (ha : 0 < a ∧ a ≤ 1) (hb : 0 < b ∧ b ≤ 1) :
    0 < minV a b ∧ minV a b ≤ 1 := by
  unfold minV; split_ifs
  · exact hb
  · exact ha

theorem minV_le_right (a b : K) : minV a b ≤ b := by
  unfold minV; split_ifs with h
  · exact le_refl _
  · exact not_lt.1 h

/-- the description of every entry of the plain intersection (`right_complement = False`). -/
structure InterEntrySpec (T : Transc K) (w : K) (A B : Coo K) (lmin rmin : K)
    (t : Nat × Nat × K) : Prop where
  /-- `left_val` is in `(0, 1]` -/
  left_range : 0 < storedOr A t.1 t.2.1 lmin ∧ storedOr A t.1 t.2.1 lmin ≤ 1
  /-- `right_val` is in `(0, 1]` -/
  right_range : 0 < storedOr B t.1 t.2.1 rmin ∧ storedOr B t.1 t.2.1 rmin ≤ 1
  /-- kept branch: the value is the weighted product, and it lies in `(0, 1]` -/
  kept : lmin < storedOr A t.1 t.2.1 lmin ∨ rmin < storedOr B t.1 t.2.1 rmin →
    t.2.2 = keptValue T w (storedOr A t.1 t.2.1 lmin) (storedOr B t.1 t.2.1 rmin)
      ∧ 0 < t.2.2 ∧ t.2.2 ≤ 1
  /-- other branch: the value is the prior entry of `A + B` (duplicates summed) -/
  prior : ¬ (lmin < storedOr A t.1 t.2.1 lmin ∨ rmin < storedOr B t.1 t.2.1 rmin) →
    t.2.2 = lookup A t.1 t.2.1 + lookup B t.1 t.2.1

/-- **intersection_entry_range** (any scalar field, any power function with `PowUnit`):
    for operands with stored values in `(0, 1]`, `eps, cap ∈ (0, 1]`, `mix_weight ∈ [0, 1]`, the
    result of `general_sset_intersection(right_complement=False)` is computed from
    `left_min = max(min A / 2, eps)` and `right_min = min(max(min B / 2, eps), cap)`, both in
    `(0, 1]` and `right_min ≤ cap`, and every stored entry `t` obeys `InterEntrySpec`:
    on the kept branch the value is `l * r^(w/(1-w))` resp. `l^((1-w)/w) * r` and lies in `(0, 1]`;
    on the other branch it is the prior entry of `A + B`. -/
theorem intersection_entry_range_gen (T : Transc K) (hT : PowUnit T) (eps cap w : K)
    (he0 : 0 < eps) (he1 : eps ≤ 1) (hc0 : 0 < cap) (hc1 : cap ≤ 1) (hw0 : 0 ≤ w) (hw1 : w ≤ 1)
    (A B U : Coo K) (hA : PosUnit A) (hB : PosUnit B)
    (hU : ssetIntersection T eps cap false w A B = some U) :
    ∃ lmin rmin0 : K, halfMin eps A id = some lmin ∧ halfMin eps B id = some rmin0
      ∧ (0 < lmin ∧ lmin ≤ 1) ∧ (0 < minV rmin0 cap ∧ minV rmin0 cap ≤ cap)
      ∧ ∀ t ∈ U, InterEntrySpec T w A B lmin (minV rmin0 cap) t := by
  rw [ssetIntersection_eq] at hU
  rcases hl : halfMin eps A id with _ | lmin
  · rw [hl] at hU; simp at hU
  rcases hr : halfMin eps B id with _ | rmin0
  · rw [hl] at hU; simp only [rfOf, Bool.false_eq_true, if_false] at hU; rw [hr] at hU
    simp at hU
  rw [hl] at hU
  simp only [rfOf, Bool.false_eq_true, if_false] at hU
  rw [hr] at hU
  simp only [Option.bind_some, Option.map_some, Option.some.injEq] at hU
  subst hU
  have hlm := halfMin_id_range eps he0 he1 A hA lmin hl
  have hrm0 := halfMin_id_range eps he0 he1 B hB rmin0 hr
  have hrm := minV_range hrm0 ⟨hc0, hc1⟩
  refine ⟨lmin, rmin0, rfl, rfl, hlm, ⟨hrm.1, minV_le_right _ _⟩, ?_⟩
  intro t ht
  rw [List.mem_map] at ht
  obtain ⟨p, _, rfl⟩ := ht
  have h1 := storedOr_range A hA p.1 p.2 lmin hlm
  have h2 := storedOr_range B hB p.1 p.2 (minV rmin0 cap) hrm
  refine ⟨h1, h2, ?_, ?_⟩
  · intro hk
    have hk' : Kept false A B lmin (minV rmin0 cap) p.1 p.2 := by
      unfold Kept; rw [rightVal_false]; exact hk
    have : interEntry T false w A B lmin (minV rmin0 cap) p.1 p.2
        = keptValue T w (storedOr A p.1 p.2 lmin) (storedOr B p.1 p.2 (minV rmin0 cap)) := by
      unfold interEntry; rw [if_pos hk', rightVal_false]
    refine ⟨this, ?_⟩
    show 0 < interEntry T false w A B lmin (minV rmin0 cap) p.1 p.2 ∧ _ ≤ 1
    rw [this]
    exact keptValue_posUnit hT hw0 hw1 h1 h2
  · intro hk
    have hk' : ¬ Kept false A B lmin (minV rmin0 cap) p.1 p.2 := by
      unfold Kept; rw [rightVal_false]; exact hk
    show interEntry T false w A B lmin (minV rmin0 cap) p.1 p.2 = _
    unfold interEntry; rw [if_neg hk']; simp [priorValue]

/-- the same over ℝ with the real power function, the formula spelled out. -/
theorem keptValue_real (w l r : ℝ) :
    keptValue realT w l r
      = if w < 1 / 2 then l * r ^ (w / (1 - w)) else l ^ ((1 - w) / w) * r := by
  unfold keptValue
  have : (1:ℝ) + 1 = 2 := by norm_num
  rw [this]; rfl

/-- **intersection_entry_range** over ℝ (`pow` = `Real.rpow`). -/
theorem intersection_entry_range (eps cap w : ℝ)
    (he0 : 0 < eps) (he1 : eps ≤ 1) (hc0 : 0 < cap) (hc1 : cap ≤ 1) (hw0 : 0 ≤ w) (hw1 : w ≤ 1)
    (A B U : Coo ℝ) (hA : PosUnit A) (hB : PosUnit B)
    (hU : ssetIntersection realT eps cap false w A B = some U) :
    ∃ lmin rmin0 : ℝ, halfMin eps A id = some lmin ∧ halfMin eps B id = some rmin0
      ∧ (0 < lmin ∧ lmin ≤ 1) ∧ (0 < minV rmin0 cap ∧ minV rmin0 cap ≤ cap)
      ∧ ∀ t ∈ U, InterEntrySpec realT w A B lmin (minV rmin0 cap) t :=
  intersection_entry_range_gen realT powUnit_realT eps cap w he0 he1 hc0 hc1 hw0 hw1 A B U hA hB hU

/-- the kept-branch clause alone, in plain words: if `(i, j, v)` is stored in the intersection and
    the keep-condition holds at `(i, j)`, then `v` is the weighted product and `0 < v ≤ 1`. -/
theorem intersection_kept_range (eps cap w : ℝ)
    (he0 : 0 < eps) (he1 : eps ≤ 1) (hc0 : 0 < cap) (hc1 : cap ≤ 1) (hw0 : 0 ≤ w) (hw1 : w ≤ 1)
    (A B U : Coo ℝ) (hA : PosUnit A) (hB : PosUnit B)
    (hU : ssetIntersection realT eps cap false w A B = some U) :
    ∃ lmin rmin : ℝ, ∀ i j v, (i, j, v) ∈ U →
      (lmin < storedOr A i j lmin ∨ rmin < storedOr B i j rmin) →
      v = (if w < 1 / 2 then storedOr A i j lmin * storedOr B i j rmin ^ (w / (1 - w))
            else storedOr A i j lmin ^ ((1 - w) / w) * storedOr B i j rmin)
      ∧ 0 < v ∧ v ≤ 1 := by
  obtain ⟨lmin, rmin0, _, _, _, _, h⟩ :=
    intersection_entry_range eps cap w he0 he1 hc0 hc1 hw0 hw1 A B U hA hB hU
  refine ⟨lmin, minV rmin0 cap, fun i j v hv hk => ?_⟩
  have := (h _ hv).kept hk
  rw [keptValue_real] at this
  exact this

/-! ### 3. the contrast (`right_complement = True`) -/

/-- the description of every entry of the contrast `A - B`. -/
structure ContrastEntrySpec (T : Transc K) (w : K) (A B : Coo K) (lmin rmin : K)
    (t : Nat × Nat × K) : Prop where
  /-- `left_val` is in `(0, 1]` -/
  left_range : 0 < storedOr A t.1 t.2.1 lmin ∧ storedOr A t.1 t.2.1 lmin ≤ 1
  /-- `right_val` is `right_min` or `1 - b` for a stored `b` of `B` … -/
  right_cases : rightVal true B t.1 t.2.1 rmin = rmin
    ∨ ∃ b, (t.1, t.2.1, b) ∈ B ∧ rightVal true B t.1 t.2.1 rmin = 1 - b
  /-- … hence in `[0, 1]` -/
  right_range : 0 ≤ rightVal true B t.1 t.2.1 rmin ∧ rightVal true B t.1 t.2.1 rmin ≤ 1
  /-- kept branch: the value is the weighted product, and it lies in `[0, 1]` -/
  kept : Kept true A B lmin rmin t.1 t.2.1 →
    t.2.2 = keptValue T w (storedOr A t.1 t.2.1 lmin) (rightVal true B t.1 t.2.1 rmin)
      ∧ 0 ≤ t.2.2 ∧ t.2.2 ≤ 1
  /-- other branch: the value is the prior entry of `A` (duplicates summed) -/
  prior : ¬ Kept true A B lmin rmin t.1 t.2.1 → t.2.2 = lookup A t.1 t.2.1

/-- **contrast_entry_range**: the same for `general_sset_intersection(right_complement=True)`:
    `right_min = min(max(min (1 - B) / 2, eps), cap)`, `right_val = 1 - b ∈ [0, 1)`, and every
    kept entry lies in `[0, 1]` (it is `0` exactly when `b = 1` kills it). -/
theorem contrast_entry_range_gen (T : Transc K) (hT : PowUnit T) (eps cap w : K)
    (he0 : 0 < eps) (he1 : eps ≤ 1) (hc0 : 0 < cap) (hc1 : cap ≤ 1) (hw0 : 0 ≤ w) (hw1 : w ≤ 1)
    (A B U : Coo K) (hA : PosUnit A) (hB : PosUnit B)
    (hU : ssetIntersection T eps cap true w A B = some U) :
    ∃ lmin rmin0 : K, halfMin eps A id = some lmin
      ∧ halfMin eps B (fun x => 1 - x) = some rmin0
      ∧ (0 < lmin ∧ lmin ≤ 1) ∧ (0 < minV rmin0 cap ∧ minV rmin0 cap ≤ cap)
      ∧ ∀ t ∈ U, ContrastEntrySpec T w A B lmin (minV rmin0 cap) t := by
  rw [ssetIntersection_eq] at hU
  rcases hl : halfMin eps A id with _ | lmin
  · rw [hl] at hU; simp at hU
  rcases hr : halfMin eps B (fun x => 1 - x) with _ | rmin0
  · rw [hl] at hU; simp only [rfOf, if_true] at hU; rw [hr] at hU
    simp at hU
  rw [hl] at hU
  simp only [rfOf, if_true] at hU
  rw [hr] at hU
  simp only [Option.bind_some, Option.map_some, Option.some.injEq] at hU
  subst hU
  have hlm := halfMin_id_range eps he0 he1 A hA lmin hl
  have hrm0 := halfMin_range_of_le_one eps he0 he1 B (fun x => 1 - x)
    (fun t ht => by have := (hB t ht).1; show 1 - t.2.2 ≤ 1; linarith) rmin0 hr
  have hrm := minV_range hrm0 ⟨hc0, hc1⟩
  refine ⟨lmin, rmin0, rfl, rfl, hlm, ⟨hrm.1, minV_le_right _ _⟩, ?_⟩
  intro t ht
  rw [List.mem_map] at ht
  obtain ⟨p, _, rfl⟩ := ht
  have h1 := storedOr_range A hA p.1 p.2 lmin hlm
  have hc := rightVal_true_cases B p.1 p.2 (minV rmin0 cap)
  have h2 : 0 ≤ rightVal true B p.1 p.2 (minV rmin0 cap)
      ∧ rightVal true B p.1 p.2 (minV rmin0 cap) ≤ 1 := by
    rcases hc with h | ⟨b, hb, h⟩
    · rw [h]; exact ⟨hrm.1.le, hrm.2⟩
    · rw [h]; have := hB _ hb; simp only at this; constructor <;> linarith
  refine ⟨h1, hc, h2, ?_, ?_⟩
  · intro hk
    have : interEntry T true w A B lmin (minV rmin0 cap) p.1 p.2
        = keptValue T w (storedOr A p.1 p.2 lmin) (rightVal true B p.1 p.2 (minV rmin0 cap)) := by
      unfold interEntry; rw [if_pos hk]
    refine ⟨this, ?_⟩
    show 0 ≤ interEntry T true w A B lmin (minV rmin0 cap) p.1 p.2 ∧ _ ≤ 1
    rw [this]
    exact keptValue_unit hT hw0 hw1 ⟨h1.1.le, h1.2⟩ h2
  · intro hk
    show interEntry T true w A B lmin (minV rmin0 cap) p.1 p.2 = _
    unfold interEntry; rw [if_neg hk]; simp [priorValue]

/-- **contrast_entry_range** over ℝ. -/
theorem contrast_entry_range (eps cap w : ℝ)
    (he0 : 0 < eps) (he1 : eps ≤ 1) (hc0 : 0 < cap) (hc1 : cap ≤ 1) (hw0 : 0 ≤ w) (hw1 : w ≤ 1)
    (A B U : Coo ℝ) (hA : PosUnit A) (hB : PosUnit B)
    (hU : ssetIntersection realT eps cap true w A B = some U) :
    ∃ lmin rmin0 : ℝ, halfMin eps A id = some lmin
      ∧ halfMin eps B (fun x => 1 - x) = some rmin0
      ∧ (0 < lmin ∧ lmin ≤ 1) ∧ (0 < minV rmin0 cap ∧ minV rmin0 cap ≤ cap)
      ∧ ∀ t ∈ U, ContrastEntrySpec realT w A B lmin (minV rmin0 cap) t :=
  contrast_entry_range_gen realT powUnit_realT eps cap w he0 he1 hc0 hc1 hw0 hw1 A B U hA hB hU

/-! ### 4. `reprocess_row` is calibrated whenever its loop stops early -/

/-- one iteration of the loop of `reprocess_row` (verbatim the `step` of the model). -/
def reprocessStep (T : Transc K) (tol target : K) (ps : List K) (s : Knn.BState K) (_ : Nat) :
    Knn.BState K :=
  if s.done then s else
  let p := sumL (ps.map (fun x => T.pow x s.mid))
  if absV (p - target) < tol then { s with done := true }
  else if p < target then { s with hi := some s.mid, mid := (s.lo + s.mid) / (1 + 1) }
  else match s.hi with
    | none => { s with lo := s.mid, mid := s.mid * (1 + 1) }
    | some h => { s with lo := s.mid, mid := (s.mid + h) / (1 + 1) }

/-- the bisection state after `n` iterations (`done` = the `break` was taken). -/
def reprocessState (T : Transc K) (tol target : K) (n : Nat) (ps : List K) : Knn.BState K :=
  (List.range n).foldl (reprocessStep T tol target ps) Knn.bisectInit

/-- the returned row is the input raised to the final `mid` (definitional). -/
theorem reprocessRow_eq_state (T : Transc K) (tol target : K) (n : Nat) (ps : List K) :
    reprocessRow T tol target n ps
      = ps.map (fun x => T.pow x (reprocessState T tol target n ps).mid) := rfl

/-- the invariant: a stopped state is calibrated. -/
def Calibrated (T : Transc K) (tol target : K) (ps : List K) (s : Knn.BState K) : Prop :=
  s.done = true → |(ps.map (fun x => T.pow x s.mid)).sum - target| < tol

theorem calibrated_init (T : Transc K) (tol target : K) (ps : List K) :
    Calibrated T tol target ps Knn.bisectInit := by
  intro h; simp [Knn.bisectInit] at h

theorem calibrated_step (T : Transc K) (tol target : K) (ps : List K) (s : Knn.BState K) (k : Nat)
    (hs : Calibrated T tol target ps s) :
    Calibrated T tol target ps (reprocessStep T tol target ps s k) := by
  unfold reprocessStep
  dsimp only
  split_ifs with hd hc hg
  · exact hs
  · intro _
    rw [absV_eq_abs, sumL_eq_sum] at hc
    exact hc
  · intro h; exact absurd h hd
  · cases hhi : s.hi with
    | none => intro h; exact absurd h hd
    | some hv => intro h; exact absurd h hd

/-- the invariant holds after any number of iterations. -/
theorem calibrated_state (T : Transc K) (tol target : K) (n : Nat) (ps : List K) :
    Calibrated T tol target ps (reprocessState T tol target n ps) :=
  foldl_inv (Calibrated T tol target ps) _ (fun s b h => calibrated_step T tol target ps s b h)
    _ _ (calibrated_init T tol target ps)

/-- **reprocess_done_calibrated** (any scalar field, any power function): when the loop of
    `reprocess_row` stopped early, the returned row `q` satisfies `|Σ q − target| < tol`. -/
theorem reprocess_done_calibrated_gen (T : Transc K) (tol target : K) (n : Nat) (ps : List K)
    (hdone : (reprocessState T tol target n ps).done = true) :
    |(reprocessRow T tol target n ps).sum - target| < tol := by
  rw [reprocessRow_eq_state]
  exact calibrated_state T tol target n ps hdone

/-- the bracket invariant `0 ≤ lo < mid < hi` is kept by the step (as in `reprocess_is_power`). -/
theorem rinv_step (tol target : ℝ) (ps : List ℝ) (s : Knn.BState ℝ) (k : Nat) (h : RInv s) :
    RInv (reprocessStep realT tol target ps s k) := by
  unfold reprocessStep
  dsimp only
  obtain ⟨h0, h1, h2⟩ := h
  have keep : RInv s := ⟨h0, h1, h2⟩
  split_ifs with hd hc hg
  · exact keep
  · exact keep
  · refine ⟨h0, ?_, ?_⟩
    · show s.lo < (s.lo + s.mid) / (1 + 1); linarith
    · intro h hh; simp only [Option.some.injEq] at hh; subst hh
      show (s.lo + s.mid) / (1 + 1) < s.mid; linarith
  · cases hhi : s.hi with
    | none =>
      simp only
      refine ⟨by linarith, ?_, ?_⟩
      · show s.mid < s.mid * (1 + 1); linarith
      · intro h hh; simp at hh
    | some hv =>
      simp only
      have hm := h2 hv hhi
      refine ⟨by linarith, ?_, ?_⟩
      · show s.mid < (s.mid + hv) / (1 + 1); linarith
      · intro h hh; simp only [Option.some.injEq] at hh; subst hh
        show (s.mid + hv) / (1 + 1) < hv; linarith

/-- **reprocess_done_calibrated** over ℝ: the returned row is `p ↦ p ^ t` for the final exponent
    `t > 0`, and if the loop stopped early its sum is within `tol` of the target. -/
theorem reprocess_done_calibrated (tol target : ℝ) (n : Nat) (ps : List ℝ)
    (hdone : (reprocessState realT tol target n ps).done = true) :
    0 < (reprocessState realT tol target n ps).mid
    ∧ reprocessRow realT tol target n ps
        = ps.map (fun x => x ^ (reprocessState realT tol target n ps).mid)
    ∧ |(reprocessRow realT tol target n ps).sum - target| < tol
    ∧ |(ps.map (fun x => x ^ (reprocessState realT tol target n ps).mid)).sum - target| < tol := by
  refine ⟨?_, rfl, reprocess_done_calibrated_gen realT tol target n ps hdone,
    reprocess_done_calibrated_gen realT tol target n ps hdone⟩
  exact mid_pos_of_foldl _ (fun s k h => rinv_step tol target ps s k h) _

/-- a stopped state is a fixed point of the step … -/
theorem reprocessStep_of_done (T : Transc K) (tol target : K) (ps : List K) (s : Knn.BState K)
    (k : Nat) (h : s.done = true) : reprocessStep T tol target ps s k = s := by
  unfold reprocessStep; rw [if_pos h]

theorem foldl_fixed {σ β : Type} (f : σ → β → σ) (s : σ) (h : ∀ b, f s b = s) (l : List β) :
    l.foldl f s = s := by
  induction l with
  | nil => rfl
  | cons b l ih => rw [List.foldl_cons, h b, ih]

/-- … so once the loop has stopped, further iterations change nothing: the state, and the
    returned row, are the same for every larger `n_iters` (this is the `break`). -/
theorem reprocess_done_stable (T : Transc K) (tol target : K) (n m : Nat) (ps : List K)
    (hdone : (reprocessState T tol target n ps).done = true) :
    reprocessState T tol target (n + m) ps = reprocessState T tol target n ps
    ∧ reprocessRow T tol target (n + m) ps = reprocessRow T tol target n ps := by
  have h : reprocessState T tol target (n + m) ps = reprocessState T tol target n ps := by
    unfold reprocessState at hdone ⊢
    rw [List.range_add, List.foldl_append]
    exact foldl_fixed _ _ (fun b => reprocessStep_of_done T tol target ps _ b hdone) _
  exact ⟨h, by rw [reprocessRow_eq_state, reprocessRow_eq_state, h]⟩

/-! ### 5. `reset_local_connectivity` end to end -/

/-- the fuzzy union `a + b − ab` with `a = 1` is `1` … -/
theorem fuzzy_union_one_left (b : K) : 1 + b - 1 * b = 1 := by ring

/-- … and with `b = 1` too. -/
theorem fuzzy_union_one_right (a : K) : a + 1 - a * 1 = 1 := by ring

/-- `mix 1` is the fuzzy union. -/
theorem mix_one_eq (a b : K) : mix 1 a b = a + b - a * b := by unfold mix; ring

/-- **unit_edge_survives_union**: in a matrix without duplicate positions, a stored unit entry
    `(i, j, 1)` is stored with value `1` after the fuzzy union with the transpose, in both
    orientations — whatever the matrix holds at `(j, i)`. -/
theorem unit_edge_survives_union (N : Coo K) (hd : NoDup N) (i j : Nat) (h : (i, j, 1) ∈ N) :
    (i, j, 1) ∈ unionTranspose N ∧ (j, i, 1) ∈ unionTranspose N :=
  C16.nonisolated_has_unit_edge N i j (lookup_of_mem_nodup N hd i j 1 h)

/-- every entry of the union is `a + b − ab` for the two directed values and dominates both. -/
theorem union_entry_dominates (N : Coo K) (hN : C02.UnitValued N) (i j : Nat) (v : K)
    (h : (i, j, v) ∈ unionTranspose N) :
    v = lookup N i j + lookup N j i - lookup N i j * lookup N j i
      ∧ lookup N i j ≤ v ∧ lookup N j i ≤ v := by
  unfold unionTranspose at h
  obtain ⟨hv, _⟩ := C02.C02_graph_wellformed 1 zero_le_one (le_refl _) N hN i j v h
  have hm := C02.mix_one_ge_max (hN i j).1 (hN i j).2 (hN j i).1 (hN j i).2
  rw [← hv] at hm
  refine ⟨by rw [hv, mix_one_eq], le_trans (le_max_left _ _) hm, le_trans (le_max_right _ _) hm⟩

/-- no positive entry is lost by the union, and it can only grow. -/
theorem union_keeps_positive (N : Coo K) (hN : C02.UnitValued N) (hd : NoDup N) (i j : Nat) (u : K)
    (h : (i, j, u) ∈ N) (hu : 0 < u) :
    ∃ v, (i, j, v) ∈ unionTranspose N ∧ (j, i, v) ∈ unionTranspose N ∧ u ≤ v ∧ v ≤ 1 := by
  have hl := lookup_of_mem_nodup N hd i j u h
  have hm := C02.mix_one_ge_max (hN i j).1 (hN i j).2 (hN j i).1 (hN j i).2
  have hu' : u ≤ mix 1 (lookup N i j) (lookup N j i) := by
    rw [← hl]; exact le_trans (le_max_left _ _) hm
  have hne : mix 1 (lookup N i j) (lookup N j i) ≠ 0 := by
    intro hc; rw [hc] at hu'; linarith
  have hmem := mem_symmetrize_of_ne 1 N i j (Or.inl (by rw [hl]; exact ne_of_gt hu)) hne
  refine ⟨_, hmem, C02.symmetric 1 N i j _ hmem, hu', ?_⟩
  exact C02.mix_le_one zero_le_one (le_refl _) (hN i j).1 (hN i j).2 (hN j i).1 (hN j i).2

/-- the support of the reset graph is inside the symmetrised support of its input (any input). -/
theorem reset_support (A : Coo K) (i j : Nat) (v : K) (h : (i, j, v) ∈ resetLocalConnectivity A) :
    (∃ u, (i, j, u) ∈ A) ∨ (∃ u, (j, i, u) ∈ A) := by
  unfold resetLocalConnectivity unionTranspose at h
  rw [mem_symmetrize_iff, mem_positions_symm] at h
  rcases h.1 with ⟨u, hu⟩ | ⟨u, hu⟩
  · rw [C16.mem_rowMaxNormalize] at hu
    obtain ⟨u', hu', _⟩ := hu
    exact Or.inl ⟨u', hu'⟩
  · rw [C16.mem_rowMaxNormalize] at hu
    obtain ⟨u', hu', _⟩ := hu
    exact Or.inr ⟨u', hu'⟩

/-- **reset_after_intersection**: `reset_local_connectivity` applied to any combined graph `A`
    with non-negative stored values and no duplicate positions (`N` = the row-max normalised
    matrix, `R` = the result):
    1. `R` is symmetric;
    2. every stored entry of `R` is in `(0, 1]`;
    3. every stored entry of `R` is the fuzzy union `a + b − ab` of the two directed values of `N`
       and is at least each of them;
    4. every row of `A` with a positive entry has an entry equal to `1` in `N` (before the union
       with the transpose), and that unit edge survives the union, in both orientations;
    5. every positive entry of `N` is still stored in `R`, with a value at least as large;
    6. the support of `R` is inside the symmetrised support of `A`. -/
theorem reset_after_intersection (A : Coo K) (hA : C16.NonNeg A) (hd : NoDup A) :
    (∀ i j v, (i, j, v) ∈ resetLocalConnectivity A → (j, i, v) ∈ resetLocalConnectivity A)
    ∧ (∀ i j v, (i, j, v) ∈ resetLocalConnectivity A → 0 < v ∧ v ≤ 1)
    ∧ (∀ i j v, (i, j, v) ∈ resetLocalConnectivity A →
        v = lookup (rowMaxNormalize A) i j + lookup (rowMaxNormalize A) j i
              - lookup (rowMaxNormalize A) i j * lookup (rowMaxNormalize A) j i
        ∧ lookup (rowMaxNormalize A) i j ≤ v ∧ lookup (rowMaxNormalize A) j i ≤ v)
    ∧ (∀ i j0 v0, (i, j0, v0) ∈ A → 0 < v0 →
        ∃ j, (i, j, 1) ∈ rowMaxNormalize A
          ∧ (i, j, 1) ∈ resetLocalConnectivity A ∧ (j, i, 1) ∈ resetLocalConnectivity A)
    ∧ (∀ i j u, (i, j, u) ∈ rowMaxNormalize A → 0 < u →
        ∃ v, (i, j, v) ∈ resetLocalConnectivity A ∧ (j, i, v) ∈ resetLocalConnectivity A
          ∧ u ≤ v ∧ v ≤ 1)
    ∧ (∀ i j v, (i, j, v) ∈ resetLocalConnectivity A →
        (∃ u, (i, j, u) ∈ A) ∨ (∃ u, (j, i, u) ∈ A)) := by
  have hN := C16.rowmax_unitValued A hA hd
  have hND := C16.rowMaxNormalize_noDup A hd
  refine ⟨fun i j v h => combined_symm A i j v h,
    fun i j v h => combined_range_of_unitValued A hN i j v h,
    fun i j v h => union_entry_dominates _ hN i j v h, ?_,
    fun i j u h hu => union_keeps_positive _ hN hND i j u h hu,
    fun i j v h => reset_support A i j v h⟩
  intro i j0 v0 h0 hp
  obtain ⟨j, hj⟩ := C16.rowmax_unit A hA i j0 v0 h0 hp
  obtain ⟨h1, h2⟩ := unit_edge_survives_union _ hND i j hj
  exact ⟨j, hj, h1, h2⟩

/-! ### 6. the intersection / contrast followed by the reset -/

/-- the result of `ssetIntersection` stores every position once. -/
theorem intersection_noDup (T : Transc K) (eps cap w : K) (rc : Bool) (A B U : Coo K)
    (hU : ssetIntersection T eps cap rc w A B = some U) : NoDup U := by
  unfold NoDup
  rw [intersection_support T eps cap w rc A B U hU]
  split_ifs <;> exact nodup_positions _

/-- and all its stored values are non-negative (both `right_complement` settings). -/
theorem intersection_nonNeg (T : Transc K) (hT : PowUnit T) (eps cap w : K)
    (he0 : 0 < eps) (he1 : eps ≤ 1) (hc0 : 0 < cap) (hc1 : cap ≤ 1) (hw0 : 0 ≤ w) (hw1 : w ≤ 1)
    (rc : Bool) (A B U : Coo K) (hA : PosUnit A) (hB : PosUnit B)
    (hU : ssetIntersection T eps cap rc w A B = some U) : C16.NonNeg U := by
  have hAn : ∀ t ∈ A, 0 ≤ t.2.2 := fun t ht => (hA t ht).1.le
  have hBn : ∀ t ∈ B, 0 ≤ t.2.2 := fun t ht => (hB t ht).1.le
  intro t ht
  cases rc
  · obtain ⟨lmin, rmin0, _, _, _, _, h⟩ :=
      intersection_entry_range_gen T hT eps cap w he0 he1 hc0 hc1 hw0 hw1 A B U hA hB hU
    have hs := h t ht
    by_cases hk : lmin < storedOr A t.1 t.2.1 lmin
        ∨ minV rmin0 cap < storedOr B t.1 t.2.1 (minV rmin0 cap)
    · exact (hs.kept hk).2.1.le
    · rw [hs.prior hk]
      exact add_nonneg (lookup_nonneg A hAn _ _) (lookup_nonneg B hBn _ _)
  · obtain ⟨lmin, rmin0, _, _, _, _, h⟩ :=
      contrast_entry_range_gen T hT eps cap w he0 he1 hc0 hc1 hw0 hw1 A B U hA hB hU
    have hs := h t ht
    by_cases hk : Kept true A B lmin (minV rmin0 cap) t.1 t.2.1
    · exact (hs.kept hk).2.1
    · rw [hs.prior hk]
      exact lookup_nonneg A hAn _ _

/-- **intersection_then_reset**: `reset_local_connectivity (A * B)` resp. `(A - B)` for operands
    with stored values in `(0, 1]`: the result is symmetric, its entries are in `(0, 1]`, its
    support is contained in the (symmetrised) union of the operands' supports — in that of `A`
    for the contrast —, and every sample with a positive entry in the combined matrix `U` ends
    with a unit edge. -/
theorem intersection_then_reset (T : Transc K) (hT : PowUnit T) (eps cap w : K)
    (he0 : 0 < eps) (he1 : eps ≤ 1) (hc0 : 0 < cap) (hc1 : cap ≤ 1) (hw0 : 0 ≤ w) (hw1 : w ≤ 1)
    (rc : Bool) (A B U : Coo K) (hA : PosUnit A) (hB : PosUnit B)
    (hU : ssetIntersection T eps cap rc w A B = some U) :
    (∀ i j v, (i, j, v) ∈ resetLocalConnectivity U → (j, i, v) ∈ resetLocalConnectivity U)
    ∧ (∀ i j v, (i, j, v) ∈ resetLocalConnectivity U → 0 < v ∧ v ≤ 1)
    ∧ (∀ i j v, (i, j, v) ∈ resetLocalConnectivity U →
        (i, j) ∈ interPositions rc A B ∨ (j, i) ∈ interPositions rc A B)
    ∧ (∀ i j0 v0, (i, j0, v0) ∈ U → 0 < v0 →
        ∃ j, (i, j, 1) ∈ resetLocalConnectivity U ∧ (j, i, 1) ∈ resetLocalConnectivity U) := by
  have hNN := intersection_nonNeg T hT eps cap w he0 he1 hc0 hc1 hw0 hw1 rc A B U hA hB hU
  have hND := intersection_noDup T eps cap w rc A B U hU
  obtain ⟨h1, h2, _, h4, _, h6⟩ := reset_after_intersection U hNN hND
  have hsup : ∀ i j u, (i, j, u) ∈ U → (i, j) ∈ interPositions rc A B := by
    intro i j u hu
    have := intersection_support T eps cap w rc A B U hU
    unfold interPositions
    rw [← this]
    exact List.mem_map.2 ⟨_, hu, rfl⟩
  refine ⟨h1, h2, fun i j v h => ?_, fun i j0 v0 h0 hp => ?_⟩
  · rcases h6 i j v h with ⟨u, hu⟩ | ⟨u, hu⟩
    · exact Or.inl (hsup _ _ _ hu)
    · exact Or.inr (hsup _ _ _ hu)
  · obtain ⟨j, _, ha, hb⟩ := h4 i j0 v0 h0 hp
    exact ⟨j, ha, hb⟩

/-- the positions visited, as sets: those stored in `A` or `B`, resp. in `A` alone. -/
theorem mem_interPositions (rc : Bool) (A B : Coo K) (i j : Nat) :
    (i, j) ∈ interPositions rc A B ↔
      if rc then (∃ v, (i, j, v) ∈ A) else ((∃ v, (i, j, v) ∈ A) ∨ (∃ v, (i, j, v) ∈ B)) := by
  unfold interPositions
  cases rc
  · simp only [Bool.false_eq_true, if_false]
    rw [mem_positions]
    simp only [List.mem_append]
    constructor
    · rintro ⟨v, h | h⟩
      · exact Or.inl ⟨v, h⟩
      · exact Or.inr ⟨v, h⟩
    · rintro (⟨v, h⟩ | ⟨v, h⟩)
      · exact ⟨v, Or.inl h⟩
      · exact ⟨v, Or.inr h⟩
  · simp only [if_true]
    rw [mem_positions]

/-! ### 7. with duplicate-free operands the whole intersection is in `(0, 1]` -/

theorem minL_le_init (init : K) (xs : List K) : minL init xs ≤ init := by
  induction xs generalizing init with
  | nil => exact le_refl _
  | cons x xs ih =>
    rw [minL_cons]
    refine le_trans (ih _) ?_
    split_ifs with h
    · exact le_of_lt h
    · exact le_refl _

theorem minL_le_mem (init : K) (xs : List K) (x : K) (hx : x ∈ xs) : minL init xs ≤ x := by
  induction xs generalizing init with
  | nil => simp at hx
  | cons y xs ih =>
    rw [minL_cons]
    rcases List.mem_cons.1 hx with rfl | h
    · refine le_trans (minL_le_init _ _) ?_
      split_ifs with h
      · exact le_refl _
      · exact not_lt.1 h
    · exact ih _ h

/-- `data.min()` is a lower bound of the stored values. -/
theorem dataMin_le (A : Coo K) (m : K) (h : dataMin A id = some m) (t : Nat × Nat × K)
    (ht : t ∈ A) : m ≤ t.2.2 := by
  cases A with
  | nil => simp at ht
  | cons a as =>
    unfold dataMin at h
    simp only [Option.some.injEq, id] at h
    subst h
    rcases List.mem_cons.1 ht with rfl | h'
    · exact minL_le_init _ _
    · exact minL_le_mem _ _ _ (List.mem_map.2 ⟨t, h', rfl⟩)

/-- a stored value that fails `left_val > left_min` is at most `eps` (`1e-8`): the half-minimum
    is below every stored value. -/
theorem stored_le_eps_of_le_halfMin (eps : K) (A : Coo K) (hA : PosUnit A) (lmin : K)
    (h : halfMin eps A id = some lmin) (t : Nat × Nat × K) (ht : t ∈ A) (hle : t.2.2 ≤ lmin) :
    t.2.2 ≤ eps := by
  unfold halfMin at h
  rcases hm : dataMin A id with _ | m
  · rw [hm] at h; simp at h
  · rw [hm] at h
    simp only [Option.map_some, Option.some.injEq] at h
    subst h
    have h1 := dataMin_le A m hm t ht
    have h0 := (hA t ht).1
    unfold maxV at hle
    split_ifs at hle with hlt
    · exact hle
    · exfalso
      have : m / (1 + 1) ≤ t.2.2 / (1 + 1) := by
        apply div_le_div_of_nonneg_right h1; norm_num
      have h2 : t.2.2 / (1 + 1) < t.2.2 := by
        rw [div_lt_iff₀ (by norm_num)]; linarith
      linarith

/-- a stored position yields a stored value (the last match). -/
theorem storedOr_of_mem (A : Coo K) (i j : Nat) (v d : K) (h : (i, j, v) ∈ A) :
    ∃ v', (i, j, v') ∈ A ∧ storedOr A i j d = v' := by
  have hne : A.filter (fun t => t.1 == i && t.2.1 == j) ≠ [] := by
    intro hc
    have : (i, j, v) ∈ A.filter (fun t => t.1 == i && t.2.1 == j) :=
      List.mem_filter.2 ⟨h, by simp⟩
    rw [hc] at this; simp at this
  unfold storedOr
  split
  · rename_i t ht
    have hm := List.mem_of_getLast? ht
    rw [List.mem_filter] at hm
    obtain ⟨a, b, c⟩ := t
    have : a = i ∧ b = j := by simpa using hm.2
    obtain ⟨rfl, rfl⟩ := this
    exact ⟨c, hm.1, rfl⟩
  · rename_i hnone
    rw [List.getLast?_eq_none_iff] at hnone
    exact absurd hnone hne

/-- without duplicates it is *the* stored value. -/
theorem storedOr_of_mem_noDup (A : Coo K) (hd : NoDup A) (i j : Nat) (v d : K)
    (h : (i, j, v) ∈ A) : storedOr A i j d = v := by
  obtain ⟨v', hv', he⟩ := storedOr_of_mem A i j v d h
  rw [he, ← lookup_of_mem_nodup A hd i j v' hv', lookup_of_mem_nodup A hd i j v h]

/-- the prior entry of a duplicate-free operand at a position failing the keep-condition is in
    `[0, eps]`, and positive if the position is stored. -/
theorem lookup_prior_bound (eps : K) (he0 : 0 < eps) (A : Coo K) (hA : PosUnit A) (hd : NoDup A)
    (lmin : K) (hl : halfMin eps A id = some lmin) (i j : Nat) (d : K)
    (hle : storedOr A i j d ≤ lmin) :
    0 ≤ lookup A i j ∧ lookup A i j ≤ eps ∧ ((∃ v, (i, j, v) ∈ A) → 0 < lookup A i j) := by
  by_cases hs : ∃ v, (i, j, v) ∈ A
  · obtain ⟨v, hv⟩ := hs
    rw [lookup_of_mem_nodup A hd i j v hv]
    rw [storedOr_of_mem_noDup A hd i j v d hv] at hle
    have h0 := (hA _ hv).1
    exact ⟨h0.le, stored_le_eps_of_le_halfMin eps A hA lmin hl _ hv hle, fun _ => h0⟩
  · have : lookup A i j = 0 :=
      lookup_eq_zero_of_not_mem A i j (fun v hv => hs ⟨v, hv⟩)
    rw [this]
    exact ⟨le_refl _, he0.le, fun h => absurd h hs⟩

theorem minV_le_left (a b : K) : minV a b ≤ a := by
  unfold minV; split_ifs with h
  · exact le_of_lt h
  · exact le_refl _

/-- **intersection_posUnit**: for duplicate-free operands with stored values in `(0, 1]` and
    `2 eps ≤ 1` (`eps = 1e-8` in the code), *every* stored entry of the plain intersection lies in
    `(0, 1]`: the kept ones by `intersection_entry_range`, the others because they are sums of
    stored values `≤ eps`. -/
theorem intersection_posUnit (T : Transc K) (hT : PowUnit T) (eps cap w : K)
    (he0 : 0 < eps) (he2 : eps + eps ≤ 1) (hc0 : 0 < cap) (hc1 : cap ≤ 1) (hw0 : 0 ≤ w)
    (hw1 : w ≤ 1) (A B U : Coo K) (hA : PosUnit A) (hB : PosUnit B) (hdA : NoDup A)
    (hdB : NoDup B) (hU : ssetIntersection T eps cap false w A B = some U) : PosUnit U := by
  have he1 : eps ≤ 1 := by linarith
  obtain ⟨lmin, rmin0, hl, hr, _, _, h⟩ :=
    intersection_entry_range_gen T hT eps cap w he0 he1 hc0 hc1 hw0 hw1 A B U hA hB hU
  intro t ht
  have hs := h t ht
  by_cases hk : lmin < storedOr A t.1 t.2.1 lmin
      ∨ minV rmin0 cap < storedOr B t.1 t.2.1 (minV rmin0 cap)
  · exact (hs.kept hk).2
  · rw [hs.prior hk]
    push Not at hk
    obtain ⟨a0, a1, a2⟩ := lookup_prior_bound eps he0 A hA hdA lmin hl t.1 t.2.1 lmin hk.1
    obtain ⟨b0, b1, b2⟩ := lookup_prior_bound eps he0 B hB hdB rmin0 hr t.1 t.2.1 (minV rmin0 cap)
      (le_trans hk.2 (minV_le_left _ _))
    refine ⟨?_, by linarith⟩
    have hp := intersection_support_subset T eps cap w A B U hU t.1 t.2.1 t.2.2 ht
    rw [mem_positions] at hp
    obtain ⟨v, hv⟩ := hp
    rcases List.mem_append.1 hv with hv | hv
    · have := a2 ⟨v, hv⟩; linarith
    · have := b2 ⟨v, hv⟩; linarith

/-- **contrast_range**: for a duplicate-free left operand every stored entry of the contrast
    `A - B` lies in `[0, 1]`. -/
theorem contrast_range (T : Transc K) (hT : PowUnit T) (eps cap w : K)
    (he0 : 0 < eps) (he1 : eps ≤ 1) (hc0 : 0 < cap) (hc1 : cap ≤ 1) (hw0 : 0 ≤ w)
    (hw1 : w ≤ 1) (A B U : Coo K) (hA : PosUnit A) (hB : PosUnit B) (hdA : NoDup A)
    (hU : ssetIntersection T eps cap true w A B = some U) :
    ∀ t ∈ U, 0 ≤ t.2.2 ∧ t.2.2 ≤ 1 := by
  obtain ⟨lmin, rmin0, _, _, _, _, h⟩ :=
    contrast_entry_range_gen T hT eps cap w he0 he1 hc0 hc1 hw0 hw1 A B U hA hB hU
  intro t ht
  have hs := h t ht
  by_cases hk : Kept true A B lmin (minV rmin0 cap) t.1 t.2.1
  · exact (hs.kept hk).2
  · rw [hs.prior hk]
    obtain ⟨v, hv⟩ := contrast_support_subset T eps cap w A B U hU t.1 t.2.1 t.2.2 ht
    rw [lookup_of_mem_nodup A hdA _ _ v hv]
    exact ⟨(hA _ hv).1.le, (hA _ hv).2⟩

/-- **intersection_then_reset_full**: `reset_local_connectivity (A * B)` for duplicate-free
    operands in `(0, 1]`: symmetric, entries in `(0, 1]`, and *every sample that has an edge in
    either operand* ends with a unit edge. -/
theorem intersection_then_reset_full (T : Transc K) (hT : PowUnit T) (eps cap w : K)
    (he0 : 0 < eps) (he2 : eps + eps ≤ 1) (hc0 : 0 < cap) (hc1 : cap ≤ 1) (hw0 : 0 ≤ w)
    (hw1 : w ≤ 1) (A B U : Coo K) (hA : PosUnit A) (hB : PosUnit B) (hdA : NoDup A)
    (hdB : NoDup B) (hU : ssetIntersection T eps cap false w A B = some U) :
    (∀ i j v, (i, j, v) ∈ resetLocalConnectivity U → (j, i, v) ∈ resetLocalConnectivity U)
    ∧ (∀ i j v, (i, j, v) ∈ resetLocalConnectivity U → 0 < v ∧ v ≤ 1)
    ∧ (∀ i j0 v0, ((i, j0, v0) ∈ A ∨ (i, j0, v0) ∈ B) →
        ∃ j, (i, j, 1) ∈ resetLocalConnectivity U ∧ (j, i, 1) ∈ resetLocalConnectivity U) := by
  have he1 : eps ≤ 1 := by linarith
  obtain ⟨h1, h2, _, h4⟩ :=
    intersection_then_reset T hT eps cap w he0 he1 hc0 hc1 hw0 hw1 false A B U hA hB hU
  have hPU := intersection_posUnit T hT eps cap w he0 he2 hc0 hc1 hw0 hw1 A B U hA hB hdA hdB hU
  refine ⟨h1, h2, fun i j0 v0 hmem => ?_⟩
  have hpos : (i, j0) ∈ positions (A ++ B) := by
    rw [mem_positions]
    rcases hmem with h | h
    · exact ⟨v0, List.mem_append.2 (Or.inl h)⟩
    · exact ⟨v0, List.mem_append.2 (Or.inr h)⟩
  have hsup := intersection_support T eps cap w false A B U hU
  simp only [Bool.false_eq_true, if_false] at hsup
  rw [← hsup, List.mem_map] at hpos
  obtain ⟨⟨a, b, u⟩, hu, he⟩ := hpos
  simp only [Prod.mk.injEq] at he
  obtain ⟨rfl, rfl⟩ := he
  exact h4 a b u hu (hPU _ hu).1

/-! ### 8. non-vacuity -/

/-- the intersection succeeds exactly like the union: as soon as both operands store something
    (so the hypothesis `ssetIntersection … = some U` of the theorems above is satisfiable for
    every non-empty pair of operands, over every field and power function). -/
theorem intersection_isSome (T : Transc K) (eps cap w : K) (rc : Bool) (A B : Coo K)
    (hA : A ≠ []) (hB : B ≠ []) : ∃ U, ssetIntersection T eps cap rc w A B = some U := by
  rw [ssetIntersection_eq]
  cases A with
  | nil => exact absurd rfl hA
  | cons a as =>
    cases B with
    | nil => exact absurd rfl hB
    | cons b bs => simp [halfMin, dataMin]

-- ℚ, `eps = 1e-8`, `cap = 1e-4`, `mix_weight = 1/2` (`ratT.pow x 1 = x` is then exact)
example : ssetIntersection C16.ratT (1/100000000) (1/10000) false (1/2) exA exB
    = some [(0, 1, 1/2), (0, 2, 1/20000), (1, 0, 1/8), (2, 1, 1/8)] := by decide +kernel
example : ssetIntersection C16.ratT (1/100000000) (1/10000) true (1/2) exA exB
    = some [(0, 1, 1/2), (0, 2, 1/200000000), (1, 0, 1/8)] := by decide +kernel

-- the keep-condition holds at `(0, 1)` (both stored) and at `(0, 2)` (stored in `exA` only) …
example : Kept false exA exB (1/8) (1/10000) 0 1 := by unfold Kept; decide +kernel
example : Kept false exA exB (1/8) (1/10000) 0 2 := by unfold Kept; decide +kernel
-- … and fails where both stored values are `≤ eps`: the entry keeps the sum `1/8 + 1/8`
example : ¬ Kept false ([(0, 1, 1/8), (1, 0, 1)] : Coo ℚ) [(0, 1, 1/8), (2, 0, 1/2)] (1/4) (1/4) 0 1 := by
  unfold Kept; decide +kernel
example : ssetIntersection C16.ratT (1/4 : ℚ) (1/2) false (1/2) [(0, 1, 1/8), (1, 0, 1)]
    [(0, 1, 1/8), (2, 0, 1/2)] = some [(0, 1, 1/4), (1, 0, 1/4), (2, 0, 1/8)] := by decide +kernel

-- all hypotheses of `intersection_entry_range_gen` / `intersection_posUnit` /
-- `intersection_then_reset_full` hold on the ℚ instance
example : PosUnit ([(0, 1, 1/2), (0, 2, 1/20000), (1, 0, 1/8), (2, 1, 1/8)] : Coo ℚ) :=
  intersection_posUnit C16.ratT powUnit_ratT (1/100000000) (1/10000) (1/2) (by norm_num)
    (by norm_num) (by norm_num) (by norm_num) (by norm_num) (by norm_num) exA exB _
    (by unfold PosUnit; decide +kernel) (by unfold PosUnit; decide +kernel)
    (by unfold NoDup; decide +kernel) (by unfold NoDup; decide +kernel) (by decide +kernel)

-- after the reset: rows 0, 1, 2 all have a unit edge, the weak edge `(0, 2)` is kept, symmetric
example : resetLocalConnectivity ([(0, 1, 1/2), (0, 2, 1/20000), (1, 0, 1/8), (2, 1, 1/8)] : Coo ℚ)
    = [(0, 1, 1), (0, 2, 1/10000), (1, 0, 1), (2, 1, 1), (2, 0, 1/10000), (1, 2, 1)] := by
  decide +kernel
example : C16.NonNeg ([(0, 1, 1/2), (0, 2, 1/20000), (1, 0, 1/8), (2, 1, 1/8)] : Coo ℚ) := by
  unfold C16.NonNeg; decide +kernel
example : NoDup ([(0, 1, 1/2), (0, 2, 1/20000), (1, 0, 1/8), (2, 1, 1/8)] : Coo ℚ) := by
  unfold NoDup; decide +kernel
-- `unit_edge_survives_union`: `(2, 1, 1)` is a unit entry of the normalised matrix; `(1, 2)` is
-- not stored there, and the union stores `1` at both
example : (2, 1, (1:ℚ)) ∈ rowMaxNormalize
    ([(0, 1, 1/2), (0, 2, 1/20000), (1, 0, 1/8), (2, 1, 1/8)] : Coo ℚ) := by decide +kernel

-- over ℝ: the hypotheses of `intersection_entry_range` are satisfiable
example : PosUnit ([(0, 1, 1), (0, 2, 1/2)] : Coo ℝ) := by
  intro t ht
  simp only [List.mem_cons, List.not_mem_nil, or_false] at ht
  rcases ht with rfl | rfl <;> norm_num
example : ∃ U, ssetIntersection realT (1/100000000) (1/10000) false (3/10)
    [(0, 1, 1), (0, 2, 1/2)] [(0, 1, 1/2), (2, 1, 1)] = some U :=
  intersection_isSome _ _ _ _ _ _ _ (by simp) (by simp)

-- `reprocess_done_calibrated_gen`: the loop does stop early on a ℚ instance …
example : (reprocessState C16.ratT (1/100 : ℚ) (3/2) 3 [1, 1/2]).done = true := by decide +kernel
-- … and over ℝ: `1 ^ 1 + (1/2) ^ 1 = 3/2` hits the target at the first iteration
example : (reprocessState realT (1/100 : ℝ) (3/2) 5 [1, 1/2]).done = true := by
  have h1 : (reprocessState realT (1/100 : ℝ) (3/2) 1 [1, 1/2]).done = true := by
    simp only [reprocessState, List.range_one, List.foldl_cons, List.foldl_nil, reprocessStep,
      Knn.bisectInit, realT, List.map_cons, List.map_nil, sumL_cons, sumL_nil, absV]
    norm_num
  exact (reprocess_done_stable realT _ _ 1 4 _ h1).1 ▸ h1

theorem quarter_rpow_half : ((1:ℝ) / 4) ^ ((1:ℝ) / 2) = 1 / 2 := by
  rw [← Real.sqrt_eq_rpow]
  rw [show ((1:ℝ) / 4) = (1 / 2) * (1 / 2) by norm_num]
  exact Real.sqrt_mul_self (by norm_num)

/-- a genuine two-step run over ℝ: row `[1, 1/4]`, target `3/2`: `mid = 1` gives `5/4 < 3/2`, so
    `hi = 1`, `mid = 1/2`, and `1 ^ (1/2) + (1/4) ^ (1/2) = 3/2` stops the loop. -/
theorem reprocess_example_done :
    (reprocessState realT (1/100 : ℝ) (3/2) 2 [1, 1/4]).done = true
    ∧ (reprocessState realT (1/100 : ℝ) (3/2) 2 [1, 1/4]).mid = 1 / 2 := by
  have e : List.range 2 = [0, 1] := by decide
  simp only [reprocessState, e, List.foldl_cons, List.foldl_nil]
  have s1 : reprocessStep realT (1/100 : ℝ) (3/2) [1, 1/4] Knn.bisectInit 0
      = { lo := 0, hi := some 1, mid := 1 / 2, done := false } := by
    simp only [reprocessStep, Knn.bisectInit, realT, List.map_cons, List.map_nil, sumL_cons,
      sumL_nil, absV]
    norm_num
  rw [s1]
  simp only [reprocessStep, realT, List.map_cons, List.map_nil, sumL_cons,
      sumL_nil, absV, quarter_rpow_half]
  norm_num

-- so `reprocess_done_calibrated` applies, for every `n_iters ≥ 2`
example (m : Nat) : |(reprocessRow realT (1/100 : ℝ) (3/2) (2 + m) [1, 1/4]).sum - 3/2| < 1/100 := by
  rw [(reprocess_done_stable realT _ _ 2 m _ reprocess_example_done.1).2]
  exact (reprocess_done_calibrated _ _ 2 _ reprocess_example_done.1).2.2.1

end C18
end Umap
