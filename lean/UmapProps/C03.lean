/-
  C03 — the graph depends on the data only through the chosen metric's distances.

  What is proved on the model: the kNN row is a function of the multiset of the row's distances
  (so a sample permutation acts by conjugation), translation of both arguments and a common
  permutation of the features leave the Euclidean distance unchanged, the calibration is
  homogeneous (re-exported from C01), and the live tables — the disconnection distances and the
  sparse / gradient registries — equal their specification (regenerated from /repo each run).
  Partial: dispatch through `sklearn.pairwise_distances` / numba and the parallel argsort are tied
  by the correspondence only.
-/
import UmapProofs.Basic
import UmapProofs.RealT
import UmapModel.Metrics
import UmapProps.C01
import Generated.Constants
import Generated.Registry
import Mathlib.Tactic
import Mathlib.Data.List.Sort

namespace Umap
namespace C03
open Metrics

/-! ### the k smallest distances of a row depend only on the multiset of the row -/

/-- the sorted list of the `k` smallest entries is invariant under any reordering of the row. -/
theorem knn_row_perm_invariant (l l' : List ℝ) (h : l.Perm l') (k : Nat) :
    (l.mergeSort (fun a b => decide (a ≤ b))).take k = (l'.mergeSort (fun a b => decide (a ≤ b))).take k := by
  congr 1
  have hs : ∀ m : List ℝ, (m.mergeSort (fun a b => decide (a ≤ b))).Pairwise (fun a b => a ≤ b) := by
    intro m
    have := List.pairwise_mergeSort (le := fun (a b : ℝ) => decide (a ≤ b))
      (by intro a b c hab hbc; simp only [decide_eq_true_eq] at *; exact le_trans hab hbc)
      (by intro a b; simp only [Bool.or_eq_true, decide_eq_true_eq]; exact le_total a b) m
    simpa using this
  apply List.Perm.eq_of_pairwise (le := fun a b => a ≤ b)
  · intro a b _ _ hab hba; exact le_antisymm hab hba
  · exact hs l
  · exact hs l'
  · exact ((List.mergeSort_perm l _).trans h).trans (List.mergeSort_perm l' _).symm

/-! ### Euclidean distance: invariant under translation and under a common feature permutation -/

variable {K : Type} [Field K] [LinearOrder K] [IsStrictOrderedRing K]

theorem diffs_translate (x y c : List K) (hx : x.length = c.length) (hy : y.length = c.length) :
    diffs (List.zipWith (· + ·) x c) (List.zipWith (· + ·) y c) = diffs x y := by
  unfold diffs
  induction c generalizing x y with
  | nil =>
    have : x = [] := List.length_eq_zero_iff.1 hx
    subst this; simp
  | cons c0 c ih =>
    cases x with
    | nil => simp at hx
    | cons a x =>
      cases y with
      | nil => simp at hy
      | cons b y =>
        simp only [List.zipWith_cons_cons, List.zip_cons_cons, List.map_cons, List.cons.injEq]
        refine ⟨by ring, ih x y (by simpa using hx) (by simpa using hy)⟩

/-- translating every sample by the same vector leaves every Euclidean distance unchanged. -/
theorem euclid_translate (T : Transc K) (x y c : List K) (hx : x.length = c.length)
    (hy : y.length = c.length) :
    euclidean T (List.zipWith (· + ·) x c) (List.zipWith (· + ·) y c) = euclidean T x y := by
  unfold euclidean; rw [diffs_translate x y c hx hy]

/-- reordering the features (the same permutation of the coordinate pairs) leaves it unchanged. -/
theorem euclid_feature_perm (T : Transc K) (p q : List (K × K)) (h : p.Perm q) :
    T.sqrt (sumL ((p.map (fun t => t.1 - t.2)).map (fun d => d * d)))
      = T.sqrt (sumL ((q.map (fun t => t.1 - t.2)).map (fun d => d * d))) := by
  congr 1
  rw [sumL_eq_sum, sumL_eq_sum]
  exact ((h.map _).map _).sum_eq

/-! ### positive rescaling (from C01) -/

/-- rescaling distances, rho and bandwidth by `c > 0` leaves every membership unchanged; hence
    (C02's blend being a function of the two memberships) every graph entry. -/
theorem graph_scale_invariant_spec {c d r σ d' r' σ' ρ : ℝ} (hc : 0 < c) :
    Graph.mix ρ (Knn.member realT (c * d) (c * r) (c * σ)) (Knn.member realT (c * d') (c * r') (c * σ'))
      = Graph.mix ρ (Knn.member realT d r σ) (Knn.member realT d' r' σ') := by
  rw [C01.member_scale hc, C01.member_scale hc]

/-! ### the live tables equal their specification -/

/-- the default disconnection distances are exactly those of the six bounded metrics. -/
theorem disconnection_table_spec :
    Generated.disconnectionDistances =
      [("bit_jaccard", 1), ("correlation", 2), ("cosine", 2), ("dice", 1), ("hellinger", 1), ("jaccard", 1)] := by
  decide +kernel

def specSparse : List (String × String) := [
  ("braycurtis", "sparse_bray_curtis"), ("canberra", "sparse_canberra"), ("chebyshev", "sparse_chebyshev"),
  ("correlation", "sparse_correlation"), ("cosine", "sparse_cosine"), ("dice", "sparse_dice"),
  ("euclidean", "sparse_euclidean"), ("hamming", "sparse_hamming"), ("hellinger", "sparse_hellinger"),
  ("jaccard", "sparse_jaccard"), ("kulsinski", "sparse_kulsinski"), ("l1", "sparse_manhattan"),
  ("linf", "sparse_chebyshev"), ("linfinity", "sparse_chebyshev"), ("linfty", "sparse_chebyshev"),
  ("ll_dirichlet", "sparse_ll_dirichlet"), ("manhattan", "sparse_manhattan"), ("matching", "sparse_matching"),
  ("minkowski", "sparse_minkowski"), ("rogerstanimoto", "sparse_rogers_tanimoto"),
  ("russellrao", "sparse_russellrao"), ("sokalmichener", "sparse_sokal_michener"),
  ("sokalsneath", "sparse_sokal_sneath"), ("taxicab", "sparse_manhattan")]

def specGrad : List (String × String) := [
  ("braycurtis", "bray_curtis_grad"), ("canberra", "canberra_grad"), ("chebyshev", "chebyshev_grad"),
  ("correlation", "correlation_grad"), ("cosine", "cosine_grad"), ("euclidean", "euclidean_grad"),
  ("haversine", "haversine_grad"), ("hellinger", "hellinger_grad"), ("hyperboloid", "hyperboloid_grad"),
  ("l1", "manhattan_grad"), ("l2", "euclidean_grad"), ("linf", "chebyshev_grad"),
  ("mahalanobis", "mahalanobis_grad"), ("manhattan", "manhattan_grad"), ("minkowski", "minkowski_grad"),
  ("seuclidean", "standardised_euclidean_grad"), ("symmetric_kl", "symmetric_kl_grad"),
  ("wminkowski", "weighted_minkowski_grad")]

/-- every specified sparse / gradient name is wired to the specified function in the live code;
    the metrics that need `n_features` are exactly the seven specified. -/
theorem registries_spec :
    (∀ e ∈ specSparse, e ∈ Generated.sparseNamedDistances)
    ∧ (∀ e ∈ specGrad, e ∈ Generated.namedDistancesWithGradients)
    ∧ Generated.sparseNeedNFeatures
        = ["correlation", "hamming", "kulsinski", "matching", "rogerstanimoto", "russellrao", "sokalmichener"] := by
  decide +kernel

end C03
end Umap
