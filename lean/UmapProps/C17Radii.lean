/-
  C17 (radii) — the reported local radius is the defined quantity, for every symmetric graph.

  `radius_double_count` (C17.lean) needs "column sums equal row sums"; here that hypothesis is
  discharged for every *symmetric* edge list (the COO listing of a symmetric matrix: swapping head
  and tail of every entry gives a reordering of the same list), the argument of the logarithm is
  shown to be positive and bracketed by the smallest / largest squared neighbour distance for
  every non-isolated sample (so the radius is a finite real number), and the radius is shown
  to be independent of the order in which the edges are listed.
-/
import UmapProps.C17
import Mathlib.Tactic

set_option linter.unusedSectionVars false
set_option linter.unnecessarySeqFocus false

namespace Umap
namespace C17
open Radii

section
variable {K : Type} [Field K] [LinearOrder K] [IsStrictOrderedRing K]

/-- swap head and tail of an entry. -/
def swapE (e : Edge K) : Edge K := (e.2.1, e.1, e.2.2.1, e.2.2.2)

/-- the COO listing of a symmetric weighted graph: the swapped list is a reordering of the list. -/
def SymmetricEdges (es : List (Edge K)) : Prop := (es.map swapE).Perm es

theorem colNum_eq_rowNum_swap (es : List (Edge K)) (i : Nat) :
    colNum es i = rowNum (es.map swapE) i := by
  unfold colNum rowNum swapE
  rw [List.map_map]
  rfl

theorem colDen_eq_rowDen_swap (es : List (Edge K)) (i : Nat) :
    colDen es i = rowDen (es.map swapE) i := by
  unfold colDen rowDen swapE
  rw [List.map_map]
  rfl

theorem rowNum_perm {es es' : List (Edge K)} (h : es.Perm es') (i : Nat) :
    rowNum es i = rowNum es' i := by
  unfold rowNum
  rw [sumL_eq_sum, sumL_eq_sum]
  exact (h.map _).sum_eq

theorem rowDen_perm {es es' : List (Edge K)} (h : es.Perm es') (i : Nat) :
    rowDen es i = rowDen es' i := by
  unfold rowDen
  rw [sumL_eq_sum, sumL_eq_sum]
  exact (h.map _).sum_eq

theorem accNum_perm {es es' : List (Edge K)} (h : es.Perm es') (i : Nat) :
    accNum es i = accNum es' i := by
  unfold accNum
  rw [sumL_eq_sum, sumL_eq_sum]
  exact (h.map _).sum_eq

theorem accDen_perm {es es' : List (Edge K)} (h : es.Perm es') (i : Nat) :
    accDen es i = accDen es' i := by
  unfold accDen
  rw [sumL_eq_sum, sumL_eq_sum]
  exact (h.map _).sum_eq

/-- the radius does not depend on the order in which the graph's entries are listed
    (COO order, CSR order, after `sum_duplicates`, ...). -/
theorem radius_perm (T : Transc K) (eps : K) {es es' : List (Edge K)} (h : es.Perm es') (i : Nat) :
    radius T eps es i = radius T eps es' i := by
  unfold radius
  rw [accNum_perm h, accDen_perm h]

/--
  **radius_symmetric.**  For every symmetric edge list the reported radius of sample `i` is
  `log(ε + Σ_k μ_ik d_ik² / Σ_k μ_ik)` — the logarithm of the membership-weighted mean squared
  distance to the sample's graph neighbours; no side condition on column sums is left.
-/
theorem radius_symmetric (T : Transc K) (eps : K) (es : List (Edge K)) (hs : SymmetricEdges es)
    (i : Nat) : radius T eps es i = T.log (eps + rowNum es i / rowDen es i) := by
  apply radius_double_count
  · rw [colNum_eq_rowNum_swap]; exact rowNum_perm hs i
  · rw [colDen_eq_rowDen_swap]; exact rowDen_perm hs i

/-! ### the argument of the logarithm -/

theorem rowDen_nonneg (es : List (Edge K)) (hmu : ∀ e ∈ es, 0 ≤ e.2.2.1) (i : Nat) :
    0 ≤ rowDen es i := by
  unfold rowDen
  rw [sumL_eq_sum]
  apply List.sum_nonneg
  intro x hx
  obtain ⟨e, he, rfl⟩ := List.mem_map.1 hx
  split_ifs
  · exact hmu e he
  · exact le_refl _

/-- weighted sums are bracketed: if every squared distance of row `i` lies in `[lo, hi]` then
    `lo * Σ μ ≤ Σ μ d² ≤ hi * Σ μ`. -/
theorem rowNum_bounds (es : List (Edge K)) (hmu : ∀ e ∈ es, 0 ≤ e.2.2.1) (i : Nat) (lo hi : K)
    (hb : ∀ e ∈ es, e.1 = i → lo ≤ e.2.2.2 * e.2.2.2 ∧ e.2.2.2 * e.2.2.2 ≤ hi) :
    lo * rowDen es i ≤ rowNum es i ∧ rowNum es i ≤ hi * rowDen es i := by
  unfold rowNum rowDen
  induction es with
  | nil => simp
  | cons e es ih =>
    have ih' := ih (fun e' he' => hmu e' (List.mem_cons_of_mem _ he'))
      (fun e' he' => hb e' (List.mem_cons_of_mem _ he'))
    simp only [List.map_cons, sumL_cons]
    have hm := hmu e List.mem_cons_self
    by_cases hi' : e.1 = i
    · obtain ⟨h1, h2⟩ := hb e List.mem_cons_self hi'
      simp only [hi', if_true]
      constructor
      · nlinarith [ih'.1, mul_le_mul_of_nonneg_left h1 hm]
      · nlinarith [ih'.2, mul_le_mul_of_nonneg_left h2 hm]
    · simp only [hi', if_false, zero_add]
      exact ih'

/--
  **radius_argument_bracketed.**  For a non-isolated sample of a graph with non-negative
  strengths (`Σ_k μ_ik > 0`) the membership-weighted mean squared distance lies between the
  smallest and the largest squared distance to its neighbours; in particular with `ε > 0` the
  argument of the logarithm is positive, so the radius is a finite real number.
-/
theorem radius_argument_bracketed (es : List (Edge K)) (hmu : ∀ e ∈ es, 0 ≤ e.2.2.1) (i : Nat)
    (hpos : 0 < rowDen es i) (lo hi : K)
    (hb : ∀ e ∈ es, e.1 = i → lo ≤ e.2.2.2 * e.2.2.2 ∧ e.2.2.2 * e.2.2.2 ≤ hi) :
    lo ≤ rowNum es i / rowDen es i ∧ rowNum es i / rowDen es i ≤ hi := by
  obtain ⟨h1, h2⟩ := rowNum_bounds es hmu i lo hi hb
  constructor
  · rw [le_div_iff₀ hpos]; exact h1
  · rw [div_le_iff₀ hpos]; exact h2

theorem rowNum_nonneg (es : List (Edge K)) (hmu : ∀ e ∈ es, 0 ≤ e.2.2.1) (i : Nat) :
    0 ≤ rowNum es i := by
  unfold rowNum
  rw [sumL_eq_sum]
  apply List.sum_nonneg
  intro x hx
  obtain ⟨e, he, rfl⟩ := List.mem_map.1 hx
  split_ifs
  · exact mul_nonneg (hmu e he) (mul_self_nonneg _)
  · exact le_refl _

/-- with `ε > 0` and non-negative strengths the argument of the logarithm is positive (also for
    an isolated sample, where the model's `x / 0 = 0` stands for the code's `0 / 0 = NaN`: the
    property excludes isolated samples, and so does `radius_argument_bracketed`). -/
theorem radius_argument_pos (es : List (Edge K)) (hmu : ∀ e ∈ es, 0 ≤ e.2.2.1) (i : Nat)
    (eps : K) (heps : 0 < eps) :
    0 < eps + rowNum es i / rowDen es i := by
  have := div_nonneg (rowNum_nonneg es hmu i) (rowDen_nonneg es hmu i)
  linarith

/-! ### non-vacuity: a symmetric two-edge list -/

example : SymmetricEdges ([(0, 1, 1/2, 3), (1, 0, 1/2, 3)] : List (Edge ℚ)) := by
  unfold SymmetricEdges swapE
  exact List.Perm.swap _ _ _

example : rowDen ([(0, 1, 1/2, 3), (1, 0, 1/2, 3)] : List (Edge ℚ)) 0 = 1/2
    ∧ rowNum ([(0, 1, 1/2, 3), (1, 0, 1/2, 3)] : List (Edge ℚ)) 0 = 9/2 := by
  constructor <;> simp [rowDen, rowNum, sumL] <;> norm_num

end
end C17
end Umap
